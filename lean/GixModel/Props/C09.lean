import GixModel.Lemmas.C09Build
import GixModel.Lemmas.C09Midx
import GixModel.Lemmas.C09MidxWinner
import GixModel.Lemmas.C09Bytes
import GixModel.Lemmas.C09Total
import GixModel.Lemmas.C09V1
import GixModel.Lemmas.C09MTotal
import GixModel.Lemmas.C09PrefixTotal
import GixModel.Lemmas.C09MRound
/-
C09 — Pack and multi-pack index lookups agree with a linear scan.  PROPERTY THEOREMS ONLY.

Shape: every theorem is for ALL entry sets (any number of entries below 2^31 — the bound under
which the u32 midpoint `(lower + upper) / 2` cannot overflow —, any distinct 20-byte ids, any
offsets, any CRCs), all ids / prefixes queried. `build` is the model of gitoxide's index writer,
`Idx.lookup` / `Idx.lookupPrefix` / `Idx.offsetAt` / `Idx.crcAt` of the reader
(`index::File::{lookup, lookup_prefix, pack_offset_at_index, crc32_at_index}`), tied to the real
code by the harness. "Panics" are the `none` of the outer `Option`: every statement of the form
`… = some _` includes "no panic, no arithmetic overflow, the loops terminate".
-/
namespace GixModel.Props.C09
open GixModel GixModel.C09

/-- `fanout`: for first bytes in ascending order the table has 256 entries and entry `b` is the
number of ids whose first byte is `≤ b` (and `unreachable!()` is not reached). -/
theorem fan_correct (fbs : List UInt8) (hs : fbs.Pairwise (fun a b => a.toNat ≤ b.toNat)) :
    ∃ fan, fanout fbs = some fan ∧ fan.length = 256 ∧
      ∀ b, b < 256 → fan[b]? = some (fbs.countP (fun x => decide (x.toNat ≤ b))) := by
  refine ⟨_, fanout_spec fbs hs, by simp, ?_⟩
  intro b hb
  rw [List.getElem?_map, List.getElem?_range hb]
  rfl

example : fanout [0, 0, 3, 255] = some ([2, 2, 2] ++ List.replicate 252 3 ++ [4]) := by decide +kernel

/-- The entry sets the theorems speak about: 20-byte ids, pairwise distinct, fewer than 2^31. -/
structure Entries (es : List Entry) : Prop where
  len20 : ∀ e ∈ es, e.id.length = 20
  distinct : (es.map (·.id)).Nodup
  small : es.length < 2147483648

/-- three entries in the fan-out buckets 0x00, 0x7f, 0xff with offsets 2^31 - 1, 2^31 and 2^63 -/
def exEntries : List Entry :=
  [ { id := [0xff,1,2,3,4,5,6,7,8,9,10,11,12,13,14,15,16,17,18,19], offset := 9223372036854775808, crc := 4294967295 },
    { id := [0,1,2,3,4,5,6,7,8,9,10,11,12,13,14,15,16,17,18,19], offset := 2147483647, crc := 0 },
    { id := [0x7f,1,2,3,4,5,6,7,8,9,10,11,12,13,14,15,16,17,18,0x20], offset := 2147483648, crc := 7 } ]

-- non-vacuity: the hypotheses of the theorems below are met by a set that crosses the 31-bit boundary
example : Entries exEntries := ⟨by decide, by decide, by decide⟩
example : ((build exEntries).map (fun x => (x.ofs32, x.ofs64))) =
    some ([2147483647, 2147483648, 2147483649], [2147483648, 9223372036854775808]) := by decide +kernel
example : ((build exEntries).bind (fun x => x.offsetAt 2)) = some 9223372036854775808 := by decide +kernel
example : ((build exEntries).bind (fun x => x.lookup [0x7f,1,2,3,4,5,6,7,8,9,10,11,12,13,14,15,16,17,18,0x20])) =
    some (some 1) := by decide +kernel
example : ((build exEntries).bind (fun x => x.lookup [0x7f,1,2,3,4,5,6,7,8,9,10,11,12,13,14,15,16,17,18,0x21])) =
    some none := by decide +kernel

/-- The writer never panics and what it writes is the sorted entry set: ids and CRCs verbatim,
and `pack_offset_at_index` gives back every offset — **for every offset**, whichever side of the
31-bit boundary it is on (the 64-bit escape table is exercised by proof, not by samples). -/
theorem offset_crc_at (es : List Entry) (he : Entries es) :
    ∃ x, build es = some x ∧ x.numObjects = some es.length ∧
      x.ids = (sortById es).map (·.id) ∧
      ∀ i (h : i < (sortById es).length),
        x.offsetAt i = some (sortById es)[i].offset ∧ x.crcAt i = some (sortById es)[i].crc := by
  obtain ⟨x, hb, hids, hcrcs, _, hn, hofs, _⟩ := build_spec es he.len20 he.distinct he.small
  refine ⟨x, hb, ?_, hids, ?_⟩
  · rw [hn, hids, List.length_map, (sortById_perm es).length_eq]
  · intro i h
    refine ⟨hofs i h, ?_⟩
    simp [Idx.crcAt, hcrcs, List.getElem?_eq_getElem h]

/-- Full-id lookup = linear scan: it returns index `i` exactly when the `i`-th sorted entry has
that id, and `None` exactly when no entry has it. -/
theorem lookup_eq_linear (es : List Entry) (he : Entries es) (id : Bytes) (hid : id.length = 20) :
    ∃ x r, build es = some x ∧ x.lookup id = some r ∧
      (∀ i, r = some i ↔ ((sortById es)[i]?).map (·.id) = some id) ∧
      (r = none ↔ ∀ e ∈ es, e.id ≠ id) := by
  obtain ⟨x, hb, hids, _, hok, _, _, _⟩ := build_spec es he.len20 he.distinct he.small
  obtain ⟨r, hr, h1, h2⟩ := lookupWith_spec hok id hid
  refine ⟨x, r, hb, hr, ?_, ?_⟩
  · intro i
    rw [h1 i, hids, List.getElem?_map]
  · rw [h2, hids]
    constructor
    · intro hn e hmem heq
      exact hn (List.mem_map.mpr ⟨e, (sortById_perm es).mem_iff.mpr hmem, heq⟩)
    · intro hn hmem
      obtain ⟨e, hmem', heq⟩ := List.mem_map.mp hmem
      exact hn e ((sortById_perm es).mem_iff.mp hmem') heq

/-- The property as stated: an id that was written is found, with its recorded offset and CRC. -/
theorem lookup_finds_recorded (es : List Entry) (he : Entries es) (e : Entry) (hmem : e ∈ es) :
    ∃ x i, build es = some x ∧ x.lookup e.id = some (some i) ∧
      x.offsetAt i = some e.offset ∧ x.crcAt i = some e.crc := by
  obtain ⟨x, hb, hids, hcrcs, hok, _, hofs, _⟩ := build_spec es he.len20 he.distinct he.small
  obtain ⟨r, hr, h1, h2⟩ := lookupWith_spec hok e.id (he.len20 e hmem)
  have hperm := sortById_perm es
  -- the position of `e` in the sorted list
  obtain ⟨i, hi, hget⟩ := List.getElem_of_mem (hperm.mem_iff.mpr hmem)
  have hri : r = some i := (h1 i).mpr (by rw [hids, List.getElem?_map, List.getElem?_eq_getElem hi, hget]; rfl)
  refine ⟨x, i, hb, by rw [← hri]; exact hr, ?_, ?_⟩
  · rw [hofs i hi, hget]
  · simp [Idx.crcAt, hcrcs, List.getElem?_eq_getElem hi, hget]

/-- Prefix lookup = linear scan: the entries whose id starts with the first `h` hex digits of
`id` are exactly the entry indices `a..b` (a contiguous range); the result is `None`, `Ok(a)` or
`Err(())` as that range has 0, 1 or more elements — with and without the `candidates` argument —
and `candidates` is left as `a..b` (`0..0` when nothing matches). -/
theorem lookup_prefix_eq_linear (es : List Entry) (he : Entries es) (id : Bytes) (hid : id.length = 20)
    (h : Nat) (h4 : 4 ≤ h) (h40 : h ≤ 40) :
    ∃ x p a b, build es = some x ∧ Prefix.new id h = some p ∧ a ≤ b ∧ b ≤ es.length ∧
      (∀ i (hi : i < (sortById es).length), PrefixMatches id h (sortById es)[i].id ↔ a ≤ i ∧ i < b) ∧
      x.lookupPrefix p true = some (classify a b, some (candRange a b)) ∧
      x.lookupPrefix p false = some (classify a b, none) := by
  obtain ⟨x, hb, hids, _, hok, hn, _, _⟩ := build_spec es he.len20 he.distinct he.small
  obtain ⟨p, hp, _⟩ := Prefix.new_some (id := id) (h := h) (by omega) h4
  obtain ⟨a, b, hab, hbn, hm, hw, hwo⟩ := lookupPrefixWith_spec hok hp hid
  have hlen : x.ids.length = es.length := by rw [hids, List.length_map, (sortById_perm es).length_eq]
  refine ⟨x, p, a, b, hb, hp, hab, by omega, ?_, ?_, ?_⟩
  · intro i hi
    have hi' : i < x.ids.length := by rw [hids, List.length_map]; exact hi
    have := hm i hi'
    simp only [hids, List.getElem_map] at this
    exact this
  · simp only [Idx.lookupPrefix, hn, Option.bind_eq_bind, Option.bind_some]; exact hw
  · simp only [Idx.lookupPrefix, hn, Option.bind_eq_bind, Option.bind_some]; exact hwo

-- non-vacuity: a 39-digit prefix shared by two ids is ambiguous, candidates 0..2; 40 digits are unique
def exClose : List Entry :=
  [ { id := [5,1,2,3,4,5,6,7,8,9,10,11,12,13,14,15,16,17,18,0x11], offset := 12, crc := 1 },
    { id := [5,1,2,3,4,5,6,7,8,9,10,11,12,13,14,15,16,17,18,0x12], offset := 99, crc := 2 },
    { id := [6,1,2,3,4,5,6,7,8,9,10,11,12,13,14,15,16,17,18,0x12], offset := 50, crc := 3 } ]
example : Entries exClose := ⟨by decide, by decide, by decide⟩
example : (do let x ← build exClose
              let p ← Prefix.new [5,1,2,3,4,5,6,7,8,9,10,11,12,13,14,15,16,17,18,0x12] 39
              x.lookupPrefix p true) = some (.ambiguous, some (0, 2)) := by decide +kernel
example : (do let x ← build exClose
              let p ← Prefix.new [5,1,2,3,4,5,6,7,8,9,10,11,12,13,14,15,16,17,18,0x12] 40
              x.lookupPrefix p true) = some (.unique 1, some (1, 2)) := by decide +kernel
example : (do let x ← build exClose
              let p ← Prefix.new [5,1,2,3,4,5,6,7,8,9,10,11,12,13,14,15,16,17,18,0x13] 40
              x.lookupPrefix p false) = some (.none, none) := by decide +kernel

/-- The readers on any well-formed table (also one git wrote): strictly ascending 20-byte ids,
fan-out = cumulative counts of first bytes, fewer than 2^31 entries. -/
def Idx.Wf (x : Idx) : Prop := TableOk x.fan x.oidAt x.ids

theorem wf_lookup_eq_linear (x : Idx) (hx : Idx.Wf x) (id : Bytes) (hid : id.length = 20) :
    ∃ r, x.lookup id = some r ∧ (∀ i, r = some i ↔ x.ids[i]? = some id) ∧ (r = none ↔ id ∉ x.ids) :=
  lookupWith_spec hx id hid

theorem wf_lookup_prefix_eq_linear (x : Idx) (hx : Idx.Wf x) (hn : x.numObjects = some x.ids.length)
    (id : Bytes) (hid : id.length = 20) (h : Nat) (p : Prefix) (hp : Prefix.new id h = some p) :
    ∃ a b, a ≤ b ∧ b ≤ x.ids.length ∧
      (∀ i (hi : i < x.ids.length), PrefixMatches id h x.ids[i] ↔ a ≤ i ∧ i < b) ∧
      x.lookupPrefix p true = some (classify a b, some (candRange a b)) ∧
      x.lookupPrefix p false = some (classify a b, none) := by
  obtain ⟨a, b, hab, hbn, hm, hw, hwo⟩ := lookupPrefixWith_spec hx hp hid
  refine ⟨a, b, hab, hbn, hm, ?_, ?_⟩
  · simp only [Idx.lookupPrefix, hn, Option.bind_eq_bind, Option.bind_some]; exact hw
  · simp only [Idx.lookupPrefix, hn, Option.bind_eq_bind, Option.bind_some]; exact hwo

/-- the written index is well-formed, so the two theorems above apply to it -/
theorem build_wf (es : List Entry) (he : Entries es) :
    ∃ x, build es = some x ∧ Idx.Wf x ∧ x.numObjects = some x.ids.length := by
  obtain ⟨x, hb, _, _, hok, hn, _, _⟩ := build_spec es he.len20 he.distinct he.small
  exact ⟨x, hb, hok, hn⟩

/-! ### byte layer (V2 file) -/

/-- what fits the on-disk integers -/
structure Representable (es : List Entry) : Prop where
  ofs64 : ∀ e ∈ es, e.offset < 18446744073709551616
  crc32 : ∀ e ∈ es, e.crc < 4294967296

example : Representable exEntries := ⟨by decide, by decide⟩
example : ((build exEntries).map (fun x => (encodeFile x (List.replicate 20 1) (List.replicate 20 2)).length)) =
    some (8 + 1024 + 3 * 28 + 2 * 8 + 40) := by decide +kernel

/-- Byte-level round trip: the bytes `write_to` writes for the entry set (any two 20-byte
trailing checksums) open with `File::at` as a V2 index of `es.length` objects whose accessors —
reading big-endian integers at computed positions in the byte string — give back the sorted ids,
every offset below 2^64 (through the 64-bit table where needed) and every CRC; the table it
presents to the lookup functions is well-formed. -/
theorem bytes_roundtrip (es : List Entry) (he : Entries es) (hr : Representable es)
    (ph ih : Bytes) (hph : ph.length = 20) (hih : ih.length = 20) :
    ∃ x f, build es = some x ∧ File.at (encodeFile x ph ih) = some (.ok f) ∧ f.v2 = true ∧
      f.numObjects = es.length ∧ TableOk f.fan f.oidAt ((sortById es).map (·.id)) ∧
      ∀ i (h : i < (sortById es).length),
        f.oidAt i = some (sortById es)[i].id ∧ f.offsetAt i = some (sortById es)[i].offset ∧
        f.crcAt i = some (some (sortById es)[i].crc) := by
  obtain ⟨x, hb, hids, hcrcs, hok, hn, hofs, ho32len, ho32b, ho64, hfanlen, hfanb, hfmono, ho64len⟩ :=
    build_spec es he.len20 he.distinct he.small
  have hlen : (sortById es).length = es.length := (sortById_perm es).length_eq
  have hidslen : x.ids.length = es.length := by rw [hids, List.length_map, hlen]
  have henc : Encodable x := {
    fanLen := hfanlen
    fanU32 := by intro v hv; have := hfanb v hv; have := he.small; omega
    fanLast := hn
    ids20 := hok.len20
    crcLen := by rw [hcrcs, List.length_map, hlen, hidslen]
    crcU32 := by
      intro v hv
      rw [hcrcs] at hv
      obtain ⟨e, hmem, rfl⟩ := List.mem_map.mp hv
      exact hr.crc32 e ((sortById_perm es).mem_iff.mp hmem)
    ofsLen := by rw [ho32len, hidslen]
    ofsU32 := ho32b
    ofs64U64 := by
      intro v hv
      obtain ⟨e, hmem, rfl⟩ := ho64 v hv
      exact hr.ofs64 e hmem
    fanMono := hfmono
    ofs64Len := by rw [hidslen]; exact ho64len }
  refine ⟨x, fileOf x ph ih, hb, File.at_encode x henc ph ih hph hih, rfl, hidslen, ?_, ?_⟩
  · have hget : ∀ i (h : i < x.ids.length), (fileOf x ph ih).oidAt i = some x.ids[i] :=
      fun i h => fileOf_oidAt x henc ph ih i h
    rw [← hids]
    exact { sorted := hok.sorted, len20 := hok.len20, fanOk := hok.fanOk, small := hok.small, get := hget }
  · intro i h
    have hi : i < x.ids.length := by rw [hidslen, ← hlen]; exact h
    refine ⟨?_, fileOf_offsetAt x henc ph ih i _ (hofs i h), ?_⟩
    · rw [fileOf_oidAt x henc ph ih i hi]; simp [hids]
    · rw [fileOf_crcAt x henc ph ih i hi]; simp [hcrcs]

/-- hence the lookups on the bytes agree with the linear scan as well -/
theorem file_lookup_eq_linear (es : List Entry) (he : Entries es) (hr : Representable es)
    (ph ih : Bytes) (hph : ph.length = 20) (hih : ih.length = 20) (id : Bytes) (hid : id.length = 20) :
    ∃ x f r, build es = some x ∧ File.at (encodeFile x ph ih) = some (.ok f) ∧ f.lookup id = some r ∧
      (∀ i, r = some i ↔ ((sortById es)[i]?).map (·.id) = some id) ∧ (r = none ↔ ∀ e ∈ es, e.id ≠ id) := by
  obtain ⟨x, f, hb, hf, _, _, hok, _⟩ := bytes_roundtrip es he hr ph ih hph hih
  obtain ⟨r, hr', h1, h2⟩ := lookupWith_spec hok id hid
  refine ⟨x, f, r, hb, hf, hr', ?_, ?_⟩
  · intro i; rw [h1 i, List.getElem?_map]
  · rw [h2]
    constructor
    · intro hn e hmem heq
      exact hn (List.mem_map.mpr ⟨e, (sortById_perm es).mem_iff.mpr hmem, heq⟩)
    · intro hn hmem
      obtain ⟨e, hmem', heq⟩ := List.mem_map.mp hmem
      exact hn e ((sortById_perm es).mem_iff.mp hmem') heq

theorem file_lookup_prefix_eq_linear (es : List Entry) (he : Entries es) (hr : Representable es)
    (ph ih : Bytes) (hph : ph.length = 20) (hih : ih.length = 20) (id : Bytes) (hid : id.length = 20)
    (h : Nat) (h4 : 4 ≤ h) (h40 : h ≤ 40) :
    ∃ x f p a b, build es = some x ∧ File.at (encodeFile x ph ih) = some (.ok f) ∧ Prefix.new id h = some p ∧
      a ≤ b ∧ b ≤ es.length ∧
      (∀ i (hi : i < (sortById es).length), PrefixMatches id h (sortById es)[i].id ↔ a ≤ i ∧ i < b) ∧
      f.lookupPrefix p true = some (classify a b, some (candRange a b)) ∧
      f.lookupPrefix p false = some (classify a b, none) := by
  obtain ⟨x, f, hb, hf, _, hn, hok, _⟩ := bytes_roundtrip es he hr ph ih hph hih
  obtain ⟨p, hp, _⟩ := Prefix.new_some (id := id) (h := h) (by omega) h4
  obtain ⟨a, b, hab, hbn, hm, hw, hwo⟩ := lookupPrefixWith_spec hok hp hid
  have hlen : (sortById es).length = es.length := (sortById_perm es).length_eq
  have hl : ((sortById es).map (·.id)).length = es.length := by rw [List.length_map, hlen]
  refine ⟨x, f, p, a, b, hb, hf, hp, hab, by omega, ?_, ?_, ?_⟩
  · intro i hi
    have := hm i (by rw [hl, ← hlen]; exact hi)
    simpa using this
  · rw [File.lookupPrefix, hn, ← hl]; exact hw
  · rw [File.lookupPrefix, hn, ← hl]; exact hwo

/-! ### any byte string: `index::File::at` and the accessors (V1 and V2) -/

/-- `index::File::at` never panics, whatever the bytes. -/
theorem index_file_at_total (data : Bytes) : ∃ r, File.at data = some r := by
  obtain ⟨r, hr, _⟩ := File.at_total data
  exact ⟨r, hr⟩

/-- Exactly what is accepted (repo commit fc8bff3e9): at least an empty index; V2 signature ⇒
version 2, otherwise read as V1; the fan-out table monotonic; and the file size fitting the object
count `fan[255]` — V1: exactly `1024 + n*24 + 40`, V2: `1032 + n*28 + 40` plus at most `n` 64-bit
offsets. Nothing else is checked: unsorted ids, wrong checksums and 64-bit escape indices pointing
anywhere are accepted. -/
theorem index_file_at_accepts (data : Bytes) (f : File) (h : File.at data = some (.ok f)) :
    f.data = data ∧ f.hashLen = 20 ∧ f.fan.length = 256 ∧ fanMonotone f.fan = true ∧
      f.fan[255]? = some f.numObjects ∧
      (f.v2 = true → 1032 + f.numObjects * 28 + 40 ≤ data.length ∧ data.length ≤ 1032 + f.numObjects * 28 + 40 + f.numObjects * 8) ∧
      (f.v2 = false → data.length = 1024 + f.numObjects * 24 + 40) := by
  obtain ⟨r, hr, h2⟩ := File.at_total data
  rw [h] at hr; injection hr with hr
  obtain ⟨hd, ha⟩ := h2 f hr.symm
  refine ⟨hd, ha.hash20, ha.fanLen, ha.mono, ha.count, ?_, ?_⟩
  · intro hv; rw [← hd]; exact ha.sizeV2 hv
  · intro hv; rw [← hd]; exact ha.sizeV1 hv

/-- On ANY accepted index file (V1 or V2, ids sorted or not): `oid_at_index` and `crc32_at_index`
are panic-free for every entry index, and `lookup` is panic-free for every id (fewer than 2^31
objects) and only reports entry indices below `num_objects`. -/
theorem accepted_index_accessors_total (data : Bytes) (f : File) (h : File.at data = some (.ok f)) :
    (∀ i, i < f.numObjects → (∃ id, f.oidAt i = some id ∧ id.length = 20) ∧ ∃ c, f.crcAt i = some c) ∧
    (f.numObjects < 2147483648 → ∀ id : Bytes, id ≠ [] →
      ∃ r, f.lookup id = some r ∧ ∀ i, r = some i → i < f.numObjects) := by
  obtain ⟨r, hr, h2⟩ := File.at_total data
  rw [h] at hr; injection hr with hr
  obtain ⟨_, ha⟩ := h2 f hr.symm
  exact ⟨fun i hi => ⟨File.oidAt_total ha hi, File.crcAt_total ha hi⟩, fun hs id hid => File.lookup_total ha hs id hid⟩

/-- `pack_offset_at_index` on an accepted file, exactly: V1 entries and V2 entries without the high
bit always succeed; a V2 entry with the high bit succeeds if and only if the 64-bit slot it names
lies inside the file — the one inconsistency `File::at` cannot rule out without reading every entry
(the accessor returns a plain `u64`, there is no error channel: it panics). -/
theorem accepted_index_offset_at (data : Bytes) (f : File) (h : File.at data = some (.ok f))
    (i : Nat) (hi : i < f.numObjects) :
    (f.v2 = false → ∃ v, f.offsetAt i = some v) ∧
    (f.v2 = true → ∃ v, (slice f.data (f.offsetOfs32 + i * 4) 4).bind readU32 = some v ∧
      (¬ (v &&& HIGH_BIT = HIGH_BIT) → f.offsetAt i = some v) ∧
      ((v &&& HIGH_BIT = HIGH_BIT) →
        ((∃ o, f.offsetAt i = some o) ↔ f.offsetOfs64 + (v ^^^ HIGH_BIT) * 8 + 8 ≤ f.data.length))) := by
  obtain ⟨r, hr, h2⟩ := File.at_total data
  rw [h] at hr; injection hr with hr
  obtain ⟨_, ha⟩ := h2 f hr.symm
  exact File.offsetAt_spec ha hi

/-- witnesses: a V2 index of one object (fan-out all 1) whose offset entry is `0x80000005` -/
def exEscape : Bytes :=
  V2_SIGNATURE ++ be32 2 ++ (List.replicate 256 1).flatMap be32 ++ List.replicate 20 0 ++ be32 7
    ++ be32 0x80000005 ++ List.replicate 40 0

-- it is accepted, its id is found, but reading the offset runs past the end of the file (panic)
example : (File.at exEscape).map (fun r => match r with | .ok f => f.numObjects | .error _ => 99) = some 1 := by
  decide +kernel
example : (match File.at exEscape with
    | some (.ok f) => (f.lookup (List.replicate 20 0), f.offsetAt 0)
    | _ => (none, some 0)) = (some (some 0), none) := by decide +kernel
-- the inconsistencies that used to be accepted are rejected: a fan-out that is not monotonic …
example : (File.at (V2_SIGNATURE ++ be32 2 ++ ([5] ++ List.replicate 255 0).flatMap be32 ++ List.replicate 40 0)).map
    (fun r => match r with | .ok _ => none | .error e => some e) = some (some .corrupt) := by decide +kernel
-- … and a file too short for the two objects its fan-out announces
example : (File.at (V2_SIGNATURE ++ be32 2 ++ (List.replicate 256 2).flatMap be32 ++ List.replicate 40 0)).map
    (fun r => match r with | .ok _ => none | .error e => some e) = some (some .corrupt) := by decide +kernel

/-! ### version-1 index files (written by git only) -/

/-- V1 byte-level round trip: the file `fan-out ++ (offset32 ++ id)* ++ checksums` opens as a V1
index of `recs.length` objects and the V1 branches of the accessors give back every id and offset
(there are no CRCs in V1). -/
theorem v1_roundtrip (fan : List Nat) (recs : List (Nat × Bytes)) (ph ih : Bytes) (h : V1Ok fan recs)
    (hph : ph.length = 20) (hih : ih.length = 20) :
    ∃ f, File.at (encodeV1 fan recs ph ih) = some (.ok f) ∧ f.v2 = false ∧ f.fan = fan ∧
      f.numObjects = recs.length ∧
      ∀ i (hi : i < recs.length), f.oidAt i = some recs[i].2 ∧ f.offsetAt i = some recs[i].1 ∧
        f.crcAt i = some none :=
  ⟨_, File.at_encodeV1 fan recs ph ih h hph hih, rfl, rfl, rfl,
    fun i hi => ⟨v1_oidAt fan recs ph ih h i hi, v1_offsetAt fan recs ph ih h i hi, rfl⟩⟩

-- non-vacuity: two objects, one with the largest offset V1 can hold
def exV1Recs : List (Nat × Bytes) :=
  [(12, [3,1,2,3,4,5,6,7,8,9,10,11,12,13,14,15,16,17,18,19]), (4294967295, [0xfe,1,2,3,4,5,6,7,8,9,10,11,12,13,14,15,16,17,18,19])]
def exV1Fan : List Nat := (List.range 256).map (fun b => countLe b ((exV1Recs.map (·.2)).map hd))
example : V1Ok exV1Fan exV1Recs :=
  ⟨by decide +kernel, by decide +kernel, by decide +kernel, by decide +kernel, by decide +kernel, by decide +kernel⟩
example : (encodeV1 exV1Fan exV1Recs (List.replicate 20 1) (List.replicate 20 2)).length = 1024 + 2 * 24 + 40 := by
  decide +kernel

/-- …and on a V1 file whose ids ascend and whose fan-out holds the cumulative counts, both lookups
agree with the linear scan, exactly as for V2. -/
theorem v1_lookup_eq_linear (fan : List Nat) (recs : List (Nat × Bytes)) (ph ih : Bytes) (h : V1Ok fan recs)
    (hph : ph.length = 20) (hih : ih.length = 20)
    (hsorted : SortedIds (recs.map (·.2)))
    (hfan : fan = (List.range 256).map (fun b => countLe b ((recs.map (·.2)).map hd)))
    (hsmall : recs.length < 2147483648) (id : Bytes) (hid : id.length = 20) :
    ∃ f, File.at (encodeV1 fan recs ph ih) = some (.ok f) ∧
      (∃ r, f.lookup id = some r ∧ (∀ i, r = some i ↔ (recs[i]?).map (·.2) = some id) ∧
        (r = none ↔ ∀ rc ∈ recs, rc.2 ≠ id)) ∧
      (∀ hl p, Prefix.new id hl = some p → ∃ a b, a ≤ b ∧ b ≤ recs.length ∧
        (∀ i (hi : i < recs.length), PrefixMatches id hl recs[i].2 ↔ a ≤ i ∧ i < b) ∧
        f.lookupPrefix p true = some (classify a b, some (candRange a b)) ∧
        f.lookupPrefix p false = some (classify a b, none)) := by
  obtain ⟨f, hf, hv, hff, hn, hacc⟩ := v1_roundtrip fan recs ph ih h hph hih
  have hok : TableOk f.fan f.oidAt (recs.map (·.2)) :=
    { sorted := hsorted
      len20 := by intro x hx; obtain ⟨r, hr, rfl⟩ := List.mem_map.mp hx; exact h.ids20 r hr
      fanOk := by rw [hff]; exact hfan
      small := by simpa using hsmall
      get := by intro i hi; have := (hacc i (by simpa using hi)).1; simpa using this }
  refine ⟨f, hf, ?_, ?_⟩
  · obtain ⟨r, hr, h1, h2⟩ := lookupWith_spec hok id hid
    refine ⟨r, hr, ?_, ?_⟩
    · intro i; rw [h1 i, List.getElem?_map]
    · rw [h2]
      constructor
      · intro hn' rc hrc heq; exact hn' (List.mem_map.mpr ⟨rc, hrc, heq⟩)
      · intro hn' hm; obtain ⟨rc, hrc, heq⟩ := List.mem_map.mp hm; exact hn' rc hrc heq
  · intro hl p hp
    obtain ⟨a, b, hab, hbn, hm, hw, hwo⟩ := lookupPrefixWith_spec hok hp hid
    have hlen : (recs.map (·.2)).length = recs.length := by simp
    refine ⟨a, b, hab, by omega, ?_, ?_, ?_⟩
    · intro i hi
      have := hm i (by rw [hlen]; exact hi)
      simpa using this
    · rw [File.lookupPrefix, hn, ← hlen]; exact hw
    · rw [File.lookupPrefix, hn, ← hlen]; exact hwo

/-! ### multi-pack index -/

/-- The pack sets the multi-pack index theorems speak about: 20-byte ids, fewer than 2^31 entries
in total. (Ids may repeat across packs — and even within one.) -/
structure Packs (packs : List PackIn) : Prop where
  len20 : ∀ p ∈ packs, ∀ e ∈ p.entries, e.1.length = 20
  small : (packs.map (·.entries.length)).sum < 2147483648

-- non-vacuity: two packs sharing an id; the newer index (mtime 9) wins; one offset needs the LOFF chunk
def exPacks : List PackIn :=
  [ { mtime := 5, entries := [([5,1,2,3,4,5,6,7,8,9,10,11,12,13,14,15,16,17,18,0x11], 12),
                              ([9,1,2,3,4,5,6,7,8,9,10,11,12,13,14,15,16,17,18,0x11], 4294967296)] },
    { mtime := 9, entries := [([5,1,2,3,4,5,6,7,8,9,10,11,12,13,14,15,16,17,18,0x11], 77)] } ]
example : Packs exPacks := ⟨by decide, by decide⟩
example : (do let x ← midxBuild exPacks
              let i ← (← x.lookup [5,1,2,3,4,5,6,7,8,9,10,11,12,13,14,15,16,17,18,0x11])
              x.packAndOffsetAt i) = some (1, 77) := by decide +kernel
example : (do let x ← midxBuild exPacks
              let i ← (← x.lookup [9,1,2,3,4,5,6,7,8,9,10,11,12,13,14,15,16,17,18,0x11])
              x.packAndOffsetAt i) = some (0, 4294967296) := by decide +kernel

theorem Packs.collect_small {packs : List PackIn} (h : Packs packs) : (collect 0 packs).length < 2147483648 := by
  rw [collect_length]; exact h.small

/-- Full-id lookup in the multi-pack index gitoxide writes = linear scan over all packs: found
exactly when some pack has the id; the pack id and offset reported are those of an entry with
that id in that pack (for any offsets, with or without the large-offset chunk). -/
theorem midx_lookup_eq_linear (packs : List PackIn) (hp : Packs packs) (id : Bytes) (hid : id.length = 20) :
    ∃ x r, midxBuild packs = some x ∧ x.lookup id = some r ∧
      (∀ i, r = some i ↔ x.ids[i]? = some id) ∧
      (r = none ↔ ¬ ∃ p ∈ packs, ∃ e ∈ p.entries, e.1 = id) ∧
      (∀ i, r = some i → ∃ k off p, x.packAndOffsetAt i = some (k, off) ∧ packs[k]? = some p ∧ (id, off) ∈ p.entries) := by
  obtain ⟨x, hb, hids, hok, _, hat⟩ := midxBuild_spec packs hp.len20 hp.collect_small
  obtain ⟨r, hr, h1, h2⟩ := lookupWith_spec hok id hid
  refine ⟨x, r, hb, hr, h1, ?_, ?_⟩
  · rw [h2, hids, mem_midx_ids]
  · intro i hri
    have hget := (h1 i).mp hri
    have hi : i < (midxEntries packs).length := by
      rcases Nat.lt_or_ge i (midxEntries packs).length with h | h
      · exact h
      · rw [hids, List.getElem?_eq_none (by simpa using h)] at hget; cases hget
    rw [hids, List.getElem?_map, List.getElem?_eq_getElem hi] at hget
    simp only [Option.map_some, Option.some.injEq] at hget
    obtain ⟨p, hp1, hp2⟩ := midx_entry_origin packs _ (List.getElem_mem hi)
    rw [hget] at hp2
    exact ⟨_, _, p, hat i hi, hp1, hp2⟩

/-- an id some pack holds is found -/
theorem midx_finds_recorded (packs : List PackIn) (hp : Packs packs) (p : PackIn) (hmem : p ∈ packs)
    (e : Bytes × Nat) (he : e ∈ p.entries) :
    ∃ x i k off q, midxBuild packs = some x ∧ x.lookup e.1 = some (some i) ∧
      x.packAndOffsetAt i = some (k, off) ∧ packs[k]? = some q ∧ (e.1, off) ∈ q.entries := by
  obtain ⟨x, r, hb, hr, h1, h2, h3⟩ := midx_lookup_eq_linear packs hp e.1 (hp.len20 p hmem e he)
  cases r with
  | none => exact absurd ⟨p, hmem, e, he, rfl⟩ (h2.mp rfl)
  | some i =>
    obtain ⟨k, off, q, ha, hb', hc⟩ := h3 i rfl
    exact ⟨x, i, k, off, q, hb, hr, ha, hb', hc⟩

/-- Prefix lookup in the multi-pack index = linear scan (same shape as for a pack index). -/
theorem midx_lookup_prefix_eq_linear (packs : List PackIn) (hp : Packs packs) (id : Bytes)
    (hid : id.length = 20) (h : Nat) (h4 : 4 ≤ h) (h40 : h ≤ 40) :
    ∃ x p a b, midxBuild packs = some x ∧ Prefix.new id h = some p ∧ a ≤ b ∧ b ≤ x.ids.length ∧
      (∀ i (hi : i < x.ids.length), PrefixMatches id h x.ids[i] ↔ a ≤ i ∧ i < b) ∧
      x.lookupPrefix p true = some (classify a b, some (candRange a b)) ∧
      x.lookupPrefix p false = some (classify a b, none) := by
  obtain ⟨x, hb, _, hok, hn, _⟩ := midxBuild_spec packs hp.len20 hp.collect_small
  obtain ⟨p, hpn, _⟩ := Prefix.new_some (id := id) (h := h) (by omega) h4
  obtain ⟨a, b, hab, hbn, hm, hw, hwo⟩ := lookupPrefixWith_spec hok hpn hid
  refine ⟨x, p, a, b, hb, hpn, hab, hbn, hm, ?_, ?_⟩
  · simp only [Midx.lookupPrefix, hn, Option.bind_eq_bind, Option.bind_some]; exact hw
  · simp only [Midx.lookupPrefix, hn, Option.bind_eq_bind, Option.bind_some]; exact hwo

/-- Which copy of an id that several packs hold the multi-pack index records: the one from the
index file with the newest mtime, ties broken by the lowest pack index (the order of
`entries.sort_by(…)` followed by `dedup_by_key`). Together with `midx_lookup_eq_linear` this pins
down the reported (pack, offset) completely when ids are distinct within each pack. -/
theorem midx_newest_wins (packs : List PackIn) (e : MEntry) (he : e ∈ midxEntries packs)
    (p : PackIn) (hp : packs[e.pack]? = some p)
    (j : Nat) (q : PackIn) (off : Nat) (hq : packs[j]? = some q) (hin : (e.id, off) ∈ q.entries) :
    q.mtime < p.mtime ∨ (q.mtime = p.mtime ∧ e.pack ≤ j) :=
  midx_winner packs e he p hp j q off hq hin

/-- …and `packAndOffsetAt i` reports exactly the `i`-th of these entries -/
theorem midx_entry_at (packs : List PackIn) (hp : Packs packs) :
    ∃ x, midxBuild packs = some x ∧ x.ids = (midxEntries packs).map (·.id) ∧
      ∀ i (h : i < (midxEntries packs).length),
        x.packAndOffsetAt i = some ((midxEntries packs)[i].pack, (midxEntries packs)[i].offset) := by
  obtain ⟨x, hb, hids, _, _, hat⟩ := midxBuild_spec packs hp.len20 hp.collect_small
  exact ⟨x, hb, hids, hat⟩

/-! ### the multi-pack-index file, byte level: any byte string -/

open GixModel.C09M in
/-- `multi_index::File::at` (header, chunk table of contents, index names, chunk validation) never
panics, whatever the bytes. -/
theorem midx_file_at_total (data : Bytes) : ∃ r, MidxFile.at data = some r := by
  obtain ⟨r, hr, _⟩ := MidxFile.at_total data
  exact ⟨r, hr⟩

open GixModel.C09M in
/-- On ANY accepted multi-pack-index: the fan-out has 256 monotonic entries, the id and offset
tables hold `num_objects` entries inside the file, `oid_at_index` is panic-free for every entry
index and `lookup` for every id (fewer than 2^31 objects), reporting only indices below `num_objects`. -/
theorem accepted_midx_accessors_total (data : Bytes) (f : MidxFile) (h : MidxFile.at data = some (.ok f)) :
    f.fan.length = 256 ∧ f.lookupOfs + f.numObjects * 20 ≤ data.length ∧ f.offsetsOfs + f.numObjects * 8 ≤ data.length ∧
    (∀ i, i < f.numObjects → ∃ id, f.oidAt i = some id ∧ id.length = 20) ∧
    (f.numObjects < 2147483648 → ∀ id : Bytes, id ≠ [] →
      ∃ r, f.lookup id = some r ∧ ∀ i, r = some i → i < f.numObjects) := by
  obtain ⟨r, hr, h2⟩ := MidxFile.at_total data
  rw [h] at hr; injection hr with hr
  obtain ⟨hd, ha⟩ := h2 f hr.symm
  refine ⟨ha.fanLen, by rw [← hd]; exact ha.lookupIn, by rw [← hd]; exact ha.offsetsIn,
    fun i hi => MidxFile.oidAt_total ha hi, fun hs id hid => MidxFile.lookup_total ha hs id hid⟩

open GixModel.C09M in
/-- `pack_id_and_pack_offset_at_index` on an accepted multi-pack-index succeeds unless — exactly —
the 32-bit offset has the high bit, there is a large-offset chunk, and the 64-bit slot the entry
names lies past the end of the file (the accessor has no error channel: it panics). -/
theorem accepted_midx_offset_at (data : Bytes) (f : MidxFile) (h : MidxFile.at data = some (.ok f))
    (i : Nat) (hi : i < f.numObjects) :
    ∃ pk v, (slice f.data (f.offsetsOfs + i * 8) 4).bind readU32 = some pk ∧
      (slice f.data (f.offsetsOfs + i * 8 + 4) 4).bind readU32 = some v ∧
      ((∃ r, f.packAndOffsetAt i = some r) ↔
        ¬ (v &&& HIGH_BIT = HIGH_BIT ∧ ∃ lo, f.largeOfs = some lo ∧ ¬ lo + (v ^^^ HIGH_BIT) * 8 + 8 ≤ f.data.length)) := by
  obtain ⟨r, hr, h2⟩ := MidxFile.at_total data
  rw [h] at hr; injection hr with hr
  obtain ⟨_, ha⟩ := h2 f hr.symm
  exact MidxFile.packAndOffsetAt_spec ha hi

/-! ### byte-level round trip of the multi-pack-index writer -/

open GixModel.C09M in
/-- Byte-level round trip for the multi-pack-index gitoxide writes: the tables `midxBuild` computes
for ANY set of packs (any offsets below 2^64), laid out as `write_from_index_paths` does — header,
table of contents, PNAM with its NUL terminators and padding, OIDF, OIDL, OOFF, LOFF if needed,
trailer — are accepted by `multi_index::File::at`, and the byte-level accessors give back the fan-out,
the index names, every id and, for every entry, the pack and offset (through the LOFF chunk where
needed). Index names: any strictly ascending NUL-free byte strings. -/
theorem midx_bytes_roundtrip (packs : List PackIn) (hp : Packs packs)
    (hofs : ∀ p ∈ packs, ∀ e ∈ p.entries, e.2 < 18446744073709551616) (hnp : packs.length < 4294967296)
    (names : List Bytes) (hnames : NamesOk names) (hnn : names.length < 4294967296)
    (tr : Bytes) (htr : tr.length = 20) :
    ∃ x, midxBuild packs = some x ∧
      ((mWrite names x tr).length < 18446744073709551616 →
        ∃ f, MidxFile.at (mWrite names x tr) = some (.ok f) ∧ f.fan = x.fan ∧ f.names = names ∧
          f.numIndices = names.length ∧ f.numObjects = (midxEntries packs).length ∧
          TableOk f.fan f.oidAt ((midxEntries packs).map (·.id)) ∧
          ∀ i (hi : i < (midxEntries packs).length),
            f.oidAt i = some (midxEntries packs)[i].id ∧
            f.packAndOffsetAt i = some ((midxEntries packs)[i].pack, (midxEntries packs)[i].offset)) := by
  obtain ⟨x, hb, henc⟩ := midxBuild_encodable packs names hp.len20 hp.collect_small hofs hnp hnames hnn
  obtain ⟨x', hb', hids, hok, _, hat⟩ := midxBuild_spec packs hp.len20 hp.collect_small
  rw [hb] at hb'; injection hb' with hb'; subst hb'
  refine ⟨x, hb, ?_⟩
  intro hsz
  obtain ⟨f, hf, hfan, hn, hnm, hni, hoid, hpo⟩ := mWrite_accessors names x tr henc htr hsz
  have hlen : x.ids.length = (midxEntries packs).length := by rw [hids]; simp
  have hget : ∀ i (hi : i < (midxEntries packs).length), f.oidAt i = some (midxEntries packs)[i].id := by
    intro i hi
    rw [hoid i (by rw [hlen]; exact hi)]
    simp [hids]
  refine ⟨f, hf, hfan, hnm, hni, by rw [hn, hlen], ?_, fun i hi => ⟨hget i hi, hpo i _ (hat i hi)⟩⟩
  rw [← hids]
  exact { sorted := hok.sorted, len20 := hok.len20, fanOk := by rw [hfan]; exact hok.fanOk, small := hok.small,
          get := fun i hi => hoid i hi }

-- non-vacuity: the two packs of `exPacks` written with their index file names, opened again from the bytes
open GixModel.C09M in
example : NamesOk [[112, 45, 48, 46, 105, 100, 120], [112, 45, 49, 46, 105, 100, 120]] := ⟨by decide, by decide⟩
open GixModel.C09M in
example : (do let x ← midxBuild exPacks
              let r ← MidxFile.at (mWrite [[112, 45, 48, 46, 105, 100, 120], [112, 45, 49, 46, 105, 100, 120]] x (List.replicate 20 7))
              match r with
              | .ok f => some (f.numObjects, f.numIndices, f.packAndOffsetAt 0, f.packAndOffsetAt 1)
              | .error _ => none) = some (2, 2, some (1, 77), some (0, 4294967296)) := by decide +kernel

/-! ### `lookup_prefix` never panics either — on any accepted file, sorted or not -/

/-- On ANY accepted pack index (V1 or V2, ids in any order, fewer than 2^31 objects) `lookup_prefix`
is panic-free for every prefix `Prefix::new` makes from a 20-byte id, with and without `candidates`. -/
theorem accepted_index_lookup_prefix_total (data : Bytes) (f : File) (h : File.at data = some (.ok f))
    (hsmall : f.numObjects < 2147483648) (id : Bytes) (hid : id.length = 20) (hl : Nat) (p : Prefix)
    (hp : Prefix.new id hl = some p) (withCand : Bool) :
    ∃ r, f.lookupPrefix p withCand = some r := by
  obtain ⟨r, hr, h2⟩ := File.at_total data
  rw [h] at hr; injection hr with hr
  obtain ⟨_, ha⟩ := h2 f hr.symm
  obtain ⟨hpb, hph⟩ := Prefix.new_shape hid hp
  have hn' : f.fan[255]'(by rw [ha.fanLen]; omega) = f.numObjects := by
    have := ha.count
    rw [List.getElem?_eq_getElem (by rw [ha.fanLen]; omega)] at this; injection this
  exact lookupPrefixWith_total ha.fanLen
    (fun b hb => by rw [← hn']; exact fanMonotone_le f.fan ha.mono _ _ (by omega) (by rw [ha.fanLen]; omega))
    (fun i hi => File.oidAt_total ha hi) hsmall hpb hph withCand

open GixModel.C09M in
/-- The same for ANY accepted multi-pack-index. -/
theorem accepted_midx_lookup_prefix_total (data : Bytes) (f : MidxFile) (h : MidxFile.at data = some (.ok f))
    (hsmall : f.numObjects < 2147483648) (id : Bytes) (hid : id.length = 20) (hl : Nat) (p : Prefix)
    (hp : Prefix.new id hl = some p) (withCand : Bool) :
    ∃ r, f.lookupPrefix p withCand = some r := by
  obtain ⟨r, hr, h2⟩ := MidxFile.at_total data
  rw [h] at hr; injection hr with hr
  obtain ⟨_, ha⟩ := h2 f hr.symm
  obtain ⟨hpb, hph⟩ := Prefix.new_shape hid hp
  have hn' : f.fan[255]'(by rw [ha.fanLen]; omega) = f.numObjects := by
    have := ha.count
    rw [List.getElem?_eq_getElem (by rw [ha.fanLen]; omega)] at this; injection this
  exact lookupPrefixWith_total ha.fanLen
    (fun b hb => by rw [← hn']; exact C14.fanMonotone_le f.fan ha.mono _ _ (by omega) (by rw [ha.fanLen]; omega))
    (fun i hi => MidxFile.oidAt_total ha hi) hsmall hpb hph withCand

end GixModel.Props.C09
