import GixModel.Lemmas.C21
/-
C21 — Reflogs read back forwards and backwards identically.  PROPERTY THEOREMS ONLY.

`revAll file buf` is everything `log::iter::reverse(file, buf)` yields (`none` = `reverse()`
itself fails), as raw slices handed to `LineRef::from_bytes` together with the line count used in
decode errors; `forward file` are the slices (and line numbers) `log::iter::forward` hands to the
same parser. All statements quantify over ALL files (arbitrary bytes), ALL window contents and
ALL window sizes.
-/
namespace GixModel.Props.C21
open GixModel GixModel.C21

/-- A zero-sized window is refused up front. -/
theorem zero_buffer_is_error (file : Bytes) : revAll file [] = none := rfl

/-- **Main theorem.** For every file and every non-empty window (any initial content), the reverse
iterator yields, last line first, exactly the lines the forward iterator splits the file into, as
long as they fit the window; the first line longer than the window ends the iteration with one
`buffer too small` error. No other outcome exists (no panic, no read error, no endless loop). -/
theorem reverse_characterised (file buf : Bytes) (hb : buf ≠ []) :
    revAll file buf = some (expected buf.length 0 ((forward file).map (·.1)).reverse) := by
  have : (forward file).map (·.1) = splitLines file := by
    unfold forward
    generalize splitLines file = ls
    generalize 0 = n
    induction ls generalizing n with
    | nil => rfl
    | cons l ls ih => simp [enumFrom, ih]
  rw [this]
  exact revAll_eq file buf hb

/-- **The property, for every file**: a window at least as large as the longest line (NOT one
byte more) makes the reverse iterator yield exactly the forward slices in reverse order. -/
theorem reverse_eq_forward_reversed (file buf : Bytes) (hb : buf ≠ [])
    (hfit : ∀ p ∈ forward file, p.1.length ≤ buf.length) :
    revAll file buf = some (rawFrom 0 ((forward file).map (·.1)).reverse) := by
  rw [reverse_characterised file buf hb, expected_all_fit]
  intro l hl
  obtain ⟨p, hp, rfl⟩ := List.mem_map.1 (List.mem_reverse.1 hl)
  exact hfit p hp

-- non-vacuity: the minimal witness of the former off-by-one (`a\nb\n` with a 1-byte window)
example : revAll [97, 10, 98, 10] [0] = some [.raw [98] 0, .raw [97] 1] := by decide +kernel
example : ∀ p ∈ forward [97, 10, 98, 10], p.1.length ≤ [0].length := by decide +kernel

/-- **The property as stated** (DESIGN `reverse_eq`, slack `c = 0`): a file that is a concatenation
of newline-terminated, newline-free lines, read backwards with any window of at least the length of
its longest line, gives the lines reversed. -/
theorem reverse_eq (ls : List Bytes) (buf : Bytes) (hfree : ∀ l ∈ ls, (10 : UInt8) ∉ l)
    (hb : buf ≠ []) (hfit : ∀ l ∈ ls, l.length ≤ buf.length) :
    revAll (ls.flatMap (· ++ [10])) buf = some (rawFrom 0 ls.reverse) := by
  rw [revAll_eq _ buf hb, splitLines_terminated ls hfree, expected_all_fit]
  intro l hl
  exact hfit l (List.mem_reverse.1 hl)

example : revAll ([[120, 121], [], [122]].flatMap (· ++ [10])) [7, 7]
    = some [.raw [122] 0, .raw [] 1, .raw [120, 121] 2] := by decide +kernel

/-- … and the same when the final line has no newline. -/
theorem reverse_eq_no_final_nl (ls : List Bytes) (last buf : Bytes)
    (hfree : ∀ l ∈ ls, (10 : UInt8) ∉ l) (hlast : (10 : UInt8) ∉ last) (hne : last ≠ [])
    (hb : buf ≠ []) (hfit : ∀ l ∈ ls, l.length ≤ buf.length) (hfitl : last.length ≤ buf.length) :
    revAll (ls.flatMap (· ++ [10]) ++ last) buf = some (rawFrom 0 (last :: ls.reverse)) := by
  rw [revAll_eq _ buf hb, splitLines_unterminated ls last hfree hlast hne, expected_all_fit]
  · simp
  · intro l hl
    simp only [List.reverse_append, List.reverse_cons, List.reverse_nil, List.nil_append,
      List.cons_append, List.mem_cons, List.mem_reverse] at hl
    rcases hl with rfl | hl
    · exact hfitl
    · exact hfit l hl

example : revAll ([[120, 121]].flatMap (· ++ [10]) ++ [122, 122]) [7, 7]
    = some [.raw [122, 122] 0, .raw [120, 121] 1] := by decide +kernel

/-- **Too small is an error, never a wrong line**: if some line is longer than the window, the
iterator yields the (correct) lines after the last such line and then exactly one
`buffer too small` error. -/
theorem too_small_is_error (file buf : Bytes) (hb : buf ≠ [])
    (hbig : ∃ l ∈ splitLines file, buf.length < l.length) :
    revAll file buf = some (rawFrom 0 ((splitLines file).reverse.takeWhile (·.length ≤ buf.length))
      ++ [.ioSmall]) := by
  rw [revAll_eq file buf hb, expected_shape]
  obtain ⟨l, hl, hlt⟩ := hbig
  have : ((splitLines file).reverse.all (·.length ≤ buf.length)) = false := by
    rw [Bool.eq_false_iff]
    intro hall
    have := List.all_eq_true.1 hall l (List.mem_reverse.2 hl)
    simp at this
    omega
  rw [this]
  rfl

example : revAll [97, 10, 98, 98, 10, 99, 10] [0] = some [.raw [99] 0, .ioSmall] := by decide +kernel

/-- Whatever the window size: every slice the iterator hands to the parser is the right line at
the right position (counted from the end), i.e. never a partial or wrong line. -/
theorem never_a_wrong_line (file buf : Bytes) (hb : buf ≠ []) (items : List Item)
    (h : revAll file buf = some items) (i : Nat) (line : Bytes) (c : Nat)
    (hi : items[i]? = some (.raw line c)) :
    (splitLines file).reverse[i]? = some line ∧ c = i := by
  rw [revAll_eq file buf hb] at h
  injection h with h
  subst h
  generalize (splitLines file).reverse = rl at hi
  have key : ∀ (rl : List Bytes) (c0 i : Nat), (expected buf.length c0 rl)[i]? = some (.raw line c) →
      rl[i]? = some line ∧ c = c0 + i := by
    intro rl
    induction rl with
    | nil => intro c0 i h; simp [expected] at h
    | cons l rest ih =>
      intro c0 i h
      unfold expected at h
      by_cases hl : l.length ≤ buf.length
      · rw [if_pos hl] at h
        cases i with
        | zero =>
          simp only [List.getElem?_cons_zero, Option.some.injEq, Item.raw.injEq] at h
          simp [h.1, h.2]
        | succ i =>
          simp only [List.getElem?_cons_succ] at h
          have := ih (c0 + 1) i h
          simp only [List.getElem?_cons_succ]
          exact ⟨this.1, by omega⟩
      · rw [if_neg hl] at h
        cases i with
        | zero => simp at h
        | succ i => simp at h
  have := key rl 0 i hi
  exact ⟨this.1, by omega⟩

/-- Panic freedom / totality of the state machine: no slice index is ever out of range, no read
fails, the internal recursion never needs more than the 4 levels the model grants. -/
theorem reverse_no_panic (file buf : Bytes) (hb : buf ≠ []) (items : List Item)
    (h : revAll file buf = some items) :
    Item.panic ∉ items ∧ Item.fuel ∉ items ∧ Item.ioRead ∉ items := by
  rw [revAll_eq file buf hb] at h
  injection h with h
  subst h
  generalize (splitLines file).reverse = rl
  generalize 0 = c
  induction rl generalizing c with
  | nil => simp [expected]
  | cons l rest ih =>
    unfold expected
    by_cases hl : l.length ≤ buf.length
    · rw [if_pos hl]
      have := ih (c + 1)
      simp only [List.mem_cons, not_or]
      exact ⟨⟨by simp, this.1⟩, ⟨by simp, this.2.1⟩, ⟨by simp, this.2.2⟩⟩
    · rw [if_neg hl]; simp

end GixModel.Props.C21
