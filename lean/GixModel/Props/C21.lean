import GixModel.Lemmas.C21
/-
C21 — Reflogs read back forwards and backwards identically.  PROPERTY THEOREMS ONLY.

`revAll file buf` is everything `log::iter::reverse(file, buf)` yields (`none` = `reverse()`
itself fails), as raw slices handed to `LineRef::from_bytes` together with the line count used in
decode errors; `forward file` are the slices (and line numbers) `log::iter::forward` hands to the
same parser. All statements quantify over ALL files (arbitrary bytes), ALL window contents and
ALL window sizes.
-/
namespace GixModel.Props.C21
open GixModel GixModel.C21

/-- A zero-sized window is refused up front. -/
theorem zero_buffer_is_error (file : Bytes) : revAll file [] = none := rfl

/-- **Main theorem.** For every file and every non-empty window (any initial content), the reverse
iterator yields, last line first, exactly the lines the forward iterator splits the file into, as
long as they fit the window; the first line longer than the window ends the iteration with one
`buffer too small` error. No other outcome exists (no panic, no read error, no endless loop). -/
theorem reverse_characterised (file buf : Bytes) (hb : buf ≠ []) :
    revAll file buf = some (expected buf.length 0 ((forward file).map (·.1)).reverse) := by
  have : (forward file).map (·.1) = splitLines file := by
    unfold forward
    generalize splitLines file = ls
    generalize 0 = n
    induction ls generalizing n with
    | nil => rfl
    | cons l ls ih => simp [enumFrom, ih]
  rw [this]
  exact revAll_eq file buf hb

/-- **The property, for every file**: a window at least as large as the longest line (NOT one
byte more) makes the reverse iterator yield exactly the forward slices in reverse order. -/
theorem reverse_eq_forward_reversed (file buf : Bytes) (hb : buf ≠ [])
    (hfit : ∀ p ∈ forward file, p.1.length ≤ buf.length) :
    revAll file buf = some (rawFrom 0 ((forward file).map (·.1)).reverse) := by
  rw [reverse_characterised file buf hb, expected_all_fit]
  intro l hl
  obtain ⟨p, hp, rfl⟩ := List.mem_map.1 (List.mem_reverse.1 hl)
  exact hfit p hp

-- non-vacuity: the minimal witness of the former off-by-one (`a\nb\n` with a 1-byte window)
example : revAll [97, 10, 98, 10] [0] = some [.raw [98] 0, .raw [97] 1] := by decide +kernel
example : ∀ p ∈ forward [97, 10, 98, 10], p.1.length ≤ [0].length := by decide +kernel

/-- **The property as stated** (DESIGN `reverse_eq`, slack `c = 0`): a file that is a concatenation
of newline-terminated, newline-free lines, read backwards with any window of at least the length of
its longest line, gives the lines reversed. -/
theorem reverse_eq (ls : List Bytes) (buf : Bytes) (hfree : ∀ l ∈ ls, (10 : UInt8) ∉ l)
    (hb : buf ≠ []) (hfit : ∀ l ∈ ls, l.length ≤ buf.length) :
    revAll (ls.flatMap (· ++ [10])) buf = some (rawFrom 0 ls.reverse) := by
  rw [revAll_eq _ buf hb, splitLines_terminated ls hfree, expected_all_fit]
  intro l hl
  exact hfit l (List.mem_reverse.1 hl)

example : revAll ([[120, 121], [], [122]].flatMap (· ++ [10])) [7, 7]
    = some [.raw [122] 0, .raw [] 1, .raw [120, 121] 2] := by decide +kernel

/-- … and the same when the final line has no newline. -/
theorem reverse_eq_no_final_nl (ls : List Bytes) (last buf : Bytes)
    (hfree : ∀ l ∈ ls, (10 : UInt8) ∉ l) (hlast : (10 : UInt8) ∉ last) (hne : last ≠ [])
    (hb : buf ≠ []) (hfit : ∀ l ∈ ls, l.length ≤ buf.length) (hfitl : last.length ≤ buf.length) :
    revAll (ls.flatMap (· ++ [10]) ++ last) buf = some (rawFrom 0 (last :: ls.reverse)) := by
  rw [revAll_eq _ buf hb, splitLines_unterminated ls last hfree hlast hne, expected_all_fit]
  · simp
  · intro l hl
    simp only [List.reverse_append, List.reverse_cons, List.reverse_nil, List.nil_append,
      List.cons_append, List.mem_cons, List.mem_reverse] at hl
    rcases hl with rfl | hl
    · exact hfitl
    · exact hfit l hl

example : revAll ([[120, 121]].flatMap (· ++ [10]) ++ [122, 122]) [7, 7]
    = some [.raw [122, 122] 0, .raw [120, 121] 1] := by decide +kernel

/-- **Too small is an error, never a wrong line**: if some line is longer than the window, the
iterator yields the (correct) lines after the last such line and then exactly one
`buffer too small` error. -/
theorem too_small_is_error (file buf : Bytes) (hb : buf ≠ [])
    (hbig : ∃ l ∈ splitLines file, buf.length < l.length) :
    revAll file buf = some (rawFrom 0 ((splitLines file).reverse.takeWhile (·.length ≤ buf.length))
      ++ [.ioSmall]) := by
  rw [revAll_eq file buf hb, expected_shape]
  obtain ⟨l, hl, hlt⟩ := hbig
  have : ((splitLines file).reverse.all (·.length ≤ buf.length)) = false := by
    rw [Bool.eq_false_iff]
    intro hall
    have := List.all_eq_true.1 hall l (List.mem_reverse.2 hl)
    simp at this
    omega
  rw [this]
  rfl

example : revAll [97, 10, 98, 98, 10, 99, 10] [0] = some [.raw [99] 0, .ioSmall] := by decide +kernel

/-- Whatever the window size: every slice the iterator hands to the parser is the right line at
the right position (counted from the end), i.e. never a partial or wrong line. -/
theorem never_a_wrong_line (file buf : Bytes) (hb : buf ≠ []) (items : List Item)
    (h : revAll file buf = some items) (i : Nat) (line : Bytes) (c : Nat)
    (hi : items[i]? = some (.raw line c)) :
    (splitLines file).reverse[i]? = some line ∧ c = i := by
  rw [revAll_eq file buf hb] at h
  injection h with h
  subst h
  generalize (splitLines file).reverse = rl at hi
  have key : ∀ (rl : List Bytes) (c0 i : Nat), (expected buf.length c0 rl)[i]? = some (.raw line c) →
      rl[i]? = some line ∧ c = c0 + i := by
    intro rl
    induction rl with
    | nil => intro c0 i h; simp [expected] at h
    | cons l rest ih =>
      intro c0 i h
      unfold expected at h
      by_cases hl : l.length ≤ buf.length
      · rw [if_pos hl] at h
        cases i with
        | zero =>
          simp only [List.getElem?_cons_zero, Option.some.injEq, Item.raw.injEq] at h
          simp [h.1, h.2]
        | succ i =>
          simp only [List.getElem?_cons_succ] at h
          have := ih (c0 + 1) i h
          simp only [List.getElem?_cons_succ]
          exact ⟨this.1, by omega⟩
      · rw [if_neg hl] at h
        cases i with
        | zero => simp at h
        | succ i => simp at h
  have := key rl 0 i hi
  exact ⟨this.1, by omega⟩

/-- Panic freedom / totality of the state machine: no slice index is ever out of range, no read
fails, the internal recursion never needs more than the 4 levels the model grants. -/
theorem reverse_no_panic (file buf : Bytes) (hb : buf ≠ []) (items : List Item)
    (h : revAll file buf = some items) :
    Item.panic ∉ items ∧ Item.fuel ∉ items ∧ Item.ioRead ∉ items := by
  rw [revAll_eq file buf hb] at h
  injection h with h
  subst h
  generalize (splitLines file).reverse = rl
  generalize 0 = c
  induction rl generalizing c with
  | nil => simp [expected]
  | cons l rest ih =>
    unfold expected
    by_cases hl : l.length ≤ buf.length
    · rw [if_pos hl]
      have := ih (c + 1)
      simp only [List.mem_cons, not_or]
      exact ⟨⟨by simp, this.1⟩, ⟨by simp, this.2.1⟩, ⟨by simp, this.2.2⟩⟩
    · rw [if_neg hl]; simp

/-! ### entries written by gitoxide parse back to the same entries -/

/-- The domain of the round trip: 20-byte ids and a committer signature in canonical form (the
email has no surrounding whitespace — the signature parser trims it —, the seconds fit i64, the
offset is minute-granular and agrees with the stored sign — only `±HHMM` is written). Everything
else is the writer's own validation (`writeLine e = some _`): no `<`, `>`, newline in name and
email, at most 99 hours of offset, no newline in the message. -/
def RoundTripDomain (e : Entry) : Prop :=
  e.oldId.length = 20 ∧ e.newId.length = 20 ∧ EmailTrimmed e.email ∧ TimeCanonical e.time

/-- `line_roundtrip`: what `Line::write_to` writes is one newline-terminated, newline-free line
that `LineRef::from_bytes` parses back to the same entry — for ANY message bytes without a newline
(including `>`, tabs, carriage returns, invalid UTF-8) and any legal name / email. -/
theorem line_roundtrip (e : Entry) (bytes : Bytes) (hd : RoundTripDomain e)
    (hw : writeLine e = some bytes) :
    ∃ body, bytes = body ++ [10] ∧ (10 : UInt8) ∉ body ∧ parseLine body = some e.toLine := by
  obtain ⟨hold, hnew, htrim, hcanon⟩ := hd
  unfold writeLine at hw
  cases hs : writeSig e.name e.email e.time with
  | none => simp [hs] at hw
  | some sig =>
    obtain ⟨hn, he, tb, htw, hsig⟩ := writeSig_some hs
    simp only [hs] at hw
    cases hm : e.msg.contains 10 with
    | true => rw [hm] at hw; simp only [if_true] at hw; exact absurd hw (by simp)
    | false =>
      rw [hm] at hw
      simp only [Bool.false_eq_true, if_false, Option.some.injEq] at hw
      have hmsg : (10 : UInt8) ∉ e.msg := by
        intro h
        have : e.msg.contains 10 = true := by simp [h]
        rw [hm] at this; exact absurd this (by decide)
      have hH1len : (hexBytes e.oldId).length = 40 := by rw [hexBytes_length, hold]
      have hH2len : (hexBytes e.newId).length = 40 := by rw [hexBytes_length, hnew]
      refine ⟨hexBytes e.oldId ++ 32 :: (hexBytes e.newId ++ 32 ::
          (e.name ++ 32 :: 60 :: (e.email ++ 62 :: 32 :: tb))) ++ 9 :: e.msg, ?_, ?_, ?_⟩
      · rw [← hw, hsig]; simp
      · have := assembled_nlfree (hexBytes_all e.oldId) (hexBytes_all e.newId) hn he htw
        simp only [List.mem_append, List.mem_cons, not_or] at this ⊢
        exact ⟨this, by decide, hmsg⟩
      · exact parseLine_assembled _ _ _ _ tb _ e.msg e.time (hexBytes_all _) hH1len
          (hexBytes_all _) hH2len hn he htrim htw hcanon (Or.inr ⟨rfl, hmsg⟩)

-- non-vacuity: a message with `>`, a tab and a trailing carriage return; negative offset
example : writeLine ⟨List.replicate 20 0, List.replicate 20 171, [65, 32, 85], [97, 64, 98],
    ⟨1700000000, -5400, true⟩, [97, 32, 45, 62, 9, 98, 13]⟩ ≠ none := by decide +kernel
example : RoundTripDomain ⟨List.replicate 20 0, List.replicate 20 171, [65, 32, 85], [97, 64, 98],
    ⟨1700000000, -5400, true⟩, [97, 32, 45, 62, 9, 98, 13]⟩ := by
  refine ⟨by decide, by decide, ⟨?_, ?_⟩, by decide⟩ <;>
    (intro x hx; simp at hx; subst hx; decide)

/-- The same for what the reflog appender (`reflog_create_or_append`) writes. It does not check
the message for newlines (a documented precondition of `LogChange::message`), hence the extra
hypothesis. -/
theorem append_roundtrip (e : Entry) (bytes : Bytes) (hd : RoundTripDomain e)
    (hmsg : (10 : UInt8) ∉ e.msg) (hw : appendLine e = some bytes) :
    ∃ body, bytes = body ++ [10] ∧ (10 : UInt8) ∉ body ∧ parseLine body = some e.toLine := by
  obtain ⟨hold, hnew, htrim, hcanon⟩ := hd
  unfold appendLine at hw
  cases hs : writeSig e.name e.email e.time with
  | none => simp [hs] at hw
  | some sig =>
    obtain ⟨hn, he, tb, htw, hsig⟩ := writeSig_some hs
    simp only [hs, Option.some.injEq] at hw
    have hH1len : (hexBytes e.oldId).length = 40 := by rw [hexBytes_length, hold]
    have hH2len : (hexBytes e.newId).length = 40 := by rw [hexBytes_length, hnew]
    have hfree := assembled_nlfree (hexBytes_all e.oldId) (hexBytes_all e.newId) hn he htw
    by_cases hempty : e.msg = []
    · refine ⟨hexBytes e.oldId ++ 32 :: (hexBytes e.newId ++ 32 ::
          (e.name ++ 32 :: 60 :: (e.email ++ 62 :: 32 :: tb))) ++ [], ?_, ?_, ?_⟩
      · rw [← hw, hsig, hempty]; simp
      · simpa using hfree
      · have := parseLine_assembled _ _ _ _ tb [] [] e.time (hexBytes_all e.oldId) hH1len
          (hexBytes_all e.newId) hH2len hn he htrim htw hcanon (Or.inl ⟨rfl, rfl⟩)
        rw [this]; simp [Entry.toLine, hempty]
    · have hne : e.msg.isEmpty = false := by
        cases hm : e.msg with
        | nil => exact absurd hm hempty
        | cons _ _ => rfl
      refine ⟨hexBytes e.oldId ++ 32 :: (hexBytes e.newId ++ 32 ::
          (e.name ++ 32 :: 60 :: (e.email ++ 62 :: 32 :: tb))) ++ 9 :: e.msg, ?_, ?_, ?_⟩
      · rw [← hw, hsig, hne]; simp
      · simp only [List.mem_append, List.mem_cons, not_or] at hfree ⊢
        exact ⟨hfree, by decide, hmsg⟩
      · exact parseLine_assembled _ _ _ _ tb _ e.msg e.time (hexBytes_all _) hH1len
          (hexBytes_all _) hH2len hn he htrim htw hcanon (Or.inr ⟨rfl, hmsg⟩)

/-- Appending entries one after the other (`Line::write_to` each). -/
def writeLog : List Entry → Option Bytes
  | [] => some []
  | e :: es =>
    match writeLine e, writeLog es with
    | some a, some b => some (a ++ b)
    | _, _ => none

/-- A log written entry by entry is the concatenation of newline-terminated, newline-free lines,
one per entry, each parsing back to its entry. -/
theorem written_log_lines (es : List Entry) (file : Bytes) (hd : ∀ e ∈ es, RoundTripDomain e)
    (hw : writeLog es = some file) :
    ∃ bodies : List Bytes, file = bodies.flatMap (· ++ [10]) ∧ (∀ l ∈ bodies, (10 : UInt8) ∉ l)
      ∧ bodies.map parseLine = es.map (fun e => some e.toLine) := by
  induction es generalizing file with
  | nil =>
    simp only [writeLog, Option.some.injEq] at hw
    exact ⟨[], by simp [← hw], by simp, rfl⟩
  | cons e es ih =>
    unfold writeLog at hw
    cases h1 : writeLine e with
    | none => simp [h1] at hw
    | some a =>
      cases h2 : writeLog es with
      | none => simp [h1, h2] at hw
      | some b =>
        simp only [h1, h2, Option.some.injEq] at hw
        obtain ⟨body, hb1, hb2, hb3⟩ := line_roundtrip e a (hd e (by simp)) h1
        obtain ⟨bodies, hf, hfree, hparse⟩ := ih b (fun x hx => hd x (by simp [hx])) h2
        refine ⟨body :: bodies, ?_, ?_, ?_⟩
        · rw [← hw, hb1, hf]; simp
        · intro l hl
          rcases List.mem_cons.1 hl with rfl | hl
          · exact hb2
          · exact hfree l hl
        · simp only [List.map_cons, hb3, hparse]

/-- **Both sentences of the property together**: a log made of entries written by gitoxide gives,
read forwards, the entries; read backwards with ANY non-empty window at least as large as its
longest line, the entries in reverse order. -/
theorem written_log_reads_back (es : List Entry) (file buf : Bytes)
    (hd : ∀ e ∈ es, RoundTripDomain e) (hw : writeLog es = some file)
    (hb : buf ≠ []) (hfit : ∀ p ∈ forward file, p.1.length ≤ buf.length) :
    (forward file).map (fun p => parseLine p.1) = es.map (fun e => some e.toLine)
    ∧ ∃ items, revAll file buf = some items
        ∧ items.map (fun it => match it with | .raw l _ => parseLine l | _ => none)
            = es.reverse.map (fun e => some e.toLine) := by
  obtain ⟨bodies, hf, hfree, hparse⟩ := written_log_lines es file hd hw
  have hfwd : (forward file).map (·.1) = bodies := by
    unfold forward
    rw [hf, splitLines_terminated bodies hfree]
    generalize 0 = n
    clear hf hparse hfree
    induction bodies generalizing n with
    | nil => rfl
    | cons l ls ih => simp only [enumFrom, List.map_cons]; rw [ih]
  refine ⟨?_, rawFrom 0 bodies.reverse, ?_, ?_⟩
  · rw [← hparse, ← hfwd, List.map_map]; rfl
  · rw [reverse_eq_forward_reversed file buf hb hfit, hfwd]
  · have : ∀ (c : Nat) (rl : List Bytes),
        (rawFrom c rl).map (fun it => match it with | .raw l _ => parseLine l | _ => none)
          = rl.map parseLine := by
      intro c rl
      induction rl generalizing c with
      | nil => rfl
      | cons l rest ih => simp only [rawFrom, List.map_cons, ih]
    rw [this, List.map_reverse, hparse, List.map_reverse]

-- non-vacuity: a two-entry log exists and satisfies the hypotheses
example : (writeLog [⟨List.replicate 20 0, List.replicate 20 171, [65], [97, 64, 98],
    ⟨1700000000, 3600, false⟩, [120, 62]⟩, ⟨List.replicate 20 171, List.replicate 20 1, [], [],
    ⟨-5, 0, true⟩, []⟩]).isSome = true := by decide +kernel

end GixModel.Props.C21
