import GixModel.Lemmas.C50
/-
C50 — Repository discovery agrees with git.  PROPERTY THEOREMS ONLY.

Both walks are functions of the list of LEVELS they look at (start directory, parent, …, root):
per level what is at `dir/.git` (repository / broken `.git` file / nothing), whether `dir` itself is
a git directory, and whether `dir` is named `.git`. Any list of levels = any directory tree, any
start directory. The result is WHICH candidate is selected (level and slot), or nothing.
* `discover_eq_git`: without an effective ceiling both select the same candidate, for every tree.
* `discover_eq_git_below_ceiling_partial`: with the longest proper-ancestor ceiling `k` levels up,
  both select the same candidate PROVIDED the ceiling directory itself holds no repository.
* `C50_full` (the same without that proviso) is FALSE for today's code: `C50_full_false`, witness
  replayed against the real code by the harness (known finding `ceiling-directory-itself-is-searched`:
  gitoxide also searches the ceiling directory, git stops below it; gix-discover's own test
  `git_dir_candidate_within_ceiling_allows_discovery` pins that behaviour, so it is not repaired here).
* `ceiling_height_is_longest_ancestor`: `find_ceiling_height` = distance to git's
  `longest_ancestor_length`; `ceiling_monotone`: a lower ceiling never reveals a different repository.
-/
namespace GixModel.Props.C50
open GixModel GixModel.C50

/-- Starting from any directory of any tree, gitoxide selects the candidate git selects (same
level, same slot — hence same git directory and work tree), or both find nothing. -/
theorem discover_eq_git (levels : List Level) (hg : ∀ l ∈ levels, l.Good) :
    gixWalk levels none 0 = gitWalk levels none 0 :=
  walk_eq_none levels 0 hg

-- non-vacuity: inside a work tree below a junk `.git` directory, next to a bare repository
example : (∀ l ∈ [⟨.none, .none, false⟩, ⟨.none, .repo, false⟩, ⟨.repo, .none, false⟩], Level.Good l) ∧
    gixWalk [⟨.none, .none, false⟩, ⟨.none, .repo, false⟩, ⟨.repo, .none, false⟩] none 0 = .found 1 .self := by
  refine ⟨?_, by decide⟩
  intro l hl
  simp at hl
  rcases hl with rfl | rfl | rfl <;> exact ⟨by decide, by decide⟩

/-- The same limit from ceiling directories — as far as it holds: if the ceiling directory itself
(level `k`) contains no repository, both walks agree (gitoxide's "within ceiling" error counted as
"not found"). -/
theorem discover_eq_git_below_ceiling_partial (levels : List Level) (k : Nat) (hk : 1 ≤ k)
    (hg : ∀ l ∈ levels, l.Good) (hc : ∀ l, levels[k]? = some l → l.Empty) :
    canon (gixWalk levels (some k) 0) = gitWalk levels (some k) 0 :=
  walk_eq_some levels 0 k hk (by omega) hg (by simpa using hc)

example : canon (gixWalk [⟨.none, .none, false⟩, ⟨.none, .none, false⟩, ⟨.repo, .none, false⟩] (some 1) 0)
    = .notFound := by decide

/-- The full statement: the same result for every ceiling. -/
def C50_full : Prop :=
  ∀ (levels : List Level) (k : Nat), 1 ≤ k → (∀ l ∈ levels, l.Good) →
    canon (gixWalk levels (some k) 0) = gitWalk levels (some k) 0

/-- It is false of today's code: start one level below a work tree root that is also the ceiling —
git stops below the ceiling and finds nothing, gitoxide looks into the ceiling directory and finds
the repository there. -/
theorem C50_full_false : ¬ C50_full := by
  intro h
  have := h [⟨.none, .none, false⟩, ⟨.repo, .none, false⟩] 1 (by omega) (by
    intro l hl
    simp at hl
    rcases hl with rfl | rfl <;> exact ⟨by decide, by decide⟩)
  revert this
  decide

/-- `find_ceiling_height` measures the distance to exactly the ceiling git's
`longest_ancestor_length` picks: the longest one that is a proper ancestor of the start directory. -/
theorem ceiling_height_is_longest_ancestor (start : Path) (ceilings : List Path) :
    ceilHeight start ceilings = (longestAncestor start ceilings).map (fun l => start.length - l) :=
  (ceilHeight_eq start ceilings).1

example : ceilHeight [[97], [98], [99]] [[[97]], [[97], [98]], [[120]], [[97], [98], [99]]] = some 1 := by decide

/-- A ceiling further up never changes what a ceiling further down already found (git side). -/
theorem ceiling_monotone (levels : List Level) (k k' i : Nat) (s : Slot) (hkk : k ≤ k')
    (hf : gitWalk levels (some k) 0 = .found i s) : gitWalk levels (some k') 0 = .found i s :=
  gitWalk_mono levels 0 k k' i s hkk hf

end GixModel.Props.C50
