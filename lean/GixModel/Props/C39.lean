import GixModel.Lemmas.C39Total
/-
C39 — Pathspecs select the same paths as git.  PROPERTY THEOREMS ONLY.

`C39.parseSpec` / `normalize` / `fromSpecs` / `select` model `gix_pathspec::parse`, `Pattern::normalize`
(empty prefix), `Search::from_specs` and `Search::pattern_matching_relative_path(..).map_or(false,
|m| !m.is_excluded())`; `Spec.C39.gitSelect` is the transcription of git's pathspec.c / dir.c as
`git ls-files -- <specs>` uses them, validated against the git binary by the harness. The wildcard
matcher `env.wm` and the attribute lookup `env.attr` are parameters: every theorem holds for any
attribute lookup and for any matcher with the two stated properties of `wildmatch`
(`WmPrefix`: the text before the first wildcard must match literally; `WmSlash`: a pattern ending in a
literal `/` only matches values ending in `/`) — both are checked on the real `gix_glob::wildmatch` by
the harness for every verdict it hands to the model.
-/
namespace GixModel.Props.C39
open GixModel GixModel.C38 GixModel.C39 GixModel.Spec.C39 GixModel.Lemmas.C39

/-- **prefix_shortcut_sound**: rejecting every path that does not start with the common prefix of the
positive patterns before looking at any pattern (the shortcut of `pattern_matching_relative_path`)
never changes the verdict — for every search `Search::from_specs` can build (any number of patterns,
excludes, icase, literal, glob, attributes), every non-empty path, directory or not. -/
theorem prefix_shortcut_sound (env : C39.Env) (hwm : WmPrefix env.wm) (specs : List PSpec) (s : Search)
    (hs : fromSpecs specs = some s) (path : Bytes) (hp : path ≠ []) (isDir : Bool) :
    select env s path isDir = selectNoShortcut env s path isDir :=
  shortcut_sound env hwm s (fromSpecs_wellFormed specs s hs) path hp isDir

-- non-vacuity: two positive patterns `a/x*` and `a/y` (common prefix `a/`) and an exclude; `WmPrefix` holds
-- for a matcher that insists on the literal prefix
example :
    let mk (p : Bytes) (ex : Bool) : PSpec := { PSpec.default with path := p, exclude := ex }
    (fromSpecs [mk [97, 47, 120, 42] false, mk [98] true, mk [97, 47, 121] false]).map (fun s => (s.commonPrefixLen, s.commonPrefix))
      = some (2, [97, 47]) := by decide

example : WmPrefix (fun text value _ _ => match firstWildcardPos text with
    | some k => value.take k == text.take k && decide (k ≤ value.length)
    | none => text == value) := by
  intro text value pn k hk h
  simp only [hk, Bool.and_eq_true, beq_iff_eq, decide_eq_true_eq] at h
  exact h

/-- **select_eq_git** (on normalised specs): the first match in exclude-first order — verbatim /
directory-prefix match, wildcard match with verbatim fallback, MUST_BE_DIR, icase, the attribute filter,
"only excludes ⇒ everything" — selects an index path exactly when git's `match_pathspec` over the
corresponding items does (`itemOf`: the item keeps the trailing slash gitoxide records as MUST_BE_DIR). -/
theorem select_eq_git (env : C39.Env) (hsl : WmSlash env.wm) (ns : List PSpec) (hok : ∀ s ∈ ns, SpecOk s)
    (name : Bytes) (hn : NameOk name) :
    selectNoShortcut env (searchOf ns) name false = matchPathspec env (withImplicit (ns.map itemOf)) name :=
  select_items env hsl ns hok name hn

/-- the hypothesis of `select_eq_git` is what `Pattern::normalize` guarantees -/
theorem normalized_spec_ok (s n : PSpec) (h : normalize s = some n) : SpecOk n := normalize_specOk s n h

/-- The pathspec strings on which the two PARSERS are proved to agree: no magic, short magic (not
followed by `(`: a known finding), or long magic made of flag keywords and empty elements — each with a
path part that needs no normalisation. -/
inductive InDomain : Bytes → Prop
  | colon : InDomain [58]
  | plain (e : Bytes) (hne : e ≠ []) (hh : e.head? ≠ some 58) (hc : cleanPath e = true) : InDomain e
  | short (rest : Bytes) (hne : rest ≠ []) (hp : rest.head? ≠ some 40)
      (hdom : ∀ t e r, parseShort rest false false = some (t, e, r) → r.head? ≠ some 40 ∧ cleanPath r = true) :
      InDomain (58 :: rest)
  | long (ws : List Bytes) (hne : ws ≠ []) (hws : ∀ w ∈ ws, w ∈ flagWords) (path : Bytes) (hc : cleanPath path = true) :
      InDomain (58 :: 40 :: (joinComma ws ++ 41 :: path))

/-- **parse_eq_git** (partial: the magic grammar without `attr:` values, see `C39_parse_full`): on
`InDomain`, git's `init_pathspec_item` builds exactly the item of the spec gitoxide parses and
normalises — same magic bits, same match string — or both refuse the pathspec (`:(glob,literal)x`). -/
theorem parse_eq_git_partial (e : Bytes) (h : InDomain e) :
    initItem e = ((parseSpec e).bind normalize).map itemOf := by
  cases h with
  | colon => rfl
  | plain _ hne hh hc => exact parse_plain e hne hh hc
  | short rest hne hp hdom => exact parse_short rest hne hp hdom
  | long ws hne hws path hc => exact parse_long_flags ws hne hws path hc

-- non-vacuity: `:(top,,icase,glob)a/*/`, `:!/src/`, `README`, and a refused one
example : InDomain [58, 40, 116, 111, 112, 44, 44, 105, 99, 97, 115, 101, 44, 103, 108, 111, 98, 41, 97, 47, 42, 47] :=
  InDomain.long [[116, 111, 112], [], [105, 99, 97, 115, 101], [103, 108, 111, 98]] (by simp)
    (by decide) [97, 47, 42, 47] (by decide)

example : (parseSpec [58, 40, 116, 111, 112, 44, 44, 105, 99, 97, 115, 101, 44, 103, 108, 111, 98, 41, 97, 47, 42, 47]).map
    (fun s => (s.sigBits, s.path)) = some (11, [97, 47, 42]) := by decide

example : InDomain [58, 33, 47, 115, 114, 99, 47] :=
  InDomain.short [33, 47, 115, 114, 99, 47] (by simp) (by simp) (by
    intro t e r h
    have : parseShort [33, 47, 115, 114, 99, 47] false false = some (true, true, [115, 114, 99, 47]) := by decide
    rw [this] at h
    injection h with h; injection h with _ h; injection h with _ h; subst h
    exact ⟨by simp, by decide⟩)

example : initItem [58, 40, 103, 108, 111, 98, 44, 108, 105, 116, 101, 114, 97, 108, 41, 120] = none := by decide

/-- The full statement about the parsers (NOT proved): for every pathspec string outside the two known
findings (short magic followed by `(`, the internal `prefix:` keyword) — in particular with `attr:`
elements, escaped commas and path parts that need normalisation. -/
def C39_parse_full : Prop :=
  ∀ e : Bytes, (∀ b ∈ e, b ≠ 0) → initItem e = ((parseSpec e).bind normalize).map itemOf

/-- **from the strings to the selected paths**: for every list of pathspecs on which the parsers agree
(`InDomain` suffices), every attribute lookup and every list of index paths, gitoxide selects exactly
the paths `git ls-files -- <specs>` lists, and refuses the list exactly when git does. -/
theorem select_eq_git_strings (env : C39.Env) (hpre : WmPrefix env.wm) (hsl : WmSlash env.wm) (elems names : List Bytes)
    (hp : ∀ e ∈ elems, InDomain e) (hn : ∀ n ∈ names, NameOk n) :
    gixSelect env elems names = gitSelect env elems names :=
  select_pipeline env hpre hsl elems names (fun e he => parse_eq_git_partial e (hp e he)) hn

/-! ### round 2: `attr:` bodies, escaped commas, path parts that need normalisation -/

/-- **attr_element_eq_git**: one space-separated element of an `attr:` body — `name`, `-name`, `!name`,
`name=value` with `\`-escapes in the value — is read alike by gitoxide (unescape the value, refuse
`!name=value`/`-name=value`, `gix_attributes::parse::Iter`) and by git (`parse_pathspec_attr_match`):
same name, same match mode, same unescaped value, or both refuse. For EVERY byte string. -/
theorem attr_element_eq_git (tok : Bytes) : gixTok tok = parseAttrMatch tok := gixTok_eq_git tok

/-- **attr_body_eq_git**: gitoxide's `parse_attributes` accepts exactly the `attr:` bodies git accepts
and yields the same requirements in the same order — for every body without TAB and CR (there
gitoxide splits and git does not: `BodyOk`). -/
theorem attr_body_eq_git (body : Bytes) (hb : BodyOk body) :
    parseAttributes body = if body.isEmpty then none
      else allSome (((splitOnSpace [] body).filter fun t => !t.isEmpty).map parseAttrMatch) :=
  parseAttributes_eq body hb

/-- a checker for `EscWord` (no `,`, no `)`, backslashes only as `\,`) -/
def escWordB : Bytes → Bool
  | [] => true
  | 92 :: 44 :: w => escWordB w
  | b :: w => b != 44 && b != 41 && b != 92 && escWordB w

theorem escWordB_sound : ∀ (n : Nat) (w : Bytes), w.length ≤ n → escWordB w = true → EscWord w := by
  intro n
  induction n with
  | zero =>
    intro w hw _
    have : w = [] := by cases w with | nil => rfl | cons _ _ => simp at hw
    subst this; exact EscWord.nil
  | succ n ih =>
    intro w hw h
    rw [escWordB.eq_def] at h
    split at h
    · exact EscWord.nil
    · rename_i w'
      exact EscWord.comma w' (ih w' (by simp at hw ⊢; omega) h)
    · rename_i b w' _
      simp only [Bool.and_eq_true, bne_iff_ne, ne_eq] at h
      exact EscWord.plain b w' h.1.1.1 h.1.1.2 h.1.2 (ih w' (by simp at hw ⊢; omega) h.2)

/-- The pathspec strings on which the two parsers are NOW proved to agree. Against `InDomain`:
* the path part may need normalisation (`./`, `//`, `..`, trailing slashes, leaving the worktree) —
  everything but the lone `/` (git: outside the repository; gitoxide: matches everything); under `top`
  (`:/`, `:(top)`) git keeps the path part verbatim where gitoxide normalises it, so there it has to
  be clean (`PathPartOk`);
* the long form may contain `attr:` elements (`LongWord`): bodies without TAB/CR that are not only
  spaces, with `\,` for a comma in a value; a second `attr:` is refused by both.
Still outside: short magic followed by `(` and the internal `prefix:` keyword (known findings), and
backslashes in the long form other than `\,`. -/
inductive InDomain2 : Bytes → Prop
  | colon : InDomain2 [58]
  | plain (e : Bytes) (hne : e ≠ []) (hh : e.head? ≠ some 58) (hc : e ≠ [47]) : InDomain2 e
  | short (rest : Bytes) (hne : rest ≠ []) (hp : rest.head? ≠ some 40)
      (hdom : ∀ t e r, parseShort rest false false = some (t, e, r) → r.head? ≠ some 40 ∧ PathPartOk t r) :
      InDomain2 (58 :: rest)
  | long (ws : List Bytes) (hne : ws ≠ []) (hws : ∀ w ∈ ws, LongWord w) (path : Bytes)
      (hc : ∀ p, gixFold (some PSpec.default) ws = some p → PathPartOk p.top path) :
      InDomain2 (58 :: 40 :: (joinComma ws ++ 41 :: path))

theorem pathPartOk_of_clean (t : Bool) (path : Bytes) (h : cleanPath path = true) : PathPartOk t path := by
  unfold PathPartOk
  cases t
  · simp only [Bool.false_eq_true, if_false]
    intro he; subst he; revert h; decide
  · simpa using h

/-- the round-1 domain is part of the new one -/
theorem inDomain_sub (e : Bytes) (h : InDomain e) : InDomain2 e := by
  cases h with
  | colon => exact InDomain2.colon
  | plain _ hne hh hc => exact InDomain2.plain e hne hh (by intro he; subst he; revert hc; decide)
  | short rest hne hp hdom =>
    exact InDomain2.short rest hne hp fun t e r h => ⟨(hdom t e r h).1, pathPartOk_of_clean t r (hdom t e r h).2⟩
  | long ws hne hws path hc =>
    exact InDomain2.long ws hne (fun w hw => Or.inl (hws w hw)) path fun p _ => pathPartOk_of_clean p.top path hc

/-- **parse_eq_git** (round 2; `parse_eq_git_partial` is the special case `inDomain_sub`): on
`InDomain2`, git's `init_pathspec_item` builds exactly the item of the spec gitoxide parses and
normalises — same magic bits, same attribute requirements, same match string — or both refuse. -/
theorem parse_eq_git (e : Bytes) (h : InDomain2 e) : ParseAgrees e := by
  unfold ParseAgrees
  cases h with
  | colon => rfl
  | plain _ hne hh hc => exact parse_plain2 e hne hh hc
  | short rest hne hp hdom => exact parse_short2 rest hne hp hdom
  | long ws hne hws path hc => exact parse_long2 ws hne hws path hc

/-- **select_eq_git_strings** over the round-2 domain: for pathspecs in `InDomain2`, every attribute
lookup, every matcher with the two `wildmatch` laws and every list of index paths, gitoxide selects
exactly the paths `git ls-files -- <specs>` lists, and refuses the list exactly when git does. -/
theorem select_eq_git_strings2 (env : C39.Env) (hpre : WmPrefix env.wm) (hsl : WmSlash env.wm) (elems names : List Bytes)
    (hp : ∀ e ∈ elems, InDomain2 e) (hn : ∀ n ∈ names, NameOk n) :
    gixSelect env elems names = gitSelect env elems names :=
  select_pipeline env hpre hsl elems names (fun e he => parse_eq_git e (hp e he)) hn

-- non-vacuity: `a//b/../x/` is normalised to `a/x` (must be a directory) by both
example : InDomain2 [97, 47, 47, 98, 47, 46, 46, 47, 120, 47] := InDomain2.plain _ (by simp) (by simp) (by simp)

example : ((parseSpec [97, 47, 47, 98, 47, 46, 46, 47, 120, 47]).bind normalize).map (fun s => (s.path, s.mustBeDir))
    = some ([97, 47, 120], true) := by decide

example : (initItem [97, 47, 47, 98, 47, 46, 46, 47, 120, 47]).map (·.match_) = some [97, 47, 120, 47] := by decide

-- `../x` leaves the worktree: both refuse
example : InDomain2 [46, 46, 47, 120] ∧ initItem [46, 46, 47, 120] = none := ⟨InDomain2.plain _ (by simp) (by simp) (by simp), by decide⟩

-- `:(attr:text -diff !x eol=lf\,crlf,icase)src/`
example : InDomain2 (58 :: 40 :: (joinComma [[97, 116, 116, 114, 58, 116, 101, 120, 116, 32, 45, 100, 105, 102, 102, 32, 33, 120, 32,
      101, 111, 108, 61, 108, 102, 92, 44, 99, 114, 108, 102], [105, 99, 97, 115, 101]] ++ 41 :: [115, 114, 99, 47])) := by
  refine InDomain2.long _ (by simp) ?_ _ (fun p _ => pathPartOk_of_clean p.top _ (by decide))
  intro w hw
  simp only [List.mem_cons, List.mem_nil_iff, or_false] at hw
  rcases hw with rfl | rfl
  · refine Or.inr ⟨[116, 101, 120, 116, 32, 45, 100, 105, 102, 102, 32, 33, 120, 32, 101, 111, 108, 61, 108, 102, 92, 44, 99, 114, 108, 102],
      rfl, ?_, ⟨116, by simp, by decide⟩, escWordB_sound _ _ (Nat.le_refl _) (by decide)⟩
    intro b hb
    simp only [List.mem_cons, List.mem_nil_iff, or_false] at hb
    rcases hb with rfl | rfl | rfl | rfl | rfl | rfl | rfl | rfl | rfl | rfl | rfl | rfl | rfl | rfl | rfl | rfl | rfl | rfl | rfl |
      rfl | rfl | rfl | rfl | rfl | rfl | rfl <;> decide
  · exact Or.inl (by decide)

example : (parseSpec [58, 40, 97, 116, 116, 114, 58, 116, 101, 120, 116, 32, 45, 100, 105, 102, 102, 32, 33, 120, 32,
      101, 111, 108, 61, 108, 102, 92, 44, 99, 114, 108, 102, 44, 105, 99, 97, 115, 101, 41, 115, 114, 99, 47]).map (fun s => (s.attrs, s.icase))
    = some ([⟨[116, 101, 120, 116], St.set⟩, ⟨[100, 105, 102, 102], St.unset⟩, ⟨[120], St.unspecified⟩,
        ⟨[101, 111, 108], St.value [108, 102, 44, 99, 114, 108, 102]⟩], true) := by decide

-- a second `attr:` element is refused by both
example : initItem [58, 40, 97, 116, 116, 114, 58, 97, 44, 97, 116, 116, 114, 58, 98, 41, 120] = none
    ∧ parseSpec [58, 40, 97, 116, 116, 114, 58, 97, 44, 97, 116, 116, 114, 58, 98, 41, 120] = none := by decide

/-- **parse_eq_git_total** — from a domain to EVERY pathspec string: whatever is not in one of the
explicitly named classes is read alike by both parsers (same item, or both refuse — unknown keywords,
a missing `)`, `glob` with `literal`, a second `attr:`, invalid attribute names/values included).
`Excluded e` holds exactly when
* `e` is the lone `/` (known finding: git refuses it, gitoxide selects everything);
* `e = ":" ++ short magic` and what follows the short magic starts with `(` (known finding) or is a path
  part that is not `PathPartOk` (under `top`: not clean; else: the lone `/`);
* `e = ":(" ++ s` with a `)` in `s`, and the magic part (before the first `)`) contains a backslash
  (the `\,` of `attr:` values is covered by `parse_eq_git`/`InDomain2` instead), or one of its
  comma-separated elements is the `prefix:` keyword (known finding) or an `attr:` element whose body has
  a TAB/CR or consists of spaces only (known findings), or the path part is not `PathPartOk` for the
  `top` the elements determine. -/
theorem parse_eq_git_total (e : Bytes) (hne : e ≠ []) (h : ¬ Excluded e) : ParseAgrees e :=
  parse_total e hne h

/-- **select_eq_git_total**: for ANY list of non-empty pathspec strings outside `Excluded`, any
attribute lookup, any matcher with the two `wildmatch` laws and any index paths, gitoxide selects
exactly what `git ls-files -- <specs>` lists and refuses the list exactly when git does. -/
theorem select_eq_git_total (env : C39.Env) (hpre : WmPrefix env.wm) (hsl : WmSlash env.wm) (elems names : List Bytes)
    (hp : ∀ e ∈ elems, e ≠ [] ∧ ¬ Excluded e) (hn : ∀ n ∈ names, NameOk n) :
    gixSelect env elems names = gitSelect env elems names :=
  select_pipeline env hpre hsl elems names (fun e he => parse_eq_git_total e (hp e he).1 (hp e he).2) hn

-- non-vacuity: `:(foo,top)a` (an unknown keyword) and `:(top` (no closing parenthesis) are NOT excluded — both refuse
example : ¬ Excluded [58, 40, 102, 111, 111, 44, 116, 111, 112, 41, 97] := by
  intro h
  obtain ⟨_, hl⟩ := h
  have hfold : gixFold (some PSpec.default) (splitComma [] (magicPart [102, 111, 111, 44, 116, 111, 112, 41, 97])) = none := by decide
  rcases hl with ⟨b, hb, rfl⟩ | ⟨w, hw, hw2⟩ | ⟨p, hp, _⟩
  · revert hb; decide
  · have hws : splitComma [] (magicPart [102, 111, 111, 44, 116, 111, 112, 41, 97]) = [[102, 111, 111], [116, 111, 112]] := by decide
    rw [hws] at hw
    simp only [List.mem_cons, List.mem_nil_iff, or_false] at hw
    rcases hw with rfl | rfl
    · rcases hw2 with h1 | ⟨h1, _⟩ <;> revert h1 <;> decide
    · rcases hw2 with h1 | ⟨h1, _⟩ <;> revert h1 <;> decide
  · rw [hfold] at hp; cases hp

example : initItem [58, 40, 102, 111, 111, 44, 116, 111, 112, 41, 97] = none
    ∧ parseSpec [58, 40, 102, 111, 111, 44, 116, 111, 112, 41, 97] = none := by decide

example : ¬ Excluded [58, 40, 116, 111, 112] := by
  intro h
  obtain ⟨⟨b, hb, rfl⟩, _⟩ := h
  revert hb; decide

-- and the lone `/`, `:!(icase)x`, `:(prefix:0)a` ARE excluded
example : Excluded [47] := rfl
example : Excluded [58, 33, 40, 105, 99, 97, 115, 101, 41, 120] :=
  ⟨false, true, [40, 105, 99, 97, 115, 101, 41, 120], by decide, Or.inl rfl⟩
example : Excluded [58, 40, 112, 114, 101, 102, 105, 120, 58, 48, 41, 97] :=
  ⟨⟨41, by decide, rfl⟩, Or.inr (Or.inl ⟨[112, 114, 101, 102, 105, 120, 58, 48], by decide, Or.inl (by decide)⟩)⟩

/-- the same for any pathspecs on which the parsers agree -/
theorem select_eq_git_of_parse (env : C39.Env) (hpre : WmPrefix env.wm) (hsl : WmSlash env.wm) (elems names : List Bytes)
    (hp : ∀ e ∈ elems, ParseAgrees e) (hn : ∀ n ∈ names, NameOk n) :
    gixSelect env elems names = gitSelect env elems names :=
  select_pipeline env hpre hsl elems names hp hn

/-- The full statement of the property (follows from `C39_parse_full`, `WmPrefix` and `WmSlash`). -/
def C39_full : Prop :=
  ∀ (env : C39.Env) (elems names : List Bytes), WmPrefix env.wm → WmSlash env.wm →
    (∀ e ∈ elems, ∀ b ∈ e, b ≠ 0) → (∀ n ∈ names, NameOk n) → gixSelect env elems names = gitSelect env elems names

/-- `C39_parse_full` as stated in round 1 (every string without NUL) is FALSE: `:!(icase)x` — short
magic followed by `(`, a known finding — is accepted by both with different results (git: exclude,
match string `(icase)x`; gitoxide: exclude, icase, path `x`). The provable statement is `parse_eq_git`
over `InDomain2`, which names what is excluded. -/
theorem C39_parse_full_false : ¬ C39_parse_full := by
  intro h
  have := congrArg (Option.map (·.icase)) (h [58, 33, 40, 105, 99, 97, 115, 101, 41, 120] (by decide))
  revert this
  decide

/-- likewise `C39_full` is false: `:(prefix:0)a` (the internal `prefix:` keyword, a known finding) is
refused by gitoxide and accepted by git -/
theorem C39_full_false : ¬ C39_full := by
  intro h
  have := h ⟨fun _ _ _ _ => false, fun _ _ => none⟩ [[58, 40, 112, 114, 101, 102, 105, 120, 58, 48, 41, 97]] [[97]]
    (by intro text value pn k _ h; exact absurd h (by simp))
    (by intro text value pn ic h; exact absurd h (by simp))
    (by decide) (by intro n hn; simp at hn; subst hn; exact ⟨by simp, by simp⟩)
  revert this
  decide

/-- The full statements with the excluded classes as an explicit predicate: both follow from
`parse_eq_git` / `select_eq_git_strings2` (PROVED below). -/
def C39_parse_guarded : Prop := ∀ e : Bytes, InDomain2 e → ParseAgrees e

def C39_guarded : Prop :=
  ∀ (env : C39.Env) (elems names : List Bytes), WmPrefix env.wm → WmSlash env.wm →
    (∀ e ∈ elems, InDomain2 e) → (∀ n ∈ names, NameOk n) → gixSelect env elems names = gitSelect env elems names

theorem C39_parse_guarded_holds : C39_parse_guarded := parse_eq_git

theorem C39_guarded_holds : C39_guarded :=
  fun env elems names hpre hsl hp hn => select_eq_git_strings2 env hpre hsl elems names hp hn

-- non-vacuity of the end-to-end statement: `a/` and `:!a/b` over a/x, a/b/c, d — both sides select a/x
example :
    let env : C39.Env := ⟨fun _ _ _ _ => false, fun _ _ => none⟩
    gixSelect env [[97, 47], [58, 33, 97, 47, 98]] [[97, 47, 120], [97, 47, 98, 47, 99], [100]] = some [true, false, false]
      ∧ gitSelect env [[97, 47], [58, 33, 97, 47, 98]] [[97, 47, 120], [97, 47, 98, 47, 99], [100]] = some [true, false, false] := by
  decide

end GixModel.Props.C39
