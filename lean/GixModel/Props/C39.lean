import GixModel.Lemmas.C39Pipeline
/-
C39 — Pathspecs select the same paths as git.  PROPERTY THEOREMS ONLY.

`C39.parseSpec` / `normalize` / `fromSpecs` / `select` model `gix_pathspec::parse`, `Pattern::normalize`
(empty prefix), `Search::from_specs` and `Search::pattern_matching_relative_path(..).map_or(false,
|m| !m.is_excluded())`; `Spec.C39.gitSelect` is the transcription of git's pathspec.c / dir.c as
`git ls-files -- <specs>` uses them, validated against the git binary by the harness. The wildcard
matcher `env.wm` and the attribute lookup `env.attr` are parameters: every theorem holds for any
attribute lookup and for any matcher with the two stated properties of `wildmatch`
(`WmPrefix`: the text before the first wildcard must match literally; `WmSlash`: a pattern ending in a
literal `/` only matches values ending in `/`) — both are checked on the real `gix_glob::wildmatch` by
the harness for every verdict it hands to the model.
-/
namespace GixModel.Props.C39
open GixModel GixModel.C38 GixModel.C39 GixModel.Spec.C39 GixModel.Lemmas.C39

/-- **prefix_shortcut_sound**: rejecting every path that does not start with the common prefix of the
positive patterns before looking at any pattern (the shortcut of `pattern_matching_relative_path`)
never changes the verdict — for every search `Search::from_specs` can build (any number of patterns,
excludes, icase, literal, glob, attributes), every non-empty path, directory or not. -/
theorem prefix_shortcut_sound (env : C39.Env) (hwm : WmPrefix env.wm) (specs : List PSpec) (s : Search)
    (hs : fromSpecs specs = some s) (path : Bytes) (hp : path ≠ []) (isDir : Bool) :
    select env s path isDir = selectNoShortcut env s path isDir :=
  shortcut_sound env hwm s (fromSpecs_wellFormed specs s hs) path hp isDir

-- non-vacuity: two positive patterns `a/x*` and `a/y` (common prefix `a/`) and an exclude; `WmPrefix` holds
-- for a matcher that insists on the literal prefix
example :
    let mk (p : Bytes) (ex : Bool) : PSpec := { PSpec.default with path := p, exclude := ex }
    (fromSpecs [mk [97, 47, 120, 42] false, mk [98] true, mk [97, 47, 121] false]).map (fun s => (s.commonPrefixLen, s.commonPrefix))
      = some (2, [97, 47]) := by decide

example : WmPrefix (fun text value _ _ => match firstWildcardPos text with
    | some k => value.take k == text.take k && decide (k ≤ value.length)
    | none => text == value) := by
  intro text value pn k hk h
  simp only [hk, Bool.and_eq_true, beq_iff_eq, decide_eq_true_eq] at h
  exact h

/-- **select_eq_git** (on normalised specs): the first match in exclude-first order — verbatim /
directory-prefix match, wildcard match with verbatim fallback, MUST_BE_DIR, icase, the attribute filter,
"only excludes ⇒ everything" — selects an index path exactly when git's `match_pathspec` over the
corresponding items does (`itemOf`: the item keeps the trailing slash gitoxide records as MUST_BE_DIR). -/
theorem select_eq_git (env : C39.Env) (hsl : WmSlash env.wm) (ns : List PSpec) (hok : ∀ s ∈ ns, SpecOk s)
    (name : Bytes) (hn : NameOk name) :
    selectNoShortcut env (searchOf ns) name false = matchPathspec env (withImplicit (ns.map itemOf)) name :=
  select_items env hsl ns hok name hn

/-- the hypothesis of `select_eq_git` is what `Pattern::normalize` guarantees -/
theorem normalized_spec_ok (s n : PSpec) (h : normalize s = some n) : SpecOk n := normalize_specOk s n h

/-- The pathspec strings on which the two PARSERS are proved to agree: no magic, short magic (not
followed by `(`: a known finding), or long magic made of flag keywords and empty elements — each with a
path part that needs no normalisation. -/
inductive InDomain : Bytes → Prop
  | colon : InDomain [58]
  | plain (e : Bytes) (hne : e ≠ []) (hh : e.head? ≠ some 58) (hc : cleanPath e = true) : InDomain e
  | short (rest : Bytes) (hne : rest ≠ []) (hp : rest.head? ≠ some 40)
      (hdom : ∀ t e r, parseShort rest false false = some (t, e, r) → r.head? ≠ some 40 ∧ cleanPath r = true) :
      InDomain (58 :: rest)
  | long (ws : List Bytes) (hne : ws ≠ []) (hws : ∀ w ∈ ws, w ∈ flagWords) (path : Bytes) (hc : cleanPath path = true) :
      InDomain (58 :: 40 :: (joinComma ws ++ 41 :: path))

/-- **parse_eq_git** (partial: the magic grammar without `attr:` values, see `C39_parse_full`): on
`InDomain`, git's `init_pathspec_item` builds exactly the item of the spec gitoxide parses and
normalises — same magic bits, same match string — or both refuse the pathspec (`:(glob,literal)x`). -/
theorem parse_eq_git_partial (e : Bytes) (h : InDomain e) :
    initItem e = ((parseSpec e).bind normalize).map itemOf := by
  cases h with
  | colon => rfl
  | plain _ hne hh hc => exact parse_plain e hne hh hc
  | short rest hne hp hdom => exact parse_short rest hne hp hdom
  | long ws hne hws path hc => exact parse_long_flags ws hne hws path hc

-- non-vacuity: `:(top,,icase,glob)a/*/`, `:!/src/`, `README`, and a refused one
example : InDomain [58, 40, 116, 111, 112, 44, 44, 105, 99, 97, 115, 101, 44, 103, 108, 111, 98, 41, 97, 47, 42, 47] :=
  InDomain.long [[116, 111, 112], [], [105, 99, 97, 115, 101], [103, 108, 111, 98]] (by simp)
    (by decide) [97, 47, 42, 47] (by decide)

example : (parseSpec [58, 40, 116, 111, 112, 44, 44, 105, 99, 97, 115, 101, 44, 103, 108, 111, 98, 41, 97, 47, 42, 47]).map
    (fun s => (s.sigBits, s.path)) = some (11, [97, 47, 42]) := by decide

example : InDomain [58, 33, 47, 115, 114, 99, 47] :=
  InDomain.short [33, 47, 115, 114, 99, 47] (by simp) (by simp) (by
    intro t e r h
    have : parseShort [33, 47, 115, 114, 99, 47] false false = some (true, true, [115, 114, 99, 47]) := by decide
    rw [this] at h
    injection h with h; injection h with _ h; injection h with _ h; subst h
    exact ⟨by simp, by decide⟩)

example : initItem [58, 40, 103, 108, 111, 98, 44, 108, 105, 116, 101, 114, 97, 108, 41, 120] = none := by decide

/-- The full statement about the parsers (NOT proved): for every pathspec string outside the two known
findings (short magic followed by `(`, the internal `prefix:` keyword) — in particular with `attr:`
elements, escaped commas and path parts that need normalisation. -/
def C39_parse_full : Prop :=
  ∀ e : Bytes, (∀ b ∈ e, b ≠ 0) → initItem e = ((parseSpec e).bind normalize).map itemOf

/-- **from the strings to the selected paths**: for every list of pathspecs on which the parsers agree
(`InDomain` suffices), every attribute lookup and every list of index paths, gitoxide selects exactly
the paths `git ls-files -- <specs>` lists, and refuses the list exactly when git does. -/
theorem select_eq_git_strings (env : C39.Env) (hpre : WmPrefix env.wm) (hsl : WmSlash env.wm) (elems names : List Bytes)
    (hp : ∀ e ∈ elems, InDomain e) (hn : ∀ n ∈ names, NameOk n) :
    gixSelect env elems names = gitSelect env elems names :=
  select_pipeline env hpre hsl elems names (fun e he => parse_eq_git_partial e (hp e he)) hn

/-- the same for any pathspecs on which the parsers agree -/
theorem select_eq_git_of_parse (env : C39.Env) (hpre : WmPrefix env.wm) (hsl : WmSlash env.wm) (elems names : List Bytes)
    (hp : ∀ e ∈ elems, ParseAgrees e) (hn : ∀ n ∈ names, NameOk n) :
    gixSelect env elems names = gitSelect env elems names :=
  select_pipeline env hpre hsl elems names hp hn

/-- The full statement of the property (follows from `C39_parse_full`, `WmPrefix` and `WmSlash`). -/
def C39_full : Prop :=
  ∀ (env : C39.Env) (elems names : List Bytes), WmPrefix env.wm → WmSlash env.wm →
    (∀ e ∈ elems, ∀ b ∈ e, b ≠ 0) → (∀ n ∈ names, NameOk n) → gixSelect env elems names = gitSelect env elems names

-- non-vacuity of the end-to-end statement: `a/` and `:!a/b` over a/x, a/b/c, d — both sides select a/x
example :
    let env : C39.Env := ⟨fun _ _ _ _ => false, fun _ _ => none⟩
    gixSelect env [[97, 47], [58, 33, 97, 47, 98]] [[97, 47, 120], [97, 47, 98, 47, 99], [100]] = some [true, false, false]
      ∧ gitSelect env [[97, 47], [58, 33, 97, 47, 98]] [[97, 47, 120], [97, 47, 98, 47, 99], [100]] = some [true, false, false] := by
  decide

end GixModel.Props.C39
