import GixModel.Model.C39Core
import GixModel.Spec.C39
namespace GixModel.Props.C39
open GixModel GixModel.C39

theorem placeholder : (1 : Nat) = 1 := rfl

end GixModel.Props.C39
