import GixModel.Lemmas.C27
import GixModel.Lemmas.C27Body
import GixModel.Lemmas.C27Value
import GixModel.Lemmas.C27Total
/-
C27 — Config values are interpreted like git.  PROPERTY THEOREMS ONLY.

`GixModel.C27` (Model/C27Core.lean) is gitoxide's side, tied to the real code by the harness;
`Spec/C27.lean` is git's side (parse_value, git_parse_maybe_bool, git_parse_signed with strtoimax
base 0), tied to the git 2.39.5 binary by the same harness. What is proved:

* `normalize_is_unquote` (ALL inputs): `value::normalize` is exactly the plain loop that drops
  unescaped quotes and folds escapes; its quote-stripping loop and borrowed fast path are
  semantically invisible.
* `bool_eq_git_words` (ALL values that are boolean words) / `bool_eq_git_numbers` (ALL decimal
  spellings within 32 bits) / `bool_eq_git_generic` (ALL values: a difference can only come from
  the numeric fallback), over the spellings EXTRACTED from boolean.rs (`extracted_tables_ok`).
* `int_eq_git` (ALL decimal spellings, any number of digits, optional k/m/g of either case,
  including overflowing ones): git's answer is gitoxide's, except that git rejects i64::MIN.
  Over the suffix table EXTRACTED from integer.rs.
* `section_match_case`, `section_match_like_git`, `lookup_last_section_wins`.
* `lookup_last_value` / `lookup_last_wins` (ALL parsed files): last one wins inside a section too.
* `value_eq_git` (ALL texts in `plainText`): git's one-pass `parse_value` and gitoxide's events +
  `normalize` accept the same texts and read the same value; `value_differs_outside_domain`. The known, listed differences between the two programs are outside every
theorem's domain by construction (see the config's level_note).
-/
namespace GixModel.Props.C27
open GixModel GixModel.C26 GixModel.C27

/-- Per-run obligation: the spellings and the suffix table found in today's source are git's. -/
theorem extracted_tables_ok :
    boolTableOk Extracted.boolTrueWords Extracted.boolTrueEmpty Extracted.boolFalseWords Extracted.boolFalseEmpty = true ∧
      suffixTableOk Extracted.intSuffixes = true := by
  decide +kernel

/-- `normalize` = drop unescaped quotes, fold `\n \t \b \x` — for every byte string. -/
theorem normalize_is_unquote (v : Bytes) : normalize v = unescLoop v [] :=
  normalize_eq v

example : normalize [34, 34, 97, 92, 34, 34, 32, 34, 98, 34, 34] = [97, 34, 32, 98] := by decide +kernel

/-- Generic: with git's spellings, gitoxide's `Boolean::try_from` can differ from
`git config --type=bool` only through the numeric fallback, for every value. -/
theorem bool_eq_git_generic (tw : List Bytes) (te : Bool) (fw : List Bytes) (fe : Bool)
    (hok : boolTableOk tw te fw fe = true) (s : Bytes)
    (hnum : isBoolWord s = false →
      (rustParseI64 s).map (fun v => v != 0) = (gitParseSigned 2147483647 s).map (fun v => v != 0)) :
    gixBoolWith tw te fw fe s = gitBool s :=
  gixBool_eq_of_numbers tw te fw fe hok s hnum

/-- Every boolean word, in any ASCII case, and the empty value. -/
theorem bool_eq_git_words (s : Bytes) (hw : isBoolWord s = true) : gixBool s = gitBool s :=
  bool_word_eq _ _ _ _ extracted_tables_ok.1 s hw

example : isBoolWord [116, 82, 117, 69] = true ∧ gixBool [116, 82, 117, 69] = some true := by decide +kernel

/-- Every decimal spelling (sign, digits) whose value fits git's 32-bit `int`. -/
theorem bool_eq_git_numbers (x : Spelled) (h : x.ok) (hs : x.suf = [])
    (hr : -2147483647 ≤ sval x.neg x.ds ∧ sval x.neg x.ds ≤ 2147483647) :
    gixBool x.bytes = gitBool x.bytes :=
  bool_spelled_eq _ _ _ _ extracted_tables_ok.1 x h hs hr

example : (⟨[45], [49, 48], []⟩ : Spelled).ok ∧ gitBool (⟨[45], [49, 48], []⟩ : Spelled).bytes = some true := by
  refine ⟨⟨by simp, by simp, by decide, by simp, by simp⟩, by decide +kernel⟩

/-- Generic over the suffix table: every decimal spelling — any length, optional sign, optional
unit letter — is read by git as by gitoxide, except that git refuses a result of i64::MIN. -/
theorem int_eq_git_generic (t : List (UInt8 × Nat)) (ht : suffixTableOk t = true) (x : Spelled) (h : x.ok) :
    gitInt x.bytes = dropMin (gixIntWith t x.bytes) :=
  int_spelled_eq t ht x h

/-- … for the table in today's source. -/
theorem int_eq_git (x : Spelled) (h : x.ok) : gitInt x.bytes = dropMin (gixInt x.bytes) :=
  int_spelled_eq _ extracted_tables_ok.2 x h

-- non-vacuity: -9007199254740992k is i64::MIN (gitoxide accepts, git: error); 2g
example : (⟨[45], [57, 48, 48, 55, 49, 57, 57, 50, 53, 52, 55, 52, 48, 57, 57, 50], [107]⟩ : Spelled).ok ∧
    gixInt [45, 57, 48, 48, 55, 49, 57, 57, 50, 53, 52, 55, 52, 48, 57, 57, 50, 107] = some i64Min ∧
    gitInt [45, 57, 48, 48, 55, 49, 57, 57, 50, 53, 52, 55, 52, 48, 57, 57, 50, 107] = none ∧
    gitInt [50, 103] = some 2147483648 := by
  refine ⟨⟨by simp, by simp, by decide, by simp, Or.inr ⟨107, rfl, by decide⟩⟩, by decide +kernel, by decide +kernel, by decide +kernel⟩

/-- TOTAL, over ALL byte strings: outside the explicit class `plainDecimal s = false` (the value
starts with C whitespace, or is `0`-prefixed: octal / hex for git's `strtoimax` base 0),
`git config --type=int` and gitoxide's `integer()` both reject the value or both accept it with the
same result — except that git rejects a result of exactly i64::MIN (`dropMin`). Garbage, signs
without digits, several suffix letters, overflow in the digits or in the product: all covered. -/
theorem int_eq_git_total (s : Bytes) (hp : plainDecimal s = true) : gitInt s = dropMin (gixInt s) :=
  int_total _ extracted_tables_ok.2 s hp

example : plainDecimal [45, 49, 50, 107, 107] = true ∧ gitInt [45, 49, 50, 107, 107] = none ∧
    plainDecimal [49, 50, 51, 52, 53, 54, 55, 56, 57, 48, 49, 50, 51, 52, 53, 54, 55, 103] = true ∧
    gitInt [49, 50, 51, 52, 53, 54, 55, 56, 57, 48, 49, 50, 51, 52, 53, 54, 55, 103] = none := by decide +kernel

/-- TOTAL, over ALL byte strings: outside the explicit class `boolDeviates` (not a boolean word and:
leading C whitespace or `0`-prefix, or a number with a unit suffix, or a number beyond git's 32-bit
`int`), `git config --type=bool` and gitoxide's `boolean()` both reject the value or agree. -/
theorem bool_eq_git_total (s : Bytes) (hd : boolDeviates s = false) : gixBool s = gitBool s :=
  bool_total _ _ _ _ extracted_tables_ok.1 s hd

example : boolDeviates [116, 114, 117, 101, 101] = false ∧ gitBool [116, 114, 117, 101, 101] = none ∧
    boolDeviates [50, 107] = true ∧ boolDeviates [45, 55] = false := by decide +kernel

/-- Section names match without regard to ASCII case; the sub-section must be equal. -/
theorem section_match_case (h : Header) (sec sec' : Bytes) (sub sub' : Option Bytes)
    (hc : eqIgnoreCase sec sec' = true) :
    gixMatches h sec sub = gixMatches h sec' sub ∧
      (gixMatches h sec sub = true → gixMatches h sec sub' = true → sub = sub') := by
  constructor
  · unfold gixMatches
    have h1 := (eqIgnoreCase_iff sec sec').mp hc
    have : eqIgnoreCase h.name sec = eqIgnoreCase h.name sec' := by
      cases ha : eqIgnoreCase h.name sec with
      | true =>
        have := (eqIgnoreCase_iff _ _).mp ha
        exact ((eqIgnoreCase_iff _ _).mpr (this.trans h1)).symm
      | false =>
        cases hb : eqIgnoreCase h.name sec' with
        | false => rfl
        | true =>
          have := (eqIgnoreCase_iff _ _).mp hb
          have hh := (eqIgnoreCase_iff _ _).mpr (this.trans h1.symm)
          rw [ha] at hh; exact absurd hh (by simp)
    rw [this]
  · unfold gixMatches
    intro a b
    simp only [Bool.and_eq_true, beq_iff_eq] at a b
    exact a.2.symm.trans b.2

/-- gitoxide selects the same headers as git, for every header that is not a legacy
`[section.Sub]` one with upper case in the sub-section (the documented difference). -/
theorem section_match_like_git (h : Header) (sec : Bytes) (sub : Option Bytes)
    (hl : h.sep ≠ some [46] ∨ h.sub.map (·.map asciiLower) = h.sub) :
    gixMatches h sec sub = gitMatches h sec sub := by
  unfold gixMatches gitMatches gitHeaderKey
  have hs : (if h.sep == some [46] then h.sub.map (·.map asciiLower) else h.sub) = h.sub := by
    rcases hl with hl | hl
    · have : (h.sep == some [46]) = false := by simpa using hl
      simp [this]
    · split <;> simp [hl]
  rw [hs]
  cases ha : eqIgnoreCase h.name sec with
  | true =>
    have := (eqIgnoreCase_iff _ _).mp ha
    cases hq : (h.sub == sub) <;> simp_all
  | false =>
    have : h.name.map asciiLower ≠ sec.map asciiLower := by
      intro hc; have := (eqIgnoreCase_iff _ _).mpr hc; rw [ha] at this; exact absurd this (by simp)
    simp [this]

/-- `raw_value`: the value comes from the LAST matching section that has one. -/
theorem lookup_last_section_wins (f : File) (name : Bytes) (sub : Option Bytes) (key v : Bytes)
    (h : rawValue f name sub key = .ok v) :
    ∃ pre s post, sectionsBy f name sub = .ok (pre ++ s :: post) ∧ bodyValue key s.body = some v ∧
      ∀ t ∈ post, bodyValue key t.body = none := by
  unfold rawValue at h
  split at h
  · simp at h
  · rename_i ss hss
    split at h
    · rename_i w hw
      simp only [Except.ok.injEq] at h
      subst h
      obtain ⟨pre, s, post, hl, hx, hp⟩ := findSome_reverse_split _ ss w hw
      exact ⟨pre, s, post, by rw [hss, hl], hx, hp⟩
    · simp at h

-- non-vacuity on a parsed file: [a] k=1 / [A] k=2 / [a "b"] k=3 ; `a.k` is 2
example : ∃ f, fileFromBytes [91, 97, 93, 10, 107, 61, 49, 10, 91, 65, 93, 10, 107, 61, 50, 10, 91, 97, 32, 34, 98, 34, 93, 10, 107, 61, 51, 10] = some f ∧
    (rawValue f [97] none [75]).toOption = some [50] ∧ (rawValues f [97] none [107]).toOption = some [[49], [50]] := by
  refine ⟨_, rfl, by decide +kernel, by decide +kernel⟩

/-- `value_eq_git`: for EVERY text after `=` that is free of the known differences (`plainText`: no
CR, TAB or FF, no `\b` escape, no backslash as last byte, no unquoted space while the value is
still empty after a quote or continuation), gitoxide — `value_impl`'s events, concatenated, then
`normalize` — and git — `parse_value` — accept the same texts and read the same value. Quotes,
escapes `\n \t \\ \"`, continuation lines, comments after the value, inner and trailing blanks,
missing final newline are all inside the domain. Proved by a simulation (`Lemmas/C27Value.lean`). -/
theorem value_eq_git (text : Bytes) (hp : plainText text = true) :
    gixValueOfText text = gitParseValue text :=
  value_eq_git_proof text hp

-- non-vacuity: ` "a b"  c\"d \<LF>  e ; comment` is plain; both read `a b  c"d   e`
example : plainText [32, 34, 97, 32, 98, 34, 32, 32, 99, 92, 34, 100, 32, 92, 10, 32, 32, 101, 32, 59, 32, 120] = true ∧
    gitParseValue [32, 34, 97, 32, 98, 34, 32, 32, 99, 92, 34, 100, 32, 92, 10, 32, 32, 101, 32, 59, 32, 120] =
      some [97, 32, 98, 32, 32, 99, 34, 100, 32, 32, 32, 101] := by decide +kernel

/-- `value_eq_git` for CRLF files: every CR of the text belongs to a CR LF (line ends and
continuation lines), and the text is plain once CR LF is read as LF. gitoxide trims the CR with the
trailing whitespace and reads `\<CR><LF>` as a continuation; git folds CR LF while reading. -/
theorem value_eq_git_crlf (text : Bytes) (h : plainTextCrlf text = true) :
    gixValueOfText text = gitParseValue text := by
  unfold plainTextCrlf at h
  simp only [Bool.and_eq_true] at h
  exact value_eq_git_crlf_proof text h.1 h.2

-- non-vacuity: ` "a b" \<CR><LF>  c <CR><LF>` — both read `a b   c`
example : plainTextCrlf [32, 34, 97, 32, 98, 34, 32, 92, 13, 10, 32, 32, 99, 32, 13, 10] = true ∧
    plainText [32, 34, 97, 32, 98, 34, 32, 92, 13, 10, 32, 32, 99, 32, 13, 10] = false ∧
    gitParseValue [32, 34, 97, 32, 98, 34, 32, 92, 13, 10, 32, 32, 99, 32, 13, 10] = some [97, 32, 98, 32, 32, 32, 99] := by
  decide +kernel

/-- the domain is needed: on `a<TAB>b` the two differ (git 2.39: `a b`) -/
theorem value_differs_outside_domain :
    plainText [97, 9, 98] = false ∧ gixValueOfText [97, 9, 98] = some [97, 9, 98] ∧
      gitParseValue [97, 9, 98] = some [97, 32, 98] := by decide +kernel

/-- Last one wins INSIDE a section, for every parsed file and every key: `Body::value` (the backwards
index scan of `key_and_value_range_by`, then `value_implicit`) is the last element of
`Body::values` (the forward scan) — unless the last occurrence of the key has no `=`, which
gitoxide documents as "no value". Proved via: every body the parser produces is a sequence of
items (`fileFromBytes_wf`), on which the index scan is characterised exactly (`rangeScan_items`). -/
theorem lookup_last_value (bs : Bytes) (f : File) (h : fileFromBytes bs = some f) (s : Section)
    (hs : s ∈ f.sections) (key : Bytes) (hne : valueImplicit key s.body ≠ some none) :
    bodyValue key s.body = (bodyValues key s.body).getLast? := by
  obtain ⟨is, hok, hfl⟩ := fileFromBytes_wf h s hs
  rw [← hfl] at hne ⊢
  exact bodyValue_last key is hok hne

/-- … and with `lookup_last_section_wins`: `raw_value` is the last explicit value of the last
matching section that has one. -/
theorem lookup_last_wins (bs : Bytes) (f : File) (h : fileFromBytes bs = some f) (name : Bytes)
    (sub : Option Bytes) (key v : Bytes) (hv : rawValue f name sub key = .ok v) :
    ∃ s ∈ f.sections, gixMatches s.header name sub = true ∧ bodyValue key s.body = some v ∧
      (valueImplicit key s.body ≠ some none → (bodyValues key s.body).getLast? = some v) := by
  obtain ⟨pre, s, post, hsec, hb, _⟩ := lookup_last_section_wins f name sub key v hv
  have hmem : s ∈ f.sections ∧ gixMatches s.header name sub = true := by
    unfold sectionsBy at hsec
    simp only at hsec
    split at hsec
    · simp at hsec
    · split at hsec
      · simp at hsec
      · simp only [Except.ok.injEq] at hsec
        have : s ∈ (f.sections.filter fun s => eqIgnoreCase s.header.name name).filter fun s => s.header.sub == sub := by
          rw [hsec]; simp
        simp only [List.mem_filter] at this
        exact ⟨this.1.1, by simp [gixMatches, this.1.2, this.2]⟩
  refine ⟨s, hmem.1, hmem.2, hb, fun hne => ?_⟩
  rw [← lookup_last_value bs f h s hmem.1 key hne, hb]

-- non-vacuity: two values for `k` in one section, the second on a continuation line
example : ∃ f, fileFromBytes [91, 97, 93, 10, 107, 61, 49, 10, 107, 32, 61, 32, 50, 92, 10, 51, 10] = some f ∧
    (rawValue f [97] none [107]).toOption = some [50, 51] ∧
    (rawValues f [97] none [107]).toOption = some [[49], [50, 51]] := by
  refine ⟨_, rfl, by decide +kernel, by decide +kernel⟩

end GixModel.Props.C27
