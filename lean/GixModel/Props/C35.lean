import GixModel.Lemmas.C35
/-
C35 — Credential helper messages cannot be forged.  PROPERTY THEOREMS ONLY.

For every context (any bytes in every field, any subset of fields present): `write` is the model
of `Context::write_to`, `fromBytes` of `Context::from_bytes`, `lines` of the line splitting every
reader of the format applies (`\n`, with a `\r` in front of it stripped). `Clean v` = no NUL, no LF
and no CR in `v`; `content k v` = `key=value`; `line k v` = `key=value\n`.
`StringsUtf8 c` is the Rust type invariant of the four `String` fields.

History: before the `fix:` commit in /repo the writer accepted CR; `write` then sent
`password=abc\r\n`, which every reader takes as `abc` (see `reader_strips_cr`) — the round trip
was false. The model and the theorems below are for the repaired writer.
-/
namespace GixModel.Props.C35
open GixModel GixModel.C35

/-- the four `String` fields hold valid UTF-8 (guaranteed by the Rust type) -/
def StringsUtf8 (c : Context) : Prop := ∀ kv ∈ c.present, kv.1.isString = true → validUtf8 kv.2 = true

/-- A context is refused exactly when some present value contains NUL, LF or CR. -/
theorem refused_iff (c : Context) : (∃ w, c.write = .err w) ↔ ∃ kv ∈ c.present, ¬ Clean kv.2 := by
  unfold Context.write
  rcases writeGo_spec c.present [] with ⟨h1, h2⟩ | ⟨pre, bad, post, e, h1, h2, h3⟩
  · rw [h2]
    constructor
    · rintro ⟨w, hw⟩; cases hw
    · rintro ⟨kv, hkv, hn⟩; exact absurd (h1 kv hkv) hn
  · rw [h3]
    exact ⟨fun _ => ⟨bad, by rw [e]; simp, h2⟩, fun _ => ⟨_, rfl⟩⟩

/-- The property's wording: a value containing a newline or NUL is refused rather than sent. -/
theorem refuses_nl_nul (c : Context) (k : Key) (v : Bytes) (hp : (k, v) ∈ c.present)
    (h : v.contains 10 = true ∨ v.contains 0 = true) : ∃ w, c.write = .err w := by
  apply (refused_iff c).2
  refine ⟨(k, v), hp, ?_⟩
  intro hc
  rcases h with h | h
  · rw [hc.2.1] at h; cases h
  · rw [hc.1] at h; cases h

-- non-vacuity: the classic injection attempt through the host field
example : ({ host := some [97, 10, 104, 111, 115, 116, 61, 101] } : Context).write = .err [] := by decide +kernel
example : ({ url := some [120], password := some [97, 0] } : Context).write = .err [117, 114, 108, 61, 120, 10] := by
  decide +kernel

/-- When a context is refused, what has already gone out is exactly the complete records of the
valid fields in front of the refused one — every reader sees those fields and nothing else. -/
theorem refusal_sends_only_valid_records (c : Context) (w : Bytes) (h : c.write = .err w) :
    ∃ pre bad post, c.present = pre ++ bad :: post ∧ (∀ kv ∈ pre, Clean kv.2) ∧ ¬ Clean bad.2 ∧
      w = pre.flatMap (fun kv => line kv.1 kv.2) ∧ lines w = pre.map (fun kv => content kv.1 kv.2) := by
  unfold Context.write at h
  rcases writeGo_spec c.present [] with ⟨_, h2⟩ | ⟨pre, bad, post, e, h1, h2, h3⟩
  · rw [h2] at h; cases h
  · rw [h3] at h
    cases h
    exact ⟨pre, bad, post, e, h1, h2, by simp, by simpa using lines_records pre h1⟩

/-- No injection: what is sent is one record per present field, in order, and every reader splits
it into exactly those `key=value` lines — the number of lines is the number of present fields and
each line is the `key=value` of that field. -/
theorem no_injection (c : Context) (bs : Bytes) (h : c.write = .ok bs) :
    bs = c.present.flatMap (fun kv => line kv.1 kv.2) ∧
    lines bs = c.present.map (fun kv => content kv.1 kv.2) ∧
    (lines bs).length = c.present.length := by
  unfold Context.write at h
  rcases writeGo_spec c.present [] with ⟨h1, h2⟩ | ⟨pre, bad, post, e, h1, h2, h3⟩
  · rw [h2] at h
    cases h
    have hl := lines_records c.present h1
    simp only [List.nil_append]
    exact ⟨trivial, hl, by rw [hl, List.length_map]⟩
  · rw [h3] at h; cases h

/-- Every context that is sent decodes back to the same fields (`quit` is never sent). -/
theorem roundtrip (c : Context) (bs : Bytes) (h : c.write = .ok bs) (hu : StringsUtf8 c) :
    fromBytes bs = .ok { c with quit := none } := by
  have hclean : ∀ kv ∈ c.present, Clean kv.2 := by
    intro kv hkv
    apply Classical.byContradiction
    intro hn
    obtain ⟨w, hw⟩ := (refused_iff c).2 ⟨kv, hkv, hn⟩
    rw [hw] at h; cases h
  obtain ⟨hbs, _, _⟩ := no_injection c bs h
  rw [hbs, fromBytes_records c.present (fun kv hkv => ⟨hclean kv hkv, hu kv hkv⟩), fold_present]

-- non-vacuity: all six fields, `=` inside the password, non-UTF-8 path, empty username
def sampleContext : Context where
  protocol := some [104]
  host := some [97, 58, 56]
  path := some [0xff, 47]
  username := some []
  password := some [61, 61, 32]
  url := some [104, 58, 47]

example : ∃ bs, sampleContext.write = .ok bs ∧ StringsUtf8 sampleContext ∧ fromBytes bs = .ok sampleContext := by
  refine ⟨_, rfl, ?_, ?_⟩
  · intro kv hkv
    simp [sampleContext, Context.present, optField] at hkv
    rcases hkv with rfl | rfl | rfl | rfl | rfl | rfl <;> decide
  · decide +kernel

/-- Why CR has to be refused: the reader takes the record `password=abc\r\n` as `abc`. -/
theorem reader_strips_cr :
    fromBytes (line .password [97, 98, 99, 13]) = .ok { password := some [97, 98, 99] } := by
  decide +kernel

/-- …and the repaired writer does refuse it. -/
theorem trailing_cr_refused : ({ password := some [97, 98, 99, 13] } : Context).write = .err [] := by
  decide +kernel

end GixModel.Props.C35
