import GixModel.Lemmas.C05
/-
C05 — Object ids, hex forms and prefixes are consistent.  PROPERTY THEOREMS ONLY.

All statements are for every 20-byte id, every prefix length 4..=40 (odd lengths included — the
half-byte case is a branch of the same theorems) and every byte string handed to the hex parsers
(upper, lower, mixed case, non-hex, any length). `hexPrefix id n` is "the first n hex digits of
id"; `lowerAscii` is ASCII lower-casing; `Prefix.WF` is "20 bytes, 4..=40 digits, everything past
the prefix is zero".
-/
namespace GixModel.Props.C05
open GixModel GixModel.C05

/-! ### ids and their hex form -/

/-- Every id round-trips through its hexadecimal form (`to_hex`/`write_hex_to` → `from_hex`). -/
theorem hex_roundtrip (id : Bytes) (h : id.length = 20) : idFromHex (toHex id) = .ok id := by
  have hl : (hex id).length = 40 := by rw [hex_length, h]
  simp [idFromHex, toHex, hexDecode, hl, unhexPairs_hex]

example : idFromHex (toHex (List.replicate 19 0xab ++ [0x0f])) = .ok (List.replicate 19 0xab ++ [0x0f]) := by
  decide +kernel

/-- Parsing accepts either case and the parsed id prints back as the lower-cased text. -/
theorem unhex_hex_lower (buf id : Bytes) (h : idFromHex buf = .ok id) :
    id.length = 20 ∧ toHex id = buf.map lowerAscii := by
  unfold idFromHex at h
  by_cases hl : buf.length = 40
  · simp only [hl, if_true] at h
    unfold hexDecode at h
    have : ¬ buf.length % 2 = 1 := by omega
    simp only [this, if_false] at h
    cases hu : unhexPairs buf with
    | none => simp [hu] at h
    | some out =>
      simp only [hu, Outcome.ok.injEq] at h
      subst h
      obtain ⟨h1, h2⟩ := unhexPairs_sound buf out hu
      exact ⟨by omega, h1⟩
  · simp [hl] at h

example : idFromHex ([65, 98] ++ List.replicate 38 70) = .ok (0xab :: List.replicate 19 0xff) := by
  decide +kernel

/-- `ObjectId::from_hex` never panics, and its errors are exactly: wrong length; a non-hex byte. -/
theorem id_from_hex_total (buf : Bytes) :
    idFromHex buf ≠ .panic ∧
    (idFromHex buf = .err .invalidLength ↔ buf.length ≠ 40) ∧
    (idFromHex buf = .err .invalid ↔ buf.length = 40 ∧ ∃ c ∈ buf, isHexDigit c = false) := by
  by_cases hl : buf.length = 40
  · cases hu : unhexPairs buf with
    | none =>
      obtain ⟨c, hc, hcn⟩ := unhexPairs_none buf (by omega) hu
      have hcf : isHexDigit c = false := by simp [isHexDigit, hcn]
      simp only [idFromHex, hl, hexDecode, hu]
      exact ⟨by simp, by simp, by simp; exact ⟨c, hc, hcf⟩⟩
    | some out =>
      have hall := unhexPairs_all buf out hu
      simp only [idFromHex, hl, hexDecode, hu]
      refine ⟨by simp, by simp, ?_⟩
      simp only [true_and]
      constructor
      · intro h; simp at h
      · rintro ⟨c, hc, hcn⟩
        have := hall c hc
        simp only [isHexDigit] at hcn
        rw [hcn] at this; cases this
  · simp [idFromHex, hl]

/-- `to_hex_with_len(n)` is the first `n` digits of the full hex form. -/
theorem to_hex_with_len_eq (id : Bytes) (n : Nat) : toHexWithLen id n = hexPrefix id n := by
  unfold toHexWithLen hexPrefix
  by_cases h : n ≤ 2 * id.length
  · rw [Nat.min_eq_left h]
  · have h1 : (hex id).length ≤ n := by rw [hex_length]; omega
    have h2 : (hex id).length ≤ 2 * id.length := by rw [hex_length]; omega
    rw [Nat.min_eq_right (by omega), List.take_of_length_le h1, List.take_of_length_le h2]

/-! ### prefixes cut from an id -/

/-- `Prefix::new` never panics; it succeeds exactly for 4 ≤ n ≤ 40 and the errors are exact. -/
theorem prefix_new_total (id : Bytes) (n : Nat) (h : id.length = 20) :
    (4 ≤ n ∧ n ≤ 40 → ∃ p, Prefix.new id n = .ok p) ∧
    (Prefix.new id n = .err .tooShort ↔ n < 4) ∧
    (Prefix.new id n = .err .tooLong ↔ 40 < n) ∧
    Prefix.new id n ≠ .panic := by
  by_cases h40 : 40 < n
  · have : ¬ n < 4 := by omega
    simp [Prefix.new, h40, this]
  · by_cases h4 : n < 4
    · simp [Prefix.new, h40, h4]
    · rw [new_ok id n h (by omega) (by omega)]
      simp [h40, h4]

/-- The prefix cut from an id keeps the first `n` nibbles and zeroes every other bit:
its bytes are `maskTo n id`, i.e. in hex the first `n` digits of the id followed by `'0'`s. -/
theorem prefix_new_mask (id : Bytes) (n : Nat) (p : Prefix) (h : id.length = 20)
    (hp : Prefix.new id n = .ok p) :
    p.hexLen = n ∧ p.bytes = maskTo n id ∧
    hex p.bytes = hexPrefix id n ++ List.replicate (40 - n) 48 ∧ p.WF := by
  have ⟨_, hs, hl, _⟩ := prefix_new_total id n h
  have h4 : 4 ≤ n := by
    apply Nat.le_of_not_lt; intro hlt; rw [hs.2 hlt] at hp; cases hp
  have h40 : n ≤ 40 := by
    apply Nat.le_of_not_lt; intro hlt; rw [hl.2 hlt] at hp; cases hp
  rw [new_ok id n h h4 h40] at hp
  cases hp
  have hm := hex_maskTo n id (by omega)
  rw [h] at hm
  exact ⟨rfl, rfl, hm, ⟨by simp [maskTo_length, h], h4, h40, zeroPast_maskTo n id (by omega)⟩⟩

example : Prefix.new (List.replicate 20 0xab) 7 = .ok ⟨[0xab, 0xab, 0xab, 0xa0] ++ List.replicate 16 0, 7⟩ := by
  decide +kernel

/-- A prefix prints back as exactly its `n` digits. -/
theorem prefix_display (id : Bytes) (n : Nat) (p : Prefix) (h : id.length = 20)
    (hp : Prefix.new id n = .ok p) : p.display = hexPrefix id n := by
  obtain ⟨h1, h2, _, hwf⟩ := prefix_new_mask id n p h hp
  have hn := hwf.hi
  rw [h1] at hn
  unfold Prefix.display
  rw [to_hex_with_len_eq, h1, h2]
  exact take_hex_maskTo n id (by omega)

/-! ### comparing a prefix with candidate ids -/

/-- `cmp_oid` of any well-formed prefix never panics and IS the lexicographic comparison of the
prefix's digits with the candidate's first `n` digits — so sorting/bisecting ids by `cmp_oid`
is sound (used by the pack-index lookup, C09). -/
theorem cmp_oid_order (p : Prefix) (c : Bytes) (hwf : p.WF) (hc : c.length = 20) :
    p.cmpOid c = some (cmpBytes p.display (hexPrefix c p.hexLen)) := by
  obtain ⟨hlen, _, hhi, hz⟩ := hwf
  have e : p = ⟨p.bytes, p.hexLen⟩ := rfl
  rw [e, cmpOid_eq_cmpSpec p.hexLen p.bytes c (by omega) (by omega),
    cmpSpec_eq_hex p.hexLen p.bytes c (by omega) (by omega) hz]
  simp only [Prefix.display, to_hex_with_len_eq, hexPrefix]

/-- A prefix of `n` hex digits cut from `id` compares equal to exactly the ids whose first `n`
hex digits agree with `id`'s. -/
theorem cmp_oid_eq_iff (id c : Bytes) (n : Nat) (p : Prefix) (hid : id.length = 20)
    (hc : c.length = 20) (hp : Prefix.new id n = .ok p) :
    p.cmpOid c = some .eq ↔ hexPrefix c n = hexPrefix id n := by
  obtain ⟨h1, _, _, hwf⟩ := prefix_new_mask id n p hid hp
  rw [cmp_oid_order p c hwf hc, prefix_display id n p hid hp, h1]
  simp only [Option.some.injEq, cmpBytes_eq_iff]
  exact eq_comm

-- non-vacuity at an odd length: ids differing only in the nibble right after the prefix agree
example : ∃ p, Prefix.new (List.replicate 20 0xab) 5 = .ok p ∧
    p.cmpOid ([0xab, 0xab, 0xa0] ++ List.replicate 17 0x11) = some .eq ∧
    p.cmpOid ([0xab, 0xab, 0xb0] ++ List.replicate 17 0x11) = some .lt := by
  refine ⟨_, rfl, ?_, ?_⟩ <;> decide +kernel

/-! ### prefixes parsed from text -/

/-- `Prefix::from_hex` never panics; it succeeds exactly on 4..=40 hex digits of either case and
each error is exactly characterised. -/
theorem from_hex_total (s : Bytes) :
    Prefix.fromHex s ≠ .panic ∧
    (Prefix.fromHex s = .err .tooShort ↔ s.length < 4) ∧
    (Prefix.fromHex s = .err .tooLong ↔ 40 < s.length) ∧
    (Prefix.fromHex s = .err .invalid ↔ 4 ≤ s.length ∧ s.length ≤ 40 ∧ ∃ c ∈ s, isHexDigit c = false) ∧
    ((∃ p, Prefix.fromHex s = .ok p) ↔ 4 ≤ s.length ∧ s.length ≤ 40 ∧ ∀ c ∈ s, isHexDigit c = true) := by
  unfold Prefix.fromHex
  simp only
  by_cases g1 : s.length > 40
  · have : ¬ s.length < 4 := by omega
    simp [g1, this]; omega
  by_cases g2 : s.length < 4
  · simp [g1, g2]; omega
  simp only [g1, g2, if_false]
  have hsrc : ∃ src, (if s.length % 2 = 0 then s else s ++ [48]) = src ∧ src.length % 2 = 0 ∧
      src.length ≤ 40 ∧ ((∀ c ∈ src, isHexDigit c = true) ↔ ∀ c ∈ s, isHexDigit c = true) := by
    by_cases hev : s.length % 2 = 0
    · exact ⟨s, by simp [hev], hev, by omega, Iff.rfl⟩
    · refine ⟨s ++ [48], by simp [hev], by simp; omega, by simp; omega, ?_⟩
      constructor
      · intro h c hc; exact h c (by simp [hc])
      · intro h c hc
        simp only [List.mem_append, List.mem_singleton] at hc
        rcases hc with hc | rfl
        · exact h c hc
        · decide
  obtain ⟨src, he, hl, hle, hall⟩ := hsrc
  rw [he]
  have hodd : ¬ src.length % 2 = 1 := by omega
  simp only [hexDecode, hodd, if_false]
  cases hu : unhexPairs src with
  | none =>
    obtain ⟨c, hc, hcn⟩ := unhexPairs_none src hl hu
    have hbad : ¬ ∀ c ∈ src, isHexDigit c = true := by
      intro h; have := h c hc; simp [isHexDigit, hcn] at this
    rw [hall] at hbad
    have hex1 : ∃ c ∈ s, isHexDigit c = false := by
      apply Classical.byContradiction
      intro hne
      apply hbad
      intro c hc
      cases hh : isHexDigit c with
      | true => rfl
      | false => exact (hne ⟨c, hc, hh⟩).elim
    refine ⟨by simp, by simp, by simp, by simp; exact ⟨by omega, by omega, by simpa using hex1⟩, ?_⟩
    simp only [reduceCtorEq, exists_false, false_iff]
    intro ⟨_, _, h⟩; exact hbad h
  | some out =>
    obtain ⟨_, h2⟩ := unhexPairs_sound src out hu
    have g3 : ¬ out.length > 20 := by omega
    have hgood := (hall.1 (fun c hc => by simpa [isHexDigit] using unhexPairs_all src out hu c hc))
    simp only [g3, if_false]
    refine ⟨by simp, by simp, by simp, ?_, ?_⟩
    · simp only [reduceCtorEq, false_iff]
      rintro ⟨_, _, c, hc, hcn⟩
      rw [hgood c hc] at hcn; cases hcn
    · exact ⟨fun _ => ⟨by omega, by omega, hgood⟩, fun _ => ⟨_, rfl⟩⟩

/-- A prefix parsed from text is a well-formed prefix of `s.length` digits that prints back as
those digits (lower-cased), and it is the same value `Prefix::new` cuts from its own bytes. -/
theorem from_hex_eq_new (s : Bytes) (p : Prefix) (h : Prefix.fromHex s = .ok p) :
    p.hexLen = s.length ∧ p.WF ∧ p.display = s.map lowerAscii ∧
    Prefix.new p.bytes s.length = .ok p := by
  obtain ⟨h1, h2, h3, h4, h5, h6⟩ := fromHex_ok s p h
  have hwf : p.WF := ⟨h2, by omega, by omega, by rw [h1]; exact h6⟩
  refine ⟨h1, hwf, ?_, ?_⟩
  · rw [Prefix.display, to_hex_with_len_eq, hexPrefix, h1, h5]
  · rw [new_ok p.bytes s.length h2 h3 h4, maskTo_of_zeroPast _ _ h6, ← h1]

/-- A prefix parsed from `n` hex characters compares equal to exactly the ids whose first `n`
hex digits are those characters (case-insensitively). -/
theorem from_hex_cmp_eq_iff (s c : Bytes) (p : Prefix) (hc : c.length = 20)
    (h : Prefix.fromHex s = .ok p) :
    p.cmpOid c = some .eq ↔ hexPrefix c s.length = s.map lowerAscii := by
  obtain ⟨h1, hwf, h3, _⟩ := from_hex_eq_new s p h
  rw [cmp_oid_order p c hwf hc, h3, h1]
  simp only [Option.some.injEq, cmpBytes_eq_iff]
  exact eq_comm

-- non-vacuity: "AbCdE" (odd, mixed case) parses, prints as "abcde", matches abcde5…
example : ∃ p, Prefix.fromHex [65, 98, 67, 100, 69] = .ok p ∧ p.display = [97, 98, 99, 100, 101] ∧
    p.cmpOid ([0xab, 0xcd, 0xe5] ++ List.replicate 17 0x77) = some .eq := by
  refine ⟨_, rfl, ?_, ?_⟩ <;> decide +kernel

end GixModel.Props.C05
