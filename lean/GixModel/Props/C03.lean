import GixModel.Lemmas.C03
/-
C03 — Tree entry ordering and name lookup match git.  PROPERTY THEOREMS ONLY.

Model: `Basic/Tree.lean` (`entryCmp` = `<tree::Entry as Ord>::cmp` = `<EntryRef as Ord>::cmp`,
`sortEntries` = `entries.sort()`, `writeEntries` = `Tree::write_to`, `binarySearchBy` = Rust's
`<[T]>::binary_search_by`, `bisectEntry` = `TreeRef::bisect_entry`). Spec: `Spec/C03.lean`
(`baseNameCompare` = git's `base_name_compare`, the order of `git mktree`/`write-tree`/`fsck`).

Domain: the property quantifies over NUL- and slash-free names (what a tree can hold). The
equality with git needs NUL-freedom only; the order/uniqueness/lookup theorems need slash-freedom
only (with a slash, `a`(tree) and `a/`(blob) compare Equal — see the last `example`).
-/
namespace GixModel.Props.C03
open GixModel GixModel.Tree GixModel.Spec.C03

/-- gitoxide's `Ord` for tree entries is git's `base_name_compare` (implicit trailing `/` for
trees), for ALL NUL-free names and ALL modes. -/
theorem entryCmp_eq_git (a b : Entry) (ha : NulFree a.name) (hb : NulFree b.name) :
    entryCmp a b = ordOfInt (baseNameCompare a.name a.mode b.name b.mode) := by
  unfold entryCmp Entry.isTree
  rw [cmpNames_eq_rec, git_eq_cmpRec _ _ _ _ ha hb]

-- non-vacuity: `a`(tree) sorts after `a.`(blob) and before `a0`(blob), in both orders
example : NulFree [97] ∧ NulFree [97, 46] ∧
    entryCmp ⟨0o040000, [97], []⟩ ⟨0o100644, [97, 46], []⟩ = .gt ∧
    ordOfInt (baseNameCompare [97] 0o040000 [97, 46] 0o100644) = .gt ∧
    entryCmp ⟨0o040000, [97], []⟩ ⟨0o100644, [97, 48], []⟩ = .lt := by decide

/-- On slash-free names the order is the plain byte-lexicographic order of `name ++ "/"?`. -/
theorem entryCmp_eq_lex_key (a b : Entry) (ha : SlashFree a.name) (hb : SlashFree b.name) :
    entryCmp a b = cmpBytes a.key b.key := entryCmp_eq_key ha hb

example : SlashFree [97, 45, 98] ∧ (⟨0o040000, [97], []⟩ : Entry).key = [97, 47] := by decide

/-- antisymmetry (`a < b ↔ b > a`, `Equal` is symmetric) — for all names, no side condition -/
theorem entryCmp_antisymm (a b : Entry) : (entryCmp a b).swap = entryCmp b a := entryCmp_swap a b

/-- `Equal` exactly on equal (name, is-tree) keys -/
theorem entryCmp_eq_iff (a b : Entry) (ha : SlashFree a.name) (hb : SlashFree b.name) :
    entryCmp a b = .eq ↔ a.name = b.name ∧ a.isTree = b.isTree := by
  rw [entryCmp_eq_key ha hb]
  constructor
  · intro h; exact key_inj ha hb (cmpBytes_eq h)
  · rintro ⟨h1, h2⟩; simp only [Entry.key, h1, h2, cmpBytes_refl]

/-- transitivity: with the two theorems above, a strict total order on distinct keys -/
theorem entryCmp_trans (a b c : Entry) (ha : SlashFree a.name) (hb : SlashFree b.name)
    (hc : SlashFree c.name) (h1 : entryCmp a b = .lt) (h2 : entryCmp b c = .lt) :
    entryCmp a c = .lt := by
  rw [entryCmp_eq_key ha hb] at h1
  rw [entryCmp_eq_key hb hc] at h2
  rw [entryCmp_eq_key ha hc]
  exact cmpBytes_trans h1 h2

example : entryCmp ⟨0o100644, [97, 46], []⟩ ⟨0o040000, [97], []⟩ = .lt ∧
    entryCmp ⟨0o040000, [97], []⟩ ⟨0o100644, [97, 48], []⟩ = .lt := by decide

/-- Sortedness determines the list: two strictly sorted lists with the same entries are equal
(hence the same bytes and the same object id). -/
theorem sorted_perm_unique (l₁ l₂ : List Entry) (h₁ : Sorted l₁) (h₂ : Sorted l₂)
    (hp : l₁.Perm l₂) : l₁ = l₂ := by
  refine List.Perm.eq_of_pairwise ?_ h₁ h₂ hp
  intro a b _ _ hab hba
  rw [← entryCmp_swap a b, hab] at hba
  cases hba

/-- `entries.sort()` produces a strictly sorted permutation of any set of entries with distinct
(name, kind) keys. -/
theorem sort_sorted (l : List Entry) (hl : NamesOk l) (hn : (l.map Entry.key).Nodup) :
    Sorted (sortEntries l) ∧ (sortEntries l).Perm l :=
  ⟨sortEntries_sorted l hl hn, sortEntries_perm l⟩

/-- Same entries ⇒ same bytes as git: whatever list `g` git's sort (any sort by
`base_name_compare`, e.g. `git mktree`'s qsort) makes of the same entries, `entries.sort()`
produces exactly `g`, so `Tree::write_to` writes the bytes git hashes. -/
theorem sort_eq_git_sorted (l g : List Entry) (hl : NamesOk l) (hz : ∀ e ∈ l, NulFree e.name)
    (hp : g.Perm l)
    (hg : g.Pairwise (fun a b => ordOfInt (baseNameCompare a.name a.mode b.name b.mode) = .lt)) :
    sortEntries l = g ∧ writeEntries (sortEntries l) = writeEntries g := by
  have hgs : Sorted g := by
    refine (List.Pairwise.and_mem.1 hg).imp ?_
    rintro a b ⟨ha, hb, h⟩
    rw [entryCmp_eq_git a b (hz a (hp.subset ha)) (hz b (hp.subset hb))]
    exact h
  have hgl : NamesOk g := fun e he => hl e (hp.subset he)
  have hn : (l.map Entry.key).Nodup := (hp.map Entry.key).nodup_iff.1 (sorted_keys_nodup hgl hgs)
  have := sorted_perm_unique _ _ (sortEntries_sorted l hl hn) hgs ((sortEntries_perm l).trans hp.symm)
  exact ⟨this, by rw [this]⟩

-- non-vacuity: three prefix-related entries given out of order; git's order is a. < a/ < a0
example :
    let l : List Entry := [⟨0o100644, [97, 48], [1]⟩, ⟨0o040000, [97], [2]⟩, ⟨0o100644, [97, 46], [3]⟩]
    let g : List Entry := [⟨0o100644, [97, 46], [3]⟩, ⟨0o040000, [97], [2]⟩, ⟨0o100644, [97, 48], [1]⟩]
    NamesOk l ∧ (∀ e ∈ l, NulFree e.name) ∧ g.Perm l ∧
    g.Pairwise (fun a b => ordOfInt (baseNameCompare a.name a.mode b.name b.mode) = .lt) ∧
    sortEntries l = g := by
  refine ⟨by decide, by decide, ?_, by decide, by decide⟩
  exact (List.Perm.swap _ _ _).trans ((List.Perm.cons _ (List.Perm.swap _ _ _)).trans
    ((List.Perm.swap _ _ _).trans (List.Perm.refl _)))

/-- Rust's `binary_search_by` never reads outside the slice, for every comparator. -/
theorem binary_search_in_bounds (l : List Entry) (f : Entry → Ordering) :
    binarySearchBy l f ≠ .oob := binarySearchBy_ne_oob l f

/-- …and meets the documented `binary_search_by` contract. -/
theorem binary_search_contract : SearchContract binarySearchBy := std_contract

/-- Lookup by (name, is_dir) in a sorted tree finds an entry exactly when one of that name and
kind exists — for ANY binary search satisfying the `binary_search_by` contract. -/
theorem bisect_correct_any_search (search : List Entry → (Entry → Ordering) → Search)
    (hc : SearchContract search) (es : List Entry) (hl : NamesOk es) (hs : Sorted es)
    (n : Bytes) (d : Bool) (hn : SlashFree n) (e : Entry) :
    bisectWith search es n d = some e ↔ e ∈ es ∧ e.name = n ∧ e.isTree = d :=
  bisectWith_correct search hc es hl hs n d hn e

/-- `TreeRef::bisect_entry` as implemented (Rust's own binary search). -/
theorem bisect_correct (es : List Entry) (hl : NamesOk es) (hs : Sorted es)
    (n : Bytes) (d : Bool) (hn : SlashFree n) (e : Entry) :
    bisectEntry es n d = some e ↔ e ∈ es ∧ e.name = n ∧ e.isTree = d :=
  bisectWith_correct binarySearchBy std_contract es hl hs n d hn e

/-- …which is the linear scan. -/
theorem bisect_eq_scan (es : List Entry) (hl : NamesOk es) (hs : Sorted es)
    (n : Bytes) (d : Bool) (hn : SlashFree n) : bisectEntry es n d = scanEntry es n d := by
  apply Option.ext
  intro e
  rw [bisect_correct es hl hs n d hn e, scan_correct es hl hs n d e]

-- non-vacuity: `a` exists as a tree between `a.` and `a0`; it is found as a directory only
example :
    let es : List Entry := [⟨0o100644, [97, 46], [3]⟩, ⟨0o040000, [97], [2]⟩, ⟨0o100644, [97, 48], [1]⟩]
    NamesOk es ∧ Sorted es ∧ SlashFree [97] ∧
    bisectEntry es [97] true = some ⟨0o040000, [97], [2]⟩ ∧ bisectEntry es [97] false = none := by
  decide

/-- OUTSIDE the property's domain (the property quantifies over slash-free names only), stated
exactly: a probe `q ++ "/" ++ rest` — whatever `rest` and whichever kind is asked for — behaves
like looking up the directory `q`: it returns an entry iff the tree holds a DIRECTORY named `q`
(and that entry's name is `q`, not the probe). The comparison only looks at one byte after the
common prefix. Not a contradiction of the property text (its names are slash-free; a path with a
slash is not a name in one tree), so no defect handling; callers must split paths first. -/
theorem bisect_slash_probe (es : List Entry) (hl : NamesOk es) (hs : Sorted es) (q rest : Bytes)
    (d : Bool) (hq : SlashFree q) (e : Entry) :
    bisectEntry es (q ++ 47 :: rest) d = some e ↔ e ∈ es ∧ e.name = q ∧ e.isTree = true := by
  rw [bisectEntry_slash_probe es hl q rest d hq]
  exact bisect_correct es hl hs q true hq e

-- e.g. the probe `a/` (as a file) "finds" the tree `a`
example : bisectEntry [⟨0o040000, [97], [2]⟩] [97, 47] false = some ⟨0o040000, [97], [2]⟩ := by decide

end GixModel.Props.C03
