import GixModel.Lemmas.C51a
import GixModel.Lemmas.C51b
import GixModel.Lemmas.C51d
/-
C51 — Parallel helpers process every item exactly once.  PROPERTY THEOREMS ONLY.

(a) `InOrderIter` is a pure function of the arrival sequence (`collect`, Model): proved for EVERY
    permutation of `0..n-1`, every `n`, arbitrary values.
(b) `in_parallel_with_slice` is the transition system `step` (Model) whose events are the atomic
    actions of the workers. "Every schedule" = every event list accepted by `step` from
    `Sys.init n k`; `n` (items) and `k` (threads) are arbitrary, thread ids are natural numbers,
    `consume` may fail at any call, the stop flag may be set from outside at any moment.
(c) the channel based `in_parallel` / `reduce::Stepwise` is the transition system `cstep` (Model):
    feeder thread, bounded input channel, `k` workers, bounded result channel, reducer; "every
    schedule" = every event list accepted by `cstep` from `Chan.init n k`, any `n`, any `k ≥ 1`;
    `feed` may fail at any result, the receiver may be dropped at any moment (`Stepwise::drop`).
    This model is tied to the real code by the oracle runs of the harness only (no event log).
Not modelled (checked on the real code by the harness only): the extra `finalize` result of
`in_parallel_with_finalize`, `EagerIter`, the serial fallbacks (feature `parallel` off).
-/
namespace GixModel.Props.C51
open GixModel.C51

/-! ### (a) InOrderIter -/

/-- For every permutation of `0..n-1` as arrival order (values arbitrary: `f i` arrives with
sequence id `i`), the iterator yields exactly `f 0, f 1, …, f (n-1)` and nothing else — no panic,
nothing left in the buffer. -/
theorem inorder_sorted {T : Type} (n : Nat) (f : Nat → T) (arrival : List Nat)
    (hperm : arrival.Perm (List.range n)) :
    collect (arrival.map fun i => Item.ok i (f i)) = (List.range n).map fun i => Out.val (f i) := by
  have hnd : arrival.Nodup := hperm.nodup_iff.mpr List.nodup_range
  have hmem : ∀ i, i ∈ arrival ↔ i < n := fun i => by rw [hperm.mem_iff]; exact List.mem_range
  have hgood : Good f n ([] : Buf T) 0 arrival :=
    ⟨by simp [keys], hnd, by simp [keys], fun i => by simp [keys, hmem], by simp, Nat.zero_le _⟩
  obtain ⟨store', next', _, hfeed, hg'⟩ := feed_good f n arrival [] 0 hgood
  have hfeed' : feed (arrival.map fun i => Item.ok i (f i)) { store := [], next := 0 }
      = (outRange f 0 (next' - 0), some { store := store', next := next' }) := hfeed
  simp only [collect, hfeed']
  rw [drain_good f n store'.length store' next' hg' (Nat.le_refl _)]
  have hle : next' ≤ n := hg'.le
  have h := outRange_append f 0 next' (n - next')
  simp only [Nat.zero_add, Nat.sub_zero] at h ⊢
  rw [h]
  have : next' + (n - next') = n := by omega
  rw [this]
  simp [outRange, List.range_eq_range']

example : collect ([2, 0, 3, 1].map fun i => Item.ok i (i * 7 + 3))
    = [Out.val 3, Out.val 10, Out.val 17, Out.val 24] := by decide

/-- An error in the stream is yielded right after what was yielded before it, and NOTHING follows:
whatever would have arrived afterwards (`post`) is neither pulled nor yielded, buffered items are
dropped. (`(feed pre st).2.isSome` = the iterator did not end earlier, by an error or a panic.) -/
theorem inorder_error_stops {T : Type} (pre post : List (Item T)) (e : Nat)
    (hlive : (feed pre { store := [], next := 0 }).2.isSome = true) :
    collect (pre ++ Item.err e :: post) = (feed pre { store := [], next := 0 }).1 ++ [Out.err e] := by
  simp only [collect, feed_err_append pre e post _ hlive]

/-- …and what was yielded before the error is in sequence order: if the arrivals before the error
are distinct ids, the outputs before the error are `f 0, …, f (j-1)` for some `j`. -/
theorem inorder_error_prefix_sorted {T : Type} (n : Nat) (f : Nat → T) (arrival : List Nat)
    (hperm : arrival.Perm (List.range n)) (post : List (Item T)) (e : Nat) :
    ∃ j, j ≤ n ∧ collect ((arrival.map fun i => Item.ok i (f i)) ++ Item.err e :: post)
        = ((List.range j).map fun i => Out.val (f i)) ++ [Out.err e] := by
  have hnd : arrival.Nodup := hperm.nodup_iff.mpr List.nodup_range
  have hmem : ∀ i, i ∈ arrival ↔ i < n := fun i => by rw [hperm.mem_iff]; exact List.mem_range
  have hgood : Good f n ([] : Buf T) 0 arrival :=
    ⟨by simp [keys], hnd, by simp [keys], fun i => by simp [keys, hmem], by simp, Nat.zero_le _⟩
  obtain ⟨store', next', _, hfeed, hg'⟩ := feed_good f n arrival [] 0 hgood
  have hfeed' : feed (arrival.map fun i => Item.ok i (f i)) { store := [], next := 0 }
      = (outRange f 0 (next' - 0), some { store := store', next := next' }) := hfeed
  refine ⟨next', hg'.le, ?_⟩
  rw [inorder_error_stops _ post e (by rw [hfeed']; rfl), hfeed']
  simp [outRange, List.range_eq_range']

example : collect ([Item.ok 1 11, Item.ok 0 10, Item.err 5, Item.ok 2 12] : List (Item Nat))
    = [Out.val 10, Out.err 5] := by decide

/-! ### (b) in_parallel_with_slice -/

/-- In EVERY reachable state — any number of threads, any interleaving, failures and stops allowed —
no item is handed to `consume` twice, every index handed to `consume` is inside the slice (the
raw-pointer access `input.0.add(input_index)` is in bounds), and no index is both consumed and
skipped. -/
theorem slice_at_most_once (n k : Nat) (sched : List Ev) (s : Sys)
    (hrun : runSched (Sys.init n k) sched = some s) :
    s.consumedIdx.Nodup ∧ (∀ i ∈ s.consumedIdx, i < n) ∧ (∀ i ∈ s.consumedIdx, i ∉ s.skipped) := by
  obtain ⟨hinv, hn, _⟩ := run_inv sched _ s (inv_init n k) hrun
  refine ⟨hinv.cons_nodup, ?_, hinv.cons_skip⟩
  intro i hi
  have h1 := hinv.cons_lt i hi
  have h2 := hinv.idx_le
  simp only [Sys.init] at hn
  omega

/-- Also the index a thread holds between claiming and consuming is inside the slice. -/
theorem slice_claims_in_bounds (n k : Nat) (sched : List Ev) (s : Sys)
    (hrun : runSched (Sys.init n k) sched = some s) (t i : Nat) (ht : t < k)
    (hpc : s.pcs t = Pc.check i ∨ s.pcs t = Pc.consume i) : i < n := by
  obtain ⟨hinv, hn, hk⟩ := run_inv sched _ s (inv_init n k) hrun
  simp only [Sys.init] at hn hk
  have h1 := hinv.held_lt t i (by omega) (by cases hpc with
    | inl h => rw [h]; rfl
    | inr h => rw [h]; rfl)
  have h2 := hinv.idx_le
  omega

/-- If no `consume` call fails and nobody sets the stop flag from outside, then for every number
of threads `k ≥ 1` and every interleaving, once all threads have returned every item `0..n-1` was
consumed exactly once, every call returned `Ok`, and the function returns `Ok`. -/
theorem slice_exactly_once (n k : Nat) (hk : 1 ≤ k) (sched : List Ev) (s : Sys)
    (hrun : runSched (Sys.init n k) sched = some s)
    (hcalm : ∀ e ∈ sched, e.disturbs = false) (hdone : s.allDone) :
    s.consumedIdx.Nodup ∧ (∀ i, i ∈ s.consumedIdx ↔ i < n) ∧ (∀ c ∈ s.consumed, c.2.2 = true)
    ∧ ¬ s.resultErr := by
  obtain ⟨hinv, hn, hkk⟩ := run_inv sched _ s (inv_init n k) hrun
  have hc := run_calm sched _ s (calm_init n k) hcalm hrun
  simp only [Sys.init] at hn hkk
  -- thread 0 returned Ok without the stop flag: the counter is at n
  have h0 : s.pcs 0 = Pc.doneOk := by
    have := hdone 0 (by omega)
    cases hp : s.pcs 0 with
    | doneOk => rfl
    | doneErr => exact absurd hp (hc.pcs 0).2
    | fetch => simp [hp, Pc.isDone] at this
    | check i => simp [hp, Pc.isDone] at this
    | consume i => simp [hp, Pc.isDone] at this
    | failing => simp [hp, Pc.isDone] at this
  have hidx : s.idx = s.n := by
    cases hinv.done_ok 0 (by omega) h0 with
    | inl h => rw [hc.stop] at h; cases h
    | inr h => exact h
  refine ⟨hinv.cons_nodup, ?_, hc.oks, ?_⟩
  · intro i
    constructor
    · intro hi; have := hinv.cons_lt i hi; omega
    · intro hi
      rcases hinv.cover i (by omega) with h | h | ⟨t, ht, hh⟩
      · exact h
      · have := hinv.skip_stop i h; rw [hc.stop] at this; cases this
      · have hd := hdone t ht
        cases hp : s.pcs t with
        | doneOk => rw [hp] at hh; cases hh
        | doneErr => rw [hp] at hh; cases hh
        | fetch => simp [hp, Pc.isDone] at hd
        | check i => simp [hp, Pc.isDone] at hd
        | consume i => simp [hp, Pc.isDone] at hd
        | failing => simp [hp, Pc.isDone] at hd
  · rintro ⟨t, _, ht⟩
    exact (hc.pcs t).2 ht

/-- The result is `Err` exactly when some `consume` call failed (once all threads have returned). -/
theorem early_stop_result (n k : Nat) (sched : List Ev) (s : Sys)
    (hrun : runSched (Sys.init n k) sched = some s) (hdone : s.allDone) :
    s.resultErr ↔ ∃ c ∈ s.consumed, c.2.2 = false := by
  obtain ⟨hinv, _, _⟩ := run_inv sched _ s (inv_init n k) hrun
  constructor
  · rintro ⟨t, ht, hp⟩
    obtain ⟨c, hc, _, h2⟩ := hinv.err_has t ht (Or.inr hp)
    exact ⟨c, hc, h2⟩
  · rintro ⟨c, hc, hf⟩
    have ht := hinv.cons_thread c hc
    refine ⟨c.1, ht, ?_⟩
    cases hinv.err_pc c hc hf with
    | inl h => have := hdone c.1 ht; simp [h, Pc.isDone] at this
    | inr h => exact h

/-- Early stop: from any state in which the stop flag is set (by a failed `consume`, or from
outside), in EVERY continuation each thread calls `consume` at most once more — and only if it had
already passed its stop check for an item (`budget`); all other claimed items are skipped. -/
theorem early_stop (s s' : Sys) (cont : List Ev) (hstop : s.stop = true)
    (hrun : runSched s cont = some s') (t : Nat) :
    (cont.filter (isConsumeBy t)).length ≤ budget (s.pcs t) ∧ budget (s.pcs t) ≤ 1 := by
  refine ⟨run_budget t cont s s' hstop hrun, ?_⟩
  cases s.pcs t <;> simp [budget]

/-- Termination: in every schedule the workers perform at most `3·n + k` atomic actions in total,
and a thread that has not returned can always act — so every maximal run ends with all threads
returned, whatever the scheduler does (no deadlock, no livelock). -/
theorem slice_terminates (n k : Nat) (sched : List Ev) (s : Sys)
    (hrun : runSched (Sys.init n k) sched = some s) :
    (sched.filter isWorker).length ≤ 3 * n + k
    ∧ (¬ s.allDone → ∃ e, isWorker e = true ∧ (step s e).isSome = true) := by
  constructor
  · have := run_measure sched _ s (inv_init n k) hrun
    have hi : GixModel.C51.measure (Sys.init n k) = 3 * n + k := by
      simp [GixModel.C51.measure, Sys.init, sumW_init]
    omega
  · intro hnd
    simp only [Sys.allDone, Classical.not_forall] at hnd
    obtain ⟨t, ht, hnd⟩ := hnd
    exact progress s t ht (by simpa using hnd)

-- non-vacuity: 2 threads, 2 items; thread 1 fails on item 1 while thread 0 consumes item 0;
-- accepted by `step`, ends with all threads returned, result Err, both items consumed once
example :
    (runSched (Sys.init 2 2)
      [Ev.fetch 0, Ev.fetch 1, Ev.load 1, Ev.load 0, Ev.consumeErr 1, Ev.consumeOk 0, Ev.store 1,
       Ev.fetch 0]).map (fun s => (s.consumed, s.stop, s.pcs 0, s.pcs 1))
      = some ([(0, 0, true), (1, 1, false)], true, Pc.doneOk, Pc.doneErr) := by decide
-- a calm schedule (hypotheses of `slice_exactly_once`): 3 threads, 2 items
example :
    (runSched (Sys.init 2 3)
      [Ev.fetch 2, Ev.fetch 0, Ev.fetch 1, Ev.load 0, Ev.load 2, Ev.consumeOk 0, Ev.consumeOk 2, Ev.fetch 0,
       Ev.fetch 2]).map (fun s => (s.consumedIdx, s.pcs 0, s.pcs 1, s.pcs 2))
      = some ([0, 1], Pc.doneOk, Pc.doneOk, Pc.doneOk) := by decide

/-! ### (c) in_parallel / Stepwise -/

/-- In every reachable state no item was consumed twice, every consumed item is an input item,
the reducer was fed no result twice, and only results of consumed items. -/
theorem chan_at_most_once (n k : Nat) (hk : 1 ≤ k) (sched : List CEv) (c : Chan)
    (hrun : crun (Chan.init n k) sched = some c) :
    c.consumedIdx.Nodup ∧ (∀ i ∈ c.consumedIdx, i < n) ∧ c.fed.Nodup ∧ (∀ i ∈ c.fed, i ∈ c.consumedIdx) := by
  obtain ⟨hinv, hn, _⟩ := crun_inv sched _ c (cinv_init n k hk) hrun
  simp only [Chan.init] at hn
  refine ⟨hinv.cons_nd, ?_, hinv.fed_nd, ?_⟩
  · intro i hi
    have hle := hinv.sent_le
    rcases (hinv.cons_iff i).mp hi with ⟨t, ht, hp⟩ | h | h | h
    · have := hinv.held_lt t i ht (by rw [hp]; rfl); omega
    · have := hinv.outq_lt i h; omega
    · have := hinv.fed_lt i h; omega
    · have := hinv.lost_lt i h; omega
  · intro i hi
    exact (hinv.cons_iff i).mpr (Or.inr (Or.inr (Or.inl hi)))

/-- When `in_parallel` gets to call `reducer.finalize()` — for any number of workers and any
interleaving — every input item `0..n-1` was consumed exactly once and the reducer was fed the
result of every item exactly once (`reducer_gets_all`). -/
theorem chan_exactly_once (n k : Nat) (hk : 1 ≤ k) (sched : List CEv) (c : Chan)
    (hrun : crun (Chan.init n k) sched = some c) (hfin : c.rpc = RPc.finalized) :
    c.consumedIdx.Nodup ∧ (∀ i, i ∈ c.consumedIdx ↔ i < n) ∧ c.fed.Nodup ∧ (∀ i, i ∈ c.fed ↔ i < n) := by
  obtain ⟨hinv, hn, hkk⟩ := crun_inv sched _ c (cinv_init n k hk) hrun
  simp only [Chan.init] at hn hkk
  obtain ⟨hout, hdone⟩ := hinv.fin_done hfin
  have hnf : c.rpc ≠ RPc.failed := by rw [hfin]; intro h; cases h
  have hlost : ∀ i, i ∉ c.lost := fun i hi => hnf (hinv.lost_failed i hi)
  have h0 := hinv.done_why 0 (by omega) (hdone 0 (by omega))
  have hpd : c.prodDone = true ∧ c.inQ = [] := by
    cases h0 with
    | inl h => exact absurd h hnf
    | inr h => exact h
  have hsent : c.sent = c.n := by
    cases hinv.prod_why hpd.1 with
    | inl h => exact h
    | inr h => exact absurd h hnf
  have hfed : ∀ i, i ∈ c.fed ↔ i < n := by
    intro i
    constructor
    · intro hi; have := hinv.fed_lt i hi; omega
    · intro hi
      rcases hinv.cover i (by omega) with h | ⟨t, ht, hh⟩ | h | h | h
      · rw [hpd.2] at h; cases h
      · rw [hdone t ht] at hh; cases hh
      · rw [hout] at h; cases h
      · exact h
      · exact absurd h (hlost i)
  refine ⟨hinv.cons_nd, ?_, hinv.fed_nd, hfed⟩
  intro i
  rw [hinv.cons_iff i, ← hfed i]
  constructor
  · rintro (⟨t, ht, hp⟩ | h | h | h)
    · rw [hdone t ht] at hp; cases hp
    · rw [hout] at h; cases h
    · exact h
    · exact absurd h (hlost i)
  · intro h; exact Or.inr (Or.inr (Or.inl h))

/-- Early stop: once the reducer failed (or the step-wise iterator was dropped), in every
continuation each worker consumes at most one more item, so at most `k` more in total. -/
theorem chan_early_stop (c c' : Chan) (cont : List CEv) (hfailed : c.rpc = RPc.failed)
    (hrun : crun c cont = some c') (t : Nat) :
    (cont.filter (isChanConsumeBy t)).length ≤ 1 := by
  have := crun_budget t cont c c' hfailed hrun
  have hb : wbudget (c.wpcs t) ≤ 1 := by cases c.wpcs t <;> simp [wbudget]
  omega

/-- No deadlock and no livelock, for every `n`, every `k ≥ 1` (channel capacities `k`), whether
the reducer fails, the receiver is dropped, or everything succeeds: a schedule has at most
`5·n + k + 2` steps, and in every reachable state that is not terminal (feeder, all workers and
the caller have returned) some thread can act. -/
theorem chan_no_deadlock (n k : Nat) (hk : 1 ≤ k) (sched : List CEv) (c : Chan)
    (hrun : crun (Chan.init n k) sched = some c) :
    sched.length ≤ 5 * n + k + 2 ∧ (¬ c.terminal → ∃ e, (cstep c e).isSome = true) := by
  obtain ⟨hinv, _, _⟩ := crun_inv sched _ c (cinv_init n k hk) hrun
  constructor
  · have := crun_measure sched _ c (cinv_init n k hk) hrun
    have hi : cmeasure (Chan.init n k) = 5 * n + k + 2 := by
      simp [cmeasure, Chan.init, sumWW_init]
    omega
  · exact chan_progress c hinv

/-- The bounded channels bound the work in flight: in every reachable state neither queue holds
more than `k` entries, hence at most `2·k` consumed results are not yet handed to the reducer
(result queue + one per worker) — what the harness asserts on the real code with a slow reducer. -/
theorem chan_bounded (n k : Nat) (sched : List CEv) (c : Chan) (hrun : crun (Chan.init n k) sched = some c) :
    c.inQ.length ≤ k ∧ c.outQ.length ≤ k := by
  have h := crun_bounded sched (Chan.init n k) c (by simp [Chan.init]) hrun
  have hk : c.k = k := by
    have : ∀ (l : List CEv) (a b : Chan), crun a l = some b → b.k = a.k := by
      intro l
      induction l with
      | nil => intro a b hr; simp only [crun, Option.some.injEq] at hr; subst hr; rfl
      | cons e es ih =>
        intro a b hr
        simp only [crun] at hr
        cases hst : cstep a e with
        | none => simp [hst] at hr
        | some a1 => simp only [hst] at hr; rw [ih a1 b hr]; exact (cstep_nk hst).2
    simpa [Chan.init] using this sched _ c hrun
  rw [hk] at h
  exact h

/-- Dropping a step-wise run (the result receiver goes away at ANY reachable moment) terminates
all its threads: afterwards every continuation is finite (bounded by the measure), keeps being able
to move until feeder and workers have all returned, and no worker consumes more than one further
item. -/
theorem stepwise_drop_terminates (n k : Nat) (hk : 1 ≤ k) (before after : List CEv) (c : Chan)
    (hrun : crun (Chan.init n k) (before ++ CEv.drop :: after) = some c) :
    c.rpc = RPc.failed
    ∧ (before ++ CEv.drop :: after).length ≤ 5 * n + k + 2
    ∧ (¬ c.terminal → ∃ e, (cstep c e).isSome = true)
    ∧ (c.terminal → c.prodDone = true ∧ ∀ t, t < k → c.wpcs t = WPc.done) := by
  obtain ⟨h1, h2⟩ := chan_no_deadlock n k hk _ c hrun
  obtain ⟨_, _, hkk⟩ := crun_inv _ _ c (cinv_init n k hk) hrun
  simp only [Chan.init] at hkk
  refine ⟨?_, h1, h2, ?_⟩
  · -- the flag never leaves `failed`
    have hsplit : ∀ (l1 : List CEv) (c0 : Chan), crun c0 (l1 ++ CEv.drop :: after) = some c → c.rpc = RPc.failed := by
      intro l1
      induction l1 with
      | nil =>
        intro c0 hr
        simp only [List.nil_append, crun] at hr
        cases hd : cstep c0 CEv.drop with
        | none => simp [hd] at hr
        | some c1 =>
          simp only [hd] at hr
          have hf1 : c1.rpc = RPc.failed := by
            simp only [cstep] at hd
            split at hd
            · simp only [Option.some.injEq] at hd; subst hd; rfl
            · cases hd
          have hkeep : ∀ (l : List CEv) (a b : Chan), a.rpc = RPc.failed → crun a l = some b → b.rpc = RPc.failed := by
            intro l
            induction l with
            | nil => intro a b ha hr; simp only [crun, Option.some.injEq] at hr; subst hr; exact ha
            | cons e es ih =>
              intro a b ha hr
              simp only [crun] at hr
              cases hst : cstep a e with
              | none => simp [hst] at hr
              | some a1 =>
                simp only [hst] at hr
                exact ih a1 b (cstep_budget 0 ha hst).1 hr
          exact hkeep after c1 c hf1 hr
      | cons e es ih =>
        intro c0 hr
        simp only [List.cons_append, crun] at hr
        cases hst : cstep c0 e with
        | none => simp [hst] at hr
        | some c1 => simp only [hst] at hr; exact ih c1 hr
    exact hsplit before _ hrun
  · intro ht
    refine ⟨ht.1, ?_⟩
    intro t htk
    exact (allWorkersDone_iff c.wpcs c.k).mp ht.2.1 t (by omega)

-- non-vacuity: 2 items, 2 workers, everything succeeds: accepted by `cstep`, ends finalized with
-- both results fed
example :
    (crun (Chan.init 2 2)
      [CEv.prodSend, CEv.prodSend, CEv.recv 1, CEv.recv 0, CEv.consume 0, CEv.consume 1, CEv.prodEnd, CEv.send 0,
       CEv.send 1, CEv.feedOk, CEv.workerEnd 0, CEv.workerEnd 1, CEv.feedOk, CEv.finalize]).map
      (fun c => (c.fed, c.consumedIdx, c.rpc)) = some ([0, 1], [0, 1], RPc.finalized) := by decide
-- the reducer fails on the first result; the other worker's send fails, everybody returns
example :
    (crun (Chan.init 2 2)
      [CEv.prodSend, CEv.prodSend, CEv.recv 1, CEv.recv 0, CEv.consume 0, CEv.send 0, CEv.feedErr, CEv.consume 1,
       CEv.sendFail 1, CEv.prodEnd, CEv.workerEnd 0]).map
      (fun c => (c.fed, c.lost, c.rpc, c.wpcs 0, c.wpcs 1, c.prodDone)) = some ([], [0, 1], RPc.failed, WPc.done, WPc.done, true) := by
  decide

/-- The property, over the three models, in one statement. -/
def C51_full : Prop :=
  (∀ (n : Nat) (f : Nat → Nat) (arrival : List Nat), arrival.Perm (List.range n) →
      collect (arrival.map fun i => Item.ok i (f i)) = (List.range n).map fun i => Out.val (f i))
  ∧ (∀ (n k : Nat) (sched : List Ev) (s : Sys), runSched (Sys.init n k) sched = some s →
      s.consumedIdx.Nodup ∧ (∀ i ∈ s.consumedIdx, i < n) ∧
      (1 ≤ k → (∀ e ∈ sched, e.disturbs = false) → s.allDone → ∀ i, i ∈ s.consumedIdx ↔ i < n))
  ∧ (∀ (n k : Nat), 1 ≤ k → ∀ (sched : List CEv) (c : Chan), crun (Chan.init n k) sched = some c →
      c.consumedIdx.Nodup ∧ c.fed.Nodup ∧
      (c.rpc = RPc.finalized → (∀ i, i ∈ c.consumedIdx ↔ i < n) ∧ (∀ i, i ∈ c.fed ↔ i < n)) ∧
      (¬ c.terminal → ∃ e, (cstep c e).isSome = true))

theorem C51_full_holds : C51_full := by
  refine ⟨fun n f a h => inorder_sorted n f a h, ?_, ?_⟩
  · intro n k sched s hrun
    obtain ⟨a, b, _⟩ := slice_at_most_once n k sched s hrun
    exact ⟨a, b, fun hk hc hd => (slice_exactly_once n k hk sched s hrun hc hd).2.1⟩
  · intro n k hk sched c hrun
    obtain ⟨a, _, b, _⟩ := chan_at_most_once n k hk sched c hrun
    refine ⟨a, b, ?_, (chan_no_deadlock n k hk sched c hrun).2⟩
    intro hfin
    obtain ⟨_, x, _, y⟩ := chan_exactly_once n k hk sched c hrun hfin
    exact ⟨x, y⟩

end GixModel.Props.C51
