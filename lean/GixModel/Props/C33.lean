import GixModel.Lemmas.C33
/-
C33 — URLs serialize to strings that parse back to the same URL.  PROPERTY THEOREMS ONLY.

Model: `Model/C33.lean` — gix-url's own logic (find_scheme, url incl. the MAX_LEN guard, scp,
file_url, local, write_to), with the WHATWG parser of the `url` crate as parameter `P` and
`str::from_utf8` as parameter `utf8`. Their assumed contracts are the named hypotheses
`PContract` and `Utf8Contract` (Lemmas/C33.lean); the harness feeds the real crate's answers to the
model and tests the contract on the real crate for every generated case.

`RoundTrips P utf8 input`: if `input` parses to `u`, then `u.to_bstring()` exists (no panic) and
parses to `u` again.
-/
namespace GixModel.Props.C33
open GixModel GixModel.C33

/-- Classification, hypothesis-free: an input containing `://` is a URL whose scheme ends at the
FIRST `://`, whatever else it contains (`"://"` precedence). -/
theorem url_classification (input : Bytes) (pe : Nat) :
    findScheme input = .url pe ↔ findCSS input = some pe := by
  constructor
  · exact findScheme_url_inv
  · intro h; simp [findScheme, h]

/-- Classification, hypothesis-free: without `://`, an input is scp-like iff it has a `:` and no `/`
before the first `:` (colon-before-slash rule); `colon` is the position of that first `:`. -/
theorem scp_classification (input : Bytes) (colon : Nat) :
    findScheme input = .scp colon ↔
      findCSS input = none ∧ findByte 58 input = some colon ∧ (input.take colon).contains 47 = false := by
  constructor
  · exact findScheme_scp_inv
  · intro ⟨h1, h2, h3⟩; simp only [findScheme, h1, h2, h3]; simp

/-- Local paths (everything that is neither a URL nor scp-like), for ANY bytes and ANY behaviour of the
external parser: the serialisation is the input itself, so it is classified and parsed identically. -/
theorem local_roundtrip (P : Bytes → Option StdUrl) (utf8 : Bytes → Bool) (input : Bytes)
    (hc : findScheme input = .loc) : RoundTrips P utf8 input :=
  local_rt P utf8 input hc

example : findScheme [46, 47, 97, 58, 98] = .loc := by decide
example : parse (fun _ => none) (fun _ => false) [47, 120, 47, 255] = .ok ⟨.file, none, none, none, true, none, [47, 120, 47, 255]⟩ := by rfl

/-- `file://…` URLs (scheme compared case-insensitively), for any behaviour of the external parser (it
is not consulted): the serialisation is `file://` + what followed `://`, which is classified as a file URL
again (classification is stable) and parsed to the same host and path. -/
theorem file_url_roundtrip (P : Bytes → Option StdUrl) (utf8 : Bytes → Bool) (hU : Utf8Contract utf8)
    (input : Bytes) (pe : Nat) (hc : findScheme input = .url pe)
    (hf : eqIgnoreCase (input.take pe) bFile = true) : RoundTrips P utf8 input :=
  file_rt P utf8 hU input pe hc hf

example : findScheme [70, 73, 76, 69, 58, 47, 47, 104, 111, 115, 116, 47, 97, 58, 47, 47, 98] = .url 4 := by decide
example : parse (fun _ => none) (fun _ => true) [70, 73, 76, 69, 58, 47, 47, 104, 111, 115, 116, 47, 97, 58, 47, 47, 98] =
    .ok ⟨.file, none, none, some [104, 111, 115, 116], false, none, [47, 97, 58, 47, 47, 98]⟩ := by rfl

/-- scp-like inputs (`[user@]host:path`), relative to the url crate's contract: the serialisation
`[user@]host:path` has no `://`, its first `:` is the one gix-url wrote, no `/` precedes it — so it is
classified scp-like at that colon again, and the url crate (idempotent on gix-url's rendering) yields the
same user and host; the path is carried over byte for byte. -/
theorem scp_roundtrip (P : Bytes → Option StdUrl) (utf8 : Bytes → Bool) (hU : Utf8Contract utf8)
    (hP : PContract P utf8) (input : Bytes) (colon : Nat) (hc : findScheme input = .scp colon) :
    RoundTrips P utf8 input :=
  scp_rt P utf8 hU hP input colon hc

/-- URL form (`scheme://…`, scheme not `file`), relative to the url crate's contract, with two side
conditions on the parsed URL: its scheme is not `file` in any letter case (such a URL re-parses through
`file_url`), and its serialisation passes the MAX_LEN guard of `parse::url` (otherwise: known finding,
`C33_full_false`). Then the serialisation starts with the scheme and `://`, is classified as a URL ending
the scheme at the same place, passes every check `parse::url` makes, and yields the same fields. -/
theorem url_roundtrip (P : Bytes → Option StdUrl) (utf8 : Bytes → Bool) (hU : Utf8Contract utf8)
    (hP : PContract P utf8) (input : Bytes) (pe : Nat) (hc : findScheme input = .url pe)
    (hnf : eqIgnoreCase (input.take pe) bFile = false) (u : Url) (hu : parse P utf8 input = .ok u)
    (hnotfile : eqIgnoreCase u.scheme.asBytes bFile = false)
    (hlen : ∀ w, write u = some w → exceedsMaxLen w u.scheme.asBytes.length = false) :
    ∃ w, write u = some w ∧ parse P utf8 w = .ok u :=
  url_rt P utf8 hU hP input pe hc hnf u hu hnotfile hlen

/-- All forms together: every input that parses round-trips, under the two external contracts and — for
the URL form only — the two side conditions of `url_roundtrip`. -/
theorem roundtrip_partial (P : Bytes → Option StdUrl) (utf8 : Bytes → Bool) (hU : Utf8Contract utf8)
    (hP : PContract P utf8) (input : Bytes) (u : Url) (hu : parse P utf8 input = .ok u)
    (hside : ∀ pe, findScheme input = .url pe → eqIgnoreCase (input.take pe) bFile = false →
      eqIgnoreCase u.scheme.asBytes bFile = false ∧
      ∀ w, write u = some w → exceedsMaxLen w u.scheme.asBytes.length = false) :
    ∃ w, write u = some w ∧ parse P utf8 w = .ok u := by
  cases hc : findScheme input with
  | loc => exact local_rt P utf8 input hc u hu
  | scp colon => exact scp_rt P utf8 hU hP input colon hc u hu
  | url pe =>
    cases hf : eqIgnoreCase (input.take pe) bFile with
    | true => exact file_rt P utf8 hU input pe hc hf u hu
    | false =>
      obtain ⟨h1, h2⟩ := hside pe hc hf
      exact url_rt P utf8 hU hP input pe hc hf u hu h1 h2

/-- The property at full strength, relative to the external contracts only (no side condition). -/
def C33_full : Prop :=
  ∀ (P : Bytes → Option StdUrl) (utf8 : Bytes → Bool), Utf8Contract utf8 → PContract P utf8 →
    ∀ input, RoundTrips P utf8 input

/-- non-vacuity of the contracts: `longHostP` (with every byte string counting as UTF-8) satisfies them -/
theorem longHostP_contract : Utf8Contract (fun _ => true) ∧ PContract longHostP (fun _ => true) := by
  refine ⟨⟨fun _ _ => rfl, fun _ _ _ _ => rfl, fun _ _ _ _ _ => rfl, fun _ _ _ _ _ => rfl⟩, ?_⟩
  refine ⟨?_, ?_, ?_, ?_, ?_, ?_⟩
  · intro x s _; exact ⟨rfl, rfl, fun _ _ => rfl, fun _ _ => rfl, rfl⟩
  · intro x s h; simp only [longHostP, Option.some.injEq] at h; subst h; decide
  · intro x s h hu; simp only [longHostP, Option.some.injEq] at h; subst h; simp [urlUser] at hu
  · intro x s w h _ _
    exact ⟨s, by simp only [longHostP] at h ⊢; exact h, rfl, by
      simp only [longHostP, Option.some.injEq] at h; subst h; rfl⟩
  · intro h s _ hs
    simp only [longHostP, Option.some.injEq] at hs
    subst hs
    refine ⟨rfl, rfl, rfl, by simp, by simp, ?_⟩
    intro hh hhh
    simp only [Option.some.injEq] at hhh
    subst hhh
    constructor <;> (intro hm; have := List.eq_of_mem_replicate hm; revert this; decide)
  · intro h s a hs _
    exact ⟨s, by simp only [longHostP] at hs ⊢; exact hs, rfl⟩

/-- FALSE today: a short URL can parse to one whose serialisation exceeds the MAX_LEN guard (here because
the external parser hands back a long host; with the real `url` crate because it percent-encodes
`é` → `%C3%A9` in user, password and host). The real-code witness `ssh://<342 × é>@host/x` is replayed by
the harness (known finding). -/
theorem C33_full_false : ¬ C33_full := by
  intro h
  have hrt := h longHostP (fun _ => true) longHostP_contract.1 longHostP_contract.2 [115, 115, 104, 58, 47, 47, 104, 47, 120]
  obtain ⟨w, hw, hp⟩ := hrt ⟨.ssh, none, none, some (List.replicate 1025 97), false, none, [47, 120]⟩ (by rfl)
  have hw' : w = bSsh ++ bCSS ++ List.replicate 1025 97 ++ [47, 120] := by
    have : write ⟨.ssh, none, none, some (List.replicate 1025 97), false, none, [47, 120]⟩ =
        some (bSsh ++ bCSS ++ List.replicate 1025 97 ++ [47, 120]) := by
      decide +kernel
    rw [this] at hw
    exact (Option.some.inj hw).symm
  subst hw'
  have hbad : (match parse longHostP (fun _ => true) (bSsh ++ bCSS ++ List.replicate 1025 97 ++ [47, 120]) with
      | .ok _ => true
      | .error _ => false) = false := by decide +kernel
  rw [hp] at hbad
  simp at hbad

end GixModel.Props.C33
