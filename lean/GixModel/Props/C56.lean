import GixModel.Lemmas.C56
import GixModel.Lemmas.C56Toy
import GixModel.Lemmas.C56StoredD
import GixModel.Lemmas.C11
/-
C56 — Streaming compression and hashing do not depend on chunking.  PROPERTY THEOREMS ONLY.

External components are parameters: the compressor/decompressor (`flate2`) with the contracts
`CompressorOk` / `DecompressorOk` (Lemmas/C56.lean) relative to an abstract `IsStream z d`
("`z` is a complete zlib stream with content `d`"), and the SHA-1 block function `f` (ANY function
`H5 → Bytes → H5`; nothing is assumed about it). Everything around them is gitoxide's code as
modelled in Model/C56.lean: `deflate::Write::{write_inner,write,flush}`, `inflate::read`,
`hash::{Hasher,Write,bytes_with_hasher}`, `compute_hash`, `compute_stream_hash`, `write_all`.
-/
namespace GixModel.Props.C56
open GixModel GixModel.C56

/-! ### deflate -/

/-- `write_inner` terminates and `write` takes the whole buffer in ONE call: for every writer state
reached from `new`, every buffer and every fuel above the compressor's rank the result is
`Ok(buf.len())` (never `Err`, never a slice panic, never out of fuel), and the sink keeps holding
exactly what the compressor produced for all input so far. -/
theorem write_consumes_reported {C : Compressor} {IsStream : Bytes → Bytes → Prop}
    (K : CompressorOk C IsStream) (fuel : Nat) (w : Writer C.σ) (sofar buf : Bytes)
    (hw : w.Ok K sofar) (hf : K.rank w.comp buf.length .none < fuel) :
    ∃ w', Writer.write C fuel w buf = .ok (w', buf.length) ∧ w'.Ok K (sofar ++ buf) :=
  Writer.write_ok K fuel w buf sofar hw hf

/-- `flush` (= `write_inner(&[], Finish)`) terminates with `Ok` and leaves a complete stream of
everything written in the sink. -/
theorem flush_completes_stream {C : Compressor} {IsStream : Bytes → Bytes → Prop}
    (K : CompressorOk C IsStream) (fuel : Nat) (w : Writer C.σ) (sofar : Bytes)
    (hw : w.Ok K sofar) (hf : K.rank w.comp 0 .finish < fuel) :
    ∃ w', Writer.flush C fuel w = .ok w' ∧ IsStream w'.inner sofar :=
  Writer.flush_ok K fuel w sofar hw hf

/-- Chunking independence of compression: for EVERY list of write buffers (any number, any sizes,
empty ones included), writing them one `write` call each into a fresh `deflate::Write` and then
flushing succeeds, every `write` returns the full length of its buffer, and the sink holds a
complete stream whose content is the concatenation of the buffers. -/
theorem chunking_independent_deflate {C : Compressor} {IsStream : Bytes → Bytes → Prop}
    (K : CompressorOk C IsStream) (fuelW : Writer C.σ → Bytes → Nat) (fuelF : Writer C.σ → Nat)
    (hW : ∀ w c, K.rank w.comp c.length .none < fuelW w c) (hF : ∀ w, K.rank w.comp 0 .finish < fuelF w)
    (chunks : List Bytes) :
    ∃ z, deflateChunks C fuelW fuelF (Writer.new C) chunks = .ok z ∧ IsStream z chunks.flatten := by
  simpa using deflateChunks_ok K fuelW fuelF hW hF chunks (Writer.new C) [] (Writer.new_ok K)

/-- Two chunkings of the same data give streams with the same content. -/
theorem chunking_independent_deflate_pair {C : Compressor} {IsStream : Bytes → Bytes → Prop}
    (K : CompressorOk C IsStream) (fuelW : Writer C.σ → Bytes → Nat) (fuelF : Writer C.σ → Nat)
    (hW : ∀ w c, K.rank w.comp c.length .none < fuelW w c) (hF : ∀ w, K.rank w.comp 0 .finish < fuelF w)
    (chunks₁ chunks₂ : List Bytes) (h : chunks₁.flatten = chunks₂.flatten) :
    ∃ z₁ z₂, deflateChunks C fuelW fuelF (Writer.new C) chunks₁ = .ok z₁ ∧
      deflateChunks C fuelW fuelF (Writer.new C) chunks₂ = .ok z₂ ∧
      IsStream z₁ chunks₁.flatten ∧ IsStream z₂ chunks₁.flatten := by
  obtain ⟨z₁, h1, h2⟩ := chunking_independent_deflate K fuelW fuelF hW hF chunks₁
  obtain ⟨z₂, h3, h4⟩ := chunking_independent_deflate K fuelW fuelF hW hF chunks₂
  exact ⟨z₁, z₂, h1, h3, h2, by rw [h]; exact h4⟩

/-- The inner writer of `deflate::Write` may accept only part of each batch: `write_inner` hands every batch
of compressed bytes to `inner.write_all`, and `write_all` into ANY writer that takes at most `maxWrite`
bytes per call (any `maxWrite`; 0 = no limit) delivers exactly the batch — so what the inner writer
ends up holding does not depend on its acceptance pattern (the model's `Writer.inner`, an append, is
the common result). -/
theorem inner_write_all_independent (maxWrite : Nat) (s : List Bytes) (buf : Bytes) :
    ∃ s', writeAll (sinkWrite maxWrite) s buf = .ok s' ∧ sinkContent s' = sinkContent s ++ buf :=
  sink_writeAllWith maxWrite (buf.length + 1) s buf (by omega)

/-- `inflate::read` over a complete stream, delivered by the `BufRead` in ANY non-empty chunks,
returns the first `dst.len()` bytes of the content — all of it when `dst` is at least as long. -/
theorem inflate_read_chunking_independent {D : Decompressor} {IsStream : Bytes → Bytes → Prop}
    (K : DecompressorOk D IsStream) (z d : Bytes) (hz : IsStream z d) (rd : BufRead)
    (hrd : rd.flatten = z) (hne : ∀ c ∈ rd, c ≠ []) (dstLen : Nat) :
    ∃ r, inflateRead D D.init rd dstLen = .ok r ∧ r.out = d.take dstLen :=
  inflateRead_valid K z d hz rd hrd hne dstLen

/-- The property's first sentence end to end: any sequence of writes, then `flush`, then
`inflate::read` of the produced bytes in any chunking into a large enough buffer gives back the
concatenated input. -/
theorem deflate_then_inflate_is_identity {C : Compressor} {D : Decompressor} {IsStream : Bytes → Bytes → Prop}
    (KC : CompressorOk C IsStream) (KD : DecompressorOk D IsStream)
    (fuelW : Writer C.σ → Bytes → Nat) (fuelF : Writer C.σ → Nat)
    (hW : ∀ w c, KC.rank w.comp c.length .none < fuelW w c) (hF : ∀ w, KC.rank w.comp 0 .finish < fuelF w)
    (chunks : List Bytes) :
    ∃ z, deflateChunks C fuelW fuelF (Writer.new C) chunks = .ok z ∧
      ∀ (rd : BufRead), rd.flatten = z → (∀ c ∈ rd, c ≠ []) → ∀ dstLen, chunks.flatten.length ≤ dstLen →
        ∃ r, inflateRead D D.init rd dstLen = .ok r ∧ r.out = chunks.flatten := by
  obtain ⟨z, h1, h2⟩ := chunking_independent_deflate KC fuelW fuelF hW hF chunks
  refine ⟨z, h1, ?_⟩
  intro rd hrd hne dstLen hlen
  obtain ⟨r, h3, h4⟩ := inflateRead_valid KD z chunks.flatten h2 rd hrd hne dstLen
  exact ⟨r, h3, by rw [h4, List.take_of_length_le hlen]⟩

/-- Non-vacuity of the two contracts: there is a codec (Lemmas/C56Toy.lean: every content byte `b` as the
pair `1 b`, terminator `0`) whose compressor satisfies `CompressorOk` and whose decompressor satisfies
`DecompressorOk` for the SAME stream relation, which relates non-empty contents, too. -/
theorem contracts_satisfiable :
    ∃ (C : Compressor) (D : Decompressor) (IsStream : Bytes → Bytes → Prop),
      Nonempty (CompressorOk C IsStream) ∧ Nonempty (DecompressorOk D IsStream) ∧
      ∃ z d, IsStream z d ∧ d ≠ [] :=
  ⟨Toy.compressor, Toy.decompressor, Toy.IsToy, ⟨Toy.compressorOk⟩, ⟨Toy.decompressorOk⟩,
    Toy.enc [7], [7], rfl, by simp⟩

-- the end-to-end theorem instantiated with that codec (all its hypotheses are met)
example (chunks : List Bytes) :=
  deflate_then_inflate_is_identity Toy.compressorOk Toy.decompressorOk
    (fun w c => Toy.compressorOk.rank w.comp c.length .none + 1) (fun w => Toy.compressorOk.rank w.comp 0 .finish + 1)
    (fun _ _ => Nat.lt_succ_self _) (fun _ => Nat.lt_succ_self _) chunks

/-! ### the codec the drivers run -/

/-- The stored-block codec the Lean drivers EXECUTE (`Stored.compressor`: header, stored blocks of at most
`min 65535 (cap - 16)` bytes, final empty block, Adler-32; `Stored.decompressor`: a byte-wise inflater for
stored blocks that checks LEN/NLEN and the Adler-32) satisfies both contracts, relative to
`Stored.IsStoredNE z d` ("`z` is a zlib stream of non-empty stored blocks with content `d`"). So every theorem
above holds for the code the differential checks compare with the real `flate2`. -/
theorem stored_codec_ok :
    Nonempty (CompressorOk Stored.compressor Stored.IsStoredNE) ∧
    Nonempty (DecompressorOk Stored.decompressor Stored.IsStoredNE) :=
  ⟨⟨Stored.compressorOk⟩, ⟨Stored.decompressorOk⟩⟩

/-- the end-to-end theorem for the executed codec WITH THE FUEL THE DRIVERS PASS (`Stored.fuelFor`): any
sequence of writes and a flush give a stream of non-empty stored blocks whose content is the concatenated
input, and `inflate::read` of it in any chunking gives the input back -/
theorem stored_deflate_then_inflate (chunks : List Bytes) :
    ∃ z, deflateChunks Stored.compressor (fun w b => Stored.fuelFor w b.length) (fun w => Stored.fuelFor w 0)
        (Writer.new Stored.compressor) chunks = .ok z ∧
      Stored.IsStoredNE z chunks.flatten ∧
      ∀ (rd : BufRead), rd.flatten = z → (∀ c ∈ rd, c ≠ []) → ∀ dstLen, chunks.flatten.length ≤ dstLen →
        ∃ r, inflateRead Stored.decompressor Stored.decompressor.init rd dstLen = .ok r ∧ r.out = chunks.flatten := by
  obtain ⟨z, h1, h2⟩ := chunking_independent_deflate Stored.compressorOk
    (fun w b => Stored.fuelFor w b.length) (fun w => Stored.fuelFor w 0)
    (by intro w c; simp only [Stored.compressorOk, Stored.fuelFor]; split <;> omega)
    (by intro w; simp only [Stored.compressorOk, Stored.fuelFor]; split <;> omega) chunks
  refine ⟨z, h1, h2, ?_⟩
  intro rd hrd hne dstLen hlen
  obtain ⟨r, hr1, hr2⟩ := inflate_read_chunking_independent Stored.decompressorOk z chunks.flatten h2 rd hrd hne dstLen
  exact ⟨r, hr1, by rw [hr2, List.take_of_length_le hlen]⟩

/-! ### hashing (for ANY block function `f`) -/

/-- `update(a); update(b)` is `update(a ++ b)` -/
theorem sha1_update_append (f : BlockFn) (s : Sha1) (a b : Bytes) :
    (s.update f a).update f b = s.update f (a ++ b) :=
  Sha1.update_append f s a b

/-- feeding any chunking of the data gives the same hasher state, hence the same digest -/
theorem hash_chunking_independent (f : BlockFn) (chunks₁ chunks₂ : List Bytes)
    (h : chunks₁.flatten = chunks₂.flatten) :
    (chunks₁.foldl (Sha1.update f) Sha1.new).digest f = (chunks₂.foldl (Sha1.update f) Sha1.new).digest f := by
  rw [Sha1.foldl_update f chunks₁ _ Sha1.new_wf, Sha1.foldl_update f chunks₂ _ Sha1.new_wf, h]

-- non-vacuity: two different chunkings of the same 5 bytes
example : ([[1, 2], [], [3, 4, 5]] : List Bytes).flatten = ([[1], [2, 3, 4], [5]] : List Bytes).flatten := by decide

/-- `hash::Write` driven by `write_all` over ANY inner writer that accepts a non-empty prefix per
call (short writes allowed): the hasher has seen exactly the buffer -/
theorem hash_write_sees_buffer {S : Type} (f : BlockFn) (innerWrite : S → Bytes → IoRes (S × Nat))
    (hacc : AcceptsPrefix innerWrite) (hw : HashWrite S) (hwf : hw.hash.WF) (buf : Bytes) :
    ∃ hw', writeAll (HashWrite.write f innerWrite) hw buf = .ok hw' ∧ hw'.hash = hw.hash.update f buf := by
  obtain ⟨hw', h⟩ := hashWrite_writeAllWith f innerWrite hacc (buf.length + 1) hw buf (by omega)
  rcases h with ⟨h1, h2⟩ | ⟨h1, h2⟩
  · exact ⟨hw', h1, h2⟩
  · exact ⟨hw, h2, by rw [h1, Sha1.update_nil f _ hwf]⟩

-- non-vacuity: the sink that takes at most 3 bytes per call accepts a non-empty prefix
example : AcceptsPrefix (sinkWrite 3) := by
  intro s buf hne
  refine ⟨_, _, rfl, ?_, ?_⟩
  · cases buf with
    | nil => exact absurd rfl hne
    | cons a l => simp; omega
  · simp; omega

/-- `compute_stream_hash` over a stream holding at least `len` bytes is `compute_hash` of its
first `len` bytes — whatever the internal 65535-byte rounds are -/
theorem object_hash_agree_stream (f : BlockFn) (k : Kind) (stream : Bytes) (len : Nat)
    (h : len ≤ stream.length) :
    computeStreamHash f k stream len = .ok (computeHash f k (stream.take len)) := by
  have hl : (stream.take len).length = len := by rw [List.length_take]; omega
  simp only [computeStreamHash, computeHash, hl]
  rcases bytesWithHasher_ok f (len + 1) (Sha1.new.update f (looseHeader k len)) stream len (by omega) h with h1 | ⟨h0, h1⟩
  · exact h1
  · rw [h1, h0]
    simp only [List.take_zero]
    rw [Sha1.update_nil f _ (Sha1.update_wf f _ _)]

/-- … and a stream that ends early is an error, never a hash of less data -/
theorem stream_hash_short_is_error (f : BlockFn) (k : Kind) (stream : Bytes) (len : Nat)
    (h : stream.length < len) : computeStreamHash f k stream len = .err :=
  bytesWithHasher_short f (len + 1) _ stream len (by omega) h

/-- hashing while writing: the loose header then the data in ANY chunking through `hash::Write`
over any prefix-accepting inner writer gives the id `compute_hash` computes in one call -/
theorem object_hash_agree_write {S : Type} (f : BlockFn) (innerWrite : S → Bytes → IoRes (S × Nat))
    (hacc : AcceptsPrefix innerWrite) (k : Kind) (chunks : List Bytes) (s0 : S) :
    ∃ hw', hashWritePieces f innerWrite { hash := Sha1.new, inner := s0 }
        (looseHeader k chunks.flatten.length :: chunks) = .ok hw' ∧
      hw'.hash.digest f = computeHash f k chunks.flatten := by
  have gen : ∀ (pieces : List Bytes) (hw : HashWrite S), hw.hash.WF →
      ∃ hw', hashWritePieces f innerWrite hw pieces = .ok hw' ∧ hw'.hash = hw.hash.update f pieces.flatten := by
    intro pieces
    induction pieces with
    | nil => intro hw hwf; exact ⟨hw, rfl, by simp [Sha1.update_nil f _ hwf]⟩
    | cons p ps ih =>
      intro hw hwf
      obtain ⟨hw1, h1, h2⟩ := hash_write_sees_buffer f innerWrite hacc hw hwf p
      obtain ⟨hw2, h3, h4⟩ := ih hw1 (by rw [h2]; exact Sha1.update_wf f _ _)
      refine ⟨hw2, ?_, ?_⟩
      · simp only [hashWritePieces, List.foldl_cons, h1] at h3 ⊢; exact h3
      · rw [h4, h2, Sha1.update_append]; simp
  obtain ⟨hw', h1, h2⟩ := gen (looseHeader k chunks.flatten.length :: chunks) { hash := Sha1.new, inner := s0 } Sha1.new_wf
  refine ⟨hw', h1, ?_⟩
  rw [h2]
  simp only [computeHash, List.flatten_cons, Sha1.update_append]

/-! ### end to end with the loose store (Model/C11.lean): the id a write returns -/

/-- `loose::Store::write_stream` / `write_buf` / typed `write` (a `hash::Write<deflate::Write<file>>` fed with
the loose header and then the body in ANY pieces) return the id `compute_hash` computes for the body in
one call — which is also what `compute_stream_hash` gives for the same bytes read from a stream.
For every compressor satisfying the contract and every block function. -/
theorem write_stream_id_is_compute_hash {C : Compressor} {IsStream : Bytes → Bytes → Prop} (K : CompressorOk C IsStream)
    (f : BlockFn) (fuelW : Writer C.σ → Bytes → Nat) (fuelF : Writer C.σ → Nat)
    (hW : ∀ w c, K.rank w.comp c.length .none < fuelW w c) (hF : ∀ w, K.rank w.comp 0 .finish < fuelF w)
    (k : Kind) (chunks : List Bytes) :
    ∃ w, C11.storeWrite C f fuelW fuelF (looseHeader k chunks.flatten.length :: chunks) = .ok w ∧
      w.id = computeHash f k chunks.flatten ∧
      computeStreamHash f k chunks.flatten chunks.flatten.length = .ok w.id := by
  obtain ⟨w, h1, h2, _, _⟩ := C11.storeWrite_ok K f fuelW fuelF hW hF (looseHeader k chunks.flatten.length :: chunks)
  have hid : w.id = computeHash f k chunks.flatten := by
    rw [h2]; simp only [computeHash, List.flatten_cons, Sha1.update_append]
  refine ⟨w, h1, hid, ?_⟩
  rw [object_hash_agree_stream f k chunks.flatten chunks.flatten.length (Nat.le_refl _), List.take_length, hid]

/-- … hence the id does not depend on how the stream was cut into pieces -/
theorem write_stream_id_chunking_independent {C : Compressor} {IsStream : Bytes → Bytes → Prop} (K : CompressorOk C IsStream)
    (f : BlockFn) (fuelW : Writer C.σ → Bytes → Nat) (fuelF : Writer C.σ → Nat)
    (hW : ∀ w c, K.rank w.comp c.length .none < fuelW w c) (hF : ∀ w, K.rank w.comp 0 .finish < fuelF w)
    (k : Kind) (chunks₁ chunks₂ : List Bytes) (h : chunks₁.flatten = chunks₂.flatten) :
    ∃ w₁ w₂, C11.storeWrite C f fuelW fuelF (looseHeader k chunks₁.flatten.length :: chunks₁) = .ok w₁ ∧
      C11.storeWrite C f fuelW fuelF (looseHeader k chunks₂.flatten.length :: chunks₂) = .ok w₂ ∧ w₁.id = w₂.id := by
  obtain ⟨w₁, a1, a2, _⟩ := write_stream_id_is_compute_hash K f fuelW fuelF hW hF k chunks₁
  obtain ⟨w₂, b1, b2, _⟩ := write_stream_id_is_compute_hash K f fuelW fuelF hW hF k chunks₂
  exact ⟨w₁, w₂, a1, b1, by rw [a2, b2, h]⟩

-- instantiated with the codec of `contracts_satisfiable`
example (f : BlockFn) (chunks : List Bytes) :=
  write_stream_id_is_compute_hash Toy.compressorOk f
    (fun w c => Toy.compressorOk.rank w.comp c.length .none + 1) (fun w => Toy.compressorOk.rank w.comp 0 .finish + 1)
    (fun _ _ => Nat.lt_succ_self _) (fun _ => Nat.lt_succ_self _) .blob chunks

end GixModel.Props.C56
