import GixModel.Lemmas.C52Casc5
/-
C52 — Dates format and parse consistently.  PROPERTY THEOREMS ONLY.

Model: `GixModel.C52` (gix-date's Time::format and parse with the jiff pieces they use), calendar:
`GixModel.Civil`. jiff is external: its calendar, strftime/strptime and RFC 2822 parser are modelled and
tied to the real crate by the correspondence harness; the theorems are about the model.
-/
namespace GixModel.Props.C52
open GixModel GixModel.C52 GixModel.Civil

/-! ### the calendar, for all of `Int` -/

/-- `civil_roundtrip`, first half: EVERY day number (unbounded) is a valid proleptic Gregorian date
and converts back to itself. -/
theorem civil_roundtrip_days (z : Int) :
    ValidDate (civilFromDays z).1 (civilFromDays z).2.1 (civilFromDays z).2.2 ∧
      daysFromCivil (civilFromDays z).1 (civilFromDays z).2.1 (civilFromDays z).2.2 = z :=
  days_civil_days z

/-- `civil_roundtrip`, second half: EVERY valid date of ANY year comes back from its day number. -/
theorem civil_roundtrip (y : Int) (m d : Nat) (hv : ValidDate y m d) : civilFromDays (daysFromCivil y m d) = (y, m, d) :=
  civil_days_civil y m d hv

example : ValidDate (-123456788) 2 29 ∧ ValidDate 2000 2 29 ∧ ¬ ValidDate 1900 2 29 := by decide
example : daysFromCivil 1970 1 1 = 0 ∧ daysFromCivil 2000 3 1 = 11017 ∧ weekday 0 = 4 := by decide

/-! ### today's format strings -/

/-- Per-run obligation on the extracted format strings and cascade order: each is understood, each is
well chained (`chainOk`: the parser stops where the formatter stopped), the four `strptime` formats
carry all of date, time and offset. -/
theorem extracted_ok :
    (parseFormat Extracted.dateFmtShort = some [.Y, .lit 45, .m, .lit 45, .d]) ∧
    ((parseFormat Extracted.dateFmtIso8601).map (fun i => chainOk i && complete i) = some true) ∧
    ((parseFormat Extracted.dateFmtIso8601Strict).map (fun i => chainOk i && complete i) = some true) ∧
    ((parseFormat Extracted.dateFmtGitoxide).map (fun i => chainOk i && complete i) = some true) ∧
    ((parseFormat Extracted.dateFmtDefault).map (fun i => chainOk i && complete i) = some true) ∧
    ((parseFormat Extracted.dateFmtRfc2822).map (fun i => chainOk i && complete i) = some true) ∧
    ((parseFormat Extracted.dateFmtGitRfc2822).map (fun i => chainOk i && complete i) = some true) ∧
    Extracted.dateParseOrder = [0, 1, 2, 3, 4, 5] := by
  decide

/-- Generic `format_parse`: for ANY format string made of the directives gix-date uses that is well
chained and complete, and for EVERY time in jiff's range whose sign field agrees with its offset,
`format` does not panic and `strptime_relaxed` of the text gives back the same seconds, offset and
sign. (The offset may have a seconds part; the weekday is printed and ignored on reading.) -/
theorem format_parse_generic (fmt : Bytes) (items : List Item) (hpf : parseFormat fmt = some items)
    (hok : (chainOk items && complete items) = true) (t : Time) (hr : InRange t) (hs : SignOk t) :
    ∃ text, format (.custom fmt) t = .ok text ∧ parseZoned fmt text = some t := by
  simp only [Bool.and_eq_true] at hok
  exact format_parse_zoned fmt items hpf hok.1 hok.2 t hr hs

theorem fmt_cases {fmt : Bytes} (h : (parseFormat fmt).map (fun i => chainOk i && complete i) = some true) :
    ∃ items, parseFormat fmt = some items ∧ (chainOk items && complete items) = true := by
  cases hp : parseFormat fmt with
  | none => rw [hp] at h; cases h
  | some items => rw [hp] at h; exact ⟨items, rfl, by simpa using h⟩

/-- `format_parse` for the code as it is today: ISO8601, ISO8601_STRICT, GITOXIDE and DEFAULT, each read by
its own branch of `parse`. -/
theorem format_parse (t : Time) (hr : InRange t) (hs : SignOk t) :
    (∃ text, format (.custom Extracted.dateFmtIso8601) t = .ok text ∧ parseZoned Extracted.dateFmtIso8601 text = some t) ∧
    (∃ text, format (.custom Extracted.dateFmtIso8601Strict) t = .ok text ∧ parseZoned Extracted.dateFmtIso8601Strict text = some t) ∧
    (∃ text, format (.custom Extracted.dateFmtGitoxide) t = .ok text ∧ parseZoned Extracted.dateFmtGitoxide text = some t) ∧
    (∃ text, format (.custom Extracted.dateFmtDefault) t = .ok text ∧ parseZoned Extracted.dateFmtDefault text = some t) := by
  obtain ⟨_, h2, h3, h4, h5, _⟩ := extracted_ok
  obtain ⟨i2, p2, o2⟩ := fmt_cases h2
  obtain ⟨i3, p3, o3⟩ := fmt_cases h3
  obtain ⟨i4, p4, o4⟩ := fmt_cases h4
  obtain ⟨i5, p5, o5⟩ := fmt_cases h5
  exact ⟨format_parse_generic _ i2 p2 o2 t hr hs, format_parse_generic _ i3 p3 o3 t hr hs,
    format_parse_generic _ i4 p4 o4 t hr hs, format_parse_generic _ i5 p5 o5 t hr hs⟩

-- non-vacuity: both ends of jiff's range, an offset with seconds, a negative year
example : InRange ⟨tsMin, -offMax, true⟩ ∧ SignOk ⟨tsMin, -offMax, true⟩ ∧ InRange ⟨tsMax, 19845, false⟩ ∧
    SignOk ⟨tsMax, 19845, false⟩ := by decide
example : format (.custom Extracted.dateFmtIso8601) ⟨-62167219201, 19845, false⟩ =
    .ok [48, 48, 48, 48, 45, 48, 49, 45, 48, 49, 32, 48, 53, 58, 51, 48, 58, 52, 52, 32, 43, 48, 53, 51, 48, 52, 53] := by
  decide +kernel      -- "0000-01-01 05:30:44 +053045"

/-- Per-run obligation: today's RFC2822 and GIT_RFC2822 strings have the RFC 2822 shape
`%a, %d|%-d %b %Y %H:%M:%S %z`. -/
theorem extracted_rfc_ok :
    parseFormat Extracted.dateFmtRfc2822 = some (rfcItems false) ∧
    parseFormat Extracted.dateFmtGitRfc2822 = some (rfcItems true) := by
  decide

/-- `format_parse` for RFC2822 and GIT_RFC2822, which `parse` reads with jiff's RFC 2822 parser (weekday
not checked): every time in jiff's range from year 0 on, with an offset of whole minutes. -/
theorem format_parse_rfc2822 (t : Time) (hr : InRange t) (hs : SignOk t)
    (hy : 0 ≤ (breakDown t.seconds t.offset).year) (hmin : t.offset % 60 = 0) :
    (∃ text, format (.custom Extracted.dateFmtRfc2822) t = .ok text ∧ parseRfc2822 text = some t) ∧
    (∃ text, format (.custom Extracted.dateFmtGitRfc2822) t = .ok text ∧ parseRfc2822 text = some t) :=
  ⟨rfc2822_roundtrip _ false extracted_rfc_ok.1 t hr hs hy hmin,
   rfc2822_roundtrip _ true extracted_rfc_ok.2 t hr hs hy hmin⟩

example : InRange ⟨1660797906, 28800, false⟩ ∧ SignOk ⟨1660797906, 28800, false⟩ ∧
    0 ≤ (breakDown 1660797906 28800).year ∧ (28800 : Int) % 60 = 0 := by decide

/-- `raw_roundtrip`: for ALL i64 seconds and every offset `write_to` accepts (below 100 hours) that is a
whole number of minutes and agrees with the sign field, `parse_raw` reads `Format::Raw`'s text back
exactly — seconds, offset and sign (so `-0000` stays `-0000`). -/
theorem raw_roundtrip (t : Time) (hlo : i64Lo ≤ t.seconds) (hhi : t.seconds ≤ i64Hi) (hmin : t.offset % 60 = 0)
    (hsg : (t.minus = true → t.offset ≤ 0) ∧ (t.minus = false → 0 ≤ t.offset)) (text : Bytes)
    (hf : format .raw t = .ok text) : parseRaw text = some t := by
  unfold format at hf
  simp only at hf
  cases hw : t.write with
  | none => rw [hw] at hf; cases hf
  | some bs =>
    rw [hw] at hf
    simp only [Outcome.ok.injEq] at hf
    subst hf
    rw [parseRaw_write t hlo hhi bs hw]
    cases t with
    | mk s o mi =>
      simp only at hmin hsg ⊢
      congr 2
      cases mi
      · have := hsg.2 rfl; simp only [Bool.false_eq_true, if_false]; omega
      · have := hsg.1 rfl; simp only [if_true]; omega

example : format .raw ⟨i64Lo, -35940, true⟩ = .ok [45, 57, 50, 50, 51, 51, 55, 50, 48, 51, 54, 56, 53, 52, 55, 55, 53, 56, 48, 56, 32, 45, 48, 57, 53, 57] := by
  decide +kernel

/-- `Format::Unix`: the decimal seconds, read back by the `i64::from_str` branch, for ALL i64. -/
theorem unix_roundtrip (t : Time) (hlo : i64Lo ≤ t.seconds) (hhi : t.seconds ≤ i64Hi) :
    ∃ text, format .unix t = .ok text ∧ parseIntIn i64Lo i64Hi text = some t.seconds :=
  ⟨intDec t.seconds, rfl, parseIntIn_intDec _ _ _ hlo hhi⟩

/-! ### through the whole cascade of `parse()` -/

/-- `format_parse_through_cascade`: `parse(format(fmt, t))` for the real cascade of `gix_date::parse` — the
special-case text, then `Date::strptime(SHORT)`, jiff's RFC 2822 parser, ISO8601, ISO8601_STRICT, GITOXIDE,
DEFAULT, `i64::from_str`, `parse_raw` in the extracted order — where every branch BEFORE the one meant for
the text is proved to reject it. For every time in jiff's range whose sign field agrees with the offset:
ISO8601, ISO8601_STRICT, GITOXIDE and DEFAULT give back exactly `t`. -/
theorem format_parse_through_cascade (t : Time) (hr : InRange t) (hs : SignOk t) :
    (∃ text, format (.custom Extracted.dateFmtIso8601) t = .ok text ∧ parse text = .ok t) ∧
    (∃ text, format (.custom Extracted.dateFmtIso8601Strict) t = .ok text ∧ parse text = .ok t) ∧
    (∃ text, format (.custom Extracted.dateFmtGitoxide) t = .ok text ∧ parse text = .ok t) ∧
    (∃ text, format (.custom Extracted.dateFmtDefault) t = .ok text ∧ parse text = .ok t) :=
  ⟨iso_through_cascade t hr hs, strict_through_cascade t hr hs, gitoxide_through_cascade t hr hs,
   default_through_cascade t hr hs⟩

/-- … RFC2822 and GIT_RFC2822 (years 0..9999, offsets of whole minutes) give back exactly `t` -/
theorem format_parse_through_cascade_rfc2822 (t : Time) (hr : InRange t) (hs : SignOk t)
    (hy : 0 ≤ (breakDown t.seconds t.offset).year) (hmin : t.offset % 60 = 0) :
    (∃ text, format (.custom Extracted.dateFmtRfc2822) t = .ok text ∧ parse text = .ok t) ∧
    (∃ text, format (.custom Extracted.dateFmtGitRfc2822) t = .ok text ∧ parse text = .ok t) :=
  ⟨rfc_through_cascade _ false extracted_rfc_ok.1 t hr hs hy hmin,
   rfc_through_cascade _ true extracted_rfc_ok.2 t hr hs hy hmin⟩

/-- … SHORT, with its truncation stated exactly: the text is the local day, and `parse` reads it as that
day's midnight UTC (offset 0) — or fails when that midnight lies outside jiff's timestamp range (the
three edge days of the known finding) -/
theorem format_parse_through_cascade_short (t : Time) (hr : InRange t) :
    ∃ text, format (.custom Extracted.dateFmtShort) t = .ok text ∧
      parse text = (if (t.seconds + t.offset) / 86400 * 86400 < tsMin ∨ (t.seconds + t.offset) / 86400 * 86400 > tsMax then .err
                    else .ok ⟨(t.seconds + t.offset) / 86400 * 86400, 0, false⟩) :=
  short_through_cascade t hr

/-- … UNIX for ALL i64 seconds (offset 0 comes back) -/
theorem format_parse_through_cascade_unix (t : Time) (hlo : i64Lo ≤ t.seconds) (hhi : t.seconds ≤ i64Hi) :
    ∃ text, format .unix t = .ok text ∧ parse text = .ok ⟨t.seconds, 0, false⟩ :=
  unix_through_cascade t hlo hhi

/-- … RAW for ALL i64 seconds, offsets of whole minutes below 100 hours, the sign field kept -/
theorem format_parse_through_cascade_raw (t : Time) (hlo : i64Lo ≤ t.seconds) (hhi : t.seconds ≤ i64Hi)
    (hmin : t.offset % 60 = 0) (hsg : (t.minus = true → t.offset ≤ 0) ∧ (t.minus = false → 0 ≤ t.offset))
    (text : Bytes) (hf : format .raw t = .ok text) : parse text = .ok t :=
  raw_through_cascade t hlo hhi hmin hsg text hf

/-! ### the property as stated, and why it does not hold as stated -/

def allFormats : List Format :=
  [.custom Extracted.dateFmtShort, .custom Extracted.dateFmtRfc2822, .custom Extracted.dateFmtGitRfc2822,
   .custom Extracted.dateFmtIso8601, .custom Extracted.dateFmtIso8601Strict, .custom Extracted.dateFmtGitoxide,
   .custom Extracted.dateFmtDefault, .unix, .raw]

/-- "For every supported output format and every representable time, parsing the formatted text yields
the same instant and offset." -/
def C52_full : Prop :=
  ∀ f ∈ allFormats, ∀ t : Time, i64Lo ≤ t.seconds → t.seconds ≤ i64Hi → -2147483648 ≤ t.offset → t.offset ≤ 2147483647 →
    ∃ text t', format f t = .ok text ∧ parse text = .ok t' ∧ t'.seconds = t.seconds ∧ t'.offset = t.offset

/-- known finding `format-panics-outside-jiff-range`: one second past year 9999 -/
theorem format_panics_outside_range :
    format (.custom Extracted.dateFmtIso8601) ⟨tsMax + 1, 0, false⟩ = .panic ∧
    format (.custom Extracted.dateFmtIso8601) ⟨0, offMax + 1, false⟩ = .panic := by
  decide

/-- known finding `format-raw-panics-offset-100h` -/
theorem raw_panics_100h : format .raw ⟨0, 360000, false⟩ = .panic := by decide

theorem C52_full_false : ¬ C52_full := by
  intro h
  obtain ⟨text, t', hf, _⟩ := h (.custom Extracted.dateFmtIso8601) (by decide) ⟨tsMax + 1, 0, false⟩ (by decide) (by decide)
    (by decide) (by decide)
  rw [format_panics_outside_range.1] at hf
  cases hf

/-- known finding `rfc2822-negative-year`: "Fri, 31 Dec -0001 23:59:59 +0000" is what RFC2822 prints for the
second before year 0, and no branch of `parse` accepts it. -/
theorem rfc2822_negative_year_not_parsed :
    format (.custom Extracted.dateFmtRfc2822) ⟨-62167219201, 0, false⟩ =
      .ok [70, 114, 105, 44, 32, 51, 49, 32, 68, 101, 99, 32, 45, 48, 48, 48, 49, 32, 50, 51, 58, 53, 57, 58, 53, 57, 32, 43, 48, 48, 48, 48] ∧
    parse [70, 114, 105, 44, 32, 51, 49, 32, 68, 101, 99, 32, 45, 48, 48, 48, 49, 32, 50, 51, 58, 53, 57, 58, 53, 57, 32, 43, 48, 48, 48, 48] = .err := by
  decide +kernel

/-- known finding `short-date-outside-timestamp-range`: 9999-12-31 (and SHORT by design keeps the day only:
the text of 1970-01-01T23:59:59+00:00 reads back as midnight) -/
theorem short_edge_days_not_parsed :
    format (.custom Extracted.dateFmtShort) ⟨tsMax, 7200, false⟩ = .ok [57, 57, 57, 57, 45, 49, 50, 45, 51, 49] ∧
    parse [57, 57, 57, 57, 45, 49, 50, 45, 51, 49] = .err ∧
    format (.custom Extracted.dateFmtShort) ⟨86399, 0, false⟩ = .ok [49, 57, 55, 48, 45, 48, 49, 45, 48, 49] ∧
    parse [49, 57, 55, 48, 45, 48, 49, 45, 48, 49] = .ok ⟨0, 0, false⟩ := by
  decide +kernel

-- the cascade picks the branch of each format (samples; the cascade as a whole is checked on the real code)
example : parse [50, 48, 50, 50, 45, 48, 56, 45, 49, 55, 32, 50, 50, 58, 48, 52, 58, 53, 56, 32, 43, 48, 50, 48, 48] =
    .ok ⟨1660766698, 7200, false⟩ := by decide +kernel          -- "2022-08-17 22:04:58 +0200"
example : parse [84, 104, 117, 44, 32, 49, 56, 32, 65, 117, 103, 32, 50, 48, 50, 50, 32, 49, 50, 58, 52, 53, 58, 48, 54, 32, 43, 48, 56, 48, 48] =
    .ok ⟨1660797906, 28800, false⟩ := by decide +kernel         -- "Thu, 18 Aug 2022 12:45:06 +0800"

end GixModel.Props.C52
