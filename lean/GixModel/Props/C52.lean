import GixModel.Model.C52
namespace GixModel.Props.C52
end GixModel.Props.C52
