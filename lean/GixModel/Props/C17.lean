/-
C17 — Reference transactions terminate under lock contention.

"Preparing or committing a reference transaction always returns, with success or an error, in
bounded time, whatever lock files already exist for the affected refs or for packed-refs,
including when an edit dereferences a symbolic reference such as HEAD."

The model (GixModel.Model.C17Core) writes every loop of `prepare_inner`,
`extend_with_splits_of_symbolic_refs`, `lock_with_mode` and the back-off iterator with explicit
fuel; running out of fuel is the outcome `hang` / `none`. The theorems say that this outcome does
not exist — for ALL stores (any set of lock files held by anyone), all transactions, all
packed-refs modes, all jitter sequences — and give the bounds. The loop that hung before fix
004049487 is kept as `Legacy.walk`, with the proof that it diverges.
-/
import GixModel.Lemmas.C17
import GixModel.Model.C17

namespace GixModel.Props.C17
open GixModel.C17

/-- The parent relation produced by `extend_with_splits_of_symbolic_refs` (from edits without
parents, for ANY `find`, also a cyclic one) is well-founded: a parent index is smaller than the
index of its child. -/
theorem parent_index_lt (find : Name → Option Target) (edits : List RefEdit) (es : List Edit)
    (h : extendWithSplits find (edits.map fun u => { update := u }) = some (.ok es)) :
    ∀ (i : Nat) (e : Edit) (p : Nat), es[i]? = some e → e.parent = some p → p < i :=
  splitLoop_wf find 5 1 0 _ (wf_of_roots _ (by
    intro e he
    simp only [List.mem_map] at he
    obtain ⟨u, _, hu⟩ := he
    rw [← hu])) (Nat.zero_le _) es h

-- non-vacuity: HEAD -> a -> b, one dereferencing edit of HEAD becomes three edits 0 <- 1 <- 2
example :
    let find : Name → Option Target := fun n =>
      if n = [72] then some (.symbolic [97]) else if n = [97] then some (.symbolic [98]) else none
    (match extendWithSplits find [{ update := { change := .delete .any .andReference, name := [72], deref := true } }] with
      | some (.ok es) => es.map Edit.parent
      | _ => []) = [none, some 0, some 1] := by decide

/-- The `loop { … }` of `extend_with_splits_of_symbolic_refs` returns within its five rounds for
every `find` and every list of edits (fuel 5 suffices and more fuel changes nothing); a cycle of
symbolic refs gives an error, not a loop. -/
theorem split_rounds_terminate (find : Name → Option Target) (es : List Edit) :
    ∃ r, extendWithSplits find es = some r ∧ ∀ fuel, 5 ≤ fuel → splitLoop find fuel 1 0 es = some r := by
  obtain ⟨r, hr⟩ := extendWithSplits_some find es
  exact ⟨r, hr, fun fuel hf => splitLoop_mono find 5 1 0 es r hr fuel hf⟩

-- a two-cycle a -> b -> a is cut off with an error
example :
    let find : Name → Option Target := fun n =>
      if n = [97] then some (.symbolic [98]) else if n = [98] then some (.symbolic [97]) else none
    (match extendWithSplits find [{ update := { change := .delete .any .andReference, name := [97], deref := true } }] with
      | some (.error _) => true
      | _ => false) = true := by decide

/-- The (repaired) loop that names the failing ref after a lock error returns within `size`
iterations, without an index panic, for every edit of a well-founded edit list. -/
theorem walk_terminates (es : List Edit) (hw : WfParents es) (i : Nat) (e : Edit) (hi : es[i]? = some e) :
    ∃ n, n ≤ es.length ∧ ∃ nm, walk es n e.parent e.name = some (.name nm) := by
  have hlt : i < es.length := by
    rcases Nat.lt_or_ge i es.length with h | h
    · exact h
    · rw [List.getElem?_eq_none h] at hi; cases hi
  obtain ⟨nm, h⟩ := walk_some es hw i (by omega) i (Nat.le_refl _) e.parent e.name
    (fun p hp => hw i e p hi hp)
  exact ⟨i, by omega, nm, h⟩

-- non-vacuity: three edits 0 <- 1 <- 2; the walk from edit 2 names the root
example : WfParents legacyWitness ∧
    walk legacyWitness 2 (some 0) [97] = some (.name [72]) := by
  refine ⟨?_, by decide⟩
  intro i e p hi hp
  match i with
  | 0 => simp [legacyWitness] at hi; subst hi; simp at hp
  | 1 => simp [legacyWitness] at hi; subst hi; simp at hp; omega
  | i + 2 => simp [legacyWitness] at hi

/-- The second parent-chain walk (`leaf_referent_previous_oid`) returns as well, and leaves
length and parents of the edits as they were. -/
theorem second_walk_terminates (oid : Oid) (es : List Edit) (hw : WfParents es) (i : Nat) (e : Edit)
    (hi : es[i]? = some e) :
    ∃ es', setLeaf oid es.length e.parent es = some (some es') ∧ es'.length = es.length ∧ WfParents es' := by
  have hlt : i < es.length := by
    rcases Nat.lt_or_ge i es.length with h | h
    · exact h
    · rw [List.getElem?_eq_none h] at hi; cases hi
  obtain ⟨es', h1, h2, h3⟩ := setLeaf_some oid i es hw (by omega) es.length (by omega) e.parent
    (fun p hp => hw i e p hi hp)
  exact ⟨es', h1, h2, wf_of_parent_eq es es' h3 hw⟩

/-- The quadratic back-off with ANY jitter sequence `rs k ∈ 750..=1250` (`default_with_random`)
is a finite list: at most `time + 1` waits whose sum is at most the duration plus one step
(1250 ms). -/
theorem backoff_bounded (rs : Nat → Nat) (hr : ∀ k, 750 ≤ rs k ∧ rs k ≤ 1250) (time : Nat) :
    ∃ ws, waitsOf (fun k m => randomize (rs k) m) time = some ws ∧
      ws.sum ≤ time + 1250 ∧ ws.length ≤ time + 1 := by
  obtain ⟨ws, h1, h2, h3, _⟩ := waits_bounded (fun k m => randomize (rs k) m) 1250 time
    (fun k m h1 h2 => randomize_bounds (rs k) m (hr k) h1 h2) (time + 2) 0 {} 0
    ⟨by decide, by decide⟩ (Nat.zero_le _) (by omega)
  exact ⟨ws, h1, by simpa using h2, by simpa using h3⟩

/-- the same for the iterator without jitter (`Exponential::default()`), one step = 1000 ms -/
theorem backoff_bounded_plain (time : Nat) :
    ∃ ws, waitsOf (fun _ m => m) time = some ws ∧ ws.sum ≤ time + 1000 ∧ ws.length ≤ time + 1 := by
  obtain ⟨ws, h1, h2, h3, _⟩ := waits_bounded (fun _ m => m) 1000 time
    (fun _ m h1 h2 => ⟨h1, h2⟩) (time + 2) 0 {} 0 ⟨by decide, by decide⟩ (Nat.zero_le _) (by omega)
  exact ⟨ws, h1, by simpa using h2, by simpa using h3⟩

example : waitsOf (fun _ m => m) 30 = some [1, 4, 9, 16, 25] := by decide

/-- `lock_with_mode` returns for every fail mode, every jitter and every behaviour of the lock
file over time (`tryLock k` = outcome of the k-th attempt, e.g. always `alreadyExists`), after at
most `duration + 2` attempts. -/
theorem lock_with_mode_returns (rs : Nat → Nat) (hr : ∀ k, 750 ≤ rs k ∧ rs k ≤ 1250) (mode : Fail)
    (tryLock : Nat → TryLock) :
    ∃ r, lockWithMode (fun k m => randomize (rs k) m) mode tryLock = some r ∧
      ∀ n, r = .permanentlyLocked n → n ≤ (match mode with | .immediately => 0 | .afterDurationWithBackoff t => t + 1) + 1 := by
  cases mode with
  | immediately =>
    refine ⟨_, rfl, ?_⟩
    intro n hn
    have := lockLoop_attempts tryLock [] 0 n hn
    simpa using this
  | afterDurationWithBackoff t =>
    obtain ⟨ws, h1, _, h3⟩ := backoff_bounded rs hr t
    refine ⟨lockLoop tryLock ws 0, by simp [lockWithMode, h1], ?_⟩
    intro n hn
    have := lockLoop_attempts tryLock ws 0 n hn
    simp only at this ⊢
    omega

-- a lock that stays held: five waits for 30 ms, six attempts, then PermanentlyLocked
example : lockWithMode (fun _ m => m) (.afterDurationWithBackoff 30) (fun _ => .alreadyExists)
    = some (.permanentlyLocked 6) := by decide

/-- `prepare` (after the fix) returns — ok, an error or a panic of the API contract — for ALL
stores (whatever lock files exist, whoever holds them), ALL edits and packed-refs modes: the
outcome `hang` does not occur. -/
theorem prepare_never_hangs (env : Env) (S : Store) (t : Txn) : prepare env S t ≠ .hang :=
  prepareWith_fixed_ne_hang env S t

/-- … and so does prepare followed by commit (`commit_inner` and the packed-refs merge are
structurally recursive in the model). -/
theorem run_never_hangs (env : Env) (S : Store) (t : Txn) : run env S t ≠ .hang := by
  unfold run runWith
  have := prepareWith_fixed_ne_hang env S t
  split
  · unfold commit
    dsimp only
    split
    · split <;> simp
    · simp
  · simp
  · simp
  · contradiction

/-- The loop as it was before fix 004049487 diverges on a two-edit list (root, split child): no
amount of fuel lets it return. -/
theorem legacy_walk_diverges : ∀ fuel nm, Legacy.walk legacyWitness fuel (some 0) nm = none :=
  legacy_walk_none

example : ∀ fuel, fuel < 64 → Legacy.walk legacyWitness fuel (some 0) [97] = none := by decide

/-- End to end in the model: HEAD -> refs/heads/a (bytes abbreviated to `H`, `a`), the lock of
`a` is held, one dereferencing update of HEAD. The old loop hangs; the repaired one reports
`LockAcquire` naming HEAD and leaves the store as it was. -/
theorem legacy_prepare_hangs :
    let S : Store := { loose := [([72], .symbolic [97])], locks := [[97]] }
    let t : Txn := { edits := [{ change := .update .andReference .any (.object 1), name := [72], deref := true }],
                     mode := .deletionsOnly }
    (match prepareWith .legacy { known := fun _ => true } S t with | .hang => true | _ => false) = true ∧
    (match prepareWith .fixed { known := fun _ => true } S t with
      | .err (.lockAcquire n) S' => decide (n = [72] ∧ S' = S)
      | _ => false) = true := by
  decide

end GixModel.Props.C17
