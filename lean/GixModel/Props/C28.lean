import GixModel.Lemmas.C28
import GixModel.Lemmas.C28Body
import GixModel.Lemmas.C28Value
import GixModel.Lemmas.C28Multi
import GixModel.Lemmas.C28Reparse
/-
C28 — Config edits change only what was edited.  PROPERTY THEOREMS ONLY.

The model (`GixModel.C28`) mirrors the editing API on the event lists of C26, including the lookup
table; it is tied to the real `gix_config::File` by edit histories in the harness. Frame properties:

* `call_frame` (ALL files, ALL calls): a successful call leaves the front matter alone and does
  exactly one of: modify ONE section in place, append ONE section, remove ONE section. Hence
  `other_sections_untouched`. `history_front_matter` / `history_sections`: over ALL edit histories.
* `written_value_reads_back`, `written_value_scans_back`, `written_value_read_by_gitoxide` (ALL byte
  strings) and `written_value_read_by_git` (all without FF / CR): what `set`/`push` write for a
  value is scanned back as one value event and read — by gitoxide and by git — as exactly the
  value that was given.
* `push_frame` (ALL bodies): push only appends; the comments are those that were there; the
  entries are the old ones plus exactly the new one.
* `set_frame_absent` / `set_frame_present` (ALL bodies): `set` is `push` when the key is absent,
  else it replaces the span `[s, t)` computed by `key_and_value_range_by` by ONE value event —
  every event outside the span is unchanged. `remove_frame`: the removed block is the key's span
  plus at most the newline after and the whitespace before it.
* `new_section_frame`, `remove_section_frame`, `rename_frame`.
* `body_edits_keep_comments`, `set_frame_items`, `remove_frame_items`, `loaded_bodies_well_formed`,
  `history_bodies_well_formed`, `history_comments_preserved`: on the bodies the parser produces
  (sequences of items) the span `key_and_value_range_by` computes IS the last item with the key,
  so no comment is ever touched — over ALL edit histories.
* `MultiValueMut` (`raw_values_mut_by(..)?` then `set_all` / `set_at` / `delete` / `delete_all`):
  `multi_scan_finds_the_items`, `multi_set_at_items`, `multi_delete_items`, `multi_set_all_view`,
  `multi_delete_all_view` (ALL well-formed bodies: exactly the items with the key are rewritten /
  dropped, comments and all other entries untouched), `multi_all_call_frame`, `multi_at_call_frame`
  (ALL files: only sections filed under the looked-up name change, front matter and table never).
* `C28_full_uniform_newlines` (round 3): `C28_full` on the class where the writer adds nothing or
  the final newline and the edited events re-parse to themselves (explicit hypotheses).
Not proved (see `C28_full`): that the serialized result parses back to the edited view (the
print-then-parse direction of the grammar); evaluated by the oracle on every step of every
generated history (reparse by gitoxide and by git).
-/
namespace GixModel.Props.C28
open GixModel GixModel.C26 GixModel.C27 GixModel.C28

/-- Every successful call, on every file: the front matter is untouched and the sections change
in exactly one place. -/
theorem call_frame (f f' : FileS) (op : Op) (h : apply f op = .ok f') :
    f'.front = f.front ∧ SectionsStep f.sections f'.sections :=
  apply_frame f f' op h

/-- … so every section other than the one the call works on is literally the same, for every
call that is not `remove_section` (which keeps all others, in order: `remove_section_frame`). -/
theorem other_sections_untouched (f f' : FileS) (op : Op) (h : apply f op = .ok f')
    (hr : op.isRemoveSection = false) :
    ∃ i, ∀ j, j ≠ i → j < f.sections.length → f'.sections[j]? = f.sections[j]? := by
  rcases apply_frame_keep f f' op h hr with ⟨i, g, hm⟩ | ⟨s, ha⟩
  · refine ⟨i, fun j hj _ => ?_⟩
    rw [hm, List.getElem?_modify]
    cases f.sections[j]? with
    | none => rfl
    | some s => simp [Ne.symm hj]
  · refine ⟨f.sections.length, fun j _ hlt => ?_⟩
    rw [ha, List.getElem?_append_left hlt]

example : ∃ f f', load [91, 97, 93, 10, 107, 61, 49, 10, 91, 98, 93, 10, 106, 61, 50, 10] = some f ∧
    apply f (.set [97] none [107] [120]) = .ok f' ∧
    f'.write = [91, 97, 93, 10, 107, 61, 120, 10, 91, 98, 93, 10, 106, 61, 50, 10] := by
  refine ⟨_, _, rfl, rfl, by decide +kernel⟩

/-- Over ANY edit history (failed calls included) the front matter is untouched. -/
theorem history_front_matter (ops : List Op) (f : FileS) : (applyAll f ops).front = f.front :=
  applyAll_front ops f

/-- Over ANY edit history without `remove_section`, the sections that were there stay where they
are (same index), each possibly modified by the calls that addressed it. -/
theorem history_sections (ops : List Op) (f : FileS) (hr : ∀ op ∈ ops, op.isRemoveSection = false) :
    f.sections.length ≤ (applyAll f ops).sections.length := by
  induction ops generalizing f with
  | nil => exact Nat.le_refl _
  | cons op rest ih =>
    simp only [applyAll]
    have hrest : ∀ o ∈ rest, o.isRemoveSection = false := fun o ho => hr o (by simp [ho])
    split
    · rename_i f1 h
      have h1 := ih f1 hrest
      rcases apply_frame_keep f f1 op h (hr op (by simp)) with ⟨i, g, hm⟩ | ⟨s, ha⟩
      · rw [hm, List.length_modify] at h1; exact h1
      · rw [ha] at h1; simp at h1; omega
    · exact ih f hrest

/-- What `set` and `push` write for a value is read back by `normalize` as exactly that value —
for EVERY byte string (newlines, tabs, quotes, backslashes, leading / trailing blanks, `;`, `#`). -/
theorem written_value_reads_back (v : Bytes) : normalize (escapeValue v) = v :=
  normalize_escapeValue v

example : escapeValue [32, 97, 34, 10, 59] = [34, 32, 97, 92, 34, 92, 110, 59, 34] := by decide +kernel

/-- … and the parser agrees: the written text is scanned by `value_impl` as exactly ONE value event
holding that text, whatever follows the end of the line — for EVERY byte string. -/
theorem written_value_scans_back (v rest : Bytes) (em : List Event) :
    valueScan (escapeValue v ++ 10 :: rest) [] false false em =
      some (em ++ [.value (escapeValue v)], 10 :: rest) :=
  escapeValue_scans_back v rest em

/-- So gitoxide reads the written line `<blanks><escaped value><LF>…` as exactly the value given. -/
theorem written_value_read_by_gitoxide (w v rest : Bytes) (hw : w.all isSpace = true) :
    gixValueOfText (w ++ escapeValue v ++ 10 :: rest) = some v :=
  written_value_gix w v rest hw

/-- And so does git ("git and gitoxide both read the intended new values"): `parse_value` reads the
written line as exactly the value given, for every value without FF / CR bytes (the line is then in
the domain of C27's `value_eq_git`). -/
theorem written_value_read_by_git (v : Bytes) (hv : ∀ b ∈ v, b ≠ 12 ∧ b ≠ 13) :
    gitParseValue ([32] ++ escapeValue v ++ [10]) = some v :=
  written_value_git v hv

example : gitParseValue ([32] ++ escapeValue [32, 97, 34, 10, 9, 59, 92, 32] ++ [10]) = some [32, 97, 34, 10, 9, 59, 92, 32] := by
  decide +kernel

/-- `push`, on EVERY body: nothing that was there is touched (the old body is a prefix), no comment
is added or lost, and the entries are the old ones plus exactly the pushed one. -/
theorem push_frame (h : Header) (w : Ws) (nl : Bytes) (body : List Event) (key : Bytes) (value : Option Bytes) :
    pushBody w nl body key value = body ++ pushSuffix w nl body key value ∧
    commentsOf (pushBody w nl body key value) = commentsOf body ∧
    bodyEntries h (pushBody w nl body key value) none [] =
      bodyEntries h body none [] ++
        [{ sect := h.name, sub := h.sub, key := key, value := (value.map escapeValue).getD [] }] := by
  refine ⟨rfl, ?_, ?_⟩
  · unfold pushBody
    have := pushSuffix_comments w nl body key value
    simp only [commentsOf, List.filter_append] at this ⊢
    rw [this, List.append_nil]
  · unfold pushBody
    rw [bodyEntries_append, pushSuffix_entries]

/-- `set` when the key is not in the section: it is a `push`. -/
theorem set_frame_absent (w : Ws) (nl : Bytes) (body : List Event) (key value : Bytes)
    (h : keyAndValueRange key body = none) :
    setBody w nl body key value = pushBody w nl body key (some value) := by
  rw [setBody_absent w nl body key value h]; rfl

/-- `set` when the key is there: the events of the span `[s, t)` given by `key_and_value_range_by`
(the value events, or the empty value event of a key without `=`) are replaced by ONE value event
holding the escaped value; all events before `s` and from `t` on are unchanged and in place. -/
theorem set_frame_present (w : Ws) (nl : Bytes) (body : List Event) (key value : Bytes) (ks ke : Nat)
    (vr : Option (Nat × Nat)) (h : keyAndValueRange key body = some ((ks, ke), vr)) :
    setBody w nl body key value =
      body.take (vr.getD (ke - 1, ke)).1 ++ [.value (escapeValue value)] ++ body.drop (vr.getD (ke - 1, ke)).2 ∧
    ks < body.length ∧ ke ≤ body.length :=
  ⟨setBody_present w nl body key value ks ke vr h, (keyAndValueRange_bounds h).1, (keyAndValueRange_bounds h).2.1⟩

-- non-vacuity: `k = a\<LF> b ; c` — the two value lines collapse into one event, the comment stays
example : keyAndValueRange [107] [.name [107], .sep, .notDone [97], .newline [10], .done [98], .ws [32], .comment 59 [99]]
      = some ((0, 5), some (2, 5)) ∧
    setBody Ws.default [10] [.name [107], .sep, .notDone [97], .newline [10], .done [98], .ws [32], .comment 59 [99]] [107] [120]
      = [.name [107], .sep, .value [120], .ws [32], .comment 59 [99]] := by decide +kernel

/-- `remove`: what disappears is one contiguous block — the key's range `[ks, ke)` plus at most the
one `Newline` event right after it and the one `Whitespace` event right before it; everything else
is unchanged and in place. (`ks ≤ ke` holds whenever the key has a value event after it.) -/
theorem remove_frame (body b : List Event) (key : Bytes) (ks ke : Nat) (vr : Option (Nat × Nat))
    (hk : keyAndValueRange key body = some ((ks, ke), vr)) (hle : ks ≤ ke) (h : removeBody body key = some b) :
    ∃ lo hi, lo ≤ ks ∧ ks ≤ lo + 1 ∧ ke ≤ hi ∧ hi ≤ ke + 1 ∧ b = body.take lo ++ body.drop hi ∧
      (lo < ks → body[lo]?.any evIsWs = true) ∧ (ke < hi → body[ke]?.any evIsNewline = true) := by
  unfold removeBody at h
  simp only [hk, Option.some.injEq] at h
  subst h
  exact removeInternal_frame body ks ke hle (keyAndValueRange_bounds hk).2.1

example : removeBody [.ws [9], .name [107], .sep, .value [118], .ws [32], .comment 35 [99], .newline [10], .name [106], .value []] [107]
    = some [.ws [32], .comment 35 [99], .newline [10], .name [106], .value []] := by decide +kernel

/-- `new_section`: front matter and all sections as before, ONE section appended: it has the
validated header, no entries and no comments. -/
theorem new_section_frame (f f' : FileS) (name : Bytes) (sub : Option Bytes)
    (h : apply f (.newSection name sub) = .ok f') :
    f'.front = f.front ∧ ∃ s : Sec, f'.sections = f.sections ++ [s] ∧ s.entries = [] ∧ commentsOf s.body = [] ∧
      headerNew name sub = .ok s.header :=
  newSection_ok h

/-- `remove_section`: exactly one section is removed, all others stay, in order. -/
theorem remove_section_frame (f f' : FileS) (name : Bytes) (sub : Option Bytes)
    (h : apply f (.removeSection name sub) = .ok f') :
    f'.front = f.front ∧ ∃ i, f'.sections = f.sections.eraseIdx i := by
  simp only [apply] at h
  split at h
  · simp at h
  · split at h
    · simp at h
    · simp only [Outcome.ok.injEq] at h; subst h; exact ⟨rfl, _, rfl⟩

/-- `rename_section`: one section gets the new (validated) header; its body — every key, value
and comment — and all other sections are unchanged. -/
theorem rename_frame (f f' : FileS) (name : Bytes) (sub : Option Bytes) (newName : Bytes) (newSub : Option Bytes)
    (h : apply f (.rename name sub newName newSub) = .ok f') :
    f'.front = f.front ∧ ∃ i hd, headerNew newName newSub = .ok hd ∧
      f'.sections = f.sections.modify i (fun s => { s with header := hd, regName := lowerName hd.name, regSub := hd.sub }) := by
  simp only [apply] at h
  split at h
  · simp at h
  · simp at h
  · split at h
    · simp at h
    · rename_i hd hh
      simp only [Outcome.ok.injEq] at h; subst h
      exact ⟨rfl, _, hd, hh, rfl⟩

/-- On a well-formed body — every body of a loaded file is one (`loaded_bodies_well_formed`), and
the calls keep them so (`history_bodies_well_formed`) — `set`, `push` and `remove` leave the body
well formed and keep exactly its comments: the span they work on is the LAST item with the key
(its name, the whitespace and `=` after it, its value events), which holds no comment. -/
theorem body_edits_keep_comments (w : Ws) (nl : Bytes) (body : List Event) (key value : Bytes)
    (ov : Option Bytes) (hw : WFb body) :
    (WFb (setBody w nl body key value) ∧ commentsOf (setBody w nl body key value) = commentsOf body) ∧
    (WFb (pushBody w nl body key ov) ∧ commentsOf (pushBody w nl body key ov) = commentsOf body) ∧
    (∀ b, removeBody body key = some b → WFb b ∧ commentsOf b = commentsOf body) :=
  ⟨setBody_step w nl body key value hw, pushBody_step w nl body key ov hw,
    fun b hb => removeBody_step body b key hb hw⟩

/-- `set` on a well-formed body, exactly: the key is absent and `set` pushes, or the LAST item with
the key keeps name and separator and gets the one new value event. -/
theorem set_frame_items (w : Ws) (nl : Bytes) (key value : Bytes) (is : List Item) (hok : ∀ i ∈ is, i.ok = true) :
    (keyAndValueRange key (flatten is) = none ∧ (∀ it ∈ is, it.matches key = false)) ∨
    (∃ sp : KeySplit key is, setBody w nl (flatten is) key value =
      flatten (sp.pre ++ .kv sp.k sp.mid [.value (escapeValue value)] :: sp.post)) :=
  setBody_items w nl key value is hok

/-- `remove` on a well-formed body, exactly: the LAST item with the key goes, with the whitespace
item before and the newline item after it when there are such. -/
theorem remove_frame_items (pre : List Item) (k : Bytes) (mid vals : List Event) (post : List Item)
    (hok : ∀ i ∈ pre ++ .kv k mid vals :: post, i.ok = true) :
    removeInternal (flatten (pre ++ .kv k mid vals :: post)) (flatten pre).length
        ((flatten pre).length + 1 + mid.length + vals.length) true =
      flatten (dropWsEnd pre ++ dropNlHead post) :=
  removeInternal_items pre k mid vals post hok

/-- The view after `set` (DESIGN: `view (set …) = (view f).updateLast`): among the entries of the
section, exactly the LAST one with the key changes, its raw value text becoming the escaped new
value — which `normalize` reads as the value given (`written_value_reads_back`). -/
theorem set_view_frame (h : Header) (w : Ws) (nl : Bytes) (key value : Bytes) (is : List Item)
    (hok : ∀ i ∈ is, i.ok = true) (sp : KeySplit key is)
    (hset : setBody w nl (flatten is) key value =
      flatten (sp.pre ++ .kv sp.k sp.mid [.value (escapeValue value)] :: sp.post)) :
    bodyEntries h (flatten is) none [] =
      sp.pre.filterMap (itemEntry h) ++ [{ sect := h.name, sub := h.sub, key := sp.k, value := valText sp.vals }] ++
        sp.post.filterMap (itemEntry h) ∧
    bodyEntries h (setBody w nl (flatten is) key value) none [] =
      sp.pre.filterMap (itemEntry h) ++ [{ sect := h.name, sub := h.sub, key := sp.k, value := escapeValue value }] ++
        sp.post.filterMap (itemEntry h) :=
  set_entries h w nl key value is hok sp hset

/-- The view after `remove`: exactly the LAST entry with the key disappears. -/
theorem remove_view_frame (h : Header) (pre : List Item) (k : Bytes) (mid vals : List Event) (post : List Item)
    (hok : ∀ i ∈ pre ++ .kv k mid vals :: post, i.ok = true) :
    bodyEntries h (flatten (pre ++ .kv k mid vals :: post)) none [] =
      pre.filterMap (itemEntry h) ++ [{ sect := h.name, sub := h.sub, key := k, value := valText vals }] ++
        post.filterMap (itemEntry h) ∧
    bodyEntries h (removeInternal (flatten (pre ++ .kv k mid vals :: post)) (flatten pre).length
        ((flatten pre).length + 1 + mid.length + vals.length) true) none [] =
      pre.filterMap (itemEntry h) ++ post.filterMap (itemEntry h) :=
  remove_entries h pre k mid vals post hok

/-- Every body of a file loaded from text is well formed (C26's parser emits items). -/
theorem loaded_bodies_well_formed (bs : Bytes) (f : FileS) (h : load bs = some f) :
    ∀ s ∈ f.sections, WFb s.body :=
  load_wf h

/-- Over ALL edit histories (every modelled call, failed ones included), bodies stay well formed. -/
theorem history_bodies_well_formed (ops : List Op) (f : FileS)
    (hw : ∀ s ∈ f.sections, WFb s.body) : ∀ s ∈ (applyAll f ops).sections, WFb s.body :=
  applyAll_wf ops f hw

/-- `set_existing_raw_value` (`ValueMut::set`) on a well-formed body: its own forward scan finds the
LAST item with the key, which is rewritten as `key <separators> <escaped value>`; nothing else
changes (or no item has the key and the section is skipped). -/
theorem set_existing_frame_items (w : Ws) (key value : Bytes) (is : List Item) (hok : ∀ i ∈ is, i.ok = true) :
    ((mutRange key (indexed (flatten is)) false 0 0).2 = 0 ∧ ∀ it ∈ is, it.matches key = false) ∨
    (∃ sp : KeySplit key is, (mutRange key (indexed (flatten is)) false 0 0).2 ≠ 0 ∧
      valueMutSet w (flatten is) key value (mutRange key (indexed (flatten is)) false 0 0).1
        (mutRange key (indexed (flatten is)) false 0 0).2 =
      flatten (sp.pre ++ .kv key w.seps.reverse [.value (escapeValue value)] :: sp.post)) :=
  valueMutSet_items w key value is hok

/-- Over ALL edit histories without `remove_section`: every section that was there at the start
keeps exactly its comments, in order, whatever is set, pushed, removed, renamed or added. -/
theorem history_comments_preserved (bs : Bytes) (ops : List Op) (f : FileS) (hl : load bs = some f)
    (hr : ∀ op ∈ ops, op.isRemoveSection = false) :
    (applyAll f ops).comments.take f.sections.length = f.comments :=
  (applyAll_comments ops f hr (load_wf hl)).2

-- non-vacuity: a loaded file with comments, a six-call history
example : ∃ f, load [91, 97, 93, 10, 35, 99, 10, 107, 61, 118, 32, 59, 100, 10, 106, 10] = some f ∧
    (applyAll f [.set [97] none [107] [120], .push [97] none [109] (some [49]), .remove [97] none [106],
      .newSection [98] none, .rename [97] none [99] none, .setExisting [99] none [109] [50]]).write =
      [91, 99, 93, 10, 35, 99, 10, 107, 61, 120, 32, 59, 100, 10, 109, 61, 50, 10, 91, 98, 93, 10] := by
  refine ⟨_, rfl, by decide +kernel⟩

/-! ### `MultiValueMut`: `raw_values_mut_by(sec, sub, key)?` and `set_all` / `set_at` / `delete` / `delete_all` -/

/-- The scan of `raw_values_mut_filter_inner` on a well-formed body finds exactly the items with the
key (compared without case), in order, each with the position and length of its events. -/
theorem multi_scan_finds_the_items (key : Bytes) (is : List Item) (hok : ∀ i ∈ is, i.ok = true) :
    mvSpans key (flatten is) = spansOf key is 0 ∧ (mvSpans key (flatten is)).length = countKey key is := by
  rw [mvSpans_items key is hok]
  exact ⟨rfl, spansOf_length key is 0⟩

example : mvSpans [107] [.name [75], .sep, .value [49], .newline [10], .name [106], .value [], .ws [9], .name [107],
    .ws [32], .sep, .notDone [97], .newline [10], .done [98]] = [(0, 3), (7, 6)] := by decide +kernel

/-- `set_at(j, v)` on a well-formed body: the item with rank `j` among those with the key becomes
`key <separators> <escaped v>`; every other item is what it was. -/
theorem multi_set_at_items (key value : Bytes) (is : List Item) (hok : ∀ i ∈ is, i.ok = true) (j : Nat)
    (hj : j < countKey key is) :
    ∃ pre k mid vals post it', is = pre ++ .kv k mid vals :: post ∧ eqIgnoreCase k key = true ∧ countKey key pre = j ∧
      IsRewrite key value it' ∧ mvSetNth (flatten is) key value j = flatten (pre ++ it' :: post) :=
  mvSetNth_items key value is hok j hj

/-- `delete(j)` on a well-formed body: the item with rank `j` among those with the key goes,
every other item stays (whitespace, newlines and comments around it included). -/
theorem multi_delete_items (key : Bytes) (is : List Item) (hok : ∀ i ∈ is, i.ok = true) (j : Nat)
    (hj : j < countKey key is) :
    ∃ pre k mid vals post, is = pre ++ .kv k mid vals :: post ∧ eqIgnoreCase k key = true ∧ countKey key pre = j ∧
      mvDeleteNth (flatten is) key j = flatten (pre ++ post) :=
  mvDeleteNth_items key is hok j hj

/-- `set_all(v)` on a well-formed body (ALL of them, any number of occurrences): the body stays
well formed, its comments are untouched, and its entries are the old ones where exactly those with
the key now carry the escaped `v` (which reads back as `v`, `written_value_reads_back`). -/
theorem multi_set_all_view (h : Header) (key value : Bytes) (body : List Event) (hb : WFb body) :
    WFb (mvSetAllBody key value (mvSpans key body).length 0 body) ∧
    commentsOf (mvSetAllBody key value (mvSpans key body).length 0 body) = commentsOf body ∧
    bodyEntries h (mvSetAllBody key value (mvSpans key body).length 0 body) none [] =
      (bodyEntries h body none []).map (rewriteEntry h key value) :=
  mvSetAll_view h key value body hb

example : mvSetAllBody [107] [32, 120] 2 0 [.name [75], .sep, .value [49], .newline [10], .comment 35 [99], .newline [10],
      .name [106], .value [], .newline [10], .name [107], .value []] =
    [.name [107], .sep, .value [34, 32, 120, 34], .newline [10], .comment 35 [99], .newline [10],
      .name [106], .value [], .newline [10], .name [107], .sep, .value [34, 32, 120, 34]] := by decide +kernel

/-- `delete_all()` on a well-formed body: well formed again, same comments, and the entries are the
old ones without those with the key. -/
theorem multi_delete_all_view (h : Header) (key : Bytes) (body : List Event) (hb : WFb body) :
    WFb (mvDeleteAllBody key (mvSpans key body).length body) ∧
    commentsOf (mvDeleteAllBody key (mvSpans key body).length body) = commentsOf body ∧
    bodyEntries h (mvDeleteAllBody key (mvSpans key body).length body) none [] =
      (bodyEntries h body none []).filter (fun e => !eqIgnoreCase e.key key) :=
  mvDeleteAll_view h key body hb

example : mvDeleteAllBody [107] 2 [.name [75], .sep, .value [49], .newline [10], .comment 35 [99], .newline [10],
      .name [106], .value [], .newline [10], .name [107], .value []] =
    [.newline [10], .comment 35 [99], .newline [10], .name [106], .value [], .newline [10]] := by decide +kernel

/-- `set_all` / `delete_all` on ALL files: the front matter and the lookup table are untouched; a
section filed under the looked-up name gets its body rewritten by the body-level function above
(once), every other section is exactly what it was. -/
theorem multi_all_call_frame (f f' : FileS) (sec : Bytes) (sub : Option Bytes) (key : Bytes) :
    (∀ value, applyM f (.mvSetAll sec sub key value) = .ok f' →
      ∃ ids, idsBy f sec sub = .ok ids ∧ f'.front = f.front ∧ f'.reg = f.reg ∧
        ∀ i, f'.sections[i]? = if i ∈ ids then (f.sections[i]?).map (fun s =>
            { s with body := mvSetAllBody key value (mvSpans key s.body).length 0 s.body })
          else f.sections[i]?) ∧
    (applyM f (.mvDeleteAll sec sub key) = .ok f' →
      ∃ ids, idsBy f sec sub = .ok ids ∧ f'.front = f.front ∧ f'.reg = f.reg ∧
        ∀ i, f'.sections[i]? = if i ∈ ids then (f.sections[i]?).map (fun s =>
            { s with body := mvDeleteAllBody key (mvSpans key s.body).length s.body })
          else f.sections[i]?) := by
  constructor
  · intro value h
    simp only [applyM] at h
    split at h
    · simp at h
    · rename_i ids hids
      split at h
      · simp at h
      · simp only [Outcome.ok.injEq] at h
        subst h
        obtain ⟨h1, h2, h3⟩ := foldl_modifySec (fun s =>
          { s with body := mvSetAllBody key value (mvSpans key s.body).length 0 s.body }) ids f (idsBy_nodup hids).1
        exact ⟨ids, hids, h1, h2, h3⟩
  · intro h
    simp only [applyM] at h
    split at h
    · simp at h
    · rename_i ids hids
      split at h
      · simp at h
      · simp only [Outcome.ok.injEq] at h
        subst h
        obtain ⟨h1, h2, h3⟩ := foldl_modifySec (fun s =>
          { s with body := mvDeleteAllBody key (mvSpans key s.body).length s.body }) ids f (idsBy_nodup hids).1
        exact ⟨ids, hids, h1, h2, h3⟩

/-- `set_at` / `delete` on ALL files: exactly ONE section, filed under the looked-up name, has its
body changed by the body-level function, with an index below the number of occurrences there. -/
theorem multi_at_call_frame (f f' : FileS) (sec : Bytes) (sub : Option Bytes) (key : Bytes) (n : Nat) :
    (∀ value, applyM f (.mvSetAt sec sub key n value) = .ok f' →
      ∃ ids i j, idsBy f sec sub = .ok ids ∧ i ∈ ids ∧ j < (mvSpans key (bodyAt f i)).length ∧
        f' = modifySec f i fun s => { s with body := mvSetNth s.body key value j }) ∧
    (applyM f (.mvDelete sec sub key n) = .ok f' →
      ∃ ids i j, idsBy f sec sub = .ok ids ∧ i ∈ ids ∧ j < (mvSpans key (bodyAt f i)).length ∧
        f' = modifySec f i fun s => { s with body := mvDeleteNth s.body key j }) := by
  have hloc : ∀ (l : List (Nat × Nat)) (m i j : Nat), locate l m = some (i, j) → (i, j) ∈ l.map (fun p => (p.1, j)) ∧
      ∃ c, (i, c) ∈ l ∧ j < c := by
    intro l
    induction l with
    | nil => intro m i j h; simp [locate] at h
    | cons p l ih =>
      intro m i j h
      obtain ⟨i0, c0⟩ := p
      simp only [locate] at h
      split at h
      · simp only [Option.some.injEq, Prod.mk.injEq] at h
        obtain ⟨rfl, rfl⟩ := h
        exact ⟨by simp, c0, by simp, by assumption⟩
      · obtain ⟨h1, c, h2, h3⟩ := ih _ i j h
        exact ⟨by simp only [List.map_cons, List.mem_cons]; exact Or.inr h1, c, by simp [h2], h3⟩
  constructor
  · intro value h
    simp only [applyM] at h
    split at h
    · simp at h
    · rename_i ids hids
      split at h
      · simp at h
      · split at h
        · rename_i i j hl
          simp only [Outcome.ok.injEq] at h
          obtain ⟨_, c, hc, hj⟩ := hloc _ _ i j hl
          simp only [List.mem_map] at hc
          obtain ⟨i', hi', heq⟩ := hc
          simp only [Prod.mk.injEq] at heq
          obtain ⟨rfl, rfl⟩ := heq
          exact ⟨ids, i', j, hids, hi', hj, h.symm⟩
        · simp at h
  · intro h
    simp only [applyM] at h
    split at h
    · simp at h
    · rename_i ids hids
      split at h
      · simp at h
      · split at h
        · rename_i i j hl
          simp only [Outcome.ok.injEq] at h
          obtain ⟨_, c, hc, hj⟩ := hloc _ _ i j hl
          simp only [List.mem_map] at hc
          obtain ⟨i', hi', heq⟩ := hc
          simp only [Prod.mk.injEq] at heq
          obtain ⟨rfl, rfl⟩ := heq
          exact ⟨ids, i', j, hids, hi', hj, h.symm⟩
        · simp at h

-- non-vacuity: two sections filed under `a`, one under `b`; `set_all` rewrites three values, `b` is untouched
example : ∃ f f', load [91, 97, 93, 10, 107, 61, 49, 10, 91, 98, 93, 10, 107, 61, 53, 10, 91, 65, 93, 10, 107, 61, 50, 10,
      75, 61, 51, 10] = some f ∧
    applyM f (.mvSetAll [97] none [107] [120]) = .ok f' ∧
    f'.write = [91, 97, 93, 10, 107, 61, 120, 10, 91, 98, 93, 10, 107, 61, 53, 10, 91, 65, 93, 10, 107, 61, 120, 10,
      107, 61, 120, 10] := by
  refine ⟨_, _, rfl, rfl, by decide +kernel⟩

/-- `C28_full` on the class where print-then-parse is proved (round 3; same predicates as C26's
`file_reparse_uniform_newlines`). After ANY successful call — and in fact for any file value,
loaded or edited (`reparse_edited`) — such that
* the edited file's own events re-parse to themselves (`hs`: the print-then-parse direction for the
  events as they stand, NOT proved in general — it is the remaining open part of `C28_full`),
* the text has no byte-order mark, and the events END IN A VALUE
  (no comment, whitespace or newline run at the very end of the file),
* `File::write_to` inserts nothing, or exactly the missing final newline (`\n` / `\r\n` as the file uses),
the written text loads and has the same view (header and entries of every section, in order) and
the same comments in every section as the edited file. -/
theorem C28_full_uniform_newlines (f f' : FileS) (op : AnyOp) (_h : applyAny f op = .ok f')
    (hs : fileFromBytes (render f'.toFile.events) = some f'.toFile)
    (hfin : f'.toFile.normal = true ∨
      (f'.toFile.aug = f'.toFile.events ++ [.newline (detectNewline f'.toFile)] ∧
        ∃ e, f'.toFile.events.getLast? = some e ∧ (isValueEnd e = true ∨ evIsWs e = true ∨ isHeaderEv e = true ∨
          (isComment e = true ∧ detectNewline f'.toFile = [10])))) :
    ∃ g, load f'.write = some g ∧ g.view = f'.view ∧ g.comments = f'.comments :=
  reparse_edited f' hs hfin

-- non-vacuity: `[a]\n\tk = v` (no final newline), `set a.k = "x y "`: all hypotheses hold, the final newline is added
example : ∃ f f', load [91, 97, 93, 10, 9, 107, 32, 61, 32, 118] = some f ∧
    applyAny f (.single (.set [97] none [107] [120, 32, 121, 32])) = .ok f' ∧
    fileFromBytes (render f'.toFile.events) = some f'.toFile ∧
    (∃ e, f'.toFile.events.getLast? = some e ∧ isValueEnd e = true) ∧
    f'.toFile.aug = f'.toFile.events ++ [.newline (detectNewline f'.toFile)] ∧
    f'.write = [91, 97, 93, 10, 9, 107, 32, 61, 32, 34, 120, 32, 121, 32, 34, 10] := by
  refine ⟨_, _, rfl, rfl, by decide +kernel, ⟨_, rfl, rfl⟩, by decide +kernel, by decide +kernel⟩

/-- `C28_full` for the newline the writer inserts IN THE MIDDLE (round 4): after ANY successful call
(any file value), if the edited events re-parse to themselves with canonical raw events (`hs`, `hc`:
explicit hypotheses, as in `C28_full_uniform_newlines`) and the writer's output is the events with
exactly one newline inserted right after one of the section headers (a key or comment on the header
line, e.g. after `set` into a file written as `[a] k = v`), the written text loads with the same
view and the same comments per section. Built on C26's `parseRaw_insK`. -/
theorem C28_full_key_on_header_line (f f' : FileS) (op : AnyOp) (_h : applyAny f op = .ok f')
    (hs : fileFromBytes (render f'.toFile.events) = some f'.toFile)
    (hc : ∀ revs, parseRaw (render f'.toFile.events) = some revs → ∀ e ∈ revs, e.canon = true)
    (pre : List Event) (hd : Header) (tl : List Event) (t : Bytes) (ht : t = [10] ∨ t = [13, 10])
    (hev : f'.toFile.events = pre ++ .header hd :: tl)
    (haug : f'.toFile.aug = pre ++ .header hd :: .newline t :: tl)
    (hY : takeNewlines1 (render tl) = none) :
    ∃ g, load f'.write = some g ∧ g.view = f'.view ∧ g.comments = f'.comments :=
  reparse_edited_ins f' hs hc pre hd tl t ht hev haug hY

-- non-vacuity: `[a] k = v\n`, `set a.k = w`: the edited file is written as `[a]\n k = w\n`
example : ∃ f f' hd tl, load [91, 97, 93, 32, 107, 32, 61, 32, 118, 10] = some f ∧
    applyAny f (.single (.set [97] none [107] [119])) = .ok f' ∧
    fileFromBytes (render f'.toFile.events) = some f'.toFile ∧
    f'.toFile.events = [] ++ .header hd :: tl ∧
    f'.toFile.aug = [] ++ .header hd :: .newline [10] :: tl ∧
    takeNewlines1 (render tl) = none ∧
    f'.write = [91, 97, 93, 10, 32, 107, 32, 61, 32, 119, 10] := by
  refine ⟨_, _, _, _, rfl, rfl, by decide +kernel, rfl, by decide +kernel, by decide +kernel, by decide +kernel⟩

/-- … and for ANY NUMBER of section headers with something on their own line: whenever the writer's
output for the edited file is its events with newline events inserted after some of the headers
(`InsAfterHeaders`, C26), the written text loads with the same view and comments. -/
theorem C28_full_keys_on_header_lines (f f' : FileS) (op : AnyOp) (_h : applyAny f op = .ok f')
    (hs : fileFromBytes (render f'.toFile.events) = some f'.toFile)
    (hc : ∀ revs, parseRaw (render f'.toFile.events) = some revs → ∀ e ∈ revs, e.canon = true)
    (hins : InsAfterHeaders render f'.toFile.events f'.toFile.aug) :
    ∃ g, load f'.write = some g ∧ g.view = f'.view ∧ g.comments = f'.comments :=
  reparse_edited_ins_many f' hs hc hins

-- non-vacuity: `[a] k = v\n[b] j = 1\n`, `set b.j = 2`: both headers get their own line
example : ∃ f f', load [91, 97, 93, 32, 107, 32, 61, 32, 118, 10, 91, 98, 93, 32, 106, 32, 61, 32, 49, 10] = some f ∧
    applyAny f (.single (.set [98] none [106] [50])) = .ok f' ∧
    fileFromBytes (render f'.toFile.events) = some f'.toFile ∧
    InsAfterHeaders render f'.toFile.events f'.toFile.aug ∧
    f'.write = [91, 97, 93, 10, 32, 107, 32, 61, 32, 118, 10, 91, 98, 93, 10, 32, 106, 32, 61, 32, 50, 10] := by
  refine ⟨_, _, rfl, rfl, by decide +kernel, ?_, by decide +kernel⟩
  exact .step
    (pre := [.header ⟨[97], none, none⟩, .newline [10], .ws [32], .name [107], .ws [32], .sep, .ws [32], .value [118],
      .newline [10]])
    (post := [.ws [32], .name [106], .ws [32], .sep, .ws [32], .value [50], .newline [10]])
    (hr := ⟨[98], none, none⟩) (t := [10])
    (.step (pre := []) (hr := ⟨[97], none, none⟩) (t := [10])
      (post := [.ws [32], .name [107], .ws [32], .sep, .ws [32], .value [118], .newline [10], .header ⟨[98], none, none⟩,
        .ws [32], .name [106], .ws [32], .sep, .ws [32], .value [50], .newline [10]])
      (.refl _) (Or.inl rfl) (by decide +kernel))
    (Or.inl rfl) (by decide +kernel)

/-- … with the shape as a decidable predicate (`insCheck`). -/
theorem C28_full_keys_on_header_lines_checked (f f' : FileS) (op : AnyOp) (h : applyAny f op = .ok f')
    (hs : fileFromBytes (render f'.toFile.events) = some f'.toFile)
    (hc : ∀ revs, parseRaw (render f'.toFile.events) = some revs → ∀ e ∈ revs, e.canon = true)
    (hins : insCheck f'.toFile.events f'.toFile.aug = true) :
    ∃ g, load f'.write = some g ∧ g.view = f'.view ∧ g.comments = f'.comments :=
  C28_full_keys_on_header_lines f f' op h hs hc (insCheck_sound _ _ hins)

example : ∃ f f', load [91, 97, 93, 32, 107, 32, 61, 32, 118, 10, 91, 98, 93, 32, 106, 32, 61, 32, 49, 10] = some f ∧
    applyAny f (.single (.set [98] none [106] [50])) = .ok f' ∧
    insCheck f'.toFile.events f'.toFile.aug = true := by
  refine ⟨_, _, rfl, rfl, by decide +kernel⟩

/-- The property in full (NOT proved): after any call that succeeds, serializing and re-parsing
gives the view the call means, i.e. `view (load (write (apply f op))) = view (apply f op)`.
Evaluated by the harness oracle. -/
def C28_full : Prop :=
  ∀ f op f', apply f op = .ok f' → ∃ g, load f'.write = some g ∧ g.view = f'.view ∧ g.comments = f'.comments

end GixModel.Props.C28
