import GixModel.Lemmas.C54
/-
C54 — Connectivity checks report exactly the missing objects.  PROPERTY THEOREMS ONLY.

For EVERY finite object store `db` (any id type, cycles allowed, any sharing) whose entry modes
tell the truth (`WellKinded db kindOf`, Lemmas) and every commit / list of commits:

  * `Reach db t x k` (Lemmas) — `x` is reachable from the root tree `t` through PRESENT trees via
    tree and blob entries (submodule `Commit` entries are never followed), referenced with kind `k`;
  * the callbacks of `check_commit` are exactly the reachable ids that are absent from the store,
    each exactly once, with kind `Tree` for tree entries and `Blob` for blob/executable/link entries;
  * with one `Connectivity` used for several commits (shared `seen` set) every missing object
    reachable from any of them is reported exactly once overall.
-/
namespace GixModel.Props.C54
open GixModel.C54

variable {Id : Type} [DecidableEq Id]

/-- One commit on a fresh `Connectivity`: it succeeds, and `missing_cb` is called for exactly the
missing trees/blobs reachable through present trees — nothing else (in particular no submodule
commits, nothing below a missing tree). -/
theorem reports_exactly (db : Store Id) (kindOf : Id → EKind) (hwk : WellKinded db kindOf) (c t : Id)
    (hc : get db c = some (Obj.commit t)) :
    (checkCommit db c St.init).2 = Outcome.ok
    ∧ ∀ x k, (x, k) ∈ (checkCommit db c St.init).1.cbs ↔
        ∃ k', Reach db t x k' ∧ get db x = none ∧ k = cbKind k' := by
  have hkc : kindOf c = EKind.commit := (hwk.obj_commit c t hc).1
  obtain ⟨h1, h2, _, h4, _⟩ := checkCommit_inv (done := []) hwk c hkc
    ((inv_init db kindOf).congr (by simp [Roots])) rfl
  refine ⟨h4 ⟨t, hc⟩, ?_⟩
  intro x k
  rw [inv_final hwk h1 h2 x k]
  constructor
  · rintro ⟨r, k', hr, hre, hn, hk⟩
    obtain ⟨c', hc', hg⟩ := hr
    simp only [List.mem_singleton] at hc'
    subst hc'
    rw [hc] at hg
    cases hg
    exact ⟨k', hre, hn, hk⟩
  · rintro ⟨k', hre, hn, hk⟩
    exact ⟨t, k', ⟨c, by simp, hc⟩, hre, hn, hk⟩

/-- …each of them exactly once. -/
theorem reports_once (db : Store Id) (kindOf : Id → EKind) (hwk : WellKinded db kindOf) (c t : Id)
    (hc : get db c = some (Obj.commit t)) :
    ((checkCommit db c St.init).1.cbs.map Prod.fst).Nodup := by
  have hkc : kindOf c = EKind.commit := (hwk.obj_commit c t hc).1
  exact (checkCommit_inv (done := []) hwk c hkc ((inv_init db kindOf).congr (by simp [Roots])) rfl).1.nodup

/-- …with the right kind: `Tree` exactly for ids referenced by tree entries (or as a commit's
root tree), `Blob` for ids referenced by blob, executable or symlink entries. -/
theorem kinds_correct (db : Store Id) (kindOf : Id → EKind) (hwk : WellKinded db kindOf) (cs : List Id)
    (hcs : ∀ c ∈ cs, kindOf c = EKind.commit) (x : Id) (k : CbKind)
    (h : (x, k) ∈ (checkCommits db cs St.init).1.cbs) :
    k = cbKind (kindOf x) ∧ kindOf x ≠ EKind.commit ∧ get db x = none := by
  obtain ⟨h1, _, _⟩ := checkCommits_inv hwk cs [] St.init hcs ((inv_init db kindOf).congr (by simp [Roots])) rfl
  obtain ⟨_, b, c, d⟩ := (h1.cbs_iff x k).mp h
  exact ⟨d, b, c⟩

/-- One `Connectivity` used for any list of commits (present or not, repeated or not): over the
whole run `missing_cb` is called for exactly the missing objects reachable from the tree of any
present commit of the list, each exactly once overall (the shared `seen` set neither hides nor
repeats anything), and the walk always ends by itself. -/
theorem union_over_commits (db : Store Id) (kindOf : Id → EKind) (hwk : WellKinded db kindOf) (cs : List Id)
    (hcs : ∀ c ∈ cs, kindOf c = EKind.commit) :
    (∀ x k, (x, k) ∈ (checkCommits db cs St.init).1.cbs ↔
        ∃ c ∈ cs, ∃ t k', get db c = some (Obj.commit t) ∧ Reach db t x k' ∧ get db x = none ∧ k = cbKind k')
    ∧ ((checkCommits db cs St.init).1.cbs.map Prod.fst).Nodup
    ∧ Outcome.outOfFuel ∉ (checkCommits db cs St.init).2 := by
  obtain ⟨h1, h2, h3⟩ := checkCommits_inv hwk cs [] St.init hcs ((inv_init db kindOf).congr (by simp [Roots])) rfl
  refine ⟨?_, h1.nodup, h3⟩
  intro x k
  rw [inv_final hwk h1 h2 x k]
  constructor
  · rintro ⟨r, k', ⟨c, hc, hg⟩, hre, hn, hk⟩
    exact ⟨c, by simpa using hc, r, k', hg, hre, hn, hk⟩
  · rintro ⟨c, hc, t, k', hg, hre, hn, hk⟩
    exact ⟨t, k', ⟨c, by simpa using hc, hg⟩, hre, hn, hk⟩

/-- A single `check_commit` on any reachable state of a `Connectivity`: it fails exactly when the
commit is new to this instance and is not a present commit; it never runs out of fuel, i.e. the
real `while let Some(..) = pop_front()` loop terminates. -/
theorem check_commit_result (db : Store Id) (kindOf : Id → EKind) (hwk : WellKinded db kindOf)
    (earlier : List Id) (hcs : ∀ c ∈ earlier, kindOf c = EKind.commit) (c : Id) (hc : kindOf c = EKind.commit) :
    let st := (checkCommits db earlier St.init).1
    (checkCommit db c st).2 ≠ Outcome.outOfFuel
    ∧ ((∃ t, get db c = some (Obj.commit t)) → (checkCommit db c st).2 = Outcome.ok)
    ∧ (c ∉ st.seen → (checkCommit db c st).2 = Outcome.ok → ∃ t, get db c = some (Obj.commit t)) := by
  obtain ⟨h1, h2, _⟩ := checkCommits_inv hwk earlier [] St.init hcs ((inv_init db kindOf).congr (by simp [Roots])) rfl
  obtain ⟨_, _, a, b, c'⟩ := checkCommit_inv hwk c hc h1 h2
  exact ⟨a, b, c'⟩

/-! non-vacuity: ids 0,1 blobs (1 absent), 2 = tree{b0,b1,t3}, 3 absent tree, 4 = tree{t2,c9,b0}
(9 a submodule commit), 5,6 commits of 4 and 2; the store is well kinded, both commits are checked,
and exactly 1 (blob) and 3 (tree) are reported, once. -/
def exDb : Store Nat :=
  [(0, Obj.blob), (2, Obj.tree [(EKind.blob, 0), (EKind.blob, 1), (EKind.tree, 3)]),
   (4, Obj.tree [(EKind.tree, 2), (EKind.commit, 9), (EKind.blob, 0)]), (5, Obj.commit 4), (6, Obj.commit 2)]

def exKind (i : Nat) : EKind :=
  if i = 0 ∨ i = 1 then EKind.blob else if i = 2 ∨ i = 3 ∨ i = 4 then EKind.tree else EKind.commit

example : WellKinded exDb exKind := wellKinded_of_check (by decide)
example : ∀ c ∈ [5, 6], exKind c = EKind.commit := by decide
example : (checkCommits exDb [5, 6] St.init).1.cbs = [(3, CbKind.tree), (1, CbKind.blob)]
    ∧ (checkCommits exDb [5, 6] St.init).2 = [Outcome.ok, Outcome.ok] := by decide
example : Reach exDb 4 3 EKind.tree :=
  have h2 : Reach exDb 4 2 EKind.tree :=
    Reach.child (t := 4) (x := 2) (k := EKind.tree) (es := [(EKind.tree, 2), (EKind.commit, 9), (EKind.blob, 0)])
      Reach.root rfl (by decide) (by decide)
  Reach.child (t := 2) (x := 3) (k := EKind.tree) (es := [(EKind.blob, 0), (EKind.blob, 1), (EKind.tree, 3)])
    h2 rfl (by decide) (by decide)

end GixModel.Props.C54
