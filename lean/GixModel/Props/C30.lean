import GixModel.Lemmas.C30Main
import GixModel.Lemmas.C30Total
import GixModel.Lemmas.C30Demo
/-
C30 — Ref advertisements are understood exactly.  PROPERTY THEOREMS ONLY.

`Spec.C30.advertiseV1 s` / `advertiseV2 s` are the data lines `git upload-pack` prints for a server
`s` (transcription validated against git 2.39.5 by the harness); `handshakeV1` / `fromV2` are
gitoxide's parsers (model of the code in /repo after the three `fix:` commits named in
known-findings.txt, tied by the differential harness). For EVERY well-formed server — any number of
refs, any names git allows (incl. names ending in non-ASCII whitespace), any mix of direct refs,
(nested) annotated tags, symbolic refs, HEAD symbolic / detached / unborn / hidden, any shallow
boundary, any capability list — parsing the advertisement yields exactly the expected references.
-/
namespace GixModel.Props.C30
open GixModel GixModel.C30 GixModel.Spec.C30 GixModel.C30.Demo

/-- Protocol v0/v1, any `symref=` capabilities (also several, in any position, also for refs that
are not advertised): the handshake succeeds, reports the server's shallow boundary, and its refs
are exactly the expected ones up to order (`swap_remove` may move refs when a symref capability
other than the first line's is used — see the `example` below). -/
theorem v1_roundtrip (s : V1Server) (h : WfV1 s) :
    ∃ rs, handshakeV1 (advertiseV1 s) =
        some (.ok { proto := if (advertiseV1 s).isEmpty then 0 else 1, refs := rs, shallow := s.shallow }) ∧
      rs.Perm (expectV1 s) :=
  v1_roundtrip_perm s h

/-- Protocol v0/v1 in the shape git really sends (at most one `symref=` capability; it names the
first advertised ref — HEAD — or, with a hidden HEAD, none): the refs come out in advertisement
order. -/
theorem v1_roundtrip_git (s : V1Server) (h : WfV1 s) (hg : GitShape s) :
    handshakeV1 (advertiseV1 s) =
      some (.ok { proto := if (advertiseV1 s).isEmpty then 0 else 1, refs := expectV1 s, shallow := s.shallow }) :=
  v1_roundtrip_exact s h hg

/-- Protocol v2 `ls-refs` (symrefs, peel, unborn, any ref-prefix set): every line parses to the
reference it describes, in order. -/
theorem v2_roundtrip (s : V2Server) (h : WfV2 s) : fromV2 (advertiseV2 s) = .ok (expectV2 s) :=
  fromV2_advertise s h

/-- No sequence of lines whatsoever makes the v0/v1 handshake hit an `unreachable!()`. -/
theorem v1_total (lines : List Bytes) : handshakeV1 lines ≠ some .panic :=
  handshakeV1_no_panic lines

theorem v1_line_total (k : Nat) (st : V1State) (line : Bytes) : parseV1 k st line ≠ .panic :=
  parseV1_no_panic k st line

/-- No sequence of lines makes `from_v2_refs` panic. -/
theorem v2_total (lines : List Bytes) : fromV2 lines ≠ .panic :=
  fromV2_no_panic lines

theorem v2_line_total (line : Bytes) : parseV2 line ≠ .panic :=
  parseV2_no_panic line

/-! ### non-vacuity -/

example : WfV1 demoV1 := demoV1_wf
example : WfV2 demoV2 := demoV2_wf

example : GitShape demoV1 := Or.inr ⟨nHEAD, nTag, rfl, by decide⟩

/-- the instance computed: HEAD comes out symbolic with its tag and peeled object, the name keeps
its trailing U+00A0, the shallow boundary is reported -/
example : handshakeV1 (advertiseV1 demoV1) = some (.ok
    { proto := 1,
      refs := [.symbolic nHEAD nTag (some oidA) oidB, .direct nMain oidC, .direct nNbsp oidB, .peeled nTag oidA oidB],
      shallow := [oidC] }) := by decide +kernel

/-- why `v1_roundtrip` says `Perm`: with two symref capabilities, the second one for a ref in the
middle, `swap_remove` pulls the last vector element forward — the refs come out in another order
than advertised (`demoSwap`; compare with `expectV1 demoSwap` below) -/
example : handshakeV1 (advertiseV1 demoSwap) = some (.ok
    { proto := 1,
      refs := [.direct nMain oidC, .symbolic nHEAD nMain none oidC, .symbolic nNbsp nMain none oidC,
        .peeled nTag oidA oidB],
      shallow := [] }) := by decide +kernel

example : expectV1 demoSwap =
    [.symbolic nHEAD nMain none oidC, .direct nMain oidC, .symbolic nNbsp nMain none oidC, .peeled nTag oidA oidB] := by
  decide +kernel

example : fromV2 (advertiseV2 demoV2) =
    .ok [.unborn bHEAD nMain, .direct nMain oidC, .symbolic nNbsp nTag (some oidA) oidB] := by decide +kernel

/-- the arbitrary-lines theorems are about something: garbage is rejected, not accepted -/
example : handshakeV1 [[120, 32, 121]] = some (.err .nul) := by decide +kernel

example : fromV2 [[120, 32, 121]] = .err .id := by decide +kernel

end GixModel.Props.C30
