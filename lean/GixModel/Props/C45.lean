import GixModel.Lemmas.C45NoPanic
/-
C45 — Text merges obey merge identities and never panic.  PROPERTY THEOREMS ONLY.

`merge inp labels conflict hunksA hunksB` is the model of `builtin_driver::text::merge` after its
two `imara_diff::diff` calls (Model/C45.lean); the diff is a parameter. `DiffOf base side hs` is
the contract assumed of it (Lemmas/C45.lean: hunks ordered, separated by at least one unchanged
line, inside both token lists, unchanged runs and the tail equal on both sides, and no hunks when
`side = base`). The harness checks this contract on every hunk list the real diff delivers and feeds
exactly those lists to the model.
Outputs are lists of pieces tagged with their origin; `render` gives the bytes.
-/
namespace GixModel.Props.C45
open GixModel GixModel.C45

/-- `ours_eq_base`: ours = base ⇒ for EVERY conflict style, marker size, resolution mode and
labels the merge does not panic, reports no conflict and yields theirs. -/
theorem ours_eq_base (base theirs : List Bytes) (labels : Labels) (conflict : Conflict)
    (ha hb : List (Range × Range)) (hA : DiffOf base base ha) (hB : DiffOf base theirs hb) :
    ∃ ps, merge ⟨base, base, theirs⟩ labels conflict ha hb = .ok (.complete, ps) ∧
      render ps = theirs.flatten := by
  have : ha = [] := hA.2 rfl
  subst this
  exact merge_other_only base theirs labels conflict hb hB

/-- `theirs_eq_base`: theirs = base ⇒ the result is ours, without conflict, in every mode. -/
theorem theirs_eq_base (base ours : List Bytes) (labels : Labels) (conflict : Conflict)
    (ha hb : List (Range × Range)) (hA : DiffOf base ours ha) (hB : DiffOf base base hb) :
    ∃ ps, merge ⟨base, ours, base⟩ labels conflict ha hb = .ok (.complete, ps) ∧
      render ps = ours.flatten := by
  have : hb = [] := hB.2 rfl
  subst this
  exact merge_current_only base ours labels conflict ha hA

/-- `same_change`: ours = theirs (and the diff, being a function of its inputs, delivers the same
hunks for both) ⇒ in EVERY conflict style, marker size and resolution mode the merge does not
panic, reports no conflict and yields exactly that text — including the zealously contracting
modes and union. -/
theorem same_change (base side : List Bytes) (labels : Labels) (conflict : Conflict)
    (hs : List (Range × Range)) (h : DiffOf base side hs) :
    ∃ ps, merge ⟨base, side, side⟩ labels conflict hs hs = .ok (.complete, ps) ∧ render ps = side.flatten :=
  merge_same_change base side labels conflict hs h

/-- the identities in terms of the texts: tokenising (`byte_lines_with_terminator`) and
concatenating is the identity, so "yields theirs" is about the bytes of the file -/
theorem lines_roundtrip (text : Bytes) : (linesWithTerminator text).flatten = text := lines_flatten text

-- non-vacuity: base "a\nb\n", theirs "a\nX\n": one hunk 1..2 → 1..2 satisfies the contract,
-- and the identity is about a non-trivial merge
example : DiffOf [[97, 10], [98, 10]] [[97, 10], [88, 10]] [(⟨1, 2⟩, ⟨1, 2⟩)] := by
  constructor
  · decide
  · intro h; exact absurd h (by decide)
example : DiffOf [[97, 10], [98, 10]] [[97, 10], [98, 10]] [] := ⟨by decide, fun _ => rfl⟩

/-- `clean_has_no_markers`: whenever the merge reports `Resolution::Complete` — any three token
lists, any hunk lists (no contract needed), any style / marker size / resolution mode — no piece of
the output is a conflict-marker line. -/
theorem clean_has_no_markers (inp : Input) (labels : Labels) (conflict : Conflict)
    (ha hb : List (Range × Range)) (ps : List Piece)
    (h : merge inp labels conflict ha hb = .ok (.complete, ps)) : NoMarker ps :=
  merge_clean_noMarker inp labels conflict ha hb ps h

/-- … and unless the mode is `ResolveWithUnion` (which may terminate an unterminated last line)
every piece of a conflict-free result is a whole line of the base, of ours or of theirs. -/
theorem clean_is_input_lines (inp : Input) (labels : Labels) (conflict : Conflict) (hu : conflict ≠ .union)
    (ha hb : List (Range × Range)) (ps : List Piece)
    (h : merge inp labels conflict ha hb = .ok (.complete, ps)) : AllTokens ps :=
  merge_clean_tokens inp labels conflict hu ha hb ps h

-- non-vacuity: a conflicting merge does contain markers, a clean one is reported complete
example : ∃ ps, merge ⟨[[97, 10]], [[98, 10]], [[99, 10]]⟩ ⟨none, none, none⟩ (.keep .merge 7)
    [(⟨0, 1⟩, ⟨0, 1⟩)] [(⟨0, 1⟩, ⟨0, 1⟩)] = .ok (.conflict, ps) ∧ ¬ NoMarker ps := by
  refine ⟨[.marker [60, 60, 60, 60, 60, 60, 60, 10], .token .current 0 [98, 10],
    .marker [61, 61, 61, 61, 61, 61, 61, 10], .token .other 0 [99, 10],
    .marker [62, 62, 62, 62, 62, 62, 62, 10]], by decide +kernel, ?_⟩
  intro h
  have := h (.marker [60, 60, 60, 60, 60, 60, 60, 10]) (by simp)
  exact absurd this (by decide)

/-- `forced_resolution_lines` (what holds): with `ResolveWithOurs` (`ResolveWithTheirs`) every group
of intersecting hunks — the only place where the two sides compete — is resolved by writing whole
lines of ours (theirs) and of the base only. -/
theorem forced_resolution_section (inp : Input) (labels : Labels) (pickOurs : Bool) (out : List Piece)
    (integratedUntil : Nat) (hunk : Hunk) (rest : List Hunk) (s : Section)
    (hside : hunk.side ≠ .ancestor) (hrest : ∀ b ∈ rest, b.side ≠ .ancestor)
    (h : sectionFor inp labels (if pickOurs then .ours else .theirs) out integratedUntil hunk
      (takeIntersecting hunk rest).1 = .ok s) :
    ∃ extra, s.pieces = out ++ extra ∧
      TokensOf (if pickOurs then oursOrAncestor else theirsOrAncestor) extra := by
  apply sectionFor_pick inp labels pickOurs out integratedUntil hunk _ s hside _ h
  intro b hb
  have := takeIntersecting_sides hunk rest b hb
  exact ⟨this.1, hrest b this.2⟩

/-- … the forced resolutions never report a conflict, and their whole output consists of input
lines (hunks of the other side that intersect nothing are taken over, as in `git merge-file --ours`). -/
theorem forced_resolution_complete (inp : Input) (labels : Labels) (pickOurs : Bool)
    (ha hb : List (Range × Range)) (res : Resolution) (ps : List Piece)
    (h : merge inp labels (if pickOurs then .ours else .theirs) ha hb = .ok (res, ps)) :
    res = .complete ∧ AllTokens ps := by
  have hres : res = .complete := by
    unfold merge at h
    simp only [bind, Except.bind, pure, Except.pure] at h
    split at h
    · simp at h
    · rename_i v hv
      have := mergeLoop_pick_flag inp labels pickOurs _ _ _ _ _ _ hv
      simp only [Except.ok.injEq, Prod.mk.injEq] at h
      rw [this] at h
      exact h.1.symm
  subst hres
  exact ⟨rfl, merge_clean_tokens inp labels _ (by cases pickOurs <;> simp) ha hb ps h⟩

/-- The literal reading "the ours-resolution contains only lines of the base or of ours" is false
for any merge driver that merges: a change of theirs that conflicts with nothing is taken. -/
theorem forced_resolution_literal_false :
    ∃ ps, merge ⟨[[97, 10], [98, 10]], [[97, 10], [98, 10]], [[97, 10], [88, 10]]⟩ ⟨none, none, none⟩ .ours
        [] [(⟨1, 2⟩, ⟨1, 2⟩)] = .ok (.complete, ps) ∧ Piece.token .other 1 [88, 10] ∈ ps := by
  exact ⟨[.token .ancestor 0 [97, 10], .token .other 1 [88, 10]], by decide +kernel, by simp⟩

/-- `no_panic` for `ResolveWithOurs` and `ResolveWithTheirs` (a corollary of `no_panic` below; kept
from the first round) -/
theorem no_panic_forced_partial (base ours theirs : List Bytes) (labels : Labels) (pickOurs : Bool)
    (ha hb : List (Range × Range)) (hA : DiffOf base ours ha) (hB : DiffOf base theirs hb) :
    ∃ r, merge ⟨base, ours, theirs⟩ labels (if pickOurs then .ours else .theirs) ha hb = .ok r :=
  merge_pick_ok base ours theirs labels pickOurs ha hb hA hB

/-- … and no mode panics when one side equals the base or both sides are equal (corollary of the
identities). -/
theorem no_panic_one_side_partial (base side : List Bytes) (labels : Labels) (conflict : Conflict)
    (hs : List (Range × Range)) (h : DiffOf base side hs) :
    (∃ r, merge ⟨base, base, side⟩ labels conflict [] hs = .ok r) ∧
    (∃ r, merge ⟨base, side, base⟩ labels conflict hs [] = .ok r) := by
  obtain ⟨ps, h1, _⟩ := merge_other_only base side labels conflict hs h
  obtain ⟨qs, h2, _⟩ := merge_current_only base side labels conflict hs h
  exact ⟨⟨_, h1⟩, ⟨_, h2⟩⟩

/-- The full `no_panic` statement: every mode, incl. the zealous contraction of `Merge`,
`ZealousDiff3` and `ResolveWithUnion`, every marker size, every label. -/
def C45_no_panic_full : Prop :=
  ∀ (base ours theirs : List Bytes) (labels : Labels) (conflict : Conflict) (ha hb : List (Range × Range)),
    DiffOf base ours ha → DiffOf base theirs hb → ∃ r, merge ⟨base, ours, theirs⟩ labels conflict ha hb = .ok r

/-- `no_panic`: for ALL token lists, ALL hunk lists satisfying the diff contract, and ALL conflict
styles × marker sizes × resolution modes × labels, the merge reaches no panic outcome: no slice or
index out of bounds (`write_hunks`, `zealously_contract_hunks` and its truncation helpers,
`fill_ancestor`), no failed `expect`/`assert!`/`unreachable!`, no `usize` underflow. -/
theorem no_panic (base ours theirs : List Bytes) (labels : Labels) (conflict : Conflict)
    (ha hb : List (Range × Range)) (hA : DiffOf base ours ha) (hB : DiffOf base theirs hb) :
    ∃ r, merge ⟨base, ours, theirs⟩ labels conflict ha hb = .ok r :=
  merge_ok base ours theirs labels conflict ha hb hA hB

theorem no_panic_full : C45_no_panic_full := no_panic

-- non-vacuity: a genuinely conflicting pair of diffs satisfying the contract (base "a\nb\n",
-- ours "a\nX\n", theirs "a\nY\nb\n")
example : DiffOf [[97, 10], [98, 10]] [[97, 10], [88, 10]] [(⟨1, 2⟩, ⟨1, 2⟩)] ∧
    DiffOf [[97, 10], [98, 10]] [[97, 10], [89, 10], [98, 10]] [(⟨1, 1⟩, ⟨1, 2⟩)] :=
  ⟨⟨by decide, fun h => absurd h (by decide)⟩, ⟨by decide, fun h => absurd h (by decide)⟩⟩

end GixModel.Props.C45
