import GixModel.Lemmas.C40Main
/-
C40 — Path names git refuses to write are refused.  PROPERTY THEOREMS ONLY.

`gitVerifyPath ntfs hfs symlink path` is the Lean transcription of git's `verify_path()` (a
non-Windows build, as the oracle binary) with `is_hfs_dotgit*` / `is_ntfs_dotgit*`; `component t o
symlink c` is the model of `gix_validate::path::component`; `t` holds the tables extracted from
path.rs on this run (Windows device names, HFS-ignorable code points), of which the implication uses
only `ignorableOk` (the extracted code points are exactly git's 16).

The implication is one-directional, as the property states, and quantifies over ALL NUL-free byte
strings (a NUL cannot occur in a tree entry or index path), all 8 option combinations and both modes.
At full strength (`C40_full`) it is FALSE of today's code in two recorded families (known findings):
`C40_full_false_backslash`, `C40_full_false_hfs` prove the witnesses,
`git_refuses_imp_gix_refuses_partial` states the exact exceptions.
-/
namespace GixModel.Props.C40
open GixModel GixModel.C40 GixModel.Spec.C40

/-- Per-run obligations on the extracted tables. -/
theorem extracted_ignorable_ok : ignorableOk extractedTables = true := by decide +kernel
theorem extracted_devices_ok : devicesOk extractedTables = true := by decide +kernel

/-- The property at full strength. -/
def C40_full (t : Tables) : Prop :=
  ∀ (o : Opts) (symlink : Bool) (c : Bytes), c.contains 0 = false →
    gitVerifyPath o.ntfs o.hfs symlink c = false → (component t o symlink c).isSome = true

/-- … fails today: with protect_ntfs but not protect_windows, `.git\x` is accepted; git refuses it. -/
theorem C40_full_false_backslash : ¬ C40_full extractedTables := by
  intro h
  have := h ⟨false, false, true⟩ false [46, 103, 105, 116, 92, 120] (by decide) (by decide +kernel)
  revert this
  decide +kernel

/-- … and with protect_hfs, `.git\xff` is accepted; git's HFS test stops at the malformed byte. -/
theorem C40_full_false_hfs : ¬ C40_full extractedTables := by
  intro h
  have := h ⟨false, true, false⟩ false [46, 103, 105, 116, 255] (by decide) (by decide +kernel)
  revert this
  decide +kernel

/-- What holds instead, for every table passing `ignorableOk`: whatever git refuses is refused, unless
(a) protect_ntfs is on, protect_windows is off and the name contains a backslash, or (b) protect_hfs
is on and git's HFS test matched only because the character after ".git" / ".gitmodules" is
malformed UTF-8. -/
theorem git_refuses_imp_gix_refuses_partial_generic (t : Tables) (ht : ignorableOk t = true)
    (o : Opts) (symlink : Bool) (c : Bytes) (h0 : c.contains 0 = false)
    (hg : gitVerifyPath o.ntfs o.hfs symlink c = false) :
    (component t o symlink c).isSome = true
      ∨ (o.ntfs = true ∧ o.windows = false ∧ c.contains 92 = true)
      ∨ (o.hfs = true ∧
          ((isHfsDotgit c = true ∧ hfsEndsMalformed c needleGit = true)
            ∨ (symlink = true ∧ isHfsDotgitmodules c = true ∧ hfsEndsMalformed c needleGitmodules = true))) :=
  git_refuses_imp ht o symlink c h0 hg

theorem git_refuses_imp_gix_refuses_partial (o : Opts) (symlink : Bool) (c : Bytes) (h0 : c.contains 0 = false)
    (hg : gitVerifyPath o.ntfs o.hfs symlink c = false) :
    (component extractedTables o symlink c).isSome = true
      ∨ (o.ntfs = true ∧ o.windows = false ∧ c.contains 92 = true)
      ∨ (o.hfs = true ∧
          ((isHfsDotgit c = true ∧ hfsEndsMalformed c needleGit = true)
            ∨ (symlink = true ∧ isHfsDotgitmodules c = true ∧ hfsEndsMalformed c needleGitmodules = true))) :=
  git_refuses_imp extracted_ignorable_ok o symlink c h0 hg

/-- No exception at all when protect_windows is on and protect_hfs is off, … -/
theorem git_refuses_imp_gix_refuses_windows (ntfs symlink : Bool) (c : Bytes) (h0 : c.contains 0 = false)
    (hg : gitVerifyPath ntfs false symlink c = false) :
    (component extractedTables ⟨true, false, ntfs⟩ symlink c).isSome = true := by
  rcases git_refuses_imp_gix_refuses_partial ⟨true, false, ntfs⟩ symlink c h0 hg with h | ⟨_, h, _⟩ | ⟨h, _⟩
  · exact h
  · cases h
  · cases h

/-- … nor for names without a backslash under NTFS protection alone (any protect_windows): the whole
".git" / "git~1" / ".gitmodules" / "gitmod~N" / "gi7eba~N" families with trailing spaces, dots and
streams, … -/
theorem git_refuses_imp_gix_refuses_ntfs (windows ntfs symlink : Bool) (c : Bytes) (h0 : c.contains 0 = false)
    (hb : c.contains 92 = false) (hg : gitVerifyPath ntfs false symlink c = false) :
    (component extractedTables ⟨windows, false, ntfs⟩ symlink c).isSome = true := by
  rcases git_refuses_imp_gix_refuses_partial ⟨windows, false, ntfs⟩ symlink c h0 hg with h | ⟨_, _, h⟩ | ⟨h, _⟩
  · exact h
  · rw [hb] at h; cases h
  · cases h

/-- … nor under HFS protection when git's match does not end at malformed UTF-8 (in particular for
every valid UTF-8 name, with ignorable code points inserted anywhere). -/
theorem git_refuses_imp_gix_refuses_hfs (windows symlink : Bool) (c : Bytes) (h0 : c.contains 0 = false)
    (hm : hfsEndsMalformed c needleGit = false) (hm' : hfsEndsMalformed c needleGitmodules = false)
    (hg : gitVerifyPath false true symlink c = false) :
    (component extractedTables ⟨windows, true, false⟩ symlink c).isSome = true := by
  rcases git_refuses_imp_gix_refuses_partial ⟨windows, true, false⟩ symlink c h0 hg with h | ⟨h, _⟩ | ⟨_, h⟩
  · exact h
  · cases h
  · rcases h with ⟨_, h⟩ | ⟨_, _, h⟩
    · rw [hm] at h; cases h
    · rw [hm'] at h; cases h

/-- The callers that choose the mode. `gix_index::State::from_tree` validates a leaf as a symlink iff
the KIND of its tree-entry mode is a link (`mode & 0o170000 == 0o120000`, so also the non-canonical
120777 / 120644) — which is git's `S_ISLNK`: whatever git refuses for (S_ISLNK(mode), name) keeps the
index from being built, with the same two exceptions. -/
theorem from_tree_refuses_partial (o : Opts) (mode : Nat) (c : Bytes) (h0 : c.contains 0 = false)
    (hg : gitVerifyPath o.ntfs o.hfs (modeIsLink mode) c = false) :
    (fromTreeEntry extractedTables o mode c).isSome = true
      ∨ (o.ntfs = true ∧ o.windows = false ∧ c.contains 92 = true)
      ∨ (o.hfs = true ∧
          ((isHfsDotgit c = true ∧ hfsEndsMalformed c needleGit = true)
            ∨ (modeIsLink mode = true ∧ isHfsDotgitmodules c = true ∧ hfsEndsMalformed c needleGitmodules = true))) := by
  rcases git_refuses_imp_gix_refuses_partial o (modeIsLink mode) c h0 hg with h | h | h
  · left
    unfold fromTreeEntry
    cases h1 : component extractedTables o false c with
    | some e => rfl
    | none =>
      cases hl : modeIsLink mode
      · rw [hl, h1] at h; cases h
      · rw [hl] at h
        have ht : modeIsTree mode = false := by
          unfold modeIsLink at hl
          unfold modeIsTree
          have : mode &&& 0o170000 = 0o120000 := by simpa using hl
          rw [this]; decide
        simp only [ht, Bool.not_false, Bool.true_and, if_true]
        exact h
  · exact Or.inr (Or.inl h)
  · exact Or.inr (Or.inr h)

/-- The checkout stack (`StackDelegate::push`) validates the component it pushes with the entry's mode. -/
theorem stack_push_refuses_partial (o : Opts) (symlink : Bool) (c : Bytes) (h0 : c.contains 0 = false)
    (hg : gitVerifyPath o.ntfs o.hfs symlink c = false) :
    (stackPush extractedTables o symlink c).isSome = true
      ∨ (o.ntfs = true ∧ o.windows = false ∧ c.contains 92 = true)
      ∨ (o.hfs = true ∧
          ((isHfsDotgit c = true ∧ hfsEndsMalformed c needleGit = true)
            ∨ (symlink = true ∧ isHfsDotgitmodules c = true ∧ hfsEndsMalformed c needleGitmodules = true))) :=
  git_refuses_imp_gix_refuses_partial o symlink c h0 hg

-- a `.gitmodules` link with the non-canonical mode 120777 keeps the index from being built; as a blob it is fine
example : fromTreeEntry extractedTables ⟨false, false, false⟩ 0o120777 [46, 103, 105, 116, 109, 111, 100, 117, 108, 101, 115]
      = some .symlinkedGitModules
    ∧ fromTreeEntry extractedTables ⟨false, false, false⟩ 0o100664 [46, 103, 105, 116, 109, 111, 100, 117, 108, 101, 115] = none := by
  decide +kernel

/-- Windows device names: whatever `is_win_device` (whose name table is extracted and checked by
`extracted_devices_ok`) recognises is refused when protect_windows and protect_ntfs are on. -/
theorem device_names_refused (t : Tables) (hfs symlink : Bool) (c : Bytes) (hd : isWinDevice t c = true) :
    (component t ⟨true, hfs, true⟩ symlink c).isSome = true :=
  fires 9 _ _ rfl (by simp only [hd, Bool.and_self])

/-! non-vacuity -/
-- git refuses, gitoxide refuses: ".GIT" (no protection), "git~1 . :x" (NTFS), ".g<U+200C>it" (HFS),
-- "gitmod~4 ." and ".gitmodules<U+200D>" as symlinks, "." and ".."
example : gitVerifyPath false false false [46, 71, 73, 84] = false
    ∧ (component extractedTables ⟨false, false, false⟩ false [46, 71, 73, 84]).isSome = true := by decide +kernel
example : gitVerifyPath true false false [103, 105, 116, 126, 49, 32, 46, 32, 58, 120] = false
    ∧ component extractedTables ⟨false, false, true⟩ false [103, 105, 116, 126, 49, 32, 46, 32, 58, 120] = some .dotGitDir := by
  decide +kernel
example : gitVerifyPath false true false [46, 103, 226, 128, 140, 105, 116] = false
    ∧ component extractedTables ⟨false, true, false⟩ false [46, 103, 226, 128, 140, 105, 116] = some .dotGitDir
    ∧ hfsEndsMalformed [46, 103, 226, 128, 140, 105, 116] needleGit = false := by decide +kernel
example : gitVerifyPath true false true [103, 105, 116, 109, 111, 100, 126, 52, 32, 46] = false
    ∧ component extractedTables ⟨false, false, true⟩ true [103, 105, 116, 109, 111, 100, 126, 52, 32, 46] = some .symlinkedGitModules := by
  decide +kernel
example : gitVerifyPath false true true [46, 103, 105, 116, 109, 111, 100, 117, 108, 101, 115, 226, 128, 141] = false
    ∧ component extractedTables ⟨false, true, false⟩ true [46, 103, 105, 116, 109, 111, 100, 117, 108, 101, 115, 226, 128, 141] = some .symlinkedGitModules := by
  decide +kernel
example : gitVerifyPath true true false [46, 46] = false
    ∧ component extractedTables ⟨false, true, true⟩ false [46, 46] = some .dotOrDotDot := by decide +kernel
-- git accepts (the hypothesis is not always true): "a.git", ".gitmodules" as a regular file
example : gitVerifyPath true true true [97, 46, 103, 105, 116] = true
    ∧ gitVerifyPath true true false [46, 103, 105, 116, 109, 111, 100, 117, 108, 101, 115] = true := by decide +kernel
-- a device name with an extension
example : isWinDevice extractedTables [108, 112, 116, 49, 46, 116, 120, 116] = true := by decide +kernel

end GixModel.Props.C40
