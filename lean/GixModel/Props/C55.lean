import GixModel.Model.C55
namespace GixModel.Props.C55
end GixModel.Props.C55
