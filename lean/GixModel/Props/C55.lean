import GixModel.Lemmas.C55b
import GixModel.Lemmas.C55c
/-
C55 — Worktree streams contain exactly the tree.  PROPERTY THEOREMS ONLY.

The pipe protocol of gix-worktree-stream (header, known-length bodies, `write_stream` chunks with
u16 lengths and a zero terminator, `read_entry_info`, `Entry::read`) and the breadth-first traversal of
`from_tree`, as repaired by /repo 0af55029c. The archive containers (tar-rs, zip) are external and
checked against `git archive` by the harness only.
-/
namespace GixModel.Props.C55
open GixModel GixModel.C55

/-- `protocol_roundtrip`: for ALL entry lists — any path, kind, id, content of ANY length, known
length or streamed with ANY producer chunking (`Body.chunks reads`, each read 1..65535 bytes as
`input.read(&mut buf[..65535])` can return) — and for ALL consumer buffer sizes (each ≥ 1, changing from
read to read), reading every entry to the end yields exactly the entries that were written, in
order, with their content, and then the end of the stream. -/
theorem protocol_roundtrip (es : List Entry) (hv : ∀ e ∈ es, e.Valid) (sz : Nat → Nat) (hsz : ∀ i, 1 ≤ sz i) :
    decodeAll sz (encodeAll es) = .ok (es.map seenOf) := by
  unfold decodeAll
  exact decodeLoop_encodeAll sz hsz es _ 0 hv (by have := encodeAll_length es; omega)

-- non-vacuity: a streamed entry in two chunks, an empty known-length entry, a link
example : ∀ e ∈ ([⟨[97], 1, List.replicate 20 0, .chunks [[1, 2], [3]]⟩, ⟨[98], 2, List.replicate 20 7, .known []⟩,
    ⟨[99], 3, List.replicate 20 0, .known [120]⟩] : List Entry), e.Valid := by
  intro e he
  simp only [List.mem_cons, List.mem_nil_iff, or_false] at he
  rcases he with rfl | rfl | rfl <;> simp [Entry.Valid, Body.Valid, bufLen, usizeMax]

/-- `chunking_independent`: what the consumer reads does not depend on how the producer's reads
were cut. -/
theorem chunking_independent (path id : Bytes) (kind : Nat) (rs1 rs2 : List Bytes) (h : rs1.flatten = rs2.flatten)
    (h1 : (⟨path, kind, id, .chunks rs1⟩ : Entry).Valid) (h2 : (⟨path, kind, id, .chunks rs2⟩ : Entry).Valid)
    (sz1 sz2 : Nat → Nat) (hs1 : ∀ i, 1 ≤ sz1 i) (hs2 : ∀ i, 1 ≤ sz2 i) :
    decodeAll sz1 (encodeAll [⟨path, kind, id, .chunks rs1⟩]) = decodeAll sz2 (encodeAll [⟨path, kind, id, .chunks rs2⟩]) := by
  rw [protocol_roundtrip _ (by intro e he; simp at he; subst he; exact h1) sz1 hs1,
    protocol_roundtrip _ (by intro e he; simp at he; subst he; exact h2) sz2 hs2]
  simp [seenOf, Body.content, Body.declared, h]

/-- `no_premature_terminator`: the two length bytes of a chunk are never the terminator, because
`BUF_LEN = u16::MAX` keeps every read below 65536. -/
theorem no_premature_terminator (c : Bytes) (h0 : 0 < c.length) (hb : c.length ≤ bufLen) :
    le 2 c.length ≠ le 2 0 := by
  intro h
  have h1 := congrArg ofLe h
  unfold bufLen at hb
  rw [ofLe_le2 _ (by omega), ofLe_le2 0 (by omega)] at h1
  omega

/-- the bound is tight: a read of 65536 bytes would be written as the terminator -/
theorem terminator_bound_tight : le 2 65536 = le 2 0 := by decide

/-- A read into an empty buffer returns 0 bytes and changes nothing (so it does not end the entry;
before 0af55029c it did). -/
theorem zero_read_noop (st : RState) (remaining : Option Nat) : entryRead st remaining 0 = .ok [] st remaining := by
  simp [entryRead]

/-- `entries_eq_leaves`: the stream of a tree plus additional entries, read by any consumer, is
`from_tree`'s entries followed by the additional ones, and `from_tree`'s entries are a permutation
of the tree's leaves (depth-first listing without submodules and export-ignored paths, contents
passed through the filter): every leaf exactly once, nothing else. `ign` and `conv` are arbitrary. -/
theorem entries_eq_leaves (ign : Bytes → Nat → Bool) (conv : Bytes → Bytes → Bytes) (root : Forest) (extra : List Entry)
    (hv : ∀ e ∈ leavesForest ign conv [] root, e.Valid) (hx : ∀ e ∈ extra, e.Valid)
    (sz : Nat → Nat) (hsz : ∀ i, 1 ≤ sz i) :
    decodeAll sz (encodeAll (fromTree ign conv root ++ extra)) =
        .ok ((fromTree ign conv root).map seenOf ++ extra.map seenOf) ∧
      (fromTree ign conv root).Perm (leavesForest ign conv [] root) := by
  have hp := fromTree_perm ign conv root
  refine ⟨?_, hp⟩
  rw [protocol_roundtrip _ _ sz hsz, List.map_append]
  intro e he
  rcases List.mem_append.mp he with h | h
  · exact hv e (hp.mem_iff.mp h)
  · exact hx e h

-- non-vacuity: a/{b (blob), c/d (exec)}, z (link), sub (submodule): breadth-first order z, a/b, a/c/d
example : (fromTree (fun _ _ => false) (fun _ c => c)
    (.cons [97] (.tree (.cons [98] (.blob 1 [] [1]) (.cons [99] (.tree (.cons [100] (.blob 2 [] [2]) .nil)) .nil)))
      (.cons [115] (.commit []) (.cons [122] (.blob 3 [] [3]) .nil)))).map (·.path) =
    [[122], [97, 47, 98], [97, 47, 99, 47, 100]] := by
  decide

end GixModel.Props.C55
