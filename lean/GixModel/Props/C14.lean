import GixModel.Lemmas.C14Graph
import GixModel.Lemmas.C14Access
import GixModel.Lemmas.C14Congr
/-
C14 — Commit-graph data agrees with the commits it describes.  PROPERTY THEOREMS ONLY.

Shape: `SCommit`/`SLayer` + `sRecord`/`sLayer`/`sFile` (Spec.C14) are git's writer
(`commit-graph.c`): what git puts into the CDAT, EDGE, OIDF and OIDL chunks for a layer of
commits whose parents are given as graph positions. `Commit.new`, `Commit.parents`, `File.*`,
`lookupByPos`, `lookupById`, `Graph.*` (Model.C14) are gitoxide's reader, tied to the real code by
the harness. The theorems say: for ALL commits (any number of parents — none, one, two, an octopus
of any width —, any generation < 2^30, any committer time < 2^34, any root tree) and ALL chains of
layers, the reader gives back exactly what the writer was given, and never panics or errors.
"Generation numbers are consistent with parent relationships" is a property of the numbers git
computes, not of the reader: the theorems show the generation is read back unchanged; that git's
numbers are 1 + max over the parents is checked by the harness' oracle on every commit.
-/
namespace GixModel.Props.C14
open GixModel GixModel.C14
open GixModel.C09 (be32 TableOk)

/-- One record: `decode (encode c) = c`. The record is `sRecord c pre.length`, the commit's extra
edges sit in the list after `pre.length` earlier entries and before any `post`. -/
theorem commit_roundtrip (c : SCommit) (h : Fits c) (pre post : List Nat) (hpre : pre.length < 2147483648) :
    ∃ d, Commit.new (sRecord c pre.length) = some d ∧ d.tree = c.tree ∧ d.generation = c.generation ∧
      d.time = c.time ∧
      d.parents (some ((pre ++ sExtraEdges c ++ post).flatMap be32)) = some (c.parents, none) := by
  obtain ⟨d, h1, h2, h3, h4, h5, _⟩ := commit_roundtrip_at c h pre post hpre
  exact ⟨d, h1, h2, h3, h4, h5⟩

/-- an octopus merge of five parents at the largest generation and committer time the format holds -/
def exOctopus : SCommit :=
  { tree := [1,2,3,4,5,6,7,8,9,10,11,12,13,14,15,16,17,18,19,20], parents := [7, 0, 1879048191, 3, 12],
    generation := 1073741823, time := 17179869183 }

example : Fits exOctopus := ⟨by decide, by decide, by decide, by decide⟩
example : ((Commit.new (sRecord exOctopus 2)).bind
      (fun d => d.parents (some (([5, 6] ++ sExtraEdges exOctopus ++ [9]).flatMap be32)))) =
    some ([7, 0, 1879048191, 3, 12], none) := by decide +kernel
example : (Commit.new (sRecord exOctopus 2)).map (fun d => (d.generation, d.time)) =
    some (1073741823, 17179869183) := by decide +kernel

/-- commits with at most two parents do not need the extra edge list at all -/
theorem parents_without_edge_list (c : SCommit) (h : Fits c) (h2 : c.parents.length ≤ 2) (eb : Nat)
    (heb : eb < 2147483648) (e : Option Bytes) :
    ∃ d, Commit.new (sRecord c eb) = some d ∧ d.parents e = some (c.parents, none) := by
  obtain ⟨d, h1, _, _, _, _, h6⟩ := commit_roundtrip_at c h (List.replicate eb 0) [] (by simpa using heb)
  refine ⟨d, by simpa using h1, h6 ?_ e⟩
  unfold sExtraEdges
  match hp : c.parents with
  | [] => rfl
  | [_] => rfl
  | [_, _] => rfl
  | _ :: _ :: _ :: _ => rw [hp] at h2; simp at h2

/-- A whole layer as git writes it (`LayerOk`: as many ids as commits, ids strictly ascending,
every commit fits its fields, fewer than 2^31 commits and extra edges): commit `i` is read back —
root tree, generation, committer time, all parents in order, no error, no panic. -/
theorem layer_commit_eq (l : SLayer) (h : LayerOk l) (baseCount i : Nat) (hi : i < l.commits.length) :
    (sFile l baseCount).seen i = some (seenOf l.commits[i]) :=
  sFile_seen l h baseCount i hi

/-- Chain position translation: graph position `p` lands in file `k` at `p - (commits in files
before k)`; positions past the end are the documented panic. -/
theorem pos_translation (fs : List (File × List Bytes)) (hok : ChainOk fs) :
    (∀ k (hk : k < fs.length) q, q < fs[k].2.length →
        lookupByPos (fs.map (·.1)) 0 (startOf fs k + q) = some (k, q)) ∧
    (∀ p, startOf fs fs.length ≤ p → lookupByPos (fs.map (·.1)) 0 p = none) := by
  constructor
  · intro k hk q hq
    have := (lookupByPos_spec fs hok 0 (startOf fs k + q)).1 k hk q hq rfl
    simpa using this
  · intro p hp
    exact (lookupByPos_spec fs hok 0 p).2 hp

/-- Every commit in the graph is found by its id, in the first (base-most) file holding it, at
graph position (commits in the files before it) + (its index there); ids in no file are not found. -/
theorem lookup_by_id (fs : List (File × List Bytes)) (hok : ChainOk fs) (id : Bytes) (hid : id.length = 20) :
    (∀ k (hk : k < fs.length) lex (hl : lex < fs[k].2.length), fs[k].2[lex] = id →
        (∀ j (hj : j < k), id ∉ (fs[j]'(by omega)).2) →
        lookupById (fs.map (·.1)) 0 0 id = some (some (k, lex, startOf fs k + lex))) ∧
    ((∀ p ∈ fs, id ∉ p.2) → lookupById (fs.map (·.1)) 0 0 id = some none) := by
  have h := lookupById_spec id hid fs hok 0 0
  constructor
  · intro k hk lex hl hget hnot
    have := h.1 k hk lex hl hget hnot
    simpa using this
  · exact h.2

/-- the files git writes for a chain of layers, base first, with the ids they hold -/
def sChainFrom : List SLayer → Nat → List (File × List Bytes)
  | [], _ => []
  | l :: rest, k => (sFile l k, l.ids) :: sChainFrom rest (k + 1)

theorem sChainFrom_length : ∀ (ls : List SLayer) (b : Nat), (sChainFrom ls b).length = ls.length := by
  intro ls; induction ls with
  | nil => intro _; rfl
  | cons l rest ih => intro b; simp [sChainFrom, ih]

theorem sChainFrom_get : ∀ (ls : List SLayer) (b k : Nat) (hk : k < ls.length),
    (sChainFrom ls b)[k]? = some (sFile ls[k] (b + k), ls[k].ids) := by
  intro ls; induction ls with
  | nil => intro b k hk; simp at hk
  | cons l rest ih =>
    intro b k hk
    cases k with
    | zero => simp [sChainFrom]
    | succ j =>
      simp only [sChainFrom, List.getElem?_cons_succ, List.getElem_cons_succ]
      rw [ih (b + 1) j (by simpa using hk)]
      congr 3; omega

theorem sChainFrom_ok (ls : List SLayer) (hok : ∀ l ∈ ls, LayerOk l) : ∀ b, ChainOk (sChainFrom ls b) := by
  induction ls with
  | nil => intro b p hp; simp [sChainFrom] at hp
  | cons l rest ih =>
    intro b p hp
    simp only [sChainFrom, List.mem_cons] at hp
    rcases hp with rfl | hp
    · exact ⟨sFile_tableOk l (hok l (by simp)) b, sFile_numCommits l b⟩
    · exact ih (fun x hx => hok x (by simp [hx])) (b + 1) p hp

/-- The property, end to end: for ANY chain of layers as git writes them (layers hold disjoint
sets of commits), every commit of every layer is found by its id and by its graph position, and
what gitoxide reads — root tree, committer time, generation, all parents as graph positions — is
what git wrote, across file boundaries. -/
theorem graph_commit_eq (layers : List SLayer) (hok : ∀ l ∈ layers, LayerOk l)
    (hdisj : ∀ j k (hjk : j < k) (hk : k < layers.length), ∀ id ∈ layers[k].ids, id ∉ (layers[j]'(by omega)).ids)
    (k : Nat) (hk : k < layers.length) (i : Nat) (hi : i < layers[k].commits.length) :
    let g : Graph := { files := (sChainFrom layers 0).map (·.1) }
    let gp := startOf (sChainFrom layers 0) k + i
    ∃ (hi' : i < layers[k].ids.length),
      g.commitById layers[k].ids[i] = some (some (gp, seenOf layers[k].commits[i])) ∧
      g.commitAt gp = some (seenOf layers[k].commits[i]) ∧
      g.idAt gp = some layers[k].ids[i] := by
  intro g gp
  have hl := hok layers[k] (List.getElem_mem hk)
  have hi' : i < layers[k].ids.length := by rw [hl.lens]; exact hi
  have hchain := sChainFrom_ok layers hok 0
  have hlen := sChainFrom_length layers 0
  have hk' : k < (sChainFrom layers 0).length := by rw [hlen]; exact hk
  have hgetk := sChainFrom_get layers 0 k hk
  have hgetk' : (sChainFrom layers 0)[k] = (sFile layers[k] (0 + k), layers[k].ids) := by
    rw [List.getElem?_eq_getElem hk'] at hgetk; injection hgetk
  have hfile : g.files[k]? = some (sFile layers[k] (0 + k)) := by
    show ((sChainFrom layers 0).map (·.1))[k]? = _
    rw [List.getElem?_map, hgetk]; rfl
  have hseen := sFile_seen layers[k] hl (0 + k) i hi
  refine ⟨hi', ?_, ?_, ?_⟩
  · have hid20 := hl.ids20 _ (List.getElem_mem hi')
    have := (lookup_by_id (sChainFrom layers 0) hchain layers[k].ids[i] hid20).1 k hk' i
      (by rw [hgetk']; exact hi') (by simp only [hgetk'])
      (by
        intro j hj
        have hj' : j < layers.length := by omega
        have hgetj := sChainFrom_get layers 0 j hj'
        have : (sChainFrom layers 0)[j]'(by rw [hlen]; exact hj') = (sFile layers[j] (0 + j), layers[j].ids) := by
          rw [List.getElem?_eq_getElem (by rw [hlen]; exact hj')] at hgetj; injection hgetj
        rw [this]
        exact hdisj j k hj hk _ (List.getElem_mem hi'))
    simp only [Graph.commitById, g, this, Option.bind_eq_bind, Option.bind_some]
    show (((sChainFrom layers 0).map (·.1))[k]?).bind _ = _
    rw [show ((sChainFrom layers 0).map (·.1))[k]? = some (sFile layers[k] (0 + k)) from hfile]
    simp only [Option.bind_some, hseen]
    rfl
  · have this : lookupByPos ((sChainFrom layers 0).map (·.1)) 0 gp = some (k, i) :=
      (pos_translation (sChainFrom layers 0) hchain).1 k hk' i (by rw [hgetk']; exact hi')
    simp only [Graph.commitAt, g, this, Option.bind_eq_bind, Option.bind_some]
    show (((sChainFrom layers 0).map (·.1))[k]?).bind _ = _
    rw [show ((sChainFrom layers 0).map (·.1))[k]? = some (sFile layers[k] (0 + k)) from hfile]
    simp only [Option.bind_some, hseen]
  · have this : lookupByPos ((sChainFrom layers 0).map (·.1)) 0 gp = some (k, i) :=
      (pos_translation (sChainFrom layers 0) hchain).1 k hk' i (by rw [hgetk']; exact hi')
    simp only [Graph.idAt, g, this, Option.bind_eq_bind, Option.bind_some]
    show (((sChainFrom layers 0).map (·.1))[k]?).bind _ = _
    rw [show ((sChainFrom layers 0).map (·.1))[k]? = some (sFile layers[k] (0 + k)) from hfile]
    simp only [Option.bind_some]
    exact sFile_idAt layers[k] hl (0 + k) i hi'

/-! ### any byte string: `File::new` and the accessors never panic -/

/-- `File::new` (header, chunk table of contents, chunk validation) is total: NO byte string makes
it panic — it either rejects with an error or accepts. -/
theorem file_new_total (data : Bytes) : ∃ r, File.new data = some r := by
  obtain ⟨r, hr, _⟩ := File.new_total data
  exact ⟨r, hr⟩

/-- What is accepted has a 256-entry monotonic fan-out table of u32 and OIDL / CDAT chunks of
exactly `num_commits * 20` / `num_commits * 36` bytes (the chunk ranges came out of the table of
contents in-bounds: `start ≤ end ≤ file length`). -/
theorem accepted_file_shape (data : Bytes) (f : File) (h : File.new data = some (.ok f)) :
    f.fan.length = 256 ∧ fanMonotone f.fan = true ∧
      ∃ n, f.numCommits = some n ∧ f.oidl.length = n * 20 ∧ f.cdat.length = n * 36 := by
  obtain ⟨r, hr, hacc⟩ := File.new_total data
  rw [h] at hr; injection hr with hr
  have := hacc f hr.symm
  exact ⟨this.fanLen, this.mono, this.sizes⟩

/-- On ANY accepted file every accessor is panic-free: `id_at` and `commit_at` + the whole parent
iteration for every position below `num_commits`, and `lookup` for every id (the u32 midpoint
needs `num_commits < 2^31`, which `Graph::new` enforces: `MAX_COMMITS` < 2^31). -/
theorem accepted_file_accessors_total (data : Bytes) (f : File) (h : File.new data = some (.ok f)) :
    ∃ n, f.numCommits = some n ∧
      (∀ pos, pos < n → (∃ id, f.idAt pos = some id ∧ id.length = 20) ∧ ∃ s, f.seen pos = some s) ∧
      (n < 2147483648 → ∀ id : Bytes, id ≠ [] → ∃ r, f.lookup id = some r ∧ ∀ lex, r = some lex → lex < n) := by
  obtain ⟨r, hr, hacc⟩ := File.new_total data
  rw [h] at hr; injection hr with hr
  have ha := hacc f hr.symm
  obtain ⟨n, hn, _, _⟩ := ha.sizes
  refine ⟨n, hn, ?_, ?_⟩
  · intro pos hp
    exact ⟨File.idAt_total ha hn hp, File.seen_total ha hn hp⟩
  · intro hs id hid
    exact File.lookup_total ha hn hs id hid

/-- The same for a whole chain: if every file was accepted by `File::new` and `Graph::new` accepted
the total, then `commit_by_id` (any id) and `commit_at` / `id_at` (any position below
`num_commits`) never panic. -/
theorem graph_accessors_total (datas : List Bytes) (files : List File)
    (hopen : datas.map File.new = files.map (fun f => some (.ok f)))
    (g : Graph) (hg : Graph.new files = some (.ok g)) :
    (∀ id : Bytes, id ≠ [] → ∃ r, g.commitById id = some r) ∧
    (∃ total, g.numCommits = some total ∧ ∀ pos, pos < total →
      (∃ s, g.commitAt pos = some s) ∧ ∃ id, g.idAt pos = some id) := by
  -- every file is `Accepted`
  have hacc : ∀ f ∈ files, Accepted f := by
    intro f hf
    obtain ⟨i, hi, hget⟩ := List.getElem_of_mem hf
    have hlen : datas.length = files.length := by simpa using congrArg List.length hopen
    have := congrArg (fun l => l[i]?) hopen
    simp only [List.getElem?_map, List.getElem?_eq_getElem hi, List.getElem?_eq_getElem (hlen ▸ hi), Option.map_some,
      Option.some.injEq] at this
    obtain ⟨r, hr, h2⟩ := File.new_total (datas[i]'(hlen ▸ hi))
    rw [this] at hr; injection hr with hr
    rw [← hget]; exact h2 _ hr.symm
  -- the commit counts, and what `Graph::new` checked
  unfold Graph.new at hg
  cases hns : files.mapM File.numCommits with
  | none => rw [hns] at hg; cases hg
  | some ns =>
    rw [hns] at hg
    simp only [Option.bind_eq_bind, Option.bind_some] at hg
    by_cases hbig : ns.sum > MAX_COMMITS
    · rw [if_pos hbig] at hg; cases hg
    · rw [if_neg hbig] at hg
      injection hg with hg; injection hg with hg
      have hfiles : g.files = files := by rw [← hg]
      have hmap : files.map File.numCommits = ns.map some := mapM_numCommits files ns hns
      have hsmall : ∀ n ∈ ns, n < 2147483648 := by
        intro n hn
        have : n ≤ ns.sum := le_sum_of_mem' ns n hn
        simp only [MAX_COMMITS] at hbig
        omega
      constructor
      · intro id hid
        obtain ⟨r, hr, hr2⟩ := lookupById_total id hid files hacc ns hmap hsmall 0 0
        unfold Graph.commitById
        rw [hfiles, hr]
        cases r with
        | none => exact ⟨_, rfl⟩
        | some t =>
          obtain ⟨k, lex, gp⟩ := t
          obtain ⟨j, f, n, hk, hf, hn, hl⟩ := hr2 k lex gp rfl
          have hk' : k = j := by omega
          subst hk'
          obtain ⟨s, hs⟩ := File.seen_total (hacc f (List.mem_of_getElem? hf)) hn hl
          simp only [Option.bind_eq_bind, Option.bind_some, hf, hs]
          exact ⟨_, rfl⟩
      · refine ⟨ns.sum, ?_, ?_⟩
        · simp only [Graph.numCommits, hfiles, hns, Option.map_some]
        · intro pos hp
          obtain ⟨k, p, f, n, h1, h2, h3, h4⟩ := lookupByPos_total files hacc ns hmap 0 pos hp
          simp only [Nat.zero_add] at h1
          have hf := hacc f (List.mem_of_getElem? h2)
          obtain ⟨s, hs⟩ := File.seen_total hf h3 h4
          obtain ⟨id, hid, _⟩ := File.idAt_total hf h3 h4
          constructor
          · simp only [Graph.commitAt, hfiles, h1, Option.bind_eq_bind, Option.bind_some, h2, hs]
            exact ⟨_, rfl⟩
          · simp only [Graph.idAt, hfiles, h1, Option.bind_eq_bind, Option.bind_some, h2, hid]
            exact ⟨_, rfl⟩

/-! ### byte level: the file git writes, parsed by `File::new` -/

/-- what git needs to write the file of a layer: the hashes of its base graphs (at most 255, the
header has one byte for the count), the 20-byte trailing checksum, a file below 2^64 bytes -/
structure Writable (l : SLayer) (bases : List Bytes) (trailer : Bytes) : Prop where
  layer : LayerOk l
  bases20 : ∀ b ∈ bases, b.length = 20
  baseCount : bases.length < 256
  trailer20 : trailer.length = 20
  size : (sWriteGraph l bases trailer).length < 18446744073709551616

/-- Byte-level round trip: the complete file git writes for a layer — header, table of contents,
OIDF / OIDL / CDAT / optional EDGE / optional BASE chunks, trailer — is accepted by `File::new`
(table of contents parsed, every chunk validated) and the chunks it hands to the accessors are
exactly the layer's tables. -/
theorem file_bytes_roundtrip (l : SLayer) (bases : List Bytes) (trailer : Bytes) (h : Writable l bases trailer) :
    ∃ f, File.new (sWriteGraph l bases trailer) = some (.ok f) ∧ SameTables f (sFile l bases.length) := by
  obtain ⟨f, h1, h2, h3, h4, h5⟩ := File.new_sWriteGraph l h.layer bases h.bases20 h.baseCount trailer h.trailer20 h.size
  exact ⟨f, h1, h2, h3, h4, h5⟩

/-- a chain of opened files, each parsed from the bytes git wrote for the corresponding layer -/
inductive WrittenChain : List File → List SLayer → Prop
  | nil : WrittenChain [] []
  | cons {f : File} {l : SLayer} {fs : List File} {ls : List SLayer} (bases : List Bytes) (trailer : Bytes) :
      Writable l bases trailer → File.new (sWriteGraph l bases trailer) = some (.ok f) →
      WrittenChain fs ls → WrittenChain (f :: fs) (l :: ls)

theorem WrittenChain.allSame : ∀ {files : List File} {layers : List SLayer}, WrittenChain files layers →
    ∀ b, AllSame files ((sChainFrom layers b).map (·.1)) := by
  intro files layers h
  induction h with
  | nil => intro _; exact AllSame.nil
  | cons bases trailer hw hnew _ ih =>
    intro b
    obtain ⟨f', h1, h2⟩ := file_bytes_roundtrip _ bases trailer hw
    rw [hnew] at h1; injection h1 with h1; injection h1 with h1
    subst h1
    exact AllSame.cons h2 (ih (b + 1))

/-- The property from the bytes up: for ANY chain of layers, open the files git writes for them
(byte strings) with `File::new`; then every commit of every layer is found by its id and by its
graph position, and root tree, committer time, generation and all parents (as graph positions,
across file boundaries) are what git wrote. -/
theorem graph_bytes_commit_eq (layers : List SLayer) (files : List File) (hw : WrittenChain files layers)
    (hdisj : ∀ j k (hjk : j < k) (hk : k < layers.length), ∀ id ∈ layers[k].ids, id ∉ (layers[j]'(by omega)).ids)
    (k : Nat) (hk : k < layers.length) (i : Nat) (hi : i < layers[k].commits.length) :
    let g : Graph := { files := files }
    let gp := startOf (sChainFrom layers 0) k + i
    ∃ (hi' : i < layers[k].ids.length),
      g.commitById layers[k].ids[i] = some (some (gp, seenOf layers[k].commits[i])) ∧
      g.commitAt gp = some (seenOf layers[k].commits[i]) ∧
      g.idAt gp = some layers[k].ids[i] := by
  intro g gp
  have hok : ∀ l ∈ layers, LayerOk l := by
    clear hdisj hk hi
    induction hw with
    | nil => intro l hl; simp at hl
    | cons bases trailer hwr _ _ ih =>
      intro l hl
      rcases List.mem_cons.mp hl with rfl | hl
      · exact hwr.layer
      · exact ih l hl
  obtain ⟨hi', h1, h2, h3⟩ := graph_commit_eq layers hok hdisj k hk i hi
  have hsame := hw.allSame 0
  refine ⟨hi', ?_, ?_, ?_⟩
  · rw [← h1]; exact Graph.commitById_congr _ _ hsame _
  · rw [← h2]; exact Graph.commitAt_congr _ _ hsame _
  · rw [← h3]; exact Graph.idAt_congr _ _ hsame _

-- non-vacuity: a chain of two files; the commit in the second file is an octopus over commits of
-- both files (graph positions 0, 2, 1, 3 — position 3 is the first commit of the second file)
def exBase : SLayer :=
  { ids := [[1,0,0,0,0,0,0,0,0,0,0,0,0,0,0,0,0,0,0,1], [1,0,0,0,0,0,0,0,0,0,0,0,0,0,0,0,0,0,0,2],
            [0xfe,0,0,0,0,0,0,0,0,0,0,0,0,0,0,0,0,0,0,3]],
    commits := [⟨List.replicate 20 7, [], 1, 5⟩, ⟨List.replicate 20 8, [0], 2, 4294967296⟩,
                ⟨List.replicate 20 9, [1, 0], 3, 6⟩] }
def exTop : SLayer :=
  { ids := [[0,0,0,0,0,0,0,0,0,0,0,0,0,0,0,0,0,0,0,9], [0x80,0,0,0,0,0,0,0,0,0,0,0,0,0,0,0,0,0,0,4]],
    commits := [⟨List.replicate 20 6, [], 1, 1⟩, ⟨List.replicate 20 5, [0, 2, 1, 3], 4, 8589934593⟩] }

example : LayerOk exTop :=
  { lens := by decide
    fits := by
      intro c hc
      simp only [exTop, List.mem_cons, List.mem_nil_iff, or_false] at hc
      rcases hc with rfl | rfl <;> exact ⟨by decide, by decide, by decide, by decide⟩
    sorted := by unfold C09.SortedIds; decide
    ids20 := by decide
    small := by decide
    edgesSmall := by decide }

example : (Graph.commitById ⟨(sChainFrom [exBase, exTop] 0).map (·.1)⟩
      [0x80,0,0,0,0,0,0,0,0,0,0,0,0,0,0,0,0,0,0,4]) =
    some (some (4, ⟨List.replicate 20 5, 4, 8589934593, [0, 2, 1, 3], none⟩)) := by decide +kernel
example : (Graph.commitAt ⟨(sChainFrom [exBase, exTop] 0).map (·.1)⟩ 5) = none := by decide +kernel

-- non-vacuity of the byte level: the written file of `exTop` (one base graph) has 5 chunks, parses, and
-- the octopus comes back from the bytes
example : (sWriteGraph exTop [List.replicate 20 1] (List.replicate 20 9)).length = 8 + 6 * 12 + 1024 + 40 + 72 + 12 + 20 + 20 := by
  decide +kernel
example : (File.new (sWriteGraph exTop [List.replicate 20 1] (List.replicate 20 9))).map
    (fun r => match r with | .ok f => (f.baseGraphCount, f.seen 1) | .error _ => (99, none)) =
    some (1, some ⟨List.replicate 20 5, 4, 8589934593, [0, 2, 1, 3], none⟩) := by decide +kernel

end GixModel.Props.C14
