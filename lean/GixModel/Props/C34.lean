import GixModel.Lemmas.C34
/-
C34 — No URL can inject arguments into spawned transport programs.  PROPERTY THEOREMS ONLY.

Model: `Model/C34.lean` (argument vectors of the ssh program and of the local git-upload-pack,
with provenance tags; tied to /repo by a harness that records the argv a stand-in program really
receives). Shell: `Spec/C34.lean` (POSIX word splitting for the fragment `single` can emit,
validated against /bin/sh for every generated case).

All theorems quantify over every program kind, protocol version, port, and over ARBITRARY byte
strings for user, host and path (no length bound, any bytes incl. `'`, `!`, space, newline, `$`).
-/
namespace GixModel.Props.C34
open GixModel GixModel.C34 GixModel.Spec.C34

/-- Whenever the ssh transport gets as far as an argument vector, no argument derived from the
URL's user, host or path starts with `-`; everything else is a constant of the program kind or the
rendered port number. -/
theorem no_option_args (kind : Kind) (u : Url) (version : Nat) (service : Bytes) (args : List Arg)
    (h : sshArgv kind u version service = .ok args) :
    ∀ a ∈ args, urlDerived a = true → startsWithDash a.bytes = false := by
  obtain ⟨pre, hp, hargs, _⟩ := sshArgv_shape h
  subst hargs
  intro a ha hd
  simp only [List.mem_append, List.mem_cons, List.not_mem_nil, or_false] at ha
  rcases ha with h1 | h1 | h1
  · cases prepareInvocation_args hp a h1 with
    | inl hn =>
      simp only [notUrlText, urlDerived, Bool.or_eq_true, beq_iff_eq] at hn hd
      rcases hn with e | e <;> rcases hd with d | d <;> rw [e] at d <;> cases d
    | inr hu => exact hu.2
  · subst h1; simp [urlDerived] at hd
  · subst h1; exact single_no_dash _

-- non-vacuity: a hostile host shielded by a user, plink with a port, hostile path
example : sshArgv .plink ⟨true, some [103, 105, 116], some [45, 111, 80, 114, 111, 120, 121, 67, 111, 109, 109, 97, 110, 100, 61, 120], some 2222, [47, 105, 116, 39, 115]⟩ 2 bUploadPack =
    .ok [⟨.fixed, [45, 80]⟩, ⟨.port, [50, 50, 50, 50]⟩, ⟨.userHost, [103, 105, 116, 64, 45, 111, 80, 114, 111, 120, 121, 67, 111, 109, 109, 97, 110, 100, 61, 120]⟩,
         ⟨.service, bUploadPack⟩, ⟨.path, [39, 47, 105, 116, 39, 92, 39, 39, 115, 39]⟩] := by decide +kernel

/-- The arguments that are not URL-derived are exactly the ones the program kind itself adds (or the
service name): nothing else can start with `-`. -/
theorem only_program_options_have_dashes (kind : Kind) (u : Url) (version : Nat) (service : Bytes)
    (args : List Arg) (h : sshArgv kind u version service = .ok args) :
    ∀ a ∈ args, startsWithDash a.bytes = true → a.origin = .fixed ∨ a.origin = .port ∨ a.origin = .service := by
  intro a ha hd
  have := no_option_args kind u version service args h a ha
  cases ho : a.origin with
  | fixed => exact Or.inl rfl
  | port => exact Or.inr (Or.inl rfl)
  | service => exact Or.inr (Or.inr rfl)
  | userHost => simp [urlDerived, ho, hd] at this
  | path => simp [urlDerived, ho, hd] at this

/-- A user name starting with `-` never reaches a program: for every kind, version and service the
transport refuses (or fails earlier) instead of producing an argument vector. -/
theorem dangerous_user_rejected (kind : Kind) (u : Url) (version : Nat) (service : Bytes) (x : Bytes)
    (hu : u.user = some x) (hx : startsWithDash x = true) :
    ∀ args, sshArgv kind u version service ≠ .ok args := by
  intro args h
  obtain ⟨pre, hp, _, _⟩ := sshArgv_shape h
  simp only [prepareInvocation] at hp
  have hd : asArgument u.user = .dangerous x := by
    simp only [hu, asArgument, looksLikeOption]
    simpa [startsWithDash] using hx
  cases hk : kindOptions kind u.port version <;> simp [hk, hd] at hp

/-- A host starting with `-` that is not shielded by `user@` never reaches a program. -/
theorem dangerous_host_rejected (kind : Kind) (u : Url) (version : Nat) (service : Bytes) (x : Bytes)
    (hu : u.user = none) (hh : u.host = some x) (hx : startsWithDash x = true) :
    ∀ args, sshArgv kind u version service ≠ .ok args := by
  intro args h
  obtain ⟨pre, hp, _, _⟩ := sshArgv_shape h
  simp only [prepareInvocation] at hp
  have hd : asArgument u.host = .dangerous x := by
    simp only [hh, asArgument, looksLikeOption]
    simpa [startsWithDash] using hx
  have ha : asArgument u.user = .absent := by simp [hu, asArgument]
  cases hk : kindOptions kind u.port version <;> simp [hk, hd, ha] at hp

example : sshArgv .ssh ⟨true, none, some [45, 111, 80, 114, 111, 120, 121, 67, 111, 109, 109, 97, 110, 100, 61, 120], none, [47, 114, 101, 112, 111]⟩ 2 bUploadPack = .err .ambiguousHostName := by
  decide +kernel

/-- The `panic!("BUG: host should always be present in SSH URLs")` is unreachable through
`ssh::connect`, whatever the URL. -/
theorem ssh_never_panics (kind : Kind) (u : Url) (version : Nat) (service : Bytes) :
    sshArgv kind u version service ≠ .panic :=
  sshArgv_not_panic kind u version service

/-- For ALL byte strings `v`, POSIX word splitting of `single(v)` yields exactly the one word `v`. -/
theorem single_quote_one_word (v : Bytes) : shWords (single v) = some [v] :=
  single_one_word v

example : single [97, 39, 98, 33, 99, 32, 100, 10, 36, 120] = [39, 97, 39, 92, 39, 39, 98, 39, 92, 33, 39, 99, 32, 100, 10, 36, 120, 39] := by decide +kernel

/-- The remote command line ssh hands to the remote shell — the service name, a blank, the quoted
path — is split into exactly two words: the service and the path with its bytes unchanged. -/
theorem remote_command_two_words (service p : Bytes) (hs : service.all isPlain = true) (hne : service ≠ []) :
    shWords (service ++ [32] ++ single p) = some [service, p] :=
  remote_command service p hs hne

example : bUploadPack.all isPlain = true := by decide

/-- End to end for the ssh transport: the last two arguments are the service and `single(path')`
where `path'` is `for_shell(url.path)`; joined by a blank they reach the remote shell as exactly
`[service, path']`; and `path'` (after trimming Unicode white space) does not start with `-`. -/
theorem ssh_path_one_word (kind : Kind) (u : Url) (version : Nat) (service : Bytes) (args : List Arg)
    (hs : service.all isPlain = true) (hne : service ≠ [])
    (h : sshArgv kind u version service = .ok args) :
    ∃ pre, args = pre ++ [⟨.service, service⟩, ⟨.path, single (forShell u.path)⟩] ∧
      shWords (service ++ [32] ++ single (forShell u.path)) = some [service, forShell u.path] ∧
      pathLooksLikeOption (forShell u.path) = false := by
  obtain ⟨pre, _, hargs, hl⟩ := sshArgv_shape h
  exact ⟨pre, hargs, remote_command service _ hs hne, hl⟩

/-- `for_shell` changes nothing but the `/` in front of `~` (git: `if (path[1] == '~') path++`);
after `~user` without a further `/` it appends one. All other bytes — valid UTF-8 or not — are
unchanged (this is the code after fix f3dec61c5). -/
theorem for_shell_spec (path : Bytes) : forShell path = forShellSpec path :=
  forShell_eq_spec path

example : forShell [47, 126, 117, 47, 255, 254, 47, 120] = [126, 117, 47, 255, 254, 47, 120] := by decide +kernel
example : forShell [47, 126] = [126, 47] := by decide +kernel

/-- The local transport: a path starting with `-` is refused, so the only argument of the spawned
`git-upload-pack` never starts with `-`. -/
theorem local_path_dash_rejected (path : Bytes) (args : List Arg) (h : localArgv path = .ok args) :
    args = [⟨.path, path⟩] ∧ startsWithDash path = false := by
  simp only [localArgv] at h
  split at h
  · simp at h
  · rename_i hl
    simp only [Outcome.ok.injEq] at h
    refine ⟨h.symm, ?_⟩
    cases hd : startsWithDash path with
    | false => rfl
    | true =>
      have := looksLike_of_dash path (by simpa [startsWithDash] using hd)
      simp [this] at hl

example : localArgv [45, 120] = .err .ambiguousPath := by decide +kernel
example : localArgv [226, 128, 131, 45, 120] = .err .ambiguousPath := by decide +kernel

/-- `Url::path_argument_safe` only returns a path whose part after the leading `/` does not start
with `-`. -/
theorem path_argument_safe_spec (u : Url) (p : Bytes) (h : pathArgumentSafe u = some p) :
    p = u.path ∧ startsWithDash (u.path.drop 1) = false := by
  simp only [pathArgumentSafe] at h
  split at h
  · simp at h
  · rename_i b truncated hp
    split at h
    · simp at h
    · rename_i hl
      simp only [Option.some.injEq] at h
      refine ⟨h.symm, ?_⟩
      rw [hp]
      simpa [startsWithDash, looksLikeOption] using hl

end GixModel.Props.C34
