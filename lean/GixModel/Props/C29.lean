import GixModel.Lemmas.C29
import GixModel.Lemmas.C29Total
import GixModel.Lemmas.C29Writer
import GixModel.Lemmas.C29Intr
import GixModel.Lemmas.C29Lines
/-
C29 — Packet-line framing is exact and never panics.  PROPERTY THEOREMS ONLY.

All theorems are generic in the wire constants `c` (side condition `ConstsOk c`, decidable) and are
instantiated for the constants extracted from `/repo/gix-packetline/src/lib.rs` on this run by
`extracted_consts_ok`. They quantify over ALL payloads, ALL streams, ALL ways a reader may split
the bytes (`cs : List Bytes`, non-empty chunks), ALL sequences of `read_line`/`peek_line` calls
and ALL `read` buffer sizes. The model is `GixModel.C29` (the code after the two `fix:` commits
recorded in known-findings.txt).
-/
namespace GixModel.Props.C29
open GixModel GixModel.C29

/-- Per-run obligation: today's constants are the ones the proofs rely on
(`MAX_DATA_LEN + 4` fits a u16, `MAX_LINE_LEN = MAX_DATA_LEN + 4`, the three control lines, `ERR `,
the channel numbers). -/
theorem extracted_consts_ok : ConstsOk consts := by decide

/-! ### what is written decodes back, consuming exactly what was written -/

/-- Every line any encoder writes (`prefix ++ data ++ suffix` covers data, text, ERR and band
lines) decodes — followed by arbitrary further bytes — to exactly that payload, and the decoder
consumes exactly the number of bytes written (which is also the count the encoder returns). -/
theorem encode_decode (c : Consts) (hc : ConstsOk c) (pre data suf rest : Bytes) (m : Nat) (out : Bytes)
    (h : encode c pre data suf = .ok (m, out)) :
    streaming c (out ++ rest) = .ok (.complete (.data (pre ++ data ++ suf)) m) ∧ m = out.length :=
  encode_decode_core c hc pre data suf rest m out h

-- non-vacuity: a one-byte data line is accepted by today's encoder (a maximal one: see below)
example : (match encData consts [97] with | .ok (n, bs) => n == 5 && bs == [48, 48, 48, 53, 97] | .error _ => false) = true := by
  decide +kernel

/-- The encoder accepts exactly the non-empty payloads of at most `MAX_DATA_LEN` bytes (counting
prefix and suffix); everything else is an error, never a truncated length. -/
theorem encode_accepts_iff (c : Consts) (pre data suf : Bytes) :
    (∃ m out, encode c pre data suf = .ok (m, out)) ↔
      (data ≠ [] ∧ pre.length + data.length + suf.length ≤ c.maxDataLen) := by
  constructor
  · rintro ⟨m, out, h⟩
    obtain ⟨h1, h2, _, _⟩ := encode_ok_iff c pre data suf m out h
    exact ⟨h2, h1⟩
  · rintro ⟨h1, h2⟩
    unfold encode
    simp only
    rw [if_neg (by omega), if_neg (by simpa using h1)]
    exact ⟨_, _, rfl⟩

-- the upper boundary with today's constants: any 65516 bytes are accepted, no 65517 bytes are
example (d : Bytes) (h : d.length = 65516) : ∃ m out, encData consts d = .ok (m, out) :=
  (encode_accepts_iff consts [] d []).mpr
    ⟨by intro he; rw [he] at h; simp at h, by rw [h]; decide⟩
example (d : Bytes) (h : d.length = 65517) : ¬ ∃ m out, encData consts d = .ok (m, out) := by
  intro he
  have := ((encode_accepts_iff consts [] d []).mp he).2
  rw [h] at this
  revert this; decide

/-- flush / delimiter / response-end are written as four bytes and decode back to themselves -/
theorem control_lines_roundtrip (c : Consts) (hc : ConstsOk c) (l : Line) (hl : l.asSlice = none)
    (rest : Bytes) :
    ∃ w, encLine c l = .ok (4, w) ∧ w.length = 4 ∧ streaming c (w ++ rest) = .ok (.complete l 4) := by
  obtain ⟨pf, pd, pr⟩ := hexPrefix_ctl c hc
  have hc' := hc
  obtain ⟨_, _, _, _, hf, hd, hr, _⟩ := hc
  cases l with
  | flush => exact ⟨c.flushLine, rfl, by rw [hf]; rfl, streaming_ctl c hc' _ rest _ (by rw [hf]; rfl) pf⟩
  | delim => exact ⟨c.delimLine, rfl, by rw [hd]; rfl, streaming_ctl c hc' _ rest _ (by rw [hd]; rfl) pd⟩
  | responseEnd =>
    exact ⟨c.responseEndLine, rfl, by rw [hr]; rfl, streaming_ctl c hc' _ rest _ (by rw [hr]; rfl) pr⟩
  | data d => simp [Line.asSlice] at hl

/-- `text_to_write(t)` then `as_text()` gives `t` back (whatever `t` ends in) -/
theorem text_roundtrip (c : Consts) (hc : ConstsOk c) (t rest : Bytes) (m : Nat) (out : Bytes)
    (h : encText c t = .ok (m, out)) :
    ∃ l, streaming c (out ++ rest) = .ok (.complete l m) ∧ asText l = some t := by
  obtain ⟨h1, _⟩ := encode_decode_core c hc [] t [10] rest m out h
  refine ⟨_, h1, ?_⟩
  simp [asText, Line.asSlice, textFrom_append_nl]

/-- `error_to_write(msg)` then `check_error()` gives `msg` back -/
theorem error_roundtrip (c : Consts) (hc : ConstsOk c) (msg rest : Bytes) (m : Nat) (out : Bytes)
    (h : encError c msg = .ok (m, out)) :
    ∃ l, streaming c (out ++ rest) = .ok (.complete l m) ∧ checkError c l = some msg := by
  obtain ⟨h1, _⟩ := encode_decode_core c hc c.errPrefix msg [] rest m out h
  refine ⟨_, h1, ?_⟩
  rw [List.append_nil]
  exact checkError_errPrefix c msg

/-- `band_to_write(kind, d)` then `decode_band()` gives the same band and the same bytes back -/
theorem band_roundtrip (c : Consts) (hc : ConstsOk c) (k : Nat) (hk : k = c.chData ∨ k = c.chProgress ∨ k = c.chError)
    (d rest : Bytes) (m : Nat) (out : Bytes) (h : encBand c k d = .ok (m, out)) :
    ∃ l, streaming c (out ++ rest) = .ok (.complete l m) ∧ decodeBand l = .band k d := by
  obtain ⟨h1, _⟩ := encode_decode_core c hc [UInt8.ofNat k] d [] rest m out h
  refine ⟨_, h1, ?_⟩
  obtain ⟨_, _, _, _, _, _, _, _, h1', h2', h3'⟩ := hc
  rw [h1', h2', h3'] at hk
  rcases hk with hk | hk | hk <;> subst hk <;> simp [decodeBand, Line.asSlice]

/-! ### no panic on any input -/

/-- `decode::hex_prefix` on ANY four bytes (all 2^32) returns a line, a length or an error -/
theorem hex_prefix_total (c : Consts) (hc : ConstsOk c) (four : Bytes) (h4 : four.length = 4) :
    hexPrefix c four ≠ .panic :=
  hexPrefix_total c hc four h4

/-- `decode::streaming` never panics, on any input of any length -/
theorem streaming_never_panics (c : Consts) (hc : ConstsOk c) (data : Bytes) : streaming c data ≠ .panic :=
  streaming_total c hc data

/-- `StreamingPeekableIter`: for ANY byte stream, split by the reader in ANY way, with any
delimiters and `fail_on_err_lines` setting, NO sequence of `read_line` / `peek_line` / read-to-end
calls panics: malformed and oversized length prefixes (`fff1..ffff` included) come back as errors. -/
theorem reader_never_panics (c : Consts) (hc : ConstsOk c) (cs : List Bytes) (hne : NonEmptyChunks cs)
    (delims : List Line) (failOnErr : Bool) (calls : List Call) :
    ∀ x ∈ (runCalls c calls (Reader.new c cs delims failOnErr)).1, x.2 ≠ Res.panic :=
  (runCalls_inv c hc calls _ (Reader.new_inv c cs hne delims failOnErr)).1

-- non-vacuity / the formerly failing input: the prefix `fff1` followed by data is now an error
example : (runCalls consts [.read] (Reader.new consts [[102, 102, 102, 49, 1, 2, 3]] [] false)).1
    = [(false, Res.dec (.tooLong 65521))] := by decide +kernel

/-- The abstraction used for the line buffers is sound: the decoder never looks at what lies
behind a complete line (stale bytes in the reader's buffer cannot change what `decode` returns). -/
theorem decode_ignores_trailing (c : Consts) (hc : ConstsOk c) (front rest : Bytes) (l : Line)
    (h : allAtOnce c front = .ok l) : allAtOnce c (front ++ rest) = .ok l :=
  allAtOnce_ignores_rest c hc front rest l h

/-! ### the reader yields the same lines however the bytes are split -/

/-- Two readers over the same byte stream, splitting it in different ways (down to one byte per
`read`), give identical results for every sequence of calls. -/
theorem reader_chunk_independent (c : Consts) (cs₁ cs₂ : List Bytes) (h₁ : NonEmptyChunks cs₁)
    (h₂ : NonEmptyChunks cs₂) (hflat : cs₁.flatten = cs₂.flatten) (delims : List Line)
    (failOnErr : Bool) (calls : List Call) :
    (runCalls c calls (Reader.new c cs₁ delims failOnErr)).1 =
      (runCalls c calls (Reader.new c cs₂ delims failOnErr)).1 :=
  (runCalls_sim c calls (Reader.new c cs₁ delims failOnErr) (Reader.new c cs₂ delims failOnErr)
    ⟨rfl, rfl, rfl, rfl, rfl, rfl, h₁, h₂, hflat⟩).1

/-- Reading to the end of a stream made of written lines returns exactly those lines, in order,
then EOF — for every chunking. (`Plain`: valid, not a delimiter, not an ERR line when
`fail_on_err_lines` is on.) -/
theorem read_lines_roundtrip (c : Consts) (hc : ConstsOk c) (ls : List Line) (delims : List Line)
    (failOnErr : Bool) (hpl : ∀ l ∈ ls, Plain c delims failOnErr l) (cs : List Bytes)
    (hne : NonEmptyChunks cs) (hflat : cs.flatten = wireAll c ls) :
    (readAll c (readAllFuel (Reader.new c cs delims failOnErr)) (Reader.new c cs delims failOnErr)).1
      = ls.map Res.line ++ [Res.io] :=
  readAll_lines_eof c hc ls (Reader.new c cs delims failOnErr) hpl rfl rfl hne hflat

-- non-vacuity: three lines (one of them a delimiter line used as plain line) in 1-byte chunks
example : Plain consts [] false (.data [97]) ∧ Plain consts [] false .flush := by decide

/-- … and it stops at the first delimiter, reporting it, WITHOUT consuming anything behind it
(`rest` is arbitrary bytes, not necessarily packet lines). -/
theorem read_lines_until_delimiter (c : Consts) (hc : ConstsOk c) (ls : List Line) (d : Line)
    (rest : Bytes) (delims : List Line) (failOnErr : Bool)
    (hpl : ∀ l ∈ ls, Plain c delims failOnErr l) (hd : delims.contains d = true) (hdv : d.Valid c)
    (cs : List Bytes) (hne : NonEmptyChunks cs) (hflat : cs.flatten = wireAll c ls ++ (wire c d ++ rest)) :
    let out := readAll c (readAllFuel (Reader.new c cs delims failOnErr)) (Reader.new c cs delims failOnErr)
    out.1 = ls.map Res.line ++ [Res.none] ∧ out.2.stoppedAt = some d ∧ out.2.isDone = true ∧
      out.2.src.flatten = rest :=
  readAll_lines_delim c hc ls d rest (Reader.new c cs delims failOnErr) hpl hd hdv rfl rfl hne hflat

/-- … and with `fail_on_err_lines` an `ERR <msg>` line ends the iteration with that message. -/
theorem read_lines_until_err (c : Consts) (hc : ConstsOk c) (ls : List Line) (msg rest : Bytes)
    (delims : List Line) (hpl : ∀ l ∈ ls, Plain c delims true l)
    (hd : delims.contains (.data (c.errPrefix ++ msg)) = false)
    (hv : (Line.data (c.errPrefix ++ msg)).Valid c)
    (cs : List Bytes) (hne : NonEmptyChunks cs)
    (hflat : cs.flatten = wireAll c ls ++ (wire c (.data (c.errPrefix ++ msg)) ++ rest)) :
    let out := readAll c (readAllFuel (Reader.new c cs delims true)) (Reader.new c cs delims true)
    out.1 = ls.map Res.line ++ [Res.errLine msg] ∧ out.2.isDone = true ∧ out.2.src.flatten = rest :=
  readAll_lines_err c hc ls msg rest (Reader.new c cs delims true) hpl rfl hd hv rfl rfl hne hflat

/-! ### side-band demultiplexing -/

/-- A stream of band messages (as `band_to_write` writes them) followed by a flush, read through
`WithSidebands` with a progress handler, for every chunking of the stream and every sequence of
positive `read` buffer sizes: the bytes delivered are a prefix of the concatenated band-1
payloads and the handler calls are a prefix of the progress/error texts in order; no error, no
panic; and when a `read` returns 0 everything has been delivered exactly, the reader is stopped
at the flush and nothing behind the flush was consumed. -/
theorem sideband_demux (c : Consts) (hc : ConstsOk c) (ms : List Msg) (hv : ∀ m ∈ ms, m.Valid c)
    (rest : Bytes) (cs : List Bytes) (hne : NonEmptyChunks cs)
    (hflat : cs.flatten = wireAll c (ms.map Msg.line) ++ (wire c .flush ++ rest))
    (ns : List Nat) (hpos : ∀ n ∈ ns, 0 < n) :
    let s0 : SB := ⟨Reader.new c cs [.flush] false, true, 0, 0, [], none⟩
    let out := drain c s0 ns []
    (out.2.1 = .eof ∨ out.2.1 = .sizes) ∧
    (∃ suf, dataOf ms = out.1 ++ suf) ∧ (∃ suf, progressOf ms = out.2.2.log ++ suf) ∧
    (out.2.1 = .eof → out.1 = dataOf ms ∧ out.2.2.log = progressOf ms ∧
      out.2.2.r.stoppedAt = some .flush ∧ out.2.2.r.src.flatten = rest) ∧
    (out.2.1 = .sizes → ns.length ≤ out.1.length) := by
  intro s0 out
  have hinv : SBInv c s0 ms rest := {
    handler := rfl
    ready := ⟨rfl, rfl, hne⟩
    flat := hflat
    plain := by
      intro m hm
      obtain ⟨h1, h2⟩ := hv m hm
      refine ⟨⟨by simp, by simp; omega⟩, ?_, by intro h; cases h⟩
      rfl
    valid := hv
    flushDelim := by rfl
    slice := Or.inl (Nat.le_refl _) }
  have := drain_spec c hc ns hpos s0 ms rest [] hinv (by intro k hk; cases hk)
  obtain ⟨a, b, cc, d, e⟩ := this
  have hp : pendingOf s0 = [] := rfl
  simp only [hp, List.nil_append, List.append_nil] at b cc d
  refine ⟨a, b, cc, ?_, ?_⟩
  · intro h
    obtain ⟨d1, d2, d3, _, d5⟩ := d h
    exact ⟨d1, d2, d3, d5⟩
  · intro h
    simpa using e h

/-- With more `read` calls than there are data bytes, the end is reached: everything is
delivered. -/
theorem sideband_delivers_all (c : Consts) (hc : ConstsOk c) (ms : List Msg) (hv : ∀ m ∈ ms, m.Valid c)
    (rest : Bytes) (cs : List Bytes) (hne : NonEmptyChunks cs)
    (hflat : cs.flatten = wireAll c (ms.map Msg.line) ++ (wire c .flush ++ rest))
    (ns : List Nat) (hpos : ∀ n ∈ ns, 0 < n) (hmany : (dataOf ms).length < ns.length) :
    let s0 : SB := ⟨Reader.new c cs [.flush] false, true, 0, 0, [], none⟩
    let out := drain c s0 ns []
    out.2.1 = .eof ∧ out.1 = dataOf ms ∧ out.2.2.log = progressOf ms := by
  intro s0 out
  obtain ⟨a, ⟨suf, b⟩, _, d, e⟩ := sideband_demux c hc ms hv rest cs hne hflat ns hpos
  have heof : out.2.1 = .eof := by
    rcases a with a | a
    · exact a
    · have := e a
      have hl := congrArg List.length b
      simp only [List.length_append] at hl
      omega
  obtain ⟨d1, d2, _⟩ := d heof
  exact ⟨heof, d1, d2⟩

-- non-vacuity: data, progress (newline stripped), error, data — one byte per `read`, 3-byte chunks
example :
    let ms := [Msg.data [1, 2], .progress [104, 105, 10], .error [33], .data [3]]
    (∀ m ∈ ms, m.Valid consts) ∧ dataOf ms = [1, 2, 3] ∧
      progressOf ms = [(false, [104, 105]), (true, [33])] := by decide

/-! ### round 2: `WithSidebands` never panics, on anything -/

/-- `WithSidebands::{fill_buf, consume, read}` over ANY stream (malformed prefixes, unknown band
bytes, bands without payload, control lines, ERR lines, truncation), split by the reader in any
way, taken over after ANY sequence of `read_line`/`peek_line` calls on the packet-line reader, with
or without a progress handler, the handler answering `Interrupt` at any call or never: no
sequence of calls panics, provided the amounts passed to `consume` respect the caller contract
`SBCall.Legal` — `amt + MAX_LINE_LEN < 2^64`, which every `amt ≤ fill_buf().len()` (the `BufRead`
contract) satisfies. -/
theorem sideband_never_panics (c : Consts) (hc : ConstsOk c) (cs : List Bytes) (hne : NonEmptyChunks cs)
    (delims : List Line) (failOnErr : Bool) (before : List Call) (handler : Bool) (intr : Option Nat)
    (calls : List SBCall) (hlegal : ∀ k ∈ calls, k.Legal c) :
    ∀ x ∈ (runSB c calls
        ⟨(runCalls c before (Reader.new c cs delims failOnErr)).2, handler, 0, 0, [], intr⟩).1,
      x ≠ SBObs.panic :=
  (runSB_total c hc calls hlegal _
    (SB.new_ok c _ (runCalls_inv2 c hc before _ (Reader.new_inv2 c cs hne delims failOnErr)) handler intr)).1

/-- the caller contract is what `BufRead` asks for: consuming at most what `fill_buf` handed out
is always legal (the slice is never longer than a line) -/
theorem consume_contract (c : Consts) (hc : ConstsOk c) (s : SB) (h : SB.Ok c s) (bs : Bytes)
    (hfill : (fillBuf c s).1 = .ok bs) (amt : Nat) (hamt : amt ≤ bs.length) :
    (SBCall.consume amt).Legal c := by
  obtain ⟨_, hok, hlen⟩ := fillBuf_total c hc s h
  obtain ⟨_, _, hcm, _⟩ := hok
  have := hlen bs hfill
  obtain ⟨_, _, h65, hml, _⟩ := hc
  show amt + c.maxLineLen < 18446744073709551616
  omega

/-- … and the contract is needed: `consume(usize::MAX)` after a `fill_buf` that positioned the
reader inside a band overflows `pos + amt` (a panic with overflow checks; replayed against the
real code by the harness). -/
theorem consume_overflow_panics :
    (runSB consts [.fill, .consume 18446744073709551615]
      ⟨Reader.new consts [[48, 48, 48, 54, 1, 97]] [] false, true, 0, 0, [], none⟩).1
      = [.bytes [97], .panic] := by decide +kernel

-- non-vacuity / the formerly panicking input `0005\x02` (progress band without text), an unknown
-- band, and the handler interrupting at its second call
example : (runSB consts [.read 8] ⟨Reader.new consts [[48, 48, 48, 53, 2]] [] false, true, 0, 0, [], none⟩).1
    = [.err .io] := by decide +kernel
example : (runSB consts [.read 8] ⟨Reader.new consts [[48, 48, 48, 54, 9, 97]] [] false, true, 0, 0, [], none⟩).1
    = [.err (.invalidBand 9)] := by decide +kernel
example :
    let out := runSB consts [.read 8]
      ⟨Reader.new consts [[48, 48, 48, 54, 2, 97, 48, 48, 48, 54, 3, 98, 48, 48, 48, 54, 1, 99]] [] false,
        true, 0, 0, [], some 1⟩
    out.1 = [.err .interrupted] ∧ out.2.log = [(false, [97]), (true, [98])] := by decide +kernel

/-! ### round 2: `Writer` -/

/-- `Writer::write_all(buf)` in binary mode, for EVERY non-empty `buf` of any size: it succeeds;
what reaches the inner writer is the wire image of data lines whose payloads are non-empty, at most
`MAX_DATA_LEN` long each, and concatenate to exactly `buf` (large writes are split, nothing is lost,
reordered or padded); and reading that output back through `StreamingPeekableIter` — however the
transport splits it — returns exactly those lines, then EOF. -/
theorem writer_binary_roundtrip (c : Consts) (hc : ConstsOk c) (buf : Bytes) (hne : buf ≠ []) :
    ∃ chunks : List Bytes,
      writerWriteAll c true buf = (wireAll c (chunks.map Line.data), true) ∧
      chunks.flatten = buf ∧ (∀ ch ∈ chunks, ch ≠ [] ∧ ch.length ≤ c.maxDataLen) ∧
      ∀ (cs : List Bytes), NonEmptyChunks cs → cs.flatten = wireAll c (chunks.map Line.data) →
        (readAll c (readAllFuel (Reader.new c cs [] false)) (Reader.new c cs [] false)).1
          = chunks.map (fun ch => Res.line (.data ch)) ++ [Res.io] := by
  obtain ⟨e1, e2, e3⟩ := writerLoop_binary c hc (buf.length + 1) buf [] (Nat.le_refl _)
  refine ⟨chunksOf c.maxDataLen (buf.length + 1) buf, ?_, e2, e3, ?_⟩
  · have he : buf.isEmpty = false := by cases buf with | nil => exact absurd rfl hne | cons a b => rfl
    simp only [writerWriteAll, writerWrite, he, Bool.false_eq_true, if_false, e1, List.nil_append]
  · intro cs hcs hflat
    have := read_lines_roundtrip c hc ((chunksOf c.maxDataLen (buf.length + 1) buf).map Line.data) [] false
      (by
        intro l hl
        simp only [List.mem_map] at hl
        obtain ⟨ch, hch, rfl⟩ := hl
        exact ⟨e3 ch hch, rfl, by intro h; cases h⟩)
      cs hcs hflat
    rw [this, List.map_map]
    rfl

/-- text mode: a non-empty `buf` shorter than `MAX_DATA_LEN` becomes ONE line `buf ++ "\n"`; from
`MAX_DATA_LEN` bytes on the call fails before anything is written (the appended newline does not
fit the first chunk) — never a truncated or over-long line. -/
theorem writer_text_line (c : Consts) (hc : ConstsOk c) (buf : Bytes) (hne : buf ≠ []) :
    (buf.length < c.maxDataLen → writerWriteAll c false buf = (wire c (.data (buf ++ [10])), true)) ∧
    (c.maxDataLen ≤ buf.length → writerWriteAll c false buf = ([], false)) := by
  obtain ⟨_, h1, _⟩ := hc
  have he : buf.isEmpty = false := by cases buf with | nil => exact absurd rfl hne | cons a b => rfl
  have hpos : 0 < buf.length := List.length_pos_iff.mpr hne
  constructor
  · intro hlt
    have hmin : min buf.length c.maxDataLen = buf.length := by omega
    simp only [writerWriteAll, writerWrite, he, Bool.false_eq_true, if_false]
    unfold writerLoop
    simp only [he, Bool.false_eq_true, if_false, hmin, List.take_length, List.drop_length]
    rw [encText_valid c buf hne (by omega)]
    simp only
    unfold writerLoop
    cases hb : buf.length with
    | zero => omega
    | succ n => simp [writerLoop]
  · intro hge
    have hmin : min buf.length c.maxDataLen = c.maxDataLen := by omega
    simp only [writerWriteAll, writerWrite, he, Bool.false_eq_true, if_false]
    unfold writerLoop
    simp only [he, Bool.false_eq_true, if_false, hmin]
    have : encText c (buf.take c.maxDataLen) = .error (.tooLong (c.maxDataLen + 1)) := by
      simp only [encText, encode, List.length_nil, Nat.zero_add, List.length_take, List.length_cons]
      rw [if_pos (by omega)]
      congr 2
      omega
    rw [this]

-- non-vacuity: today's writer on a 65517-byte buffer (two lines), and a concrete small write
example (buf : Bytes) (h : buf.length = 65517) : ∃ chunks : List Bytes,
    writerWriteAll consts true buf = (wireAll consts (chunks.map Line.data), true) ∧ chunks.flatten = buf := by
  obtain ⟨chunks, e1, e2, _⟩ := writer_binary_roundtrip consts extracted_consts_ok buf
    (by intro he; rw [he] at h; simp at h)
  exact ⟨chunks, e1, e2⟩
example : writerWriteAll consts true [1, 2, 3] = ([48, 48, 48, 55, 1, 2, 3], true) ∧
    writerWriteAll consts false [104, 105] = ([48, 48, 48, 55, 104, 105, 10], true) := by decide +kernel

/-! ### round 3: demultiplexing with a handler that interrupts -/

/-- Messages `before ++ m :: after` (as `band_to_write` writes them) and a flush, read through
`WithSidebands` whose progress handler answers `Interrupt` when it is handed `m` (its call number
`|progressOf before|`) — for every chunking and every positive `read` buffer sizes: no panic; the
sequence of reads ends with the "interrupted by user" error or runs out of calls; the bytes
delivered are a prefix of the band-1 payloads BEFORE `m`; and when the error is returned exactly
those payloads were delivered, the handler saw exactly the texts up to and including `m`, and
nothing after `m` was touched (the reads stop there). With more `read` calls than data bytes
before `m` the interrupt is reached. -/
theorem sideband_interrupt (c : Consts) (hc : ConstsOk c) (before after : List Msg) (m : Msg)
    (hv : ∀ x ∈ before ++ m :: after, x.Valid c) (hm : m.isData = false) (rest : Bytes)
    (cs : List Bytes) (hne : NonEmptyChunks cs)
    (hflat : cs.flatten = wireAll c ((before ++ m :: after).map Msg.line) ++ (wire c .flush ++ rest))
    (ns : List Nat) (hpos : ∀ n ∈ ns, 0 < n) :
    let s0 : SB := ⟨Reader.new c cs [.flush] false, true, 0, 0, [], some (progressOf before).length⟩
    let out := drain c s0 ns []
    (out.2.1 = .err .interrupted ∨ out.2.1 = .sizes) ∧
    (∃ suf, dataOf before = out.1 ++ suf) ∧
    (out.2.1 = .err .interrupted →
      out.1 = dataOf before ∧ out.2.2.log = progressOf before ++ progressOf [m]) ∧
    ((dataOf before).length < ns.length → out.2.1 = .err .interrupted) := by
  intro s0 out
  have hinv : SBInv c s0 (before ++ m :: after) rest := {
    handler := rfl
    ready := ⟨rfl, rfl, hne⟩
    flat := hflat
    plain := by
      intro x hx
      obtain ⟨h1, h2⟩ := hv x hx
      refine ⟨⟨by simp [Msg.line], by simp [Msg.line]; omega⟩, ?_, by intro h; cases h⟩
      rfl
    valid := hv
    flushDelim := by rfl
    slice := Or.inl (Nat.le_refl _) }
  obtain ⟨a, ⟨suf, b⟩, d, e⟩ := drain_intr_spec c hc ns hpos s0 before after m rest [] hinv hm (by simp [s0])
  have hp : pendingOf s0 = [] := rfl
  simp only [hp, List.nil_append, List.append_nil] at b d
  refine ⟨a, ⟨suf, b⟩, ?_, ?_⟩
  · intro h
    obtain ⟨d1, d2⟩ := d h
    exact ⟨d1, by simpa [s0] using d2⟩
  · intro hmany
    rcases a with a | a
    · exact a
    · have := e a
      have hl := congrArg List.length b
      simp only [List.length_append, List.length_nil] at hl this
      omega

-- non-vacuity: interrupting at the second progress message
example :
    let before := [Msg.data [1], .progress [97], .data [2]]
    let m := Msg.error [98]
    (∀ x ∈ before ++ m :: [Msg.data [3]], x.Valid consts) ∧ m.isData = false ∧
      dataOf before = [1, 2] ∧ (progressOf before).length = 1 := by decide

/-! ### round 3: `peek_data_line`, `read_data_line`, `read_line_to_string` -/

/-- Panic-freedom including the line-wise calls, on ANY stream: no sequence of `fill_buf`,
`consume`, `read`, `peek_data_line`, `read_data_line`, `read_line_to_string` panics provided every
call respects its contract at the state it is made in (`LegalRun`): `consume` amounts as before,
and `read_data_line` / `read_line_to_string` only while nothing is buffered (`cap == 0` — the
`assert_eq!` in both; it fails after `fill_buf`/`read` positioned the reader inside a line, and
after a `read_line_to_string` that failed on invalid UTF-8). -/
theorem sideband_linewise_never_panics (c : Consts) (hc : ConstsOk c) (cs : List Bytes)
    (hne : NonEmptyChunks cs) (delims : List Line) (failOnErr : Bool) (before : List Call)
    (handler : Bool) (intr : Option Nat) (calls : List SBCall)
    (hl : LegalRun c calls ⟨(runCalls c before (Reader.new c cs delims failOnErr)).2, handler, 0, 0, [], intr⟩) :
    ∀ x ∈ (runSB c calls
        ⟨(runCalls c before (Reader.new c cs delims failOnErr)).2, handler, 0, 0, [], intr⟩).1,
      x ≠ SBObs.panic :=
  (runSB_total_at c hc calls _
    (SB.new_ok c _ (runCalls_inv2 c hc before _ (Reader.new_inv2 c cs hne delims failOnErr)) handler intr) hl).1

/-- the contract is needed: `read_data_line()` right after a `fill_buf()` trips the assertion
(replayed against the real code by the harness: `sbc 0 F 3 f,l d.6162+F`) -/
theorem read_data_line_after_fill_panics :
    (runSB consts [.fill, .readData]
      ⟨Reader.new consts [[48, 48, 48, 54, 97, 98]] [] false, false, 0, 0, [], none⟩).1
      = [.bytes [97, 98], .panic] := by decide +kernel

/-- `read_data_line()` returns a written line unchanged and leaves the reader right behind it;
`peek_data_line()` shows the next data line without consuming it (the following
`read_data_line()` returns the same line, only then is the stream advanced). For every chunking. -/
theorem read_data_line_roundtrip (c : Consts) (hc : ConstsOk c) (l : Line) (delims : List Line)
    (failOnErr : Bool) (hp : Plain c delims failOnErr l) (rest : Bytes) (cs : List Bytes)
    (hne : NonEmptyChunks cs) (hflat : cs.flatten = wire c l ++ rest) (handler : Bool) (intr : Option Nat) :
    let s0 : SB := ⟨Reader.new c cs delims failOnErr, handler, 0, 0, [], intr⟩
    (sbReadDataLine c s0).1 = .line l ∧ (sbReadDataLine c s0).2.r.src.flatten = rest :=
  let h := sbReadDataLine_wire c hc ⟨Reader.new c cs delims failOnErr, handler, 0, 0, [], intr⟩ l hp rest rfl
    ⟨rfl, rfl, hne⟩ hflat
  ⟨h.1, h.2.1⟩

theorem peek_data_line_roundtrip (c : Consts) (hc : ConstsOk c) (d : Bytes) (delims : List Line)
    (failOnErr : Bool) (hp : Plain c delims failOnErr (.data d)) (rest : Bytes) (cs : List Bytes)
    (hne : NonEmptyChunks cs) (hflat : cs.flatten = wire c (.data d) ++ rest) (handler : Bool)
    (intr : Option Nat) :
    let s0 : SB := ⟨Reader.new c cs delims failOnErr, handler, 0, 0, [], intr⟩
    (sbPeekDataLine c s0).1 = .line (.data d) ∧
    (sbReadDataLine c (sbPeekDataLine c s0).2).1 = .line (.data d) ∧
    (sbReadDataLine c (sbPeekDataLine c s0).2).2.r.src.flatten = rest :=
  let h := sbPeek_then_read c hc ⟨Reader.new c cs delims failOnErr, handler, 0, 0, [], intr⟩ d hp rest rfl
    ⟨rfl, rfl, hne⟩ hflat
  ⟨h.1, h.2.1, h.2.2.1⟩

/-- `read_line_to_string()` (no side-bands) on a written data line whose payload is valid UTF-8
— e.g. what `text_to_write` wrote — yields exactly that payload as the string, leaves nothing
buffered (so the next line-wise call is legal) and the reader right behind the line. -/
theorem read_line_to_string_roundtrip (c : Consts) (hc : ConstsOk c) (d : Bytes) (delims : List Line)
    (failOnErr : Bool) (hp : Plain c delims failOnErr (.data d)) (hutf : validUtf8 d = true) (rest : Bytes)
    (cs : List Bytes) (hne : NonEmptyChunks cs) (hflat : cs.flatten = wire c (.data d) ++ rest) :
    let s0 : SB := ⟨Reader.new c cs delims failOnErr, false, 0, 0, [], none⟩
    (sbReadLineToString c s0).1 = .ok d ∧ (sbReadLineToString c s0).2.cap = 0 ∧
      (sbReadLineToString c s0).2.r.src.flatten = rest :=
  sbReadLineToString_wire c hc ⟨Reader.new c cs delims failOnErr, false, 0, 0, [], none⟩ d hp rest rfl rfl
    ⟨rfl, rfl, hne⟩ hflat hutf

-- non-vacuity: "é\n" is valid UTF-8 and a plain line; a lone 0xc3 is not valid UTF-8
example : validUtf8 [0xc3, 0xa9, 10] = true ∧ validUtf8 [0xc3] = false ∧
    Plain consts [.flush] false (.data [0xc3, 0xa9, 10]) := by decide +kernel

end GixModel.Props.C29
