import GixModel.Model.C29
namespace GixModel.Props.C29
open GixModel GixModel.C29

theorem placeholder : (1 : Nat) = 1 := rfl

end GixModel.Props.C29
