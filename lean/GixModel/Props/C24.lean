import GixModel.Lemmas.C24
/-
C24 — Index files decode to exactly what git wrote, for any thread limit.  PROPERTY THEOREMS ONLY.

Model: `Model/C24Core.lean` (gitoxide's decoder, as repaired — see known-findings.txt),
git side: `Spec/C24.lean` (transcription of git's writer, re-validated against the git binary on
every run by the `spec` driver op). SHA-1 is a parameter wherever it occurs.

Shape of the results: for EVERY entry git can store (`WfEntry`: 32-bit stat fields, a mode made of
known bits, a 20-byte id, only storable flags, a path without NUL — of ANY length, in particular
across the 0xfff boundary where the on-disk length field saturates) what git writes decodes to
exactly that entry; a whole entries region in any number of offset-table blocks decodes to the
entries git stored, both by one serial `chunk` call and by any number of threads with any group
size; and for ANY input bytes the result of the threaded branch does not depend on the group size.
-/
namespace GixModel.Props.C24
open GixModel GixModel.C24 GixModel.Spec.C24

/-- git's `encode_varint` is inverted by `leb64_from_read` for every 64-bit value. -/
theorem varint_roundtrip (n : Nat) (hn : n < 18446744073709551616) (rest : Bytes) :
    varInt (encodeVarint n ++ rest) = some (n, rest) :=
  varInt_encode n hn rest

example : varInt (encodeVarint 4095 ++ [7]) = some (4095, [7]) := by decide +kernel
example : encodeVarint 16511 = [0xff, 0x7f] := by decide +kernel

/-- Versions 2 and 3: what `ce_write_entry` writes for an entry decodes to that entry and leaves
exactly the bytes after it — for EVERY path length (below 0xfff the length comes from the flags,
from 0xfff on the name is NUL-terminated; in both cases the padding `(len + 8) & ~7` is skipped). -/
theorem entry_roundtrip_v23 (e : Entry) (h : WfEntry e) (prev : Option Bytes) (rest : Bytes) :
    loadOne false prev (gitEncodeEntryV23 e ++ rest) = some (e, rest) :=
  loadOne_v23 e h prev rest

/-- a well-formed entry with a path of `n` bytes `a` and all flag bits that can be stored -/
def sampleEntry (n : Nat) : Entry :=
  { stat := { ctimeS := 1700000000, ctimeN := 999999999, mtimeS := 4294967295, mtimeN := 0, dev := 64769,
              ino := 4294967295, uid := 1000, gid := 0, size := 4095 },
    mode := 0o100755, id := List.replicate 20 0xab,
    flags := 0x3000 + 0x4000 + 0x8000 + 0x20000000 + 0x40000000,
    path := List.replicate n 97 }

theorem sampleEntry_wf (n : Nat) : WfEntry (sampleEntry n) where
  stat := by
    refine ⟨?_, ?_, ?_, ?_, ?_, ?_, ?_, ?_, ?_⟩ <;> simp only [sampleEntry] <;> decide
  mode_lt := by simp only [sampleEntry]; decide
  mode_known := by simp only [sampleEntry]; decide
  id_len := by simp only [sampleEntry]; decide
  flags_low := by simp only [sampleEntry]
  flags_ext := by simp only [sampleEntry]; decide
  flags_extended := by simp only [sampleEntry]; decide
  path_nul := by
    intro b hb
    rw [show (sampleEntry n).path = List.replicate n 97 from rfl] at hb
    rw [List.eq_of_mem_replicate hb]
    decide

-- non-vacuity: the hypotheses hold on both sides of the 0xfff boundary, and the statement is about
-- real bytes (a 4095-byte path: flags saturate, 1 byte of padding after 64 + 4095 bytes)
example : (gitEncodeEntryV23 (sampleEntry 4095)).length = 64 + 4095 + 1 := by decide +kernel
example : (gitEncodeEntryV23 (sampleEntry 4094)).length = 64 + 4094 + 2 := by decide +kernel
example : loadOne false none (gitEncodeEntryV23 (sampleEntry 5000) ++ [1, 2, 3]) = some (sampleEntry 5000, [1, 2, 3]) :=
  entry_roundtrip_v23 _ (sampleEntry_wf 5000) _ _

/-- Version 4, the decoder knows the previous path: any prefix the two paths really share may be
left out (`common`; git uses the longest one, or 0 at the start of an offset-table block). -/
theorem entry_roundtrip_v4 (e : Entry) (h : WfEntry e) (prev : Bytes) (common : Nat)
    (hc : common ≤ prev.length) (hp : prev.take common = e.path.take common)
    (hprev : prev.length < 18446744073709551616) (rest : Bytes)
    (hrest : 1 ≤ (e.path.length - common) + rest.length) :
    loadOne true (some prev) (gitEncodeEntryV4 prev common e ++ rest) = some (e, rest) :=
  loadOne_v4_some e h prev common hc hp hprev rest hrest

/-- Version 4, first entry of a `chunk` call (start of the file or of an offset-table block read by
a thread): git wrote the full path there and the strip length is ignored. -/
theorem entry_roundtrip_v4_first (e : Entry) (h : WfEntry e) (prev : Bytes)
    (hprev : prev.length < 18446744073709551616) (rest : Bytes) (hrest : 1 ≤ e.path.length + rest.length) :
    loadOne true none (gitEncodeEntryV4 prev 0 e ++ rest) = some (e, rest) :=
  loadOne_v4_none e h prev hprev rest hrest

example : loadOne true (some (List.replicate 5000 97)) (gitEncodeEntryV4 (List.replicate 5000 97) 4096 (sampleEntry 4096) ++ [9])
    = some (sampleEntry 4096, [9]) :=
  entry_roundtrip_v4 _ (sampleEntry_wf 4096) _ 4096
    (by rw [List.length_replicate]; decide)
    (by simp only [sampleEntry, List.take_replicate]; congr 1)
    (by rw [List.length_replicate]; decide) _
    (by simp only [List.length_cons, List.length_nil]; omega)

/-- The whole entries region (any number of entries in any number of offset-table blocks, any
version) decoded by ONE serial `chunk` call from the end of the header gives the entries git
stored and stops exactly at the first extension byte. `rest` is never empty in a file: the
trailing hash is there. -/
theorem entries_roundtrip (v4 : Bool) (blocks : List (List Entry)) (rest : Bytes)
    (hwf : ∀ b ∈ blocks, AllWf b) (hfit : ∀ b ∈ blocks, PathsFit b) (hrest : 1 ≤ rest.length) :
    chunk v4 (blocks.map List.length).sum (gitEncodeBlocks v4 [] blocks ++ rest) = some (blocks.flatten, rest) :=
  chunkGo_blocks v4 blocks [] none rest (Or.inl rfl) hwf hfit (by decide) hrest

/-- For ANY file contents and ANY offset table: whether the threaded branch succeeds, and with
which entries, does not depend on the number of blocks per thread (`c ≥ 1`; `from_bytes` uses
`ceil(blocks / (threads - 1))`, so this covers every thread limit, not only 1..16). -/
theorem thread_grouping_irrelevant (v4 : Bool) (c : Nat) (hc : 1 ≤ c) (data : Bytes) (offs : List Offset)
    (r : List Entry) :
    decodeGrouped v4 c data offs = .ok r ↔ decodeGrouped v4 1 data offs = .ok r := by
  rw [decodeGrouped_ok_iff v4 c hc, decodeGrouped_ok_iff v4 1 (Nat.le_refl 1)]

/-- A file as git writes it — `hdr` (12 bytes in reality), the entries in blocks, anything after
them (`tail`: extensions and the trailing hash) — with the offset table git records for it: the
threaded branch with ANY group size and the serial branch both yield the entries git stored.
At a block start git encodes the full path (`previous_name->buf[0] = 0`), which is what makes a
thread's fresh `chunk` call agree with the serial reader that still knows the previous path. -/
theorem parallel_eq_serial (v4 : Bool) (c : Nat) (hc : 1 ≤ c) (hdr tail : Bytes) (blocks : List (List Entry))
    (hwf : ∀ b ∈ blocks, AllWf b) (hfit : ∀ b ∈ blocks, PathsFit b) (htail : 1 ≤ tail.length) :
    let data := hdr ++ (gitEncodeBlocks v4 [] blocks ++ tail)
    decodeGrouped v4 c data (blockOffsets v4 hdr.length [] blocks) = .ok blocks.flatten ∧
    chunk v4 (blocks.map List.length).sum (data.drop hdr.length) = some (blocks.flatten, tail) := by
  intro data
  constructor
  · rw [decodeGrouped_ok_iff v4 c hc]
    exact decodeGroup_blocks v4 blocks hdr [] tail hwf hfit (by decide) htail
  · simp only [data, List.drop_left]
    exact entries_roundtrip v4 blocks tail hwf hfit htail

-- non-vacuity: three blocks of version-4 entries, the middle one with paths across 0xfff
example : (∀ b ∈ [[sampleEntry 3], [sampleEntry 4095, sampleEntry 4096], [sampleEntry 1]], AllWf b) := by
  intro b hb e he
  simp only [List.mem_cons, List.not_mem_nil, or_false] at hb
  rcases hb with rfl | rfl | rfl <;> simp only [List.mem_cons, List.not_mem_nil, or_false] at he <;>
    first
    | (rcases he with rfl | rfl <;> exact sampleEntry_wf _)
    | (subst he; exact sampleEntry_wf _)

/-! ### the file-level statement -/

/-- the extensions git writes after the offset table, in git's order -/
def gitExts (tree : Option Tree) (reuc : Option (List ReucPath)) (sparse : Bool) : List (Bytes × Bytes) :=
  (match tree with | some t => [(sigTREE, gitEncodeTree t)] | none => []) ++
  (match reuc with | some ps => [(sigREUC, gitEncodeReuc ps)] | none => []) ++
  (if sparse then [(sigSdir, [])] else [])

mutual
  /-- what gitoxide reports for a cache tree: children sorted by name, recursively -/
  def canonTree : Tree → Tree
    | .mk name id num cs => .mk name id num (sortByName (canonTrees cs))
  def canonTrees : List Tree → List Tree
    | [] => []
    | t :: ts => canonTree t :: canonTrees ts
end

/-- FULL file-level statement (kept as a definition: its entry/chunk/threading core is proved
above as `entry_roundtrip_*`, `entries_roundtrip`, `parallel_eq_serial`,
`thread_grouping_irrelevant`; the composition through header, EOIE/IEOT lookup and the TREE/REUC
payload codecs is tied by the correspondence run and the git oracle, see the level note):
for every thread limit, decoding the file git writes for `blocks` (+ cache tree, resolve-undo,
sparse marker, optional offset table and end-of-index marker) yields exactly those entries and
extension contents. Without an EOIE the trailing bytes must not look like one (inherent in the
format: git has the same ambiguity). -/
def C24_full : Prop :=
  ∀ (sha1 : Bytes → Bytes) (version threads : Nat) (blocks : List (List Entry))
    (recordIeot recordEoie sparse : Bool) (tree : Option Tree) (reuc : Option (List ReucPath)) (trailer : Bytes),
    (version = 2 ∨ version = 3 ∨ version = 4) → 1 ≤ threads →
    (∀ b ∈ blocks, AllWf b) → (∀ b ∈ blocks, PathsFit b) → trailer.length = hashLen →
    let file := gitEncodeIndex sha1 version blocks recordIeot (gitExts tree reuc sparse) recordEoie trailer
    file.length < 4294967296 →
    (recordEoie = false → eoieDecode sha1 file = none) →
    ∃ x : Exts,
      fromBytes sha1 threads file =
        .ok version blocks.flatten (isSparseEntries blocks.flatten || sparse) x
          (if isNull trailer then none else some trailer) ∧
      x.isSparse = sparse ∧ x.endOfIndex = recordEoie ∧ x.offsetTable = recordIeot ∧
      x.reuc = reuc ∧ x.link = none

end GixModel.Props.C24
