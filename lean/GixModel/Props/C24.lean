import GixModel.Lemmas.C24Tree
import GixModel.Lemmas.C24All
/-
C24 — Index files decode to exactly what git wrote, for any thread limit.  PROPERTY THEOREMS ONLY.

Model: `Model/C24Core.lean` (gitoxide's decoder, as repaired — see known-findings.txt),
git side: `Spec/C24.lean` (transcription of git's writer, re-validated against the git binary on
every run by the `spec` driver op). SHA-1 is a parameter wherever it occurs.

Shape of the results: for EVERY entry git can store (`WfEntry`: 32-bit stat fields, a mode made of
known bits, a 20-byte id, only storable flags, a path without NUL — of ANY length, in particular
across the 0xfff boundary where the on-disk length field saturates) what git writes decodes to
exactly that entry; a whole entries region in any number of offset-table blocks decodes to the
entries git stored, both by one serial `chunk` call and by any number of threads with any group
size; and for ANY input bytes the result of the threaded branch does not depend on the group size.
-/
namespace GixModel.Props.C24
open GixModel GixModel.C24 GixModel.Spec.C24

/-- git's `encode_varint` is inverted by `leb64_from_read` for every 64-bit value. -/
theorem varint_roundtrip (n : Nat) (hn : n < 18446744073709551616) (rest : Bytes) :
    varInt (encodeVarint n ++ rest) = some (n, rest) :=
  varInt_encode n hn rest

example : varInt (encodeVarint 4095 ++ [7]) = some (4095, [7]) := by decide +kernel
example : encodeVarint 16511 = [0xff, 0x7f] := by decide +kernel

/-- Versions 2 and 3: what `ce_write_entry` writes for an entry decodes to that entry and leaves
exactly the bytes after it — for EVERY path length (below 0xfff the length comes from the flags,
from 0xfff on the name is NUL-terminated; in both cases the padding `(len + 8) & ~7` is skipped). -/
theorem entry_roundtrip_v23 (e : Entry) (h : WfEntry e) (prev : Option Bytes) (rest : Bytes) :
    loadOne false prev (gitEncodeEntryV23 e ++ rest) = some (e, rest) :=
  loadOne_v23 e h prev rest

/-- a well-formed entry with a path of `n` bytes `a` and all flag bits that can be stored -/
def sampleEntry (n : Nat) : Entry :=
  { stat := { ctimeS := 1700000000, ctimeN := 999999999, mtimeS := 4294967295, mtimeN := 0, dev := 64769,
              ino := 4294967295, uid := 1000, gid := 0, size := 4095 },
    mode := 0o100755, id := List.replicate 20 0xab,
    flags := 0x3000 + 0x4000 + 0x8000 + 0x20000000 + 0x40000000,
    path := List.replicate n 97 }

theorem sampleEntry_wf (n : Nat) : WfEntry (sampleEntry n) where
  stat := by
    refine ⟨?_, ?_, ?_, ?_, ?_, ?_, ?_, ?_, ?_⟩ <;> simp only [sampleEntry] <;> decide
  mode_lt := by simp only [sampleEntry]; decide
  mode_known := by simp only [sampleEntry]; decide
  id_len := by simp only [sampleEntry]; decide
  flags_low := by simp only [sampleEntry]
  flags_ext := by simp only [sampleEntry]; decide
  flags_extended := by simp only [sampleEntry]; decide
  path_nul := by
    intro b hb
    rw [show (sampleEntry n).path = List.replicate n 97 from rfl] at hb
    rw [List.eq_of_mem_replicate hb]
    decide

-- non-vacuity: the hypotheses hold on both sides of the 0xfff boundary, and the statement is about
-- real bytes (a 4095-byte path: flags saturate, 1 byte of padding after 64 + 4095 bytes)
example : (gitEncodeEntryV23 (sampleEntry 4095)).length = 64 + 4095 + 1 := by decide +kernel
example : (gitEncodeEntryV23 (sampleEntry 4094)).length = 64 + 4094 + 2 := by decide +kernel
example : loadOne false none (gitEncodeEntryV23 (sampleEntry 5000) ++ [1, 2, 3]) = some (sampleEntry 5000, [1, 2, 3]) :=
  entry_roundtrip_v23 _ (sampleEntry_wf 5000) _ _

/-- Version 4, the decoder knows the previous path: any prefix the two paths really share may be
left out (`common`; git uses the longest one, or 0 at the start of an offset-table block). -/
theorem entry_roundtrip_v4 (e : Entry) (h : WfEntry e) (prev : Bytes) (common : Nat)
    (hc : common ≤ prev.length) (hp : prev.take common = e.path.take common)
    (hprev : prev.length < 18446744073709551616) (rest : Bytes)
    (hrest : 1 ≤ (e.path.length - common) + rest.length) :
    loadOne true (some prev) (gitEncodeEntryV4 prev common e ++ rest) = some (e, rest) :=
  loadOne_v4_some e h prev common hc hp hprev rest hrest

/-- Version 4, first entry of a `chunk` call (start of the file or of an offset-table block read by
a thread): git wrote the full path there and the strip length is ignored. -/
theorem entry_roundtrip_v4_first (e : Entry) (h : WfEntry e) (prev : Bytes)
    (hprev : prev.length < 18446744073709551616) (rest : Bytes) (hrest : 1 ≤ e.path.length + rest.length) :
    loadOne true none (gitEncodeEntryV4 prev 0 e ++ rest) = some (e, rest) :=
  loadOne_v4_none e h prev hprev rest hrest

example : loadOne true (some (List.replicate 5000 97)) (gitEncodeEntryV4 (List.replicate 5000 97) 4096 (sampleEntry 4096) ++ [9])
    = some (sampleEntry 4096, [9]) :=
  entry_roundtrip_v4 _ (sampleEntry_wf 4096) _ 4096
    (by rw [List.length_replicate]; decide)
    (by simp only [sampleEntry, List.take_replicate]; congr 1)
    (by rw [List.length_replicate]; decide) _
    (by simp only [List.length_cons, List.length_nil]; omega)

/-- The whole entries region (any number of entries in any number of offset-table blocks, any
version) decoded by ONE serial `chunk` call from the end of the header gives the entries git
stored and stops exactly at the first extension byte. `rest` is never empty in a file: the
trailing hash is there. -/
theorem entries_roundtrip (v4 : Bool) (blocks : List (List Entry)) (rest : Bytes)
    (hwf : ∀ b ∈ blocks, AllWf b) (hfit : ∀ b ∈ blocks, PathsFit b) (hrest : 1 ≤ rest.length) :
    chunk v4 (blocks.map List.length).sum (gitEncodeBlocks v4 [] blocks ++ rest) = some (blocks.flatten, rest) :=
  chunkGo_blocks v4 blocks [] none rest (Or.inl rfl) hwf hfit (by decide) hrest

/-- For ANY file contents and ANY offset table: whether the threaded branch succeeds, and with
which entries, does not depend on the number of blocks per thread (`c ≥ 1`; `from_bytes` uses
`ceil(blocks / (threads - 1))`, so this covers every thread limit, not only 1..16). -/
theorem thread_grouping_irrelevant (v4 : Bool) (c : Nat) (hc : 1 ≤ c) (data : Bytes) (offs : List Offset)
    (r : List Entry) :
    decodeGrouped v4 c data offs = .ok r ↔ decodeGrouped v4 1 data offs = .ok r := by
  rw [decodeGrouped_ok_iff v4 c hc, decodeGrouped_ok_iff v4 1 (Nat.le_refl 1)]

/-- A file as git writes it — `hdr` (12 bytes in reality), the entries in blocks, anything after
them (`tail`: extensions and the trailing hash) — with the offset table git records for it: the
threaded branch with ANY group size and the serial branch both yield the entries git stored.
At a block start git encodes the full path (`previous_name->buf[0] = 0`), which is what makes a
thread's fresh `chunk` call agree with the serial reader that still knows the previous path. -/
theorem parallel_eq_serial (v4 : Bool) (c : Nat) (hc : 1 ≤ c) (hdr tail : Bytes) (blocks : List (List Entry))
    (hwf : ∀ b ∈ blocks, AllWf b) (hfit : ∀ b ∈ blocks, PathsFit b) (htail : 1 ≤ tail.length) :
    let data := hdr ++ (gitEncodeBlocks v4 [] blocks ++ tail)
    decodeGrouped v4 c data (blockOffsets v4 hdr.length [] blocks) = .ok blocks.flatten ∧
    chunk v4 (blocks.map List.length).sum (data.drop hdr.length) = some (blocks.flatten, tail) := by
  intro data
  constructor
  · rw [decodeGrouped_ok_iff v4 c hc]
    exact decodeGroup_blocks v4 blocks hdr [] tail hwf hfit (by decide) htail
  · simp only [data, List.drop_left]
    exact entries_roundtrip v4 blocks tail hwf hfit htail

-- non-vacuity: three blocks of version-4 entries, the middle one with paths across 0xfff
example : (∀ b ∈ [[sampleEntry 3], [sampleEntry 4095, sampleEntry 4096], [sampleEntry 1]], AllWf b) := by
  intro b hb e he
  simp only [List.mem_cons, List.not_mem_nil, or_false] at hb
  rcases hb with rfl | rfl | rfl <;> simp only [List.mem_cons, List.not_mem_nil, or_false] at he <;>
    first
    | (rcases he with rfl | rfl <;> exact sampleEntry_wf _)
    | (subst he; exact sampleEntry_wf _)

/-! ### the file level -/

/-- The end-of-index entry is found where git put it: for a file `Q ++ extensions ++ EOIE ++
trailer` (at least one extension before the EOIE) the decoder returns the offset of the first
extension, for ANY hash function with 20-byte output. -/
theorem eoie_offsets (sha1 : Bytes → Bytes) (hsha : ∀ x, (sha1 x).length = 20)
    (Q T : Bytes) (exts : List (Bytes × Bytes)) (hne : exts ≠ []) (hok : ∀ sp ∈ exts, ExtOk sp)
    (hq : 12 ≤ Q.length) (hq2 : Q.length < 4294967296) (ht : T.length = 20) :
    eoieDecode sha1 (Q ++ (encodeExts exts ++ (eoieExt sha1 Q.length exts ++ T))) = some Q.length :=
  eoieDecode_encoded sha1 hsha Q T exts hne hok hq hq2 ht

/-- The offset table round-trips. -/
theorem ieot_roundtrip (offs : List Offset) (hne : offs ≠ []) (hok : ∀ o ∈ offs, OffsetOk o) :
    ieotDecode (ieotPayload offs) = some offs :=
  ieotDecode_payload offs hne hok

/-- THE FILE: `State::from_bytes` (model) on the file git's writer produces — header, entries in
any number of offset-table blocks, optional IEOT, any further extensions (`exts`, none of them
another IEOT), optional EOIE, trailer — gives, for EVERY thread limit `threads ≥ 1`, the same
outcome: the version, exactly the entries git stored, and whatever `decode::all` collects from
the extension list. Without an EOIE the trailing bytes must not look like one (inherent in the
format: git's reader has the same ambiguity). Files are below 4 GiB (offsets are `u32`). -/
theorem file_roundtrip_any_exts (sha1 : Bytes → Bytes) (hsha : ∀ x, (sha1 x).length = 20) (version threads : Nat)
    (ht : 1 ≤ threads) (blocks : List (List Entry)) (recordIeot : Bool) (exts : List (Bytes × Bytes))
    (recordEoie : Bool) (trailer : Bytes)
    (hv : version = 2 ∨ version = 3 ∨ version = 4)
    (hwf : ∀ b ∈ blocks, AllWf b) (hfit : ∀ b ∈ blocks, PathsFit b) (htr : trailer.length = hashLen)
    (hn : (blocks.map List.length).sum < 4294967296)
    (hexts : ∀ sp ∈ exts, sp.1.length = 4 ∧ sp.1 ≠ sigIEOT)
    (hsize : (gitEncodeIndex sha1 version blocks recordIeot exts recordEoie trailer).length < 4294967296)
    (hno : recordEoie = false →
      eoieDecode sha1 (gitEncodeIndex sha1 version blocks recordIeot exts recordEoie trailer) = none) :
    fromBytes sha1 threads (gitEncodeIndex sha1 version blocks recordIeot exts recordEoie trailer) =
      match extFold {} (indexExts sha1 version blocks recordIeot exts recordEoie) with
      | .ok e => finish version blocks.flatten e trailer
      | .err => .errExtension
      | .panic => .panic :=
  fromBytes_gitEncodeIndex sha1 hsha version threads ht blocks recordIeot exts recordEoie trailer hv hwf hfit htr hn
    hexts hsize hno

/-- … and with the extensions git writes (cache tree, resolve-undo, sparse marker): the entries,
the sparse flag, the markers for offset table and end-of-index entry, the checksum — and for the
cache tree and resolve-undo the result of their payload decoders on git's payloads (their
contents: `reuc_roundtrip`; the cache tree's is tied by correspondence + `git write-tree`). -/
theorem file_roundtrip (sha1 : Bytes → Bytes) (hsha : ∀ x, (sha1 x).length = 20) (version threads : Nat)
    (ht : 1 ≤ threads) (blocks : List (List Entry)) (recordIeot recordEoie sparse : Bool)
    (tree : Option Tree) (reuc : Option (List ReucPath)) (trailer : Bytes)
    (hv : version = 2 ∨ version = 3 ∨ version = 4)
    (hwf : ∀ b ∈ blocks, AllWf b) (hfit : ∀ b ∈ blocks, PathsFit b) (htr : trailer.length = hashLen)
    (hn : (blocks.map List.length).sum < 4294967296)
    (hsize : (gitEncodeIndex sha1 version blocks recordIeot (gitExts tree reuc sparse) recordEoie trailer).length
      < 4294967296)
    (hno : recordEoie = false →
      eoieDecode sha1 (gitEncodeIndex sha1 version blocks recordIeot (gitExts tree reuc sparse) recordEoie trailer)
        = none) :
    fromBytes sha1 threads (gitEncodeIndex sha1 version blocks recordIeot (gitExts tree reuc sparse) recordEoie trailer)
      = .ok version blocks.flatten (isSparseEntries blocks.flatten || sparse)
          (expectedExts tree reuc sparse recordIeot recordEoie)
          (if isNull trailer then none else some trailer) := by
  rw [file_roundtrip_any_exts sha1 hsha version threads ht blocks recordIeot _ recordEoie trailer hv hwf hfit htr hn
    (gitExts_sigs tree reuc sparse) hsize hno, extFold_gitExts]
  simp only [finish, htr, ne_eq, not_true_eq_false, if_false, expectedExts]

/-- The resolve-undo extension: what `resolve_undo_write` writes for any list of paths (names
without NUL, three stages each, present stages with a non-zero 32-bit mode and a 20-byte id)
decodes to exactly that list. -/
theorem reuc_roundtrip (ps : List ReucPath) (hwf : ∀ p ∈ ps, WfReucPath p) :
    reucDecode (gitEncodeReuc ps) = some ps :=
  reucDecode_encoded ps hwf

example : WfReucPath { name := [97, 47, 98], stages := [some (0o100644, List.replicate 20 1), none, some (0o100755, List.replicate 20 2)] } where
  name_nul := by decide
  three := rfl
  stages := by
    intro s hs
    simp only [List.mem_cons, List.not_mem_nil, or_false] at hs
    rcases hs with rfl | rfl | rfl <;> simp [WfStage, hashLen]

/-- The cache-tree extension: what git's `write_one` writes for a tree (names without NUL and
distinct among siblings, valid nodes with a count below 2^31 and a 20-byte id) decodes to that
tree in gitoxide's canonical form — children sorted by name at every level, the null id for
invalidated nodes — provided it is nested no deeper than the decoder's `MAX_DEPTH` of 4096 (a
path of that depth cannot exist on a file system). -/
theorem tree_ext_roundtrip (t : Tree) (hwf : WfTree t) (hdepth : treeHeight t ≤ maxDepth) :
    treeDecodeOpt (gitEncodeTree t) = some (canonTree t) :=
  treeDecodeOpt_encoded t hwf hdepth

example : treeHeight (.mk [] (List.replicate 20 1) (some 3)
    [.mk [98] (List.replicate 20 2) (some 1) [], .mk [97, 97] [] none []]) = 1 := by
  simp [treeHeight, treesHeight]

example : WfTree (.mk [] (List.replicate 20 1) (some 3)
    [.mk [98] (List.replicate 20 2) (some 1) [], .mk [97, 97] [] none []]) := by
  simp [WfTree, WfTrees, Tree.name, hashLen]

/-- `file_roundtrip` with the cache-tree content spelled out. -/
theorem file_roundtrip_tree (t : Tree) (hwf : WfTree t) (hdepth : treeHeight t ≤ maxDepth)
    (reuc : Option (List ReucPath)) (sparse recordIeot recordEoie : Bool) :
    (expectedExts (some t) reuc sparse recordIeot recordEoie).tree = some (canonTree t) := by
  simp only [expectedExts, Option.bind_some, treeDecodeOpt_encoded t hwf hdepth]

/-- `file_roundtrip` with the resolve-undo content spelled out. -/
theorem file_roundtrip_reuc (tree : Option Tree) (ps : List ReucPath) (hwf : ∀ p ∈ ps, WfReucPath p)
    (sparse recordIeot recordEoie : Bool) :
    (expectedExts tree (some ps) sparse recordIeot recordEoie).reuc = some ps := by
  simp only [expectedExts, Option.bind_some, reucDecode_encoded ps hwf]

-- non-vacuity of the file-level hypotheses: a version-4 file with two blocks, offset table and EOIE
example : (gitEncodeIndex (fun _ => List.replicate 20 7) 4 [[sampleEntry 3], [sampleEntry 2]] true
    (gitExts none none true) true (List.replicate 20 1)).length = 12 + 69 + 68 + (8 + 20) + 8 + 32 + 20 := by
  decide +kernel

/-! ### the remaining extension payloads (round 3) -/

/-- EWAH bitmaps: what `ewah_serialize` writes (bit size, word count, words, position of the last
run-length word) is what `gix_bitmap::ewah::decode` returns, and the bytes after it are left. -/
theorem ewah_roundtrip (e : Ewah) (h : WfEwah e) (rest : Bytes) :
    ewahDecode (gitEncodeEwah e ++ rest) = some (e, rest) :=
  ewahDecode_encoded e h rest

/-- The split-index `link` extension: base checksum and, if present, the delete and replace
bitmaps come back exactly. -/
theorem link_roundtrip (l : Link) (h : WfLink l) : linkDecode (gitEncodeLink l) = some l :=
  linkDecode_encoded l h

example : WfLink { checksum := List.replicate 20 7, bitmaps := some (⟨3, [5], 0⟩, ⟨0, [], 0⟩) } := by
  refine ⟨rfl, ⟨?_, ?_⟩⟩ <;> exact ⟨by decide, by decide, by decide, by decide⟩

/-- The file-system-monitor extension, version 1 (64-bit timestamp) and version 2 (token string):
version, token and dirty bitmap come back exactly. -/
theorem fsmn_roundtrip (f : FsMonitor) (h : WfFsmn f) : fsmnDecode (gitEncodeFsmn f) = .ok (some f) :=
  fsmnDecode_encoded f h

example : WfFsmn { version := 2, token := [116, 111, 107], dirty := ⟨3, [5], 0⟩ } := by
  refine ⟨⟨by decide, by decide, by decide, by decide⟩, by decide, Or.inr ⟨rfl, by decide⟩⟩

/-- The sparse-directory marker: an empty `sdir` extension sets the sparse flag (and nothing else). -/
theorem sdir_roundtrip (acc : Exts) : extStep acc sigSdir [] = .ok { acc with isSparse := true } :=
  extStep_sdir acc

/-- The directory blocks of the untracked cache: what `write_one_dir` writes for a directory tree
(pre-order; names without NUL) decodes to the flattened list, every directory carrying the indices
of its sub-directories — for any nesting up to the decoder's limit of 4096. -/
theorem untr_dirs_roundtrip (n : UNode) (hwf : WfUNode n) (fuel depth : Nat) (rest : Bytes) (dirs : List UDir)
    (hfuel : unodeCost n ≤ fuel) (hdepth : depth + unodeHeight n ≤ maxDepth) (hrest : 1 ≤ rest.length) :
    udirBlock fuel depth (gitEncodeUNode n ++ rest) dirs = some (rest, dirs ++ flatNode dirs.length n) :=
  udirBlock_encoded n hwf fuel depth rest dirs hfuel hdepth hrest

/-- THE UNTRACKED CACHE: what `write_untracked_extension` writes — ident, the stat data and hashes
of info/exclude and core.excludesFile, directory flags, per-directory exclude name, the directory
tree, the three EWAH bitmaps, the stat data of the valid directories and the hashes of the hashed
ones — decodes to exactly that content: header fields (stat = ctime, mtime, dev, ino, uid, gid,
size in git's order), directories in pre-order with their sub-directory indices, `check_only`,
stat and exclude-file hash set on the directories the bitmaps name. `UntrSpec.Ok`: bitmaps refer
to existing directories and the stat/hash lists are the ones for the set bits (as git writes them). -/
theorem untr_roundtrip (u : UntrSpec) (h : u.Ok) : untrDecode u.encode = .ok (some u.decoded) :=
  untrDecode_encoded u h

/-- THE FILE WITH EVERY EXTENSION: `from_bytes` (model) on the file git's writer produces with any
combination of offset table, split-index link, cache tree, resolve-undo, untracked cache,
fsmonitor, sparse marker and end-of-index entry yields — for every thread limit — the version,
exactly the stored entries, and for each extension exactly the content git stored (cache tree in
canonical form). Hypotheses as for `file_roundtrip` plus well-formedness of each payload. -/
theorem file_roundtrip_all_exts (sha1 : Bytes → Bytes) (hsha : ∀ x, (sha1 x).length = 20) (version threads : Nat)
    (ht : 1 ≤ threads) (blocks : List (List Entry)) (recordIeot recordEoie sparse : Bool)
    (link : Option Link) (tree : Option Tree) (reuc : Option (List ReucPath)) (untr : Option UntrSpec)
    (fsmn : Option FsMonitor) (trailer : Bytes)
    (hv : version = 2 ∨ version = 3 ∨ version = 4)
    (hwf : ∀ b ∈ blocks, AllWf b) (hfit : ∀ b ∈ blocks, PathsFit b) (htr : trailer.length = hashLen)
    (hn : (blocks.map List.length).sum < 4294967296)
    (hlink : optP link WfLink) (htree : optP tree fun t => WfTree t ∧ treeHeight t ≤ maxDepth)
    (hreuc : optP reuc fun ps => ∀ p ∈ ps, WfReucPath p) (huntr : optP untr UntrSpec.Ok) (hfsmn : optP fsmn WfFsmn)
    (hsize : (gitEncodeIndex sha1 version blocks recordIeot (gitExtsAll link tree reuc untr fsmn sparse) recordEoie
      trailer).length < 4294967296)
    (hno : recordEoie = false → eoieDecode sha1 (gitEncodeIndex sha1 version blocks recordIeot
      (gitExtsAll link tree reuc untr fsmn sparse) recordEoie trailer) = none) :
    fromBytes sha1 threads (gitEncodeIndex sha1 version blocks recordIeot (gitExtsAll link tree reuc untr fsmn sparse)
        recordEoie trailer)
      = .ok version blocks.flatten (isSparseEntries blocks.flatten || sparse)
          (expectedAll link tree reuc untr fsmn sparse recordIeot recordEoie)
          (if isNull trailer then none else some trailer) :=
  fromBytes_all_exts sha1 hsha version threads ht blocks recordIeot recordEoie sparse link tree reuc untr fsmn trailer
    hv hwf hfit htr hn hlink htree hreuc huntr hfsmn hsize hno

/-- a root directory with one untracked file and one sub-directory; the root is valid (bit 0) -/
def sampleUntr : UntrSpec :=
  { ident := [76, 0], infoStat := ⟨1, 2, 3, 4, 5, 6, 7, 8, 9⟩, exclStat := ⟨0, 0, 0, 0, 0, 0, 0, 0, 0⟩, dirFlags := 6,
    infoOid := List.replicate 20 9, exclOid := List.replicate 20 0, perDir := [46, 103],
    root := .mk [] [[117]] [.mk [100] [] []],
    valid := ⟨1, [8589934592, 1], 0⟩, checkOnly := ⟨0, [], 0⟩, hashValid := ⟨0, [], 0⟩,
    stats := [(0, ⟨11, 12, 13, 14, 15, 16, 17, 18, 19⟩)], oids := [] }

example : sampleUntr.Ok where
  ident := by decide
  infoStat := ⟨by decide, by decide, by decide, by decide, by decide, by decide, by decide, by decide, by decide⟩
  exclStat := ⟨by decide, by decide, by decide, by decide, by decide, by decide, by decide, by decide, by decide⟩
  dirFlags := by decide
  infoOid := by decide
  exclOid := by decide
  perDir := by decide
  root := by simp [sampleUntr, WfUNode, WfUNodes]
  height := by simp [sampleUntr, unodeHeight, unodesHeight, maxDepth]
  count := by simp [sampleUntr, UNode.count, UNode.counts]
  valid := ⟨by decide, by decide, by decide, by decide⟩
  checkOnly := ⟨by decide, by decide, by decide, by decide⟩
  hashValid := ⟨by decide, by decide, by decide, by decide⟩
  validBits := by simp [sampleUntr, UNode.count, UNode.counts]
  checkBits := by simp [sampleUntr, UNode.count, UNode.counts]
  hashBits := by simp [sampleUntr, UNode.count, UNode.counts]
  checkIdx := by decide +kernel
  statIdx := by decide +kernel
  oidIdx := by decide +kernel
  stats := by
    intro p hp
    simp only [sampleUntr, List.mem_cons, List.not_mem_nil, or_false] at hp
    subst hp
    exact ⟨by simp [sampleUntr, UNode.count, UNode.counts],
      ⟨by decide, by decide, by decide, by decide, by decide, by decide, by decide, by decide, by decide⟩⟩
  oids := by intro p hp; simp [sampleUntr] at hp

end GixModel.Props.C24
