import GixModel.Lemmas.C04i
import GixModel.Lemmas.C04w
/-
C04 — Tree editing yields the same tree as building the result from scratch.  PROPERTY THEOREMS ONLY.

Model: `Model/C04.lean` (`editLoop` = `Editor::upsert_or_remove_at_pathbuf` statement by statement,
incl. the cached `trees` map, null-id placeholders, `needs_sorting`, the two repairs of
known-findings.txt; `writeTree`/`writeAt` = `write_at_pathbuf`). Spec: `Spec/C04.lean` (a file
system is a partial map path ↦ (mode, id); `upsert`, `remove`, `mkdir`). `abs` reads an editor
state as such a map (through the cached trees, else through `find`).

Shape of the result: REFINEMENT for EVERY history. Each operation on an editor state satisfying
the invariant `InvW` succeeds, re-establishes the invariant and commutes with `abs`
(`upsert_refines`, `remove_refines`, `cursor_at_refines`, `set_root_refines`, `write_refines`,
and through a live cursor `cursor_upsert_refines`, `cursor_remove_refines`, `cursor_write_refines`);
by induction every history does (`history_refines`). `write` returns the id of a tree
that is canonical (`Canon`: every reachable tree strictly sorted by git's order with unique valid
names, no null ids, directories mode 040000 and never empty) and reads back as exactly the
abstract file system; a file system has at most one canonical tree (`canonical_tree_unique`), so
the id is the one any from-scratch builder of canonical trees (git) computes
(`history_write_matches_scratch_build`).

Assumed of the id function (`HashOk`): injective, `hash [] = empty-tree id`, never the null id.
Domain (`ValidOp`/`ValidF`): non-empty paths of non-empty slash-free components; upserts of a
non-tree kind (blob, executable, link, commit; a null id makes a placeholder = nothing) or of kind
`Tree` with the id of a stored tree (a graft, `upsert_tree_refines`); `set_root` trees are
canonical stored trees; cursor operations need a live cursor. Also covered: kind `Tree` with the
NULL id (an explicit placeholder directory, `upsert_null_tree_refines`). Outside: kind `Tree`
with the empty-tree id (an entry git never writes).

The literal stack loop of `write_at_pathbuf` (`Model.C04.writeLoop`, two vectors, indices into
`parents`, binary search of the child in its parent) against the bottom-up recursion the
theorems above are about: PROVED equal (same id, same number of `out` calls, same cache, stores
with the same content) when the cache below the written tree is at most ONE level deep
(`write_loop_eq_recursion_depth0`, `write_loop_eq_recursion_depth1`; `write_loop_refines_shallow`
and `cursor_write_loop_refines_shallow` carry `write_refines` / `cursor_write_refines` over to the
loop for such editors). For deeper caches the equality is NOT
proved; there the driver compares loop and recursion on every write (`writeChecked`).
-/
namespace GixModel.Props.C04
open GixModel GixModel.Tree GixModel.C04
open GixModel.Spec.C04 (FS)

/-- The real cache key (the `/`-joined path) identifies the component list the model uses as key. -/
theorem path_hash_injective (p q : Path) (hp : ∀ n ∈ p, ValidName n) (hq : ∀ n ∈ q, ValidName n)
    (h : joinPath p = joinPath q) : p = q := joinPath_inj p q hp hq h

example : ValidName [97] ∧ joinPath [[97], [98, 99]] = [97, 47, 98, 99] := by decide

/-- `Editor::upsert(path, kind, id)` refines `Spec.upsert`: it never fails or panics, keeps the
invariant, and changes the denoted file system exactly as the specification says. -/
theorem upsert_refines (ed : Ed) (hinv : Inv ed) (p : Path) (hp : ValidPath p) (mode : Nat)
    (id : Bytes) (hk : isTreeMode mode = false) :
    ∃ ed', upsert ed p mode id = .ok ed' ∧ Inv ed' ∧ ed'.store = ed.store ∧
      abs ed' = Spec.C04.upsert p (leafVal mode id) (abs ed) := upsert_spec hinv hp hk

/-- `Editor::upsert(path, Tree, id)` with the id of a stored tree (loaded through `find` when an edit
goes below it later) refines `Spec.graft`: the stored tree's whole content appears at `path`. -/
theorem upsert_tree_refines (ed : Ed) (hinv : Inv ed) (p : Path) (hp : ValidPath p) (id : Bytes)
    (ts : List Entry) (hst : aget id ed.store = some ts) (hne : id ≠ emptyTreeId) :
    ∃ ed', upsert ed p 0o040000 id = .ok ed' ∧ Inv ed' ∧ ed'.store = ed.store ∧
      abs ed' = Spec.C04.graft p (absStore ed.store ts) (abs ed) := by
  have hnn : id ≠ nullId := by
    intro e
    rw [e, hinv.store.nonull] at hst
    cases hst
  exact upsert_tree_spec hinv hp (Or.inr ⟨hnn, hst⟩) hne

/-- `Editor::upsert(path, Tree, null)`: an explicit null-id tree placeholder is an empty directory —
it denotes nothing (and is dropped at `write`), whatever was at or below `path` is gone, and —
with the repair recorded in known-findings.txt — later edits below it work like below any
directory (they are covered by `history_refines`: the invariant is kept). -/
theorem upsert_null_tree_refines (ed : Ed) (hinv : Inv ed) (p : Path) (hp : ValidPath p) :
    ∃ ed', upsert ed p 0o040000 nullId = .ok ed' ∧ Inv ed' ∧ ed'.store = ed.store ∧
      abs ed' = Spec.C04.graft p Spec.C04.empty (abs ed) := by
  obtain ⟨ed', h1, h2, h3, h4⟩ :=
    upsert_tree_spec hinv hp (id := nullId) (ts := []) (Or.inl ⟨rfl, rfl⟩) (by decide)
  refine ⟨ed', h1, h2, h3, ?_⟩
  rw [h4]
  congr 1
  funext q
  exact lookupIn_nil _ _ _

-- the former failing input: a placeholder directory, then an edit below it — now it is there
example :
    (match upsert emptyEd [[97]] 0o040000 nullId with
     | .ok ed1 => (match upsert ed1 [[97], [98]] 0o100644 [1] with
                   | .ok ed2 => abs ed2 [[97], [98]]
                   | _ => none)
     | _ => none) = some (0o100644, [1]) := by decide +kernel

/-- `Editor::remove(path)` refines `Spec.remove` (the leaf, or the whole sub-tree, disappears). -/
theorem remove_refines (ed : Ed) (hinv : Inv ed) (p : Path) (hp : ValidPath p) :
    ∃ ed', remove ed p = .ok ed' ∧ Inv ed' ∧ ed'.store = ed.store ∧
      abs ed' = Spec.C04.remove p (abs ed) := remove_spec hinv hp

/-- `Editor::cursor_at(path)` refines `Spec.mkdir`: files on the way become directories, an
existing directory keeps its content; the cursor's tree is cached afterwards. -/
theorem cursor_at_refines (ed : Ed) (hinv : Inv ed) (p : Path) (hp : ValidPath p) :
    ∃ ed', cursorAt ed p = .ok ed' ∧ Inv ed' ∧ ed'.store = ed.store ∧
      abs ed' = Spec.C04.mkdir p (abs ed) ∧ ed'.pathBuf = p ∧ (aget p ed'.trees).isSome = true :=
  cursorAt_spec hinv hp

/-- `Editor::set_root(tree)` with a canonical stored tree. -/
theorem set_root_refines (hash : List Entry → Bytes) (ed : Ed) (h : InvW hash ed) (t : List Entry)
    (ht : Canon ed.store t) :
    InvW hash (setRoot ed t) ∧ abs (setRoot ed t) = absStore ed.store t := setRoot_spec h ht

/-- `Editor::write()`: never panics; the returned id is the id of a stored canonical tree that
reads back as exactly the file system the editor stood for; the editor keeps standing for it. -/
theorem write_refines (hash : List Entry → Bytes) (hh : HashOk hash) (ed : Ed) (h : InvW hash ed) :
    ∃ calls ed' root, write hash ed = .ok (hash root) calls ed' ∧ InvW hash ed' ∧
      aget (hash root) ed'.store = some root ∧ Canon ed'.store root ∧
      absStore ed'.store root = abs ed ∧ abs ed' = abs ed := by
  obtain ⟨calls, ed', root, h1, h2, h3, h4, h5, h6, _⟩ := write_spec hh h
  exact ⟨calls, ed', root, h1, h2, h3, h4, funext h5, funext h6⟩

/-- A file system has at most one canonical tree (whatever stores the two are read from): equal
flattenings ⇒ equal entry lists ⇒ equal bytes ⇒ equal id. -/
theorem canonical_tree_unique (hash : List Entry → Bytes) (hh : HashOk hash)
    (S1 S2 : Assoc Bytes (List Entry)) (h1 : Hashed hash S1) (h2 : Hashed hash S2)
    (t1 t2 : List Entry) (c1 : Canon S1 t1) (c2 : Canon S2 t2)
    (heq : absStore S1 t1 = absStore S2 t2) : t1 = t2 :=
  canon_unique hh h1 h2 c1 c2 (fun q => congrFun heq q)

/-- `Cursor::upsert` through a cursor whose tree is cached at `pfx` refines `Spec.upsert (pfx ++ p)`. -/
theorem cursor_upsert_refines (ed : Ed) (hinv : Inv ed) (pfx : Path) (t : List Entry)
    (hP : aget pfx ed.trees = some t) (p : Path) (hp : ValidPath p) (mode : Nat) (id : Bytes)
    (hk : isTreeMode mode = false) :
    ∃ ed', cursorUpsert ed pfx p mode id = .ok ed' ∧ Inv ed' ∧ ed'.store = ed.store ∧
      (aget pfx ed'.trees).isSome = true ∧
      abs ed' = Spec.C04.upsert (pfx ++ p) (leafVal mode id) (abs ed) :=
  cursorUpsert_spec hinv hP hp hk

/-- `Cursor::upsert` of kind Tree with the id of a stored tree refines `Spec.graft (pfx ++ p)`. -/
theorem cursor_upsert_tree_refines (ed : Ed) (hinv : Inv ed) (pfx : Path) (t : List Entry)
    (hP : aget pfx ed.trees = some t) (p : Path) (hp : ValidPath p) (id : Bytes) (ts : List Entry)
    (hst : aget id ed.store = some ts) (hne : id ≠ emptyTreeId) :
    ∃ ed', cursorUpsert ed pfx p 0o040000 id = .ok ed' ∧ Inv ed' ∧ ed'.store = ed.store ∧
      (aget pfx ed'.trees).isSome = true ∧
      abs ed' = Spec.C04.graft (pfx ++ p) (absStore ed.store ts) (abs ed) := by
  have hnn : id ≠ nullId := by
    intro e
    rw [e, hinv.store.nonull] at hst
    cases hst
  exact cursorUpsert_tree_spec hinv hP hp (Or.inr ⟨hnn, hst⟩) hne

/-- `Cursor::remove` refines `Spec.remove (pfx ++ p)`. -/
theorem cursor_remove_refines (ed : Ed) (hinv : Inv ed) (pfx : Path) (t : List Entry)
    (hP : aget pfx ed.trees = some t) (p : Path) (hp : ValidPath p) :
    ∃ ed', cursorRemove ed pfx p = .ok ed' ∧ Inv ed' ∧ ed'.store = ed.store ∧
      (aget pfx ed'.trees).isSome = true ∧ abs ed' = Spec.C04.remove (pfx ++ p) (abs ed) :=
  cursorRemove_spec hinv hP hp

/-- `Cursor::write()`: the returned id is that of a stored canonical tree that reads as what the
editor holds below the cursor; the editor (which keeps the other cached trees,
`WriteMode::FromCursor`) stands for the same file system as before and keeps its invariant. -/
theorem cursor_write_refines (hash : List Entry → Bytes) (hh : HashOk hash) (ed : Ed)
    (h : InvW hash ed) (pfx : Path) (t : List Entry) (hP : aget pfx ed.trees = some t) :
    ∃ calls ed' root, cursorWrite hash ed pfx = .ok (hash root) calls ed' ∧ InvW hash ed' ∧
      aget (hash root) ed'.store = some root ∧ Canon ed'.store root ∧
      (∀ q, q ≠ [] → absStore ed'.store root q = abs ed (pfx ++ q)) ∧ abs ed' = abs ed ∧
      (aget pfx ed'.trees).isSome = true := by
  obtain ⟨calls, ed', root, h1, h2, h3, h4, h5, h6, _, h8⟩ := cursorWrite_spec hh h hP
  exact ⟨calls, ed', root, h1, h2, h3, h4, h5, h6, h8⟩

/-- EVERY history over the complete operation set — upsert, remove, write, set_root, cursor_at and,
while a cursor is alive, Cursor::upsert / Cursor::remove / Cursor::write — from any state
satisfying the invariant runs without error or panic and ends in a state standing for the file
system obtained by running the same history on the specification. -/
theorem history_refines (hash : List Entry → Bytes) (hh : HashOk hash) (ed0 : Ed)
    (h0 : InvW hash ed0) (ops : List OpF) (hv : ValidF ed0.store none ops) :
    ∃ r, runF hash ⟨ed0, none⟩ ops = some r ∧ InvW hash r.ed ∧
      abs r.ed = (ops.foldl (specF ed0.store) (abs ed0, none)).1 := by
  have hg : GoodF hash ed0.store ⟨ed0, none⟩ (abs ed0, none) :=
    ⟨h0, StoreMono.refl _, rfl, rfl, fun _ h => by cases h⟩
  obtain ⟨r, h1, h2⟩ := runF_spec hh h0.inv.store ops ⟨ed0, none⟩ _ hg hv
  exact ⟨r, h1, h2.inv, h2.abs_eq⟩

/-- The same for histories of direct editor operations only (no live cursor). -/
theorem history_refines_editor_ops (hash : List Entry → Bytes) (hh : HashOk hash) (ed0 : Ed)
    (h0 : InvW hash ed0) (ops : List Op) (hv : ∀ op ∈ ops, ValidOp ed0.store op) :
    ∃ ed', runHistory hash ed0 ops = some ed' ∧ InvW hash ed' ∧
      abs ed' = ops.foldl (specStep ed0.store) (abs ed0) := by
  obtain ⟨ed', h1, h2, _, h4⟩ :=
    runHistory_spec hh h0.inv.store ops ed0 h0 (StoreMono.refl _) hv
  exact ⟨ed', h1, h2, h4⟩

/-- …and a `write` at the end of any history returns the id every builder of canonical trees
(e.g. `git update-index --index-info` + `git write-tree`) computes for the resulting set of
paths: if `g`, canonical in some store `Sg`, reads as the final file system, then `hash g` is the
id the editor returned. -/
theorem history_write_matches_scratch_build (hash : List Entry → Bytes) (hh : HashOk hash) (ed0 : Ed)
    (h0 : InvW hash ed0) (ops : List Op) (hv : ∀ op ∈ ops, ValidOp ed0.store op)
    (Sg : Assoc Bytes (List Entry)) (hSg : Hashed hash Sg) (g : List Entry) (hg : Canon Sg g)
    (hfs : absStore Sg g = ops.foldl (specStep ed0.store) (abs ed0)) :
    ∃ ed1 calls ed2, runHistory hash ed0 ops = some ed1 ∧
      write hash ed1 = .ok (hash g) calls ed2 := by
  obtain ⟨ed1, h1, h2, h3⟩ := history_refines_editor_ops hash hh ed0 h0 ops hv
  obtain ⟨calls, ed2, root, w1, w2, _, w4, w5, _⟩ := write_refines hash hh ed1 h2
  have : root = g := canonical_tree_unique hash hh _ _ w2.hashed hSg root g w4 hg (by rw [w5, h3, hfs])
  subst this
  exact ⟨ed1, calls, ed2, h1, w1⟩

/-- Literal loop = recursion, depth 0: no sub-tree of the written tree is cached. Same id, same
number of `out` calls, same cache, same store (syntactically). -/
theorem write_loop_eq_recursion_depth0 (hash : List Entry → Bytes) (ed : Ed) (fromCursor : Bool)
    (root0 : List Entry) (hP : aget ed.pathBuf ed.trees = some root0)
    (hk : NoCachedKids (aerase ed.pathBuf ed.trees) ed.pathBuf root0) :
    ∃ id calls ed', writeAt hash ed fromCursor = .ok id calls ed' ∧
      writeAtLoop hash ed fromCursor = .done id calls ed'.trees ed'.store :=
  GixModel.C04.write_loop_eq_recursion_depth0 hash ed fromCursor root0 hP hk

/-- Literal loop = recursion, depth 1: the cached sub-trees of the written tree have no cached
sub-trees themselves (`Depth1`). Same id, same number of `out` calls, same cache; the stores have
the same content (the loop calls `out` for the children last-to-first, the recursion
first-to-last, so as association lists they are permutations). -/
theorem write_loop_eq_recursion_depth1 (hash : List Entry → Bytes) (hh : HashOk hash) (ed : Ed)
    (fromCursor : Bool) (root0 : List Entry) (hP : aget ed.pathBuf ed.trees = some root0)
    (ht : TreeOk root0) (hd1 : Depth1 (aerase ed.pathBuf ed.trees) ed.pathBuf root0) :
    ∃ id calls ed' trees2 store2, writeAt hash ed fromCursor = .ok id calls ed' ∧
      writeAtLoop hash ed fromCursor = .done id calls trees2 store2 ∧
      ed'.trees = trees2 ∧ ∀ i, aget i ed'.store = aget i store2 :=
  GixModel.C04.write_loop_eq_recursion_depth1 hh ed fromCursor root0 hP ht hd1

/-- `write_refines` for the code's own control flow, for editors whose cache holds the root and
direct sub-directories only (every cached path has at most one component): the literal loop never
panics and returns the same id, call count and cache as `write`, and a store with the same content,
so everything `write_refines` says about the result holds for what the loop returns. -/
theorem write_loop_refines_shallow (hash : List Entry → Bytes) (hh : HashOk hash) (ed : Ed)
    (h : InvW hash ed) (hshallow : ∀ K t, aget K ed.trees = some t → K.length ≤ 1) :
    ∃ calls ed' root store2, write hash ed = .ok (hash root) calls ed' ∧
      writeAtLoop hash { ed with pathBuf := [] } false = .done (hash root) calls ed'.trees store2 ∧
      (∀ i, aget i store2 = aget i ed'.store) ∧ InvW hash ed' ∧
      aget (hash root) ed'.store = some root ∧ Canon ed'.store root ∧
      absStore ed'.store root = abs ed ∧ abs ed' = abs ed := by
  obtain ⟨calls, ed', root, w1, w2, w3, w4, w5, w6⟩ := write_refines hash hh ed h
  cases hr : aget [] ed.trees with
  | none => have := h.inv.root; rw [hr] at this; cases this
  | some root0 =>
    have hd1 : Depth1 (aerase [] ed.trees) [] root0 := by
      intro k hk e he hd
      cases hg : aget ([] ++ [k.1.name] ++ [e.name]) ed.trees with
      | none => exact aget_aerase_none hg
      | some t => have := hshallow _ t hg; simp at this
    obtain ⟨id, calls2, ed2, trees2, store2, e1, e2, e3, e4⟩ :=
      GixModel.C04.write_loop_eq_recursion_depth1 hh { ed with pathBuf := [] } false root0 hr
        (h.inv.trees [] root0 hr) hd1
    have hw : write hash ed = .ok id calls2 ed2 := e1
    rw [w1] at hw
    cases hw
    exact ⟨calls, ed', root, store2, w1, e3 ▸ e2, fun i => (e4 i).symm, w2, w3, w4, w5, w6⟩

/-- The same for `Cursor::write` (`WriteMode::FromCursor`) when the cache below the cursor is at
most one level deep: the literal loop returns the id, call count and cache of `cursorWrite` and a
store with the same content, so `cursor_write_refines` holds for what the loop returns. -/
theorem cursor_write_loop_refines_shallow (hash : List Entry → Bytes) (hh : HashOk hash) (ed : Ed)
    (h : InvW hash ed) (pfx : Path) (t : List Entry) (hP : aget pfx ed.trees = some t)
    (hshallow : ∀ K t', aget K ed.trees = some t' → pfx <+: K → K.length ≤ pfx.length + 1) :
    ∃ calls ed' root store2, cursorWrite hash ed pfx = .ok (hash root) calls ed' ∧
      writeAtLoop hash { ed with pathBuf := pfx } true = .done (hash root) calls ed'.trees store2 ∧
      (∀ i, aget i store2 = aget i ed'.store) ∧ InvW hash ed' ∧
      aget (hash root) ed'.store = some root ∧ Canon ed'.store root ∧
      (∀ q, q ≠ [] → absStore ed'.store root q = abs ed (pfx ++ q)) ∧ abs ed' = abs ed ∧
      (aget pfx ed'.trees).isSome = true := by
  obtain ⟨calls, ed', root, w1, w2, w3, w4, w5, w6, w7⟩ := cursor_write_refines hash hh ed h pfx t hP
  have hd1 : Depth1 (aerase pfx ed.trees) pfx t := by
    intro k hk e he hd
    cases hg : aget (pfx ++ [k.1.name] ++ [e.name]) ed.trees with
    | none => exact aget_aerase_none hg
    | some t' =>
      have := hshallow _ t' hg (by rw [List.append_assoc]; exact List.prefix_append _ _)
      simp at this
  obtain ⟨id, calls2, ed2, trees2, store2, e1, e2, e3, e4⟩ :=
    GixModel.C04.write_loop_eq_recursion_depth1 hh { ed with pathBuf := pfx } true t hP
      (h.inv.trees pfx t hP) hd1
  have hw : cursorWrite hash ed pfx = .ok id calls2 ed2 := e1
  rw [w1] at hw
  cases hw
  exact ⟨calls, ed', root, store2, w1, e3 ▸ e2, fun i => (e4 i).symm, w2, w3, w4, w5, w6, w7⟩

-- non-vacuity of the shallow-cache hypothesis: after `upsert a/b` the cache holds `[]` and `[a]`
-- (one level), and loop and recursion both make 2 `out` calls and return the same id
example :
    ((runHistory encHash emptyEd [.upsert [[97], [98]] 0o100644 [1]]).map (fun ed =>
      (ed.trees.map (·.1.length)).all (· ≤ 1) && ed.trees.length == 2 &&
      (match write encHash ed, writeAtLoop encHash { ed with pathBuf := [] } false with
       | .ok id c _, .done id2 c2 _ _ => id == id2 && c == c2 && c == 2
       | _, _ => false))) = some true := by decide +kernel

/-- The fresh editor satisfies the invariant and stands for the empty file system. -/
theorem empty_editor_ok (hash : List Entry → Bytes) :
    InvW hash emptyEd ∧ abs emptyEd = Spec.C04.empty := ⟨invW_empty hash, abs_empty⟩

-- non-vacuity, on the history that used to fail (DESIGN §7-d): `upsert a/b; remove a; upsert a/c`
-- is a valid history; the repaired editor ends with exactly `a/c`
example :
    let ops : List Op := [.upsert [[97], [98]] 0o100644 [1], .remove [[97]], .upsert [[97], [99]] 0o100644 [2]]
    (∀ op ∈ ops, ValidOp emptyEd.store op) ∧
    (ops.foldl (specStep emptyEd.store) Spec.C04.empty) [[97], [99]] = some (0o100644, [2]) ∧
    (ops.foldl (specStep emptyEd.store) Spec.C04.empty) [[97], [98]] = none ∧
    ((runHistory encHash emptyEd ops).map (fun ed => (abs ed [[97], [99]], abs ed [[97], [98]])))
      = some (some (0o100644, [2]), none) := by
  refine ⟨?_, by decide, by decide, by decide +kernel⟩
  intro op hop
  simp only [List.mem_cons, List.not_mem_nil, or_false] at hop
  rcases hop with rfl | rfl | rfl
  · exact ⟨by decide, Or.inl (by decide)⟩
  · exact (by decide : ValidPath [[97]])
  · exact ⟨by decide, Or.inl (by decide)⟩

-- non-vacuity of `history_refines`: a history through a cursor, with a cursor write in the middle
example :
    let ops : List OpF := [.base (.upsert [[97], [98]] 0o100644 [1]), .base (.cursorAt [[97]]),
      .cUpsert [[99]] 0o100755 [2], .cWrite, .cRemove [[98]], .base .write]
    ValidF emptyEd.store none ops ∧
    ((runF encHash ⟨emptyEd, none⟩ ops).map (fun r => (abs r.ed [[97], [99]], abs r.ed [[97], [98]])))
      = some (some (0o100755, [2]), none) := by
  refine ⟨?_, by decide +kernel⟩
  simp only [ValidF]
  refine ⟨⟨by decide, Or.inl (by decide)⟩, by decide, ⟨rfl, by decide, Or.inl (by decide), ?_⟩⟩
  exact ⟨rfl, ⟨rfl, by decide, ⟨trivial, trivial⟩⟩⟩

end GixModel.Props.C04
