import GixModel.Lemmas.C32
/-
C32 — Refspec matching agrees with git, and never panics.  PROPERTY THEOREMS ONLY.

Left-hand side: the executable model of gitoxide's matcher (`Model/C32.lean`, tied to /repo by the
correspondence harness). Right-hand side: the transcription of git's C code (`Spec/C32.lean`).

What is proved for ALL byte strings / spec lists / item lists:
  * the glob matcher and its substitution are git's `match_name_with_pattern` (`glob_eq_git`,
    `replace_eq_git`) — this is where the §7-k defect was (fixed in /repo, de532dfd6);
  * partial names match exactly the names git's `refname_match` scores > 0 (`partial_name_eq_git`);
  * non-pattern destinations are git's `get_local_ref` (`dst_eq_git`, after fix 92c80ac20);
  * negative full-name specs are git's `refspec_match` (`negative_eq_git`);
  * one glob spec against distinct remote refs yields git's `get_expanded_map` pairs, in order
    (`glob_spec_mappings_eq_git`);
  * `parse` only produces balanced specs (`parse_balanced`), and on balanced specs — hence on
    everything `parse` accepts — `match_remotes` never panics (`match_total`, `match_total_parsed`).
The mapping-level statement `C32_full` (whole spec lists, as sets of (source, destination, force))
is FALSE of today's code: `C32_full_false`, with seven independent witnesses `differs_*`, each
replayed against the real code and the real git binary by the harness (known findings).
-/
namespace GixModel.Props.C32
open GixModel GixModel.C32

/-- gitoxide's glob needle matches a name iff git's `match_name_with_pattern(key, name, NULL, NULL)`
does — for every pattern with a `*` and every name (no length bound, any bytes). -/
theorem glob_eq_git (key : Bytes) (pos : Nat) (hk : findStar key = some pos) (item : Item) :
    ((needleOf key).matches item).isMatch =
      (match Spec.C32.matchNameWithPattern key item.name none with
       | .matched _ => true
       | _ => false) := by
  rw [git_pattern key item.name none pos hk, needleOf_glob hk, glob_matches]
  split <;> simp [Match.isMatch]

-- non-vacuity: a pattern whose prefix and suffix overlap in the name (the former panic input)
example : findStar [114, 101, 102, 115, 47, 104, 101, 97, 100, 115, 47, 97, 42, 97] = some 12 := by decide
example : ((needleOf [114, 101, 102, 115, 47, 104, 101, 97, 100, 115, 47, 97, 42, 97]).matches ⟨[114, 101, 102, 115, 47, 104, 101, 97, 100, 115, 47, 97], [], none⟩).isMatch = false := by
  decide +kernel
example : ((needleOf [114, 101, 102, 115, 47, 104, 101, 97, 100, 115, 47, 97, 42, 97]).matches ⟨[114, 101, 102, 115, 47, 104, 101, 97, 100, 115, 47, 97, 98, 97], [], none⟩).isMatch = true := by
  decide +kernel

/-- Matching a glob spec `key:value` against an item gives exactly git's verdict and git's expanded
destination `value[..*] ++ name[klen .. namelen - ksuffixlen] ++ value[*+1..]`, and never panics. -/
theorem replace_eq_git (key value : Bytes) (kp vp : Nat) (hk : findStar key = some kp)
    (hv : findStar value = some vp) (item : Item) :
    (Matcher.mk (some (needleOf key)) (some (needleOf value))).matchesLhs item =
      some (match Spec.C32.matchNameWithPattern key item.name (some value) with
            | .matched r => (true, r)
            | _ => (false, none)) :=
  glob_matchesLhs key value kp vp hk hv item

example : (Matcher.mk (some (needleOf [114, 101, 102, 115, 47, 104, 101, 97, 100, 115, 47, 97, 42, 97])) (some (needleOf [114, 101, 102, 115, 47, 120, 47, 42, 121]))).matchesLhs
    ⟨[114, 101, 102, 115, 47, 104, 101, 97, 100, 115, 47, 97, 98, 99, 97], [], none⟩ = some (true, some [114, 101, 102, 115, 47, 120, 47, 98, 99, 121]) := by decide +kernel

/-- A partial name (no `*`, not `refs/…`, not an object id) matches an item iff git's
`refname_match(abbrev, full)` is positive, i.e. iff the name is one of the six `ref_rev_parse_rules`
expansions. (git then keeps only the best-scoring ref; see `differs_ambiguous_partial`.) -/
theorem partial_name_eq_git (s : Bytes) (item : Item) :
    ((Needle.part s).matches item).isMatch = decide (0 < Spec.C32.refnameMatch s item.name) :=
  partial_matches s item

/-- The predicate a negative spec `^refs/…` applies to a mapped source name is git's
`refspec_match` (`!strcmp(refspec->src, name)`), and evaluating it cannot panic. -/
theorem negative_eq_git (mode : Mode) (s n : Bytes) (hs : findStar s = none) (hr : startsWith s bRefs = true) :
    (matcherOf ⟨mode, some s, none⟩).matchesLhs ⟨n, nullId, none⟩ =
      some (Spec.C32.refspecMatch ⟨true, false, false, false, s, none⟩ n, none) :=
  negative_full mode s n hs hr

/-- A non-pattern destination is completed like git's `get_local_ref` (`refs/…` kept, `heads/`,
`tags/`, `remotes/` get `refs/`, everything else `refs/heads/`) — for every byte string except 40
hex digits containing upper case (`differs_uppercase_hex_destination`). -/
theorem dst_eq_git (d : Bytes) (hd : findStar d = none) (hcase : isHex40 d = true → d.map lowerHexByte = d) :
    (needleOf d).toBstr = some (Spec.C32.getLocalRef d) :=
  GixModel.C32.dst_eq_git d hd hcase

example : (needleOf [104, 101, 97, 100, 115, 47, 120]).toBstr = some [114, 101, 102, 115, 47, 104, 101, 97, 100, 115, 47, 120] := by decide +kernel

/-- Every spec `parse(…, Fetch)` accepts has a `*` on both sides or on neither, whatever
`gix_validate::reference::name_partial` (the parameter `valid`) answers. -/
theorem parse_balanced (valid : Bytes → Bool) (s : Bytes) (spec : RefSpec)
    (h : parseFetch valid s = .ok spec) : Balanced spec :=
  parseFetch_balanced h

/-- `match_remotes` never panics on balanced specs: no slice `a..b` with `a > b` (§7-k), no
`unreachable!` in `to_bstr_replace` — for any number of specs and items, any bytes. -/
theorem match_total (specs : List RefSpec) (items : List Item) (h : ∀ s ∈ specs, Balanced s) :
    (matchRemotes specs items).isSome :=
  matchRemotes_total specs items h

/-- … hence on every list of refspecs the parser accepts. -/
theorem match_total_parsed (specs : List RefSpec) (items : List Item)
    (h : ∀ s ∈ specs, ∃ valid str, parseFetch valid str = .ok s) :
    (matchRemotes specs items).isSome :=
  matchRemotes_total specs items (fun s hs => by
    obtain ⟨valid, str, hp⟩ := h s hs
    exact parseFetch_balanced hp)

-- non-vacuity: the former panic input is a parsed spec list, and matching it now succeeds
example : parseFetch (fun _ => true) [114, 101, 102, 115, 47, 104, 101, 97, 100, 115, 47, 97, 42, 97, 58, 114, 101, 102, 115, 47, 120, 47, 97, 42, 97] =
    .ok ⟨.normal, some [114, 101, 102, 115, 47, 104, 101, 97, 100, 115, 47, 97, 42, 97], some [114, 101, 102, 115, 47, 120, 47, 97, 42, 97]⟩ := by rfl
example : matchRemotes [⟨.normal, some [114, 101, 102, 115, 47, 104, 101, 97, 100, 115, 47, 97, 42, 97], some [114, 101, 102, 115, 47, 120, 47, 97, 42, 97]⟩]
    [⟨[114, 101, 102, 115, 47, 104, 101, 97, 100, 115, 47, 97], [], none⟩, ⟨[114, 101, 102, 115, 47, 104, 101, 97, 100, 115, 47, 97, 97], [], none⟩] =
    some [⟨some 1, .name [114, 101, 102, 115, 47, 104, 101, 97, 100, 115, 47, 97, 97], some [114, 101, 102, 115, 47, 120, 47, 97, 97], 0⟩] := by decide +kernel

/-- Mapping level, for the everyday shape of a fetch refspec: ONE glob spec `[+]key:value` matched
against any list of remote refs with pairwise distinct names (none containing `^`). `match_remotes`
does not panic and produces, in the same order, exactly the (source, destination) pairs of git's
`get_expanded_map` — before git's "funny ref" filter and gitoxide's `validated()`, whose difference
is `differs_invalid_destination` / `differs_head_destination`. -/
theorem glob_spec_mappings_eq_git (mode : Mode) (k v : Bytes) (kp vp : Nat) (hk : findStar k = some kp)
    (hv : findStar v = some vp) (hm : mode ≠ .negative) (items : List Item)
    (hd : (items.map (·.name)).Nodup) (hc : ∀ it ∈ items, it.name.contains 94 = false) :
    ∃ ms gm, matchRemotes [⟨mode, some k, some v⟩] items = some ms ∧
      Spec.C32.getExpandedMap (items.map (·.name)) (gitItemOf ⟨mode, some k, some v⟩) = .ok gm ∧
      gm.map gitPairOf = ms.map pairOf := by
  obtain ⟨gm, hg, he⟩ := expandedMap_eq_globMaps k v kp vp hk hv (mode == .negative) (mode == .force)
    (findStar k).isSome (isHex40 k) 0 items 0 hc
  exact ⟨_, gm, matchRemotes_single_glob mode k v kp vp hk hv hm items hd, by simpa [gitItemOf] using hg, he⟩

example : matchRemotes [⟨.force, some [114, 101, 102, 115, 47, 104, 101, 97, 100, 115, 47, 42], some [114, 101, 102, 115, 47, 114, 101, 109, 111, 116, 101, 115, 47, 111, 47, 42]⟩]
    [⟨[72, 69, 65, 68], [], none⟩, ⟨[114, 101, 102, 115, 47, 104, 101, 97, 100, 115, 47, 97], [], none⟩, ⟨[114, 101, 102, 115, 47, 116, 97, 103, 115, 47, 118, 49], [], none⟩] =
    some [⟨some 1, .name [114, 101, 102, 115, 47, 104, 101, 97, 100, 115, 47, 97], some [114, 101, 102, 115, 47, 114, 101, 109, 111, 116, 101, 115, 47, 111, 47, 97], 0⟩] := by decide +kernel

/-- The property at full strength: for every list of refspecs the parser accepts and every list of
remote refs, matching does not panic and the validated mappings are, as a set of
(source, destination, force), the ones git's `get_ref_map` computes (`validRef` = git's
`check_refname_format`). FALSE today — see below. -/
def C32_full : Prop :=
  ∀ (validRef : Bytes → Bool) (specs : List RefSpec) (items : List Item),
    (∀ s ∈ specs, ∃ valid str, parseFetch valid str = .ok s) → AgreesOn validRef specs items

/-- A partial name matching two refs: git takes the best rev-parse rule (the tag), gitoxide maps both and then reports a conflict.
`main:refs/x/m` against `refs/heads/main refs/tags/main`. Replayed against the real code and the real git by the
harness corpus (known finding). -/
theorem differs_ambiguous_partial :
    ¬ AgreesOn (fun _ => true)
      [⟨.normal, some [109, 97, 105, 110], some [114, 101, 102, 115, 47, 120, 47, 109]⟩]
      [⟨[114, 101, 102, 115, 47, 104, 101, 97, 100, 115, 47, 109, 97, 105, 110], [], none⟩, ⟨[114, 101, 102, 115, 47, 116, 97, 103, 115, 47, 109, 97, 105, 110], [], none⟩] := by
  decide +kernel

example : parseFetch (fun _ => true) [109, 97, 105, 110, 58, 114, 101, 102, 115, 47, 120, 47, 109] = .ok ⟨.normal, some [109, 97, 105, 110], some [114, 101, 102, 115, 47, 120, 47, 109]⟩ := by rfl

/-- `^HEAD` is compared literally by git; gitoxide expands it like a partial name and also drops `refs/heads/HEAD`.
`refs/heads/*:refs/x/* ^HEAD` against `refs/heads/HEAD refs/heads/a`. Replayed against the real code and the real git by the
harness corpus (known finding). -/
theorem differs_negative_head :
    ¬ AgreesOn (fun _ => true)
      [⟨.normal, some [114, 101, 102, 115, 47, 104, 101, 97, 100, 115, 47, 42], some [114, 101, 102, 115, 47, 120, 47, 42]⟩, ⟨.negative, some [72, 69, 65, 68], none⟩]
      [⟨[114, 101, 102, 115, 47, 104, 101, 97, 100, 115, 47, 72, 69, 65, 68], [], none⟩, ⟨[114, 101, 102, 115, 47, 104, 101, 97, 100, 115, 47, 97], [], none⟩] := by
  decide +kernel

example : parseFetch (fun _ => true) [114, 101, 102, 115, 47, 104, 101, 97, 100, 115, 47, 42, 58, 114, 101, 102, 115, 47, 120, 47, 42] = .ok ⟨.normal, some [114, 101, 102, 115, 47, 104, 101, 97, 100, 115, 47, 42], some [114, 101, 102, 115, 47, 120, 47, 42]⟩ := by rfl

example : parseFetch (fun _ => true) [94, 72, 69, 65, 68] = .ok ⟨.negative, some [72, 69, 65, 68], none⟩ := by rfl

/-- git runs every non-pattern source through the rev-parse rules, even one starting with `refs/`; gitoxide compares it literally.
`refs/heads/a:refs/x/q` against `refs/heads/refs/heads/a`. Replayed against the real code and the real git by the
harness corpus (known finding). -/
theorem differs_full_name_abbrev :
    ¬ AgreesOn (fun _ => true)
      [⟨.normal, some [114, 101, 102, 115, 47, 104, 101, 97, 100, 115, 47, 97], some [114, 101, 102, 115, 47, 120, 47, 113]⟩]
      [⟨[114, 101, 102, 115, 47, 104, 101, 97, 100, 115, 47, 114, 101, 102, 115, 47, 104, 101, 97, 100, 115, 47, 97], [], none⟩] := by
  decide +kernel

example : parseFetch (fun _ => true) [114, 101, 102, 115, 47, 104, 101, 97, 100, 115, 47, 97, 58, 114, 101, 102, 115, 47, 120, 47, 113] = .ok ⟨.normal, some [114, 101, 102, 115, 47, 104, 101, 97, 100, 115, 47, 97], some [114, 101, 102, 115, 47, 120, 47, 113]⟩ := by rfl

/-- A glob producing the destination `HEAD`: git ignores the "funny ref", gitoxide keeps the mapping.
`*:*` against `HEAD refs/heads/a`. Replayed against the real code and the real git by the
harness corpus (known finding). -/
theorem differs_head_destination :
    ¬ AgreesOn (fun _ => true)
      [⟨.normal, some [42], some [42]⟩]
      [⟨[72, 69, 65, 68], [], none⟩, ⟨[114, 101, 102, 115, 47, 104, 101, 97, 100, 115, 47, 97], [], none⟩] := by
  decide +kernel

example : parseFetch (fun _ => true) [42, 58, 42] = .ok ⟨.normal, some [42], some [42]⟩ := by rfl

/-- A glob producing an invalid destination (`refs/x/`): git ignores the "funny ref", gitoxide keeps the mapping.
`refs/heads/ab*ab:refs/x/*` against `refs/heads/abab`. Replayed against the real code and the real git by the
harness corpus (known finding). -/
theorem differs_invalid_destination :
    ¬ AgreesOn (fun d => d != [114, 101, 102, 115, 47, 120, 47])
      [⟨.normal, some [114, 101, 102, 115, 47, 104, 101, 97, 100, 115, 47, 97, 98, 42, 97, 98], some [114, 101, 102, 115, 47, 120, 47, 42]⟩]
      [⟨[114, 101, 102, 115, 47, 104, 101, 97, 100, 115, 47, 97, 98, 97, 98], [], none⟩] := by
  decide +kernel

example : parseFetch (fun _ => true) [114, 101, 102, 115, 47, 104, 101, 97, 100, 115, 47, 97, 98, 42, 97, 98, 58, 114, 101, 102, 115, 47, 120, 47, 42] = .ok ⟨.normal, some [114, 101, 102, 115, 47, 104, 101, 97, 100, 115, 47, 97, 98, 42, 97, 98], some [114, 101, 102, 115, 47, 120, 47, 42]⟩ := by rfl

/-- Two sources for a destination outside `refs/`: git drops both before looking for conflicts, gitoxide reports a conflict.
`refs/heads/*:x/* refs/tags/*:x/*` against `refs/heads/a refs/tags/a`. Replayed against the real code and the real git by the
harness corpus (known finding). -/
theorem differs_conflict_on_dropped :
    ¬ AgreesOn (fun _ => true)
      [⟨.normal, some [114, 101, 102, 115, 47, 104, 101, 97, 100, 115, 47, 42], some [120, 47, 42]⟩, ⟨.normal, some [114, 101, 102, 115, 47, 116, 97, 103, 115, 47, 42], some [120, 47, 42]⟩]
      [⟨[114, 101, 102, 115, 47, 104, 101, 97, 100, 115, 47, 97], [], none⟩, ⟨[114, 101, 102, 115, 47, 116, 97, 103, 115, 47, 97], [], none⟩] := by
  decide +kernel

example : parseFetch (fun _ => true) [114, 101, 102, 115, 47, 104, 101, 97, 100, 115, 47, 42, 58, 120, 47, 42] = .ok ⟨.normal, some [114, 101, 102, 115, 47, 104, 101, 97, 100, 115, 47, 42], some [120, 47, 42]⟩ := by rfl

example : parseFetch (fun _ => true) [114, 101, 102, 115, 47, 116, 97, 103, 115, 47, 42, 58, 120, 47, 42] = .ok ⟨.normal, some [114, 101, 102, 115, 47, 116, 97, 103, 115, 47, 42], some [120, 47, 42]⟩ := by rfl

/-- A destination of 40 upper-case hex digits: git keeps the case, gitoxide lower-cases it.
`refs/heads/a:AAAAAAAAAAAAAAAAAAAAAAAAAAAAAAAAAAAAAAAA` against `refs/heads/a`. Replayed against the real code and the real git by the
harness corpus (known finding). -/
theorem differs_uppercase_hex_destination :
    ¬ AgreesOn (fun _ => true)
      [⟨.normal, some [114, 101, 102, 115, 47, 104, 101, 97, 100, 115, 47, 97], some [65, 65, 65, 65, 65, 65, 65, 65, 65, 65, 65, 65, 65, 65, 65, 65, 65, 65, 65, 65, 65, 65, 65, 65, 65, 65, 65, 65, 65, 65, 65, 65, 65, 65, 65, 65, 65, 65, 65, 65]⟩]
      [⟨[114, 101, 102, 115, 47, 104, 101, 97, 100, 115, 47, 97], [], none⟩] := by
  decide +kernel

example : parseFetch (fun _ => true) [114, 101, 102, 115, 47, 104, 101, 97, 100, 115, 47, 97, 58, 65, 65, 65, 65, 65, 65, 65, 65, 65, 65, 65, 65, 65, 65, 65, 65, 65, 65, 65, 65, 65, 65, 65, 65, 65, 65, 65, 65, 65, 65, 65, 65, 65, 65, 65, 65, 65, 65, 65, 65] = .ok ⟨.normal, some [114, 101, 102, 115, 47, 104, 101, 97, 100, 115, 47, 97], some [65, 65, 65, 65, 65, 65, 65, 65, 65, 65, 65, 65, 65, 65, 65, 65, 65, 65, 65, 65, 65, 65, 65, 65, 65, 65, 65, 65, 65, 65, 65, 65, 65, 65, 65, 65, 65, 65, 65, 65]⟩ := by rfl

/-- The full statement is false of today's code (first witness; six more above/below). -/
theorem C32_full_false : ¬ C32_full := by
  intro h
  exact differs_ambiguous_partial (h (fun _ => true) _ _ (by
    intro s hs
    simp only [List.mem_singleton] at hs
    subst hs
    exact ⟨fun _ => true, [109, 97, 105, 110, 58, 114, 101, 102, 115, 47, 120, 47, 109], by rfl⟩))

-- non-vacuity of `AgreesOn`: the everyday configuration agrees
example : AgreesOn (fun _ => true)
    [⟨.force, some [114, 101, 102, 115, 47, 104, 101, 97, 100, 115, 47, 42], some [114, 101, 102, 115, 47, 114, 101, 109, 111, 116, 101, 115, 47, 111, 114, 105, 103, 105, 110, 47, 42]⟩, ⟨.negative, some [114, 101, 102, 115, 47, 104, 101, 97, 100, 115, 47, 98], none⟩]
    [⟨[72, 69, 65, 68], [], none⟩, ⟨[114, 101, 102, 115, 47, 104, 101, 97, 100, 115, 47, 97], [], none⟩, ⟨[114, 101, 102, 115, 47, 104, 101, 97, 100, 115, 47, 98], [], none⟩, ⟨[114, 101, 102, 115, 47, 116, 97, 103, 115, 47, 118, 49], [], none⟩] := by
  decide +kernel

end GixModel.Props.C32
