import GixModel.Lemmas.C41Rep
/-
C41 — Checkout stays inside the worktree and reproduces the index.  PROPERTY THEOREMS ONLY.

`checkout c fs sched entries t2` (Model/C41.lean) is the repaired code of /repo: phase 1 hands every
index entry that is not a symlink to a worker (`sched` = ANY assignment of entries to worker stacks in
ANY global order — single-threaded is the special case "all to worker 0 in index order"), phase 2
writes the symlinks with the stack of worker `t2`.  `c.follow` is what the kernel does once a path
goes through a symbolic link — an arbitrary function, so the theorems hold for every file system
semantics there (in particular POSIX resolution, `posixFollow`); `c.valid` is the component
validation (an arbitrary predicate; `validDrv` = the model of gix_validate::path::component of C40).
The statements are for EVERY index (any bytes as paths: `..`, absolute, empty components, `.git`,
duplicates, directory/file conflicts), every symlink target, every pre-existing file system, both
option flags.
-/
namespace GixModel.Props.C41
open GixModel GixModel.C41

/-- `leading_components_are_dirs` — the invariant behind containment, at the end of every run (and,
a prefix of a run being a run, at every moment between two entries): the destination's own path
contains no symbolic link, and every component of the path stack that the next entry would descend
through without looking at it again — all of them, except the last one when it was just written as
file or symlink — was accepted by the validation and is not a symbolic link: it is the directory the
stack created or found there (or, if another worker replaced it meanwhile, a file or nothing, which
path resolution cannot pass through). -/
theorem leading_components_are_dirs (c : Cfg) (fs : FS) (sched : List (Nat × Entry)) (entries : List Entry)
    (t2 : Nat) (hd : DestOk c fs) :
    DestOk c (checkout c fs sched entries t2).fs ∧
    Inv c ((checkout c fs sched entries t2).stacks t2) (checkout c fs sched entries t2).fs :=
  (checkout_spec c fs sched entries t2 hd).2

/-- … and during phase 1 for the stacks of ALL workers at once. -/
theorem leading_components_are_dirs_all_workers (c : Cfg) (fs : FS) (sched : List (Nat × Entry))
    (hd : DestOk c fs) (t : Nat) :
    Inv c ((phase1 c (World.init fs) sched).stacks t) (phase1 c (World.init fs) sched).fs :=
  ((phase1_spec c sched (World.init fs) ⟨hd, fun _ => inv_new c fs⟩).1).2 t

/-- Everything a checkout creates, changes or removes lies strictly below the destination, under a
first component that the validation accepted. -/
theorem touches_only_validated_names (c : Cfg) (fs : FS) (sched : List (Nat × Entry)) (entries : List Entry)
    (t2 : Nat) (hd : DestOk c fs) (q : Path)
    (hq : ¬ ∃ n rest, q = c.dest ++ n :: rest ∧ (c.valid n false = true ∨ c.valid n true = true)) :
    (checkout c fs sched entries t2).fs q = fs q :=
  (checkout_spec c fs sched entries t2 hd).1 q hq

/-- `containment`, part 1 — nothing outside the destination directory (and not the destination
directory itself) is created, modified or removed: for every index, every symlink target, every
pre-existing content, overwrite on or off, any number of workers. -/
theorem containment (c : Cfg) (fs : FS) (sched : List (Nat × Entry)) (entries : List Entry) (t2 : Nat)
    (hd : DestOk c fs) (q : Path) (hq : ¬ ∃ n rest, q = c.dest ++ n :: rest) :
    (checkout c fs sched entries t2).fs q = fs q :=
  touches_only_validated_names c fs sched entries t2 hd q (fun ⟨n, rest, h, _⟩ => hq ⟨n, rest, h⟩)

/-- `containment`, part 2 — nothing at or below `dest/.git` changes, for any validation that refuses
the name `.git`. -/
theorem git_dir_untouched (c : Cfg) (fs : FS) (sched : List (Nat × Entry)) (entries : List Entry) (t2 : Nat)
    (hd : DestOk c fs) (hgit : ∀ m, c.valid dotGit m = false) (q : Path) (hq : ∃ rest, q = c.dest ++ dotGit :: rest) :
    (checkout c fs sched entries t2).fs q = fs q := by
  apply touches_only_validated_names c fs sched entries t2 hd q
  rintro ⟨n, rest, h, hok⟩
  obtain ⟨rest', h'⟩ := hq
  rw [h'] at h
  have := List.append_cancel_left h
  simp only [List.cons.injEq] at this
  rw [← this.1, hgit false, hgit true] at hok
  simp at hok

/-- the validation of /repo (C40's model of gix_validate::path::component, tables extracted on this
run, all protections on as in the default options) refuses `.git` -/
theorem validation_refuses_dot_git : ∀ m, validDrv dotGit m = false := by decide +kernel

/-- Both parts for the code as it is configured by default, under POSIX path resolution. -/
theorem containment_default (dest : Path) (opts : Opts) (fs : FS) (sched : List (Nat × Entry))
    (entries : List Entry) (t2 : Nat) (hd : DestOk ⟨posixFollow, validDrv, dest, opts⟩ fs) (q : Path)
    (hq : (¬ ∃ n rest, q = dest ++ n :: rest) ∨ ∃ rest, q = dest ++ dotGit :: rest) :
    (checkout ⟨posixFollow, validDrv, dest, opts⟩ fs sched entries t2).fs q = fs q := by
  rcases hq with h | h
  · exact containment ⟨posixFollow, validDrv, dest, opts⟩ fs sched entries t2 hd q h
  · exact git_dir_untouched ⟨posixFollow, validDrv, dest, opts⟩ fs sched entries t2 hd validation_refuses_dot_git q h

-- non-vacuity: the harness' world satisfies `DestOk`; a hostile index (a symlink `a` pointing out of
-- the destination and an entry `a/b` below it) leaves the canary alone and is refused as a collision
example : DestOk ⟨posixFollow, validDrv, destDrv, ⟨false, true⟩⟩ (baseFS []) := by
  intro k h0 hk
  have : k = 1 ∨ k = 2 := by simp [destDrv] at hk; omega
  rcases this with rfl | rfl <;> decide

example :
    let w := checkout ⟨posixFollow, validDrv, destDrv, ⟨false, true⟩⟩ (baseFS [])
      [(0, ⟨[97], .link, [46, 46, 47, 46, 46, 47, 111, 117, 116]⟩), (0, ⟨[97, 47, 98], .link, [120]⟩)]
      [⟨[97], .link, [46, 46, 47, 46, 46, 47, 111, 117, 116]⟩, ⟨[97, 47, 98], .link, [120]⟩] 0
    w.fs [[111, 117, 116], [98]] = none ∧ w.fs (destDrv ++ [[97]]) = some (.link [46, 46, 47, 46, 46, 47, 111, 117, 116]) ∧
    w.log = [([97, 47, 98], .collision), ([97], .written)] := by decide +kernel

/-- `reproduces_index` — for an index as git makes them (every entry a file, executable or symlink
at a relative path of normal components that the validation accepts; no path twice and none a
leading directory of another: `Indep`), checked out into a destination where those paths are free
(their leading directories missing or already directories; anything else may be there), by ANY
schedule that hands every entry to some worker (any order, any number of workers), with either
option flag: every entry ends up exactly as the index says — a file with the blob's bytes and the
right executable bit, or a symlink with the blob as target —, every outcome is `written` (no
collision, no error), and nothing else changes except for the leading directories. -/
theorem reproduces_index (c : Cfg) (fs : FS) (nm : Entry → List Name) (sched : List (Nat × Entry))
    (es : List Entry) (t2 : Nat) (hperm : (sched.map (·.2)).Perm es)
    (hplain : ∀ e ∈ es, PlainEntry c e (nm e))
    (hconf : es.Pairwise (fun a b => Indep (nm a) (nm b)))
    (hdest : ∀ k, 0 < k → k ≤ c.dest.length → fs (c.dest.take k) = some .dir)
    (hfree : ∀ e ∈ es, fs (c.dest ++ nm e) = none)
    (hdirs : ∀ e ∈ es, ∀ j, 0 < j → j < (nm e).length → NoneOrDir fs (c.dest ++ (nm e).take j)) :
    (∀ e ∈ es, (checkout c fs sched es t2).fs (c.dest ++ nm e) = some (nodeOf e)) ∧
    (∀ x ∈ (checkout c fs sched es t2).log, x.2 = Outcome.written) ∧
    (∀ q, (∀ e ∈ es, ∀ j, 0 < j → j ≤ (nm e).length → q ≠ c.dest ++ (nm e).take j) →
      (checkout c fs sched es t2).fs q = fs q) :=
  checkout_reproduces c fs nm sched es t2 hperm hplain hconf hdest hfree hdirs

/-- the single-threaded run in index order is one of these schedules -/
theorem reproduces_index_single_threaded (c : Cfg) (fs : FS) (nm : Entry → List Name) (es : List Entry)
    (hplain : ∀ e ∈ es, PlainEntry c e (nm e))
    (hconf : es.Pairwise (fun a b => Indep (nm a) (nm b)))
    (hdest : ∀ k, 0 < k → k ≤ c.dest.length → fs (c.dest.take k) = some .dir)
    (hfree : ∀ e ∈ es, fs (c.dest ++ nm e) = none)
    (hdirs : ∀ e ∈ es, ∀ j, 0 < j → j < (nm e).length → NoneOrDir fs (c.dest ++ (nm e).take j)) :
    ∀ e ∈ es, (checkout c fs (es.map (fun e => (0, e))) es 0).fs (c.dest ++ nm e) = some (nodeOf e) :=
  (reproduces_index c fs nm (es.map (fun e => (0, e))) es 0 (by simp [Function.comp_def]) hplain hconf hdest hfree hdirs).1

-- non-vacuity: `d/f` (file), `d/x` (executable) and `l` (symlink to ../../out) into the harness' world
-- with a pre-existing, unrelated symlink
example :
    let es : List Entry := [⟨[100, 47, 102], .file, [49]⟩, ⟨[100, 47, 120], .exec, [50]⟩, ⟨[108], .link, [46, 46, 47, 46, 46, 47, 111, 117, 116]⟩]
    let w := checkout ⟨posixFollow, validDrv, destDrv, ⟨false, false⟩⟩ (baseFS [([[112]], .link [47, 111, 117, 116])]) (es.map (fun e => (0, e))) es 0
    w.fs (destDrv ++ [[100], [102]]) = some (.file [49] false) ∧ w.fs (destDrv ++ [[100], [120]]) = some (.file [50] true) ∧
    w.fs (destDrv ++ [[108]]) = some (.link [46, 46, 47, 46, 46, 47, 111, 117, 116]) ∧ w.fs (destDrv ++ [[100]]) = some .dir ∧
    w.fs (destDrv ++ [[112]]) = some (.link [47, 111, 117, 116]) ∧ w.fs [[111, 117, 116], [102]] = some (.file [99] false) := by
  decide +kernel

example : PlainEntry ⟨posixFollow, validDrv, destDrv, ⟨false, false⟩⟩ ⟨[100, 47, 120], .exec, [50]⟩ [[100], [120]] :=
  ⟨by decide +kernel, by simp, by decide, by decide +kernel, rfl, by simp⟩

example : Indep [[100], [102]] [[100], [120]] ∧ Indep [[100], [120]] [[108]] := by
  refine ⟨⟨?_, ?_⟩, ⟨?_, ?_⟩⟩ <;> (rw [← List.isPrefixOf_iff_prefix]; decide)

end GixModel.Props.C41
