import GixModel.Lemmas.C48Top
import GixModel.Lemmas.C48Resolve
import GixModel.Lemmas.C48ResolvePrint
/-
C48 — Revision specs resolve like git rev-parse.  PROPERTY THEOREMS ONLY.

PARTIAL BY DESIGN (DESIGN.md §6 C48, §10): the theorems below are about the spec TOKENIZER
(`gix_revision::spec::parse`, the function that turns a rev-spec into delegate calls) and about the
arithmetic of navigation on an abstract object graph. How gitoxide's delegate resolves those calls
in a repository (ref lookup rules, abbreviated-id disambiguation, reflogs, regex search, index
lookups, `git describe` names) and whether that equals `git rev-parse` is NOT proved: it is
`C48_full` below and is checked by the `git rev-parse` oracle of the harness only.

* `tokenize_total`   — for EVERY byte string, every delegate (any pattern of refusals) and every
                        date parser, the tokenizer returns `Ok` or an `Err`: no panic site of the
                        Rust code is reachable and the scanning loops terminate.
* `tokenize_print`   — for every well-formed syntax tree of the supported gitrevisions(7) forms
                        (refs, abbreviated ids, describe output, `@`, `@{n}`, `@{-n}`, `@{u}`,
                        `@{push}`, `@{date}`, `~n`, `^n`, `^0`, `^{type}`, `^{}`, `^{/re}`, `:path`,
                        `:/re`, `:n:path`, `^r`, `a..b`, `a...b`, `r^@`, `r^!`, `r^-n`), tokenizing its
                        printed form makes exactly the resolution calls the tree means, in order,
                        and ends with `done` / `Ok`.
* navigation laws     — `x~a~b = x~(a+b)`, `x^1 = x~1`, `^{kind}` and `^{}` are idempotent.

ROUND 2 (namespace `GixModel.Props.C48.Resolve`, end of this file): the RESOLUTION layer. The gix
delegate (`gix/src/revision/spec/parse/delegate`) is modelled over an abstract repository
(`Model/C48R.lean`: references probed by git's DWIM rules = C18's `candidates`, object store with
kinds/parents/tag targets, prefix lookup returning the candidate list, reflogs, prior checkouts,
tracking branches, tree/index lookups; commit-message search opaque), and gitrevisions(7) is
transcribed as a denotational semantics `Spec.C48D.denote` (`Spec/C48Denote.lean`).

* `resolve_eq_spec`  — for EVERY repository and every well-formed syntax tree outside the recorded
                        deviation classes (`astClean`: abbreviated ids name exactly one object, a
                        describe name's hex part is not also a reference, no `@{date}`, the sides
                        of ranges / `^@` / `^!` are commit-ish), interpreting the calls the tree
                        means with the delegate model gives exactly the object / range / error the
                        semantics says. Together with `tokenize_print` (the tokenizer issues
                        exactly `ast.calls` when no call is refused) this covers parsing AND
                        resolution; what is still oracle-only is listed in props/C48.json.
* `resolve_print_eq_spec` — bytes to object: if the semantics gives the (clean, well-formed) spec a
                        value, then running the TOKENIZER model on the printed spec with the
                        delegate model in the loop (`resolve`, what the driver evaluates to predict
                        `Repository::rev_parse` from exported repository facts) returns that value.
* `resolve_no_panic` — on that domain the delegate never reaches its `unreachable!`/`expect` sites.
* `range_needs_commitish` — the class hypothesis is not decoration: without it the equation fails
                        (gitoxide answers `tree..commit`, git refuses) — a recorded finding.
-/
namespace GixModel.Props.C48
open GixModel GixModel.C48 GixModel.Spec.C48

/-! ### the full statement (not proved; oracle only) -/

/-- The two resolvers the property compares, as functions of a repository and a spec. In the
harness `gix` is `gix::Repository::rev_parse` and `git` is the `git rev-parse` binary. -/
structure Resolvers (Repository Outcome : Type) where
  gix : Repository → Bytes → Outcome
  git : Repository → Bytes → Outcome

/-- C48 in full: on every repository, every spec of the grammar resolves to the same object,
range or error outcome under both resolvers. NOT PROVED — neither resolver is modelled; the
harness compares them on random repositories. -/
def C48_full {Repository Outcome : Type} (R : Resolvers Repository Outcome) (dateOk : Bytes → Bool) : Prop :=
  ∀ (repo : Repository) (ast : Ast), ast.Wf dateOk → R.gix repo ast.print = R.git repo ast.print

/-! ### the tokenizer never panics -/

/-- No input, no delegate behaviour and no date parser makes the tokenizer panic or loop:
every run ends in `Ok` or `Err`. -/
theorem tokenize_total (D : Delegate) (dateOk : Bytes → Bool) (input : Bytes) :
    (∀ site, (tokenize D dateOk input).out ≠ .panic site) ∧ (tokenize D dateOk input).out ≠ .fuel :=
  tokenize_safe D dateOk input

/-! ### the tokenizer recognises the grammar -/

/-- Every well-formed spec, printed, is tokenized into exactly the calls it means. -/
theorem tokenize_print (dateOk : Bytes → Bool) (ast : Ast) (hwf : ast.Wf dateOk) :
    tokenize allYes dateOk ast.print = ⟨ast.calls, .ok⟩ := by
  cases ast with
  | single r => exact single_print dateOk r hwf
  | exclude r => exact exclude_print dateOk r hwf
  | range a b =>
    obtain ⟨ha, hopen, hb, hdot⟩ := hwf
    have := range_print dateOk .rangeBetween a b (46 :: 46 :: optRev b) (optRev b) rfl
      (tryRange_two _ hdot) ha hopen hb
    simpa [Ast.print, Ast.calls] using this
  | merge a b =>
    obtain ⟨ha, hopen, hb⟩ := hwf
    have := range_print dateOk .reachableToMergeBase a b (46 :: 46 :: 46 :: optRev b) (46 :: optRev b) rfl
      (tryRange_three _) ha hopen hb
    simpa [Ast.print, Ast.calls] using this
  | parents r =>
    obtain ⟨hr, hopen⟩ := hwf
    obtain ⟨a, ns, rfl⟩ := open_rev_cases hopen
    exact parents_print dateOk a ns hr.1 hr.2
  | excludeParents r =>
    obtain ⟨hr, hopen⟩ := hwf
    obtain ⟨a, ns, rfl⟩ := open_rev_cases hopen
    exact exclParents_print dateOk a ns hr.1 hr.2
  | parentRange r n =>
    obtain ⟨hr, hopen, hrem, h1, h2⟩ := hwf
    obtain ⟨a, ns, rfl⟩ := open_rev_cases hopen
    exact parentRange_print dateOk a ns hr.1 hr.2 hrem n h1 h2

-- non-vacuity: `main~2^..abcdef12^{tree}:a/b` is a well-formed tree …
example : (Ast.range
    (some (.nav (.ref [109, 97, 105, 110]) [.ancestor 2, .parent1] none))
    (some (.nav (.hex [97, 98, 99, 100, 101, 102, 49, 50]) [.peel .tree] (some [97, 47, 98])))).Wf
      (fun _ => false) := by decide +kernel
-- … and so are `v1.0-3-gabcdef1^-2`, `main@{1}^{/fix}` and `:3:a`
example : (Ast.parentRange (.nav (.describe [118, 49, 46, 48] 3 [97, 98, 99, 100, 101, 102, 49]) [] none) 2).Wf
    (fun _ => false) := by decide +kernel
example : (Ast.single (.nav (.reflog (some [109, 97, 105, 110]) 1) [.search [102, 105, 120] false] none)).Wf
    (fun _ => false) := by decide +kernel
example : (Ast.single (.index (some 3) [97])).Wf (fun _ => false) := by decide +kernel
-- the conclusion on a concrete spec, evaluated by the kernel: `main~2^..abcdef12^{tree}:a/b`
example : tokenize allYes (fun _ => false)
    [109, 97, 105, 110, 126, 50, 94, 46, 46, 97, 98, 99, 100, 101, 102, 49, 50, 94, 123, 116, 114, 101, 101, 125, 58, 97, 47, 98]
    = ⟨[.findRef [109, 97, 105, 110], .ancestor 2, .parent 1, .kind .rangeBetween,
        .prefix [97, 98, 99, 100, 101, 102, 49, 50] .none, .peelKind .tree, .peelPath [97, 47, 98], .done], .ok⟩ := by
  decide +kernel

/-- The proved part of C48: for every well-formed spec, gitoxide's parser never panics and hands
its delegate exactly the resolution steps of the spec. (What the delegate and git make of those
steps is `C48_full`.) -/
theorem rev_parse_partial (dateOk : Bytes → Bool) (ast : Ast) (hwf : ast.Wf dateOk) :
    tokenize allYes dateOk ast.print = ⟨ast.calls, .ok⟩ ∧
      ∀ D : Delegate, ∀ site, (tokenize D dateOk ast.print).out ≠ .panic site :=
  ⟨tokenize_print dateOk ast hwf, fun D => (tokenize_total D dateOk ast.print).1⟩

/-! ### navigation arithmetic on an abstract object graph -/

/-- `x~a~b = x~(a+b)` -/
theorem ancestor_add (R : Repo) (a b x : Nat) :
    ancestor R (a + b) x = (ancestor R a x).bind (ancestor R b) := by
  induction a generalizing x with
  | zero => simp [ancestor]
  | succ a ih =>
    have : a + 1 + b = (a + b) + 1 := by omega
    rw [this]
    simp only [ancestor]
    cases (R.parents x).head? with
    | none => rfl
    | some p => simp only [Option.bind_some]; exact ih p

/-- `x^1 = x~1` on commits (`Traversal::NthParent(1)` and `Traversal::NthAncestor(1)`) -/
theorem parent_one_eq_ancestor_one (R : Repo) (fuel x : Nat) :
    stepNav R fuel (.parent 1) x = stepNav R fuel (.ancestor 1) x := by
  simp only [stepNav, nthParent, ancestor]
  split
  · cases h : R.parents x with
    | nil => simp
    | cons p ps => simp
  · rfl

/-- first parents of commits are commits (true of every object database git accepts) -/
def CommitClosed (R : Repo) : Prop :=
  ∀ x p, R.kind x = .commit → (R.parents x).head? = some p → R.kind p = .commit

theorem ancestor_commit (R : Repo) (hR : CommitClosed R) : ∀ (n x y : Nat),
    R.kind x = .commit → ancestor R n x = some y → R.kind y = .commit := by
  intro n
  induction n with
  | zero => intro x y hx h; simp only [ancestor, Option.some.injEq] at h; rw [← h]; exact hx
  | succ n ih =>
    intro x y hx h
    simp only [ancestor] at h
    cases hp : (R.parents x).head? with
    | none => simp [hp] at h
    | some p =>
      simp only [hp, Option.bind_some] at h
      exact ih p y (hR x p hx hp) h

/-- the same law for the calls the tokenizer emits: running `~a` then `~b` equals running `~(a+b)` -/
theorem tilde_compose (R : Repo) (hR : CommitClosed R) (fuel a b x : Nat) :
    runNav R fuel [.ancestor a, .ancestor b] x = runNav R fuel [.ancestor (a + b)] x := by
  simp only [runNav, stepNav]
  by_cases hx : R.kind x = .commit
  · simp only [hx, if_true, ancestor_add]
    cases ha : ancestor R a x with
    | none => rfl
    | some y =>
      have hy := ancestor_commit R hR a x y hx ha
      simp [hy]
  · simp [hx]

-- non-vacuity: a three-commit chain 3 → 2 → 1 is commit-closed and `3~1~1 = 3~2 = 1`
example : ancestor ⟨fun _ => .commit, fun x => if x = 0 then [] else [x - 1], id, id⟩ 2 3 = some 1 := by
  decide

/-- spec-level corollary: `x~a~b` and `x~(a+b)` tokenize to call lists with the same navigation
meaning (for any ref name `x` the grammar accepts) -/
theorem tilde_compose_spec (dateOk : Bytes → Bool) (n : Bytes) (hn : RefName n) (a b : Nat)
    (ha : 1 ≤ a ∧ a < 2 ^ 63) (hb : 1 ≤ b ∧ b < 2 ^ 63) :
    ∃ c1 c2, tokenize allYes dateOk (Ast.single (.nav (.ref n) [.ancestor a, .ancestor b] none)).print
        = ⟨.findRef n :: c1 ++ [.done], .ok⟩ ∧
      tokenize allYes dateOk (Ast.single (.nav (.ref n) [.ancestor (a + b)] none)).print
        = ⟨.findRef n :: c2 ++ [.done], .ok⟩ ∧
      ∀ (R : Repo), CommitClosed R → ∀ fuel x, runNav R fuel c1 x = runNav R fuel c2 x := by
  refine ⟨[.ancestor a, .ancestor b], [.ancestor (a + b)], ?_, ?_, ?_⟩
  · have := tokenize_print dateOk (.single (.nav (.ref n) [.ancestor a, .ancestor b] none))
      ⟨hn, by
        intro m hm
        simp only [List.mem_cons, List.mem_nil_iff, or_false] at hm
        rcases hm with rfl | rfl
        · exact ⟨ha.1, by omega⟩
        · exact ⟨hb.1, by omega⟩⟩
    simpa [Ast.calls, Rev.calls, Anchor.calls, Nav.call, pathCalls] using this
  · have := tokenize_print dateOk (.single (.nav (.ref n) [.ancestor (a + b)] none))
      ⟨hn, by
        intro m hm
        simp only [List.mem_cons, List.mem_nil_iff, or_false] at hm
        subst hm
        exact ⟨by omega, by omega⟩⟩
    simpa [Ast.calls, Rev.calls, Anchor.calls, Nav.call, pathCalls] using this
  · intro R hR fuel x
    exact tilde_compose R hR fuel a b x

/-- `^{kind}` is idempotent: peeling the result again changes nothing -/
theorem peel_idempotent (R : Repo) (k : OKind) : ∀ (fuel x y : Nat),
    peelTo R k fuel x = some y → ∀ fuel', 0 < fuel' → peelTo R k fuel' y = some y := by
  intro fuel
  induction fuel with
  | zero => intro x y h; simp [peelTo] at h
  | succ fuel ih =>
    intro x y h fuel' hf
    simp only [peelTo] at h
    by_cases hk : R.kind x = k
    · simp only [hk, if_true, Option.some.injEq] at h
      subst h
      cases fuel' with
      | zero => omega
      | succ f => simp [peelTo, hk]
    · simp only [hk, if_false] at h
      cases hkind : R.kind x with
      | commit => simp only [hkind] at h; exact ih _ _ h fuel' hf
      | tag => simp only [hkind] at h; exact ih _ _ h fuel' hf
      | tree => simp [hkind] at h
      | blob => simp [hkind] at h

/-- a successful `^{kind}` yields an object of that kind -/
theorem peel_kind (R : Repo) (k : OKind) : ∀ (fuel x y : Nat), peelTo R k fuel x = some y → R.kind y = k := by
  intro fuel
  induction fuel with
  | zero => intro x y h; simp [peelTo] at h
  | succ fuel ih =>
    intro x y h
    simp only [peelTo] at h
    by_cases hk : R.kind x = k
    · simp only [hk, if_true, Option.some.injEq] at h
      subst h; exact hk
    · simp only [hk, if_false] at h
      cases hkind : R.kind x with
      | commit => simp only [hkind] at h; exact ih _ _ h
      | tag => simp only [hkind] at h; exact ih _ _ h
      | tree => simp [hkind] at h
      | blob => simp [hkind] at h

/-- `^{}` is idempotent and never yields a tag -/
theorem peelTags_idempotent (R : Repo) : ∀ (fuel x y : Nat),
    peelTags R fuel x = some y → R.kind y ≠ .tag ∧ ∀ fuel', 0 < fuel' → peelTags R fuel' y = some y := by
  intro fuel
  induction fuel with
  | zero => intro x y h; simp [peelTags] at h
  | succ fuel ih =>
    intro x y h
    simp only [peelTags] at h
    by_cases hk : R.kind x = .tag
    · simp only [hk, if_true] at h
      exact ih _ _ h
    · simp only [hk, if_false, Option.some.injEq] at h
      subst h
      refine ⟨hk, ?_⟩
      intro fuel' hf
      cases fuel' with
      | zero => omega
      | succ f => simp [peelTags, hk]

-- non-vacuity: tag 2 → tag 1 → commit 0 (tree 9): `2^{commit} = 0`, `2^{tree} = 9`, `2^{} = 0`
example : peelTo ⟨fun x => if x = 0 then .commit else if x = 9 then .tree else .tag, fun _ => [],
    fun _ => 9, fun x => x - 1⟩ .tree 5 2 = some 9 := by decide

end GixModel.Props.C48

/-! ## round 2: the resolution layer -/
namespace GixModel.Props.C48.Resolve
open GixModel GixModel.C48 GixModel.C48R GixModel.Spec.C48D
open GixModel.Spec.C48 (Nav Anchor Rev Ast)

/-- `resolve_eq_spec`: the delegate model, fed the calls a well-formed spec means, resolves it to
what gitrevisions(7) says (`denote`), on every repository, outside the recorded deviation classes. -/
theorem resolve_eq_spec (R : Repo) (fuel : Nat) (dateOk : Bytes → Bool) (ast : Ast)
    (hwf : ast.Wf dateOk) (hclean : astClean R fuel ast) :
    resolveCalls R fuel ast.calls = toOutcome (denote R fuel ast) :=
  resolveCalls_eq_denote R fuel dateOk ast hwf hclean

/-- on that domain no panic site of the delegate is reached -/
theorem resolve_no_panic (R : Repo) (fuel : Nat) (dateOk : Bytes → Bool) (ast : Ast)
    (hwf : ast.Wf dateOk) (hclean : astClean R fuel ast) :
    resolveCalls R fuel ast.calls ≠ .panic := by
  rw [resolve_eq_spec R fuel dateOk ast hwf hclean]
  cases denote R fuel ast <;> simp [toOutcome]

/-- a successful resolution of a single revision names an object the semantics names -/
theorem resolve_single_sound (R : Repo) (fuel : Nat) (dateOk : Bytes → Bool) (r : Rev) (x : Nat)
    (hwf : (Ast.single r).Wf dateOk) (hclean : revClean R r)
    (h : resolveCalls R fuel (Ast.single r).calls = .ok (.include_ x)) :
    denoteRev R fuel r = some x := by
  rw [resolve_eq_spec R fuel dateOk (.single r) hwf hclean] at h
  simp only [denote] at h
  cases hd : denoteRev R fuel r with
  | none => rw [hd] at h; simp [toOutcome] at h
  | some y =>
    rw [hd] at h
    simp only [Option.map_some, toOutcome, Outcome.ok.injEq, RSpec.include_.injEq] at h
    rw [h]

/-- bytes → object: on a clean well-formed spec that the semantics gives a value, the tokenizer
model with the delegate model in the loop (`resolve`, the driver's prediction of
`Repository::rev_parse`) returns that value for the printed spec -/
theorem resolve_print_eq_spec (R : Repo) (fuel : Nat) (ast : Ast) (hwf : ast.Wf (fun _ => true))
    (hclean : astClean R fuel ast) (v : RSpec) (hd : denote R fuel ast = some v) :
    resolve R fuel ast.print = .ok v := by
  have h := resolve_eq_spec R fuel _ ast hwf hclean
  rw [hd] at h
  cases hr : runCalls R fuel {} ast.calls with
  | none => simp [resolveCalls, hr, toOutcome] at h
  | some s => rw [resolve_print R fuel ast hwf s hr, h]; rfl

/-! ### non-vacuity: a repository with commits 0 ← 1 (tree 9), tag 2 → 1, `main` → 1, `v` → 2, `t` → 9 -/

-- `v~1` (through the tag): commit 0; `main..v` : range 1 2; `t..main`: gitoxide answers, git refuses
example : astClean demo 8 (.single (.nav (.ref [118]) [.ancestor1] none)) := trivial
example : resolveCalls demo 8 (Ast.single (.nav (.ref [118]) [.ancestor1] none)).calls = .ok (.include_ 0) := by
  decide +kernel
example : denote demo 8 (.single (.nav (.ref [118]) [.ancestor1] none)) = some (.include_ 0) := by
  decide +kernel
-- the same from the bytes `v~`
example : (Ast.single (.nav (.ref [118]) [.ancestor1] none)).print = [118, 126] := by decide +kernel
example : resolve demo 8 [118, 126] = .ok (.include_ 0) := by decide +kernel
example : resolveCalls demo 8 (Ast.range (some (.nav (.ref main_) [] none)) (some (.nav (.ref [118]) [] none))).calls
    = .ok (.range 1 2) := by decide +kernel

/-- the `Commitish` hypothesis cannot be dropped: `t..main` with `t` a tree is answered by the
delegate (recorded finding) and refused by git -/
theorem range_needs_commitish :
    ∃ (R : Repo) (fuel : Nat) (ast : Ast), ast.Wf (fun _ => false) ∧
      resolveCalls R fuel ast.calls ≠ toOutcome (denote R fuel ast) :=
  ⟨demo, 8, .range (some (.nav (.ref [116]) [] none)) (some (.nav (.ref main_) [] none)),
    by decide +kernel, by decide +kernel⟩

end GixModel.Props.C48.Resolve
