/-
C16 — reference transactions implement compare-and-swap atomically. The executable model is the
shared core GixModel.Model.C17Core (prepare/commit on the concrete store {loose, packed, locks});
the line protocol is the history protocol of GixModel.Model.C17:

  hist <op> ; <op> ; …   with op = txn … | gitupdate-ref … | gitpack-refs … | lock … | unlock …
-/
import GixModel.Model.C17

namespace GixModel.C16

def handle (args : List String) : String := GixModel.C17.handle args

end GixModel.C16
