/-
C16 — reference transactions implement compare-and-swap atomically. The executable model is the
shared core GixModel.Model.C17Core (prepare/commit on the concrete store {loose, packed, locks});
the line protocol is the history protocol of GixModel.Model.C17:

  hist <op> ; <op> ; …    with op = txn … | gitupdate-ref … | gitpack-refs … | lock … | unlock …

and, answered by the extended model GixModel.Model.C16Fs (directories and reflogs),

  histx <txn> ; <txn> ; … transactions only; nested names may conflict; the dump also shows the
                          reflogs: ` logs=<name>@<old>><new>,…;<name>@…`
-/
import GixModel.Model.C17
import GixModel.Model.C16Fs

namespace GixModel.C16
open GixModel.C17 GixModel.C16Fs

def fmtOidX : Oid → String
  | 0 => "0"
  | o => stringOfOid o

def dumpX (SX : StoreX) : String :=
  let parts := nameSpace.filterMap fun s =>
    match lookup SX.logs (nameOfString s) with
    | some ls => some (s ++ "@" ++ String.intercalate "," (ls.map fun l => fmtOidX l.1 ++ ">" ++ fmtOidX l.2))
    | none => none
  dump SX.base ++ " logs=" ++ (if parts.isEmpty then "-" else String.intercalate ";" parts)

def fmtErrX : ErrX → String
  | .core e => fmtErr e
  | .reflog => "err:c-reflog"
  | .lockCommit n => "err:c-lock:" ++ stringOfName n
  | .deleteReflog n => "err:c-dellog:" ++ stringOfName n
  | .deleteRef n => "err:c-delref:" ++ stringOfName n

def histOpX (SX : StoreX) : List String → Option (String × Option StoreX)
  | "txn" :: mode :: rf :: pf :: edits => do
    let mode ← parseMode mode
    let _ ← parseFail ((rf.dropPrefix? "rf=").map (·.toString) |>.getD "?")
    let _ ← parseFail ((pf.dropPrefix? "pf=").map (·.toString) |>.getD "?")
    let edits ← parseEdits edits
    match runX harnessEnv SX { edits := edits, mode := mode } with
    | .ok S' => some ("ok#" ++ dumpX S', some S')
    | .err e S' => some (fmtErrX e ++ "#" ++ dumpX S', some S')
    | .panic S' => some ("panic#" ++ dumpX S', some S')
    | .hang => some ("hang", none)
  | _ => none

def runHistX : StoreX → List (List String) → Option (List String)
  | _, [] => some []
  | SX, op :: ops => do
    let r ← histOpX SX op
    match r.2 with
    | none => some [r.1]
    | some S' =>
      let rest ← runHistX S' ops
      some (r.1 :: rest)

def handle (args : List String) : String :=
  match args with
  | "histx" :: toks =>
    match runHistX { base := initialStore } (splitOps toks) with
    | some obs => String.intercalate " ; " obs
    | none => "bad-op"
  | _ => GixModel.C17.handle args

end GixModel.C16
