import GixModel.Basic.Dec
/-
C33 — model of gix-url's own parsing and serialisation logic.

Rust functions modelled (all in /repo/gix-url/src):
  lib.rs     parse (dispatch), Url::write_to / to_bstring
  parse.rs   find_scheme, url (incl. the MAX_LEN check), scp, url_user, file_url, local
  scheme.rs  impl From<&str> for Scheme, Scheme::as_str
(`cfg!(windows)` branches are compiled out on the platform under test and not modelled.)

External, as PARAMETERS of every function here:
  `P : Bytes → Option StdUrl`   the WHATWG parser `url::Url::parse` together with the accessors gix-url
                                reads (scheme, username, password, host_str, port, path, cannot_be_a_base)
  `utf8 : Bytes → Bool`         `std::str::from_utf8(..).is_ok()`
Their assumed contracts are named hypotheses in `Lemmas/C33.lean`; the harness passes the real
crate's answers in as data, so the driver runs the model with the same parameter values.

`write` returns `none` where `write_to` hits `unreachable!("BUG: should not be possible to have a
user but no host")`, i.e. a panic.
-/
namespace GixModel.C33
open GixModel

/-- what gix-url reads off a parsed `url::Url` -/
structure StdUrl where
  scheme : Bytes
  username : Bytes
  password : Option Bytes
  host : Option Bytes
  port : Option Nat
  path : Bytes
  cannotBeABase : Bool
  deriving Repr, DecidableEq

inductive Scheme where
  | file | git | ssh | http | https
  | ext (name : Bytes)
  deriving Repr, DecidableEq

def bFile : Bytes := [102, 105, 108, 101]
def bGit : Bytes := [103, 105, 116]
def bSsh : Bytes := [115, 115, 104]
def bSshGit : Bytes := [115, 115, 104, 43, 103, 105, 116]
def bGitSsh : Bytes := [103, 105, 116, 43, 115, 115, 104]
def bHttp : Bytes := [104, 116, 116, 112]
def bHttps : Bytes := [104, 116, 116, 112, 115]
def bCSS : Bytes := [58, 47, 47]                                    -- "://"
def bSshCSS : Bytes := [115, 115, 104, 58, 47, 47]                  -- "ssh://"

/-- `impl From<&str> for Scheme` -/
def schemeOf (s : Bytes) : Scheme :=
  if s == bSsh || s == bSshGit || s == bGitSsh then .ssh
  else if s == bFile then .file
  else if s == bGit then .git
  else if s == bHttp then .http
  else if s == bHttps then .https
  else .ext s

/-- `Scheme::as_str` -/
def Scheme.asBytes : Scheme → Bytes
  | .file => bFile | .git => bGit | .ssh => bSsh | .http => bHttp | .https => bHttps
  | .ext n => n

structure Url where
  scheme : Scheme
  user : Option Bytes
  password : Option Bytes
  host : Option Bytes
  alt : Bool                       -- serialize_alternative_form
  port : Option Nat
  path : Bytes
  deriving Repr, DecidableEq

inductive Err
  | utf8 | url | tooLong | missingRepositoryPath | relativeUrl
  deriving Repr, DecidableEq

inductive InputScheme where
  | url (protocolEnd : Nat)
  | scp (colon : Nat)
  | loc
  deriving Repr, DecidableEq

/-- `input.find("://")` -/
def findCSS : Bytes → Option Nat
  | [] => none
  | b :: rest =>
    if b == 58 && rest.take 2 == [47, 47] then some 0 else (findCSS rest).map (· + 1)

/-- `input.find_byte(b)` -/
def findByte (c : UInt8) : Bytes → Option Nat
  | [] => none
  | b :: rest => if b == c then some 0 else (findByte c rest).map (· + 1)

/-- `find_scheme` (not windows) -/
def findScheme (input : Bytes) : InputScheme :=
  match findCSS input with
  | some pe => .url pe
  | none =>
    match findByte 58 input with
    | some colon => if (input.take colon).contains 47 then .loc else .scp colon
    | none => .loc

def toLowerAscii (b : UInt8) : UInt8 := if 65 ≤ b && b ≤ 90 then b + 32 else b

/-- `eq_ignore_ascii_case` -/
def eqIgnoreCase (a b : Bytes) : Bool := a.map toLowerAscii == b.map toLowerAscii

/-- `u8::is_ascii_whitespace` -/
def isAsciiWs (b : UInt8) : Bool := b == 32 || b == 9 || b == 10 || b == 12 || b == 13

def findIdx (p : UInt8 → Bool) : Bytes → Option Nat
  | [] => none
  | b :: rest => if p b then some 0 else (findIdx p rest).map (· + 1)

/-- `url_user` -/
def urlUser (s : StdUrl) : Option Bytes :=
  if s.username.isEmpty && s.password.isNone then none else some s.username

def maxLen : Nat := 1024

/-- the `MAX_LEN` guard at the top of `parse::url` -/
def exceedsMaxLen (input : Bytes) (pe : Nat) : Bool :=
  let after := input.drop (pe + 3)
  let skipped := (after.filter fun b => !isAsciiWs b).dropWhile fun b => b == 47 || b == 92
  let bytesToPath := match findIdx (· == 47) skipped with
    | some i => i
    | none => input.length - pe
  decide (bytesToPath > maxLen) || decide (pe > maxLen)

/-- the `Url` built from what the url crate parsed -/
def urlOfStd (s : StdUrl) (alt : Bool) (path : Bytes) : Url :=
  ⟨schemeOf s.scheme, urlUser s, s.password, s.host, alt, s.port, path⟩

/-- `parse::url` -/
def parseUrl (P : Bytes → Option StdUrl) (utf8 : Bytes → Bool) (input : Bytes) (pe : Nat) : Except Err Url :=
  if exceedsMaxLen input pe then .error .tooLong
  else if !utf8 input then .error .utf8
  else match P input with
    | none => .error .url
    | some s =>
      let scheme := schemeOf s.scheme
      if (scheme == .git || scheme == .ssh) && s.path.isEmpty then .error .missingRepositoryPath
      else if s.cannotBeABase then .error .relativeUrl
      else .ok (urlOfStd s false s.path)

/-- `parse::scp` -/
def parseScp (P : Bytes → Option StdUrl) (utf8 : Bytes → Bool) (input : Bytes) (colon : Nat) : Except Err Url :=
  if !utf8 input then .error .utf8
  else
    let host := input.take colon
    let path := input.drop (colon + 1)
    if path.isEmpty then .error .missingRepositoryPath
    else match P (bSshCSS ++ host) with
      | none => .error .url
      | some s => .ok (urlOfStd s true path)

/-- `parse::local` -/
def parseLocal (input : Bytes) : Except Err Url :=
  if input.isEmpty then .error .missingRepositoryPath
  else .ok ⟨.file, none, none, none, true, none, input⟩

/-- `parse::file_url` (not windows) -/
def parseFileUrl (utf8 : Bytes → Bool) (input : Bytes) (pe : Nat) : Except Err Url :=
  if !utf8 input then .error .utf8
  else
    let after := input.drop (pe + 3)
    match findByte 47 after with
    | none => .error .missingRepositoryPath
    | some firstSlash =>
      let host := if firstSlash == 0 then none else some (after.take firstSlash)
      match parseLocal (after.drop firstSlash) with
      | .error e => .error e
      | .ok l => .ok { l with alt := false, host := host }

/-- `gix_url::parse` -/
def parse (P : Bytes → Option StdUrl) (utf8 : Bytes → Bool) (input : Bytes) : Except Err Url :=
  match findScheme input with
  | .loc => parseLocal input
  | .url pe =>
    if eqIgnoreCase (input.take pe) bFile then parseFileUrl utf8 input pe
    else parseUrl P utf8 input pe
  | .scp colon => parseScp P utf8 input colon

/-- `Url::write_to`; `none` = the `unreachable!` for a user without host -/
def write (u : Url) : Option Bytes :=
  let pre : Bytes := if !(u.alt && (u.scheme == .file || u.scheme == .ssh)) then u.scheme.asBytes ++ bCSS else []
  let auth : Option Bytes :=
    match u.user, u.host with
    | some user, some host =>
      some (user ++ (match u.password with
                     | some p => [58] ++ p
                     | none => []) ++ [64] ++ host)
    | none, some host => some host
    | none, none => some []
    | some _, none => none
  match auth with
  | none => none
  | some a =>
    some (pre ++ a ++ (match u.port with
                       | some p => [58] ++ natDec p
                       | none => []) ++
          (if u.alt && u.scheme == .ssh then [58] else []) ++ u.path)

/-! ### driver -/

def optHex? (s : String) : Option (Option Bytes) :=
  if s == "~" then some none else (bytesOfHex s).map some

def optNat? (s : String) : Option (Option Nat) :=
  if s == "~" then some none else s.toNat?.map some

/-- `<query> none` or `<query> some <scheme> <username> <password|~> <host|~> <port|~> <path> <cbab>` -/
def takeTable : Nat → List String → Option (List (Bytes × Option StdUrl) × List String)
  | 0, rest => some ([], rest)
  | n + 1, q :: "none" :: rest => do
    let q ← bytesOfHex q
    let (t, rest) ← takeTable n rest
    some ((q, none) :: t, rest)
  | n + 1, q :: "some" :: sc :: un :: pw :: ho :: po :: pa :: cb :: rest => do
    let q ← bytesOfHex q
    let sc ← bytesOfHex sc
    let un ← bytesOfHex un
    let pw ← optHex? pw
    let ho ← optHex? ho
    let po ← optNat? po
    let pa ← bytesOfHex pa
    let (t, rest) ← takeTable n rest
    some ((q, some ⟨sc, un, pw, ho, po, pa, cb == "1"⟩) :: t, rest)
  | _, _ => none

def showScheme : Scheme → String
  | .file => "file" | .git => "git" | .ssh => "ssh" | .http => "http" | .https => "https"
  | .ext n => "ext:" ++ hexOfBytes n

def showOpt : Option Bytes → String
  | none => "~"
  | some b => "=" ++ hexOfBytes b

def showErr : Err → String
  | .utf8 => "err:Utf8" | .url => "err:Url" | .tooLong => "err:TooLong"
  | .missingRepositoryPath => "err:MissingRepositoryPath" | .relativeUrl => "err:RelativeUrl"

def handle? : List String → Option String
  | "parse" :: input :: u8 :: k :: rest => do
    let input ← bytesOfHex input
    let k ← k.toNat?
    let (table, rest) ← takeTable k rest
    if !rest.isEmpty then none else
    -- a query the harness did not answer is a protocol error, never a default
    let queried : Bytes → Option (Option StdUrl) := fun q => (table.find? (fun e => e.1 == q)).map (·.2)
    let missing := match findScheme input with
      | .url _ => (queried input).isNone
      | .scp colon => (queried (bSshCSS ++ input.take colon)).isNone
      | .loc => false
    if missing then none else
    let P : Bytes → Option StdUrl := fun q => (queried q).getD none
    match parse P (fun _ => u8 == "1") input with
    | .error e => some (showErr e)
    | .ok u =>
      let w := match write u with
        | none => "panic"
        | some b => hexOfBytes b
      let port := match u.port with | none => "~" | some p => toString p
      some s!"ok {if u.alt then 1 else 0} {showScheme u.scheme} {showOpt u.user} {showOpt u.password} {showOpt u.host} {port} {hexOfBytes u.path} W {w}"
  | _ => none

def handle (args : List String) : String := (handle? args).getD "bad-op"

end GixModel.C33
