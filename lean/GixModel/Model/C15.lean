import GixModel.Basic.Hex
import GixModel.Extracted.RefNameBytes
import GixModel.Spec.C15
/-
C15 — model of the reference-name validator / sanitizer.

Rust functions modelled (all in /repo/gix-validate/src):
  tag::name_inner(input, Mode::{Validate,Sanitize})        tag.rs      -> `nameInner`
  tag::name                                                tag.rs      -> `tagName`
  reference::{validate, name, name_partial,
              name_partial_or_sanitize}                    reference.rs -> `refValidate`, `refName`,
                                                                          `refNamePartial`, `refSanitize`
The two table-shaped arms of the `match byte` (always-refused bytes, `*`) are NOT transcribed by
hand: they are `Extracted.refForbidden` / `Extracted.refStar`, regenerated from the source on every
run; the model is generic in that table (`Table`).

Conventions. The loop of `name_inner` runs over `input.iter().enumerate()`; the model recurses over
the remaining bytes and carries `pre` = the bytes consumed so far, REVERSED (so `byte_pos =
pre.length` and `previous = pre.headD 0`, which is what the Rust variable `previous` holds: it is
assigned `*byte` at the end of every iteration and starts as 0). `out` (the sanitised buffer) is
also kept reversed while the loop runs: `push` is `::`, `ends_with(".lock")` is
`rlock.isPrefixOf`, `truncate(len-5)` is `drop 5`. Slices `input[a..b]` panic in Rust when
`a > b` or `b > len`; those are `.panic` outcomes here, as is indexing `[0]` into an empty buffer.
-/
namespace GixModel.C15
open GixModel

inductive Err
  | invalidByte | startsWithSlash | repeatedSlash | repeatedDot | lockFileSuffix | reflogPortion
  | asterisk | startsWithDot | endsWithDot | endsWithSlash | empty | someLowercase
  deriving DecidableEq, Repr

def Err.name : Err → String
  | .invalidByte => "InvalidByte" | .startsWithSlash => "StartsWithSlash"
  | .repeatedSlash => "RepeatedSlash" | .repeatedDot => "RepeatedDot"
  | .lockFileSuffix => "LockFileSuffix" | .reflogPortion => "ReflogPortion"
  | .asterisk => "Asterisk" | .startsWithDot => "StartsWithDot" | .endsWithDot => "EndsWithDot"
  | .endsWithSlash => "EndsWithSlash" | .empty => "Empty" | .someLowercase => "SomeLowercase"

/-- outcome of a Rust call: returned a value, returned `Err`, or panicked -/
inductive Out (α : Type)
  | ok (a : α) | err (e : Err) | panic
  deriving DecidableEq, Repr

def Out.isOk {α : Type} : Out α → Bool
  | .ok _ => true
  | _ => false

/-- the two extracted arms of `match byte` -/
structure Table where
  forbidden : List (Nat × Nat)
  star : List (Nat × Nat)

def extractedTable : Table := ⟨Extracted.refForbidden, Extracted.refStar⟩

def inRanges (rs : List (Nat × Nat)) (b : UInt8) : Bool :=
  rs.any fun r => r.1 ≤ b.toNat && b.toNat ≤ r.2

/-- ".lock" reversed -/
abbrev rlock : Bytes := Spec.C15.rlock

/-- `while out.ends_with(b".lock") { out.truncate(out.len() - 5) }` on the reversed buffer -/
def stripLocks : Bytes → Bytes
  | 107 :: 99 :: 111 :: 108 :: 46 :: rest => stripLocks rest
  | r => r

/-- loop state: consumed input reversed, `component_end`, sanitised output reversed -/
structure St where
  pre : Bytes
  ce : Nat
  out : Bytes
  deriving DecidableEq, Repr

/-- One iteration of `for (byte_pos, byte) in input.iter().enumerate()`. `san` = `out.is_some()`,
`isLast` = `byte_pos == last`. -/
def step (t : Table) (san isLast : Bool) (st : St) (b : UInt8) : Out St :=
  let prev := st.pre.headD 0
  let pos := st.pre.length
  if inRanges t.forbidden b then
    if san then .ok ⟨b :: st.pre, st.ce, 45 :: st.out⟩ else .err .invalidByte
  else if inRanges t.star b then
    if san then .ok ⟨b :: st.pre, st.ce, 45 :: st.out⟩ else .err .asterisk
  else if b == 46 && prev == 46 then
    if san then .ok ⟨b :: st.pre, st.ce, st.out⟩ else .err .repeatedDot
  else if b == 46 && prev == 47 then
    if san then .ok ⟨b :: st.pre, st.ce, 45 :: st.out⟩ else .err .startsWithDot
  else if b == 123 && prev == 64 then
    if san then .ok ⟨b :: st.pre, st.ce, 45 :: st.out⟩ else .err .reflogPortion
  else if b == 47 && prev == 47 then
    if san then .ok ⟨b :: st.pre, st.ce, st.out⟩ else .err .repeatedSlash
  else
    -- `c => { … }`
    let cs := st.ce                                   -- component_start = component_end
    let ce := if b == 47 then pos else st.ce          -- component_end = byte_pos
    if b == 47 && cs > pos then .panic                -- input[component_start..component_end]
    else
      let lock1 := b == 47 && rlock.isPrefixOf (st.pre.take (pos - cs))
      if lock1 && !san then .err .lockFileSuffix
      else
        let out1 := if lock1 then stripLocks st.out else st.out
        let out2 := if san then b :: out1 else out1
        if isLast then
          if ce + 1 > pos + 1 then .panic             -- input[component_end + 1..], len = pos + 1
          else
            let lock2 := rlock.isPrefixOf ((b :: st.pre).take (pos + 1 - (ce + 1)))
            if lock2 && !san then .err .lockFileSuffix
            else .ok ⟨b :: st.pre, ce, if lock2 then stripLocks out2 else out2⟩
        else .ok ⟨b :: st.pre, ce, out2⟩

def loop (t : Table) (san : Bool) : St → Bytes → Out St
  | st, [] => .ok st
  | st, b :: rest =>
    match step t san rest.isEmpty st b with
    | .ok st' => loop t san st' rest
    | .err e => .err e
    | .panic => .panic

/-- what follows the loop when validating: `input[0] == b'.'`, `input[len-1] == b'.'` -/
def finishValidate (input : Bytes) : Out (Option Bytes) :=
  match input.head? with
  | none => .panic
  | some f =>
    if f == 46 then .err .startsWithDot
    else match input.getLast? with
      | none => .panic
      | some l => if l == 46 then .err .endsWithDot else .ok none

/-- what follows the loop when sanitizing; `rout` is the buffer reversed. Returns the buffer in
forward order. -/
def finishSanitize (rout : Bytes) : Out (Option Bytes) :=
  -- while out.last() == Some(&b'/') { out.pop() }; while out.first() == Some(&b'/') { out.remove(0) }
  let out := ((rout.dropWhile (· == 47)).reverse).dropWhile (· == 47)
  let out := if out.isEmpty then [45] else out       -- if out.is_empty() { out.push(b'-') }
  match out with
  | [] => .panic                                      -- `…[0]` on an empty buffer
  | f :: tl =>
    let out := if f == 46 then 45 :: tl else out      -- out[0] = b'-'
    match out.getLast? with
    | none => .panic
    | some l => if l == 46 then .ok (some (out.dropLast ++ [45])) else .ok (some out)

/-- `tag::name_inner` -/
def nameInner (t : Table) (san : Bool) (input : Bytes) : Out (Option Bytes) :=
  if input.isEmpty then
    if san then .ok (some [45]) else .err .empty
  else if input.getLast? == some 47 && !san then .err .endsWithSlash
  else if input.head? == some 47 && !san then .err .startsWithSlash
  else
    match loop t san ⟨[], 0, []⟩ input with
    | .err e => .err e
    | .panic => .panic
    | .ok st => if san then finishSanitize st.out else finishValidate input

inductive RefMode | complete | partialName | partialSanitize
  deriving DecidableEq, Repr

def isUpperOrUnderscore (b : UInt8) : Bool := (65 ≤ b && b ≤ 90) || b == 95

/-- `reference::validate` -/
def refValidate (t : Table) (path : Bytes) (mode : RefMode) : Out (Option Bytes) :=
  match nameInner t (mode == .partialSanitize) path with
  | .err e => .err e
  | .panic => .panic
  | .ok out =>
    if mode == .complete then
      let input := out.getD path
      if !input.contains 47 && !input.all isUpperOrUnderscore then .err .someLowercase
      else .ok out
    else .ok out

/-- `None => Ok(path)`, `Some(_) => unreachable!()` -/
def expectUnchanged : Out (Option Bytes) → Out Unit
  | .ok none => .ok ()
  | .ok (some _) => .panic
  | .err e => .err e
  | .panic => .panic

/-- `tag::name` -/
def tagName (t : Table) (input : Bytes) : Out Unit := expectUnchanged (nameInner t false input)

/-- `reference::name` -/
def refName (t : Table) (path : Bytes) : Out Unit := expectUnchanged (refValidate t path .complete)

/-- `reference::name_partial` -/
def refNamePartial (t : Table) (path : Bytes) : Out Unit :=
  expectUnchanged (refValidate t path .partialName)

/-- `reference::name_partial_or_sanitize`: `.expect(…).expect(…)` -/
def refSanitize (t : Table) (path : Bytes) : Out Bytes :=
  match refValidate t path .partialSanitize with
  | .ok (some out) => .ok out
  | _ => .panic

/-! ### driver -/

def obsUnit : Out Unit → String
  | .ok _ => "ok"
  | .err e => "err:" ++ e.name
  | .panic => "panic"

def obsBytes : Out Bytes → String
  | .ok b => "ok " ++ hexOfBytes b
  | .err e => "err:" ++ e.name
  | .panic => "panic"

def yn (b : Bool) : String := if b then "accept" else "refuse"

def handle? : List String → Option String
  | ["tag", h] => do
    let bs ← bytesOfHex h
    some (obsUnit (tagName extractedTable bs))
  | ["name", h] => do
    let bs ← bytesOfHex h
    some (obsUnit (refName extractedTable bs))
  | ["partial", h] => do
    let bs ← bytesOfHex h
    some (obsUnit (refNamePartial extractedTable bs))
  | ["sanitize", h] => do
    let bs ← bytesOfHex h
    some (obsBytes (refSanitize extractedTable bs))
  | ["git", lvl, h] => do
    -- the Lean transcription of git's rule, compared with the git binary's verdict
    let bs ← bytesOfHex h
    if lvl == "onelevel" then some (yn (Spec.C15.gitCheckRefFormat true bs))
    else if lvl == "full" then some (yn (Spec.C15.gitCheckRefFormat false bs))
    else none
  | _ => none

def handle (args : List String) : String := (handle? args).getD "bad-op"

end GixModel.C15
