import GixModel.Basic.Hex
/-
C45 — model of the built-in text merge driver, GIVEN the two diffs.

Rust functions modelled (all in /repo/gix-merge/src/blob/builtin_driver/text):
  function.rs: merge (everything after the two `imara_diff::diff` calls)
  utils.rs:    take_intersecting, fill_ancestor, ancestor_hunk, zealously_contract_hunks,
               iterate_hunks, iterate_hunks_rev, truncate_hunks_from_from_front/back, range_by_side,
               write_hunks, write_tokens, write_ancestor, write_conflict_marker, assure_ends_with_nl,
               detect_line_ending(_or_nl), contains_lines, hunks_differ_in_diff3, tokens_for_side
The diff (imara-diff) is external: the model takes the hunk lists base→ours and base→theirs as
inputs (`Props.C45.DiffOf` is the contract the theorems assume about them). Tokens are lines with
their terminator (`byte_lines_with_terminator`); interned tokens are equal iff the lines are.

Panics are explicit: every `[]`, slice, `expect`, `assert!`, `unreachable!` and the one `usize`
subtraction is an `Except.error` branch, so that "never panics" is a statement about the model.
The output is a list of pieces tagged with their origin (`render` gives the bytes the real code
writes); the origin tags are what the marker / forced-resolution theorems talk about.
-/
namespace GixModel.C45
open GixModel

inductive Side | current | other | ancestor
  deriving DecidableEq, Repr

/-- `Range<u32>` -/
structure Range where
  start : Nat
  stop : Nat
  deriving DecidableEq, Repr

/-- `Range::is_empty`: `!(start < end)` -/
def Range.isEmpty (r : Range) : Bool := !(r.start < r.stop)

/-- `Range::contains` -/
def Range.contains (r : Range) (x : Nat) : Bool := r.start ≤ x && x < r.stop

structure Hunk where
  before : Range
  after : Range
  side : Side
  deriving DecidableEq, Repr

inductive Style | merge | diff3 | zdiff3
  deriving DecidableEq, Repr

/-- `Conflict` -/
inductive Conflict
  | keep (style : Style) (markerSize : Nat)
  | ours | theirs | union
  deriving DecidableEq, Repr

structure Labels where
  ancestor : Option Bytes
  current : Option Bytes
  other : Option Bytes
  deriving DecidableEq, Repr

/-- the three token lists: `input.before`, `current_tokens`, `input.after` (as lines) -/
structure Input where
  anc : List Bytes
  cur : List Bytes
  oth : List Bytes
  deriving DecidableEq, Repr

inductive Resolution | complete | conflict
  deriving DecidableEq, Repr

/-- what is appended to `out`, with its origin -/
inductive Piece
  | token (side : Side) (idx : Nat) (bytes : Bytes)   -- line `idx` of that input
  | marker (bytes : Bytes)                            -- a conflict marker line
  | eol (bytes : Bytes)                               -- terminator added by `assure_ends_with_nl`
  deriving DecidableEq, Repr

def Piece.bytes : Piece → Bytes
  | .token _ _ b => b
  | .marker b => b
  | .eol b => b

def render (ps : List Piece) : Bytes := ps.flatMap Piece.bytes

abbrev M := Except String

/-- `tokens_for_side` -/
def Input.tokens (inp : Input) : Side → List Bytes
  | .current => inp.cur
  | .other => inp.oth
  | .ancestor => inp.anc

/-- `range_by_side` (read access) -/
def Hunk.range (h : Hunk) : Range :=
  match h.side with
  | .current | .other => h.after
  | .ancestor => h.before

/-- `range_by_side` (write access) -/
def Hunk.setRange (h : Hunk) (r : Range) : Hunk :=
  match h.side with
  | .current | .other => { h with after := r }
  | .ancestor => { h with before := r }

/-- tokens `start..stop` of `toks` with their indices -/
def tokenPieces (side : Side) (toks : List Bytes) (start stop : Nat) : List Piece :=
  (List.range (stop - start)).filterMap fun k =>
    (toks[start + k]?).map fun b => Piece.token side (start + k) b

/-- `&tokens[usize_range(range)]` followed by `write_tokens` -/
def sliceTokens (side : Side) (toks : List Bytes) (r : Range) : M (List Piece) :=
  if r.start > r.stop then .error "slice index starts after its end"
  else if r.stop > toks.length then .error "range end index out of range for slice"
  else .ok (tokenPieces side toks r.start r.stop)

/-- `write_hunks` -/
def writeHunks (inp : Input) : List Hunk → M (List Piece)
  | [] => .ok []
  | h :: rest => do
    let ps ← sliceTokens h.side (inp.tokens h.side) h.range
    let qs ← writeHunks inp rest
    pure (ps ++ qs)

/-- `write_ancestor`: nothing if `to < from` or the range is out of bounds (`.get(from..to)`) -/
def writeAncestor (inp : Input) (frm to : Nat) : List Piece :=
  if to < frm then []
  else if to > inp.anc.length then []
  else tokenPieces .ancestor inp.anc frm to

def endsWithNl (out : List Piece) : Bool := (render out).getLast? == some 10

/-- `assure_ends_with_nl` -/
def assureEndsWithNl (out : List Piece) (nl : Bytes) : List Piece :=
  if !(render out).isEmpty && !endsWithNl out then out ++ [.eol nl] else out

/-- `write_conflict_marker` -/
def writeConflictMarker (out : List Piece) (marker : UInt8) (label : Option Bytes) (markerSize : Nat)
    (nl : Bytes) : List Piece :=
  let out := assureEndsWithNl out nl
  let line := List.replicate markerSize marker ++ (match label with | some l => 32 :: l | none => []) ++ nl
  out ++ [.marker line]

/-- `contains_lines` -/
def containsLines (hs : List Hunk) : Bool := hs.any fun h => !h.after.isEmpty

/-- `hunks_differ_in_diff3`: (sic) compares the complete token lists of the hunks' sides -/
def hunksDifferInDiff3 (style : Style) (inp : Input) (a b : List Hunk) : Bool :=
  if style != .diff3 then true
  else a.flatMap (fun h => inp.tokens h.side) != b.flatMap (fun h => inp.tokens h.side)

def nlLf : Bytes := [10]
def nlCrLf : Bytes := [13, 10]

/-- `is_eol_crlf` inside `detect_line_ending`; the one `usize` subtraction is a panic branch -/
def isEolCrlf (inp : Input) (hs : List Hunk) : M (Option Bool) :=
  let pick := hs.reverse.findSome? fun h =>
    if !h.after.isEmpty then some (h.after, h.side)
    else if !h.before.isEmpty then some (h.before, Side.ancestor)
    else none
  match pick with
  | none => .ok none
  | some (range, side) =>
    if range.stop == 0 then .error "attempt to subtract with overflow"
    else
      let toks := inp.tokens side
      match toks[range.stop - 1]? with
      | none => .ok none
      | some lastLine =>
        if lastLine.getLast? == some 10 then
          if lastLine.length < 2 then .ok none
          else .ok ((lastLine[lastLine.length - 2]?).map (· == 13))
        else if range.stop < 2 then .ok none
        else match toks[range.stop - 2]? with
          | none => .ok none
          | some l2 =>
            if l2.length < 2 then .ok none
            else .ok ((l2[l2.length - 2]?).map (· == 13))

/-- `detect_line_ending` -/
def detectLineEnding (inp : Input) (hs : List Hunk) : M (Option Bytes) := do
  let r ← isEolCrlf inp hs
  pure (r.map fun crlf => if crlf then nlCrLf else nlLf)

/-- `detect_line_ending_or_nl` -/
def detectLineEndingOrNl (inp : Input) (hs : List Hunk) : M Bytes := do
  let r ← detectLineEnding inp hs
  pure (r.getD nlLf)

/-- `take_intersecting`: (taken, remaining) -/
def takeIntersecting (hunk : Hunk) : List Hunk → List Hunk × List Hunk
  | [] => ([], [])
  | b :: rest =>
    if b.side != hunk.side &&
        (hunk.before.contains b.before.start || (hunk.before.isEmpty && hunk.before.start == b.before.start)) then
      let r := takeIntersecting hunk rest
      (b :: r.1, r.2)
    else ([], b :: rest)

/-- `ancestor_hunk` -/
def ancestorHunk (start numLines : Nat) : Hunk :=
  { before := ⟨start, start + numLines⟩, after := ⟨start, start + numLines⟩, side := .ancestor }

/-- insertion in front of the first element whose key is not smaller: with `sortByStart` taking
the elements from the right this is a stable sort, as `sort_by`/`sort_by_key` are -/
def insertByStart (h : Hunk) : List Hunk → List Hunk
  | [] => [h]
  | x :: rest => if h.before.start ≤ x.before.start then h :: x :: rest else x :: insertByStart h rest

def sortByStart : List Hunk → List Hunk
  | [] => []
  | h :: rest => insertByStart h (sortByStart rest)

/-- the `for (idx, next_idx)` loop of `fill_ancestor`: `len0` is `in_out.len()` when the loop
starts, `v` grows by `push` while it is indexed (so `in_out.get(next_idx)` can see pushed hunks) -/
def fillGaps : Nat → Nat → Nat → List Hunk → Bool → M (List Hunk × Bool)
  | 0, _, _, v, added => .ok (v, added)
  | fuel + 1, idx, len0, v, added =>
    if idx ≥ len0 then .ok (v, added)
    else match v[idx + 1]? with
      | none => .ok (v, added)
      | some next =>
        match v[idx]? with
        | none => .error "index out of bounds"
        | some hunk =>
          if next.before.start > hunk.before.stop then
            fillGaps fuel (idx + 1) len0
              (v ++ [ancestorHunk hunk.before.stop (next.before.start - hunk.before.stop)]) true
          else fillGaps fuel (idx + 1) len0 v added

/-- `fill_ancestor`, the part before the loop: an ancestor hunk in front if the first hunk starts
after the range; the result and `first_idx` -/
def fillFront (r : Range) (first : Hunk) (inOut : List Hunk) : List Hunk × Nat :=
  if first.before.start > r.start then (ancestorHunk r.start (first.before.start - r.start) :: inOut, 1)
  else (inOut, 0)

/-- `if added_hunks { in_out[first_idx..in_out_len].sort_by_key(|hunk| hunk.before.start) }` -/
def fillSort (firstIdx : Nat) (v : List Hunk) (added : Bool) : List Hunk :=
  if added then v.take firstIdx ++ sortByStart (v.drop firstIdx) else v

/-- the end of `fill_ancestor`: an ancestor hunk at the back if the last hunk ends before the range -/
def fillBack (r : Range) (v : List Hunk) : M (List Hunk) :=
  match v.getLast? with
  | none => .error "index out of bounds"
  | some last =>
    if r.stop > last.before.stop then .ok (v ++ [ancestorHunk last.before.stop (r.stop - last.before.stop)])
    else .ok v

/-- `fill_ancestor` -/
def fillAncestor (r : Range) (inOut : List Hunk) : M (List Hunk) :=
  match inOut with
  | [] => .ok []
  | first :: _ => do
    let p := fillFront r first inOut
    let g ← fillGaps (p.1.length + 1) p.2 p.1.length p.1 false
    fillBack r (fillSort p.2 g.1 g.2)

/-- `iterate_hunks`: `(token_idx, hunk_idx, hunk_side)` -/
def iterateHunks (hs : List Hunk) : List (Nat × Nat × Side) :=
  (hs.zipIdx).flatMap fun (h, i) =>
    (List.range (h.range.stop - h.range.start)).map fun k => (h.range.start + k, i, h.side)

/-- `iterate_hunks_rev` -/
def iterateHunksRev (hs : List Hunk) : List (Nat × Nat × Side) :=
  (hs.zipIdx).reverse.flatMap fun (h, i) =>
    ((List.range (h.range.stop - h.range.start)).map fun k => (h.range.start + k, i, h.side)).reverse

/-- `line_content`: `&input.interner[tokens[token_idx as usize]]` -/
def lineContent (inp : Input) (tokenIdx : Nat) (side : Side) : M Bytes :=
  match (inp.tokens side)[tokenIdx]? with
  | some l => .ok l
  | none => .error "index out of bounds"

/-- the state of one of the two `for … in iterate_hunks(a).zip(iterate_hunks(b))` loops -/
structure ScanState where
  lastA : Nat := 0
  lastB : Nat := 0
  removeA : Option Nat := none
  removeB : Option Nat := none
  tokA : Option Nat := none
  tokB : Option Nat := none
  deriving DecidableEq, Repr

/-- both scanning loops of `zealously_contract_hunks` (they differ only in the iterators) -/
def scanEqual (inp : Input) : List ((Nat × Nat × Side) × (Nat × Nat × Side)) → ScanState → M ScanState
  | [], st => .ok st
  | ((aTok, aIdx, aSide), (bTok, bIdx, bSide)) :: rest, st => do
    let aLine ← lineContent inp aTok aSide
    let bLine ← lineContent inp bTok bSide
    let st := if st.lastA != aIdx then { st with tokA := none, lastA := aIdx } else st
    let st := if st.lastB != bIdx then { st with tokB := none, lastB := bIdx } else st
    if aLine == bLine then
      scanEqual inp rest { st with removeA := some aIdx, removeB := some bIdx, tokA := some aTok, tokB := some bTok }
    else .ok st

/-- `truncate_hunks_from_from_front`: (remaining hunks, hunks pushed to `out_hunks`) -/
def truncateFront (hunks : List Hunk) (untilIdx : Option Nat) (equalTill : Option Nat) (collect : Bool) :
    M (List Hunk × List Hunk) :=
  match untilIdx with
  | none => if equalTill.isSome then .error "assertion failed: hunk_token_equal_till.is_none()" else .ok (hunks, [])
  | some u =>
    match hunks[u]? with
    | none => .error "index out of bounds"
    | some hunk =>
      let range := hunk.range
      -- (hunk in place, last_index_to_remove, the partial hunk pushed to out first)
      let (hunk', lastIdx, partialOut) : Hunk × Option Nat × List Hunk :=
        match equalTill with
        | none => (hunk, some u, [])
        | some till =>
          let newStart := till + 1
          if (Range.mk newStart range.stop).isEmpty then (hunk, some u, [])
          else
            let lastIdx := if u == 0 then none else some (u - 1)     -- checked_sub(1)
            let inPlace := hunk.setRange ⟨newStart, range.stop⟩
            if collect then (inPlace, lastIdx, [hunk.setRange ⟨range.start, newStart⟩])
            else (inPlace, lastIdx, [])
      let hunks' := hunks.set u hunk'
      match lastIdx with
      | none => .ok (hunks', partialOut)
      | some l => .ok (hunks'.drop (l + 1), partialOut ++ (if collect then hunks'.take (l + 1) else []))

/-- `truncate_hunks_from_from_back` -/
def truncateBack (hunks : List Hunk) (fromIdx : Option Nat) (equalFrom : Option Nat) (collect : Bool) :
    M (List Hunk × List Hunk) :=
  match fromIdx with
  | none => if equalFrom.isSome then .error "assertion failed: hunk_token_equal_from.is_none()" else .ok (hunks, [])
  | some f =>
    match hunks[f]? with
    | none => .error "index out of bounds"
    | some hunk =>
      let range := hunk.range
      let (hunk', f', partialOut) : Hunk × Nat × List Hunk :=
        match equalFrom with
        | none => (hunk, f, [])
        | some newEnd =>
          if (Range.mk range.start newEnd).isEmpty then (hunk, f, [])
          else
            let inPlace := hunk.setRange ⟨range.start, newEnd⟩
            if collect then (inPlace, f + 1, [hunk.setRange ⟨newEnd, range.stop⟩])
            else (inPlace, f + 1, [])
      let hunks' := hunks.set f hunk'
      if f' > hunks'.length then .error "range start index out of range for slice"
      else .ok (hunks'.take f', partialOut ++ (if collect then hunks'.drop f' else []))

/-- result of `zealously_contract_hunks`: the contracted `a_hunks`, `b_hunks`, and the removed
hunks that go in front / to the back -/
structure Contracted where
  a : List Hunk
  b : List Hunk
  front : List Hunk
  back : List Hunk
  deriving DecidableEq, Repr

/-- `zealously_contract_hunks` -/
def zealouslyContract (inp : Input) (a b : List Hunk) : M Contracted := do
  let st ← scanEqual inp ((iterateHunks a).zip (iterateHunks b)) {}
  let (a1, front) ← truncateFront a st.removeA st.tokA true
  let (b1, _) ← truncateFront b st.removeB st.tokB false
  let st2 ← scanEqual inp ((iterateHunksRev a1).zip (iterateHunksRev b1)) {}
  let (a2, back) ← truncateBack a1 st2.removeA st2.tokA true
  let (b2, _) ← truncateBack b1 st2.removeB st2.tokB false
  pure { a := a2, b := b2, front := front, back := back }

def orElse (a b : Option Hunk) : Option Hunk := match a with | some x => some x | none => b

/-- `Option::expect` -/
def expect {α : Type} (o : Option α) (msg : String) : M α :=
  match o with
  | some x => .ok x
  | none => .error msg

/-- what one group of intersecting hunks contributes -/
structure Section where
  pieces : List Piece          -- `out` after the section
  upTo : Nat                  -- `ancestor_integrated_until`
  conflict : Bool              -- `resolution = Resolution::Conflict` was executed
  deriving DecidableEq, Repr

/-- `(our_hunks, their_hunks)` by `filled_hunks_side` -/
def oursTheirs (side : Side) (filled intersecting : List Hunk) : M (List Hunk × List Hunk) :=
  match side with
  | .current => .ok (filled, intersecting)
  | .other => .ok (intersecting, filled)
  | .ancestor => .error "internal error: entered unreachable code: initial hunks are never ancestors"

/-- `match style { Merge | ZealousDiff3 => zealously_contract_hunks(…), Diff3 => (Vec::new(), 0) }` -/
def contractFor (inp : Input) (style : Style) (filled intersecting : List Hunk) : M Contracted :=
  match style with
  | .merge | .zdiff3 => zealouslyContract inp filled intersecting
  | .diff3 => .ok { a := filled, b := intersecting, front := [], back := [] }

/-- the part of the `Conflict::Keep` arm between the leading and the trailing common hunks:
(`out` afterwards, whether `resolution = Resolution::Conflict` was executed) -/
def keepMiddle (inp : Input) (labels : Labels) (style : Style) (markerSize : Nat) (out : List Piece)
    (integratedUntil : Nat) (front ourHunks theirHunks : List Hunk) (firstHunk lastHunk : Hunk) :
    M (List Piece × Bool) :=
  if theirHunks.isEmpty then do
    pure (out ++ (← writeHunks inp ourHunks), false)
  else if ourHunks.isEmpty then do
    pure (out ++ (← writeHunks inp theirHunks), false)
  else do
    let nl0 ← detectLineEnding inp
      (if front.isEmpty then
        [{ before := ⟨integratedUntil, firstHunk.before.start⟩, after := ⟨0, 0⟩, side := .ancestor }]
       else front)
    let nl ← match nl0 with
      | some nl => pure nl
      | none => do
        let r ← detectLineEnding inp ourHunks
        pure (r.getD nlLf)
    match style with
    | .merge =>
      if containsLines ourHunks || containsLines theirHunks then do
        let out := writeConflictMarker out 60 labels.current markerSize nl
        let out := out ++ (← writeHunks inp ourHunks)
        let out := writeConflictMarker out 61 none markerSize nl
        let out := out ++ (← writeHunks inp theirHunks)
        let out := writeConflictMarker out 62 labels.other markerSize nl
        pure (out, true)
      else pure (out, false)
    | .diff3 | .zdiff3 =>
      if containsLines ourHunks || containsLines theirHunks then
        if hunksDifferInDiff3 style inp ourHunks theirHunks then do
          let out := writeConflictMarker out 60 labels.current markerSize nl
          let out := out ++ (← writeHunks inp ourHunks)
          let ancestorHunk : Hunk :=
            { before := ⟨firstHunk.before.start, lastHunk.before.stop⟩, after := ⟨0, 0⟩, side := .ancestor }
          let ancestorNl ← detectLineEndingOrNl inp [ancestorHunk]
          let out := writeConflictMarker out 124 labels.ancestor markerSize ancestorNl
          let out := out ++ (← writeHunks inp [ancestorHunk])
          let out := writeConflictMarker out 61 none markerSize nl
          let out := out ++ (← writeHunks inp theirHunks)
          let out := writeConflictMarker out 62 labels.other markerSize nl
          pure (out, true)
        else do
          pure (out ++ (← writeHunks inp ourHunks), false)
      else pure (out, false)

/-- the `Conflict::Keep` arm for one group -/
def sectionKeep (inp : Input) (labels : Labels) (style : Style) (markerSize : Nat) (out : List Piece)
    (integratedUntil : Nat) (side : Side) (filled intersecting : List Hunk) : M Section := do
  let c ← contractFor inp style filled intersecting
  let (ourHunks, theirHunks) ← oursTheirs side c.a c.b
  let firstHunk ← expect (orElse (orElse (orElse c.front.head? ourHunks.head?) theirHunks.head?) c.back.head?)
    "at least one hunk to write"
  let lastHunk ← expect (orElse (orElse (orElse c.back.getLast? theirHunks.getLast?) ourHunks.getLast?) c.front.getLast?)
    "at least one hunk"
  let out := out ++ writeAncestor inp integratedUntil firstHunk.before.start
  let out := out ++ (← writeHunks inp c.front)
  let (out, conflict) ← keepMiddle inp labels style markerSize out integratedUntil c.front ourHunks theirHunks
    firstHunk lastHunk
  let out := out ++ (← writeHunks inp c.back)
  pure { pieces := out, upTo := lastHunk.before.stop, conflict := conflict }

/-- the `ResolveWithOurs | ResolveWithTheirs` arm -/
def sectionPick (inp : Input) (pickOurs : Bool) (out : List Piece) (integratedUntil : Nat) (side : Side)
    (filled intersecting : List Hunk) : M Section := do
  let (ourHunks, theirHunks) ← oursTheirs side filled intersecting
  let toWrite := if pickOurs then ourHunks else theirHunks
  let out := match toWrite.head? with
    | some first => out ++ writeAncestor inp integratedUntil first.before.start
    | none => out
  let out := out ++ (← writeHunks inp toWrite)
  let upTo := match toWrite.getLast? with
    | some last => last.before.stop
    | none => integratedUntil
  pure { pieces := out, upTo := upTo, conflict := false }

/-- the `ResolveWithUnion` arm -/
def sectionUnion (inp : Input) (out : List Piece) (integratedUntil : Nat) (side : Side)
    (filled intersecting : List Hunk) : M Section := do
  let c ← zealouslyContract inp filled intersecting
  let (ourHunks, theirHunks) ← oursTheirs side c.a c.b
  let firstHunk ← expect (orElse (orElse (orElse c.front.head? ourHunks.head?) theirHunks.head?) c.back.head?)
    "at least one hunk to write"
  let out := out ++ writeAncestor inp integratedUntil firstHunk.before.start
  let out := out ++ (← writeHunks inp c.front)
  let out ← if containsLines ourHunks || containsLines theirHunks || containsLines c.back then do
      pure (assureEndsWithNl out (← detectLineEndingOrNl inp c.front))
    else pure out
  let out := out ++ (← writeHunks inp ourHunks)
  let out ← if containsLines theirHunks || containsLines c.back then do
      pure (assureEndsWithNl out (← detectLineEndingOrNl inp ourHunks))
    else pure out
  let out := out ++ (← writeHunks inp theirHunks)
  let out ← if containsLines c.back then do
      pure (assureEndsWithNl out (← detectLineEndingOrNl inp theirHunks))
    else pure out
  let out := out ++ (← writeHunks inp c.back)
  let lastHunk ← expect (orElse (orElse (orElse c.back.getLast? theirHunks.getLast?) ourHunks.getLast?) c.front.getLast?)
    "at least one hunk"
  pure { pieces := out, upTo := lastHunk.before.stop, conflict := false }

/-- the body of `while let Some(hunk) = hunks.next()` for an intersecting group -/
def sectionFor (inp : Input) (labels : Labels) (conflict : Conflict) (out : List Piece) (integratedUntil : Nat)
    (hunk : Hunk) (intersecting0 : List Hunk) : M Section := do
  let intersecting ← fillAncestor hunk.before intersecting0
  let first ← expect intersecting.head? "at least one entry"
  let last ← expect intersecting.getLast? "at least one entry"
  let span := Range.mk first.before.start last.before.stop
  let filled ← fillAncestor span [hunk]
  match conflict with
  | .keep style markerSize => sectionKeep inp labels style markerSize out integratedUntil hunk.side filled intersecting
  | .ours => sectionPick inp true out integratedUntil hunk.side filled intersecting
  | .theirs => sectionPick inp false out integratedUntil hunk.side filled intersecting
  | .union => sectionUnion inp out integratedUntil hunk.side filled intersecting

/-- the main loop over the sorted hunks -/
def mergeLoop (inp : Input) (labels : Labels) (conflict : Conflict) :
    Nat → List Hunk → List Piece → Nat → Bool → M (List Piece × Nat × Bool)
  | 0, _, out, upTo, c => .ok (out, upTo, c)
  | _ + 1, [], out, upTo, c => .ok (out, upTo, c)
  | fuel + 1, hunk :: rest, out, upTo, c =>
    let (taken, remaining) := takeIntersecting hunk rest
    if !taken.isEmpty then do
      let s ← sectionFor inp labels conflict out upTo hunk taken
      mergeLoop inp labels conflict fuel remaining s.pieces s.upTo (c || s.conflict)
    else do
      let out := out ++ writeAncestor inp upTo hunk.before.start
      let out := out ++ (← writeHunks inp [hunk])
      mergeLoop inp labels conflict fuel remaining out hunk.before.stop c

/-- `merge` after the two diffs: `hunksA` are the hunks base→current, `hunksB` base→other -/
def merge (inp : Input) (labels : Labels) (conflict : Conflict) (hunksA hunksB : List (Range × Range)) :
    M (Resolution × List Piece) := do
  let hunks := hunksA.map (fun (b, a) => Hunk.mk b a .current) ++ hunksB.map (fun (b, a) => Hunk.mk b a .other)
  let sorted := sortByStart hunks
  let (out, upTo, c) ← mergeLoop inp labels conflict (sorted.length + 1) sorted [] 0 false
  let out := out ++ writeAncestor inp upTo inp.anc.length
  pure (if c then .conflict else .complete, out)

/-- `byte_lines_with_terminator` -/
def linesWithTerminator (bs : Bytes) : List Bytes :=
  go bs []
where
  go : Bytes → Bytes → List Bytes
    | [], acc => if acc.isEmpty then [] else [acc.reverse]
    | b :: rest, acc => if b == 10 then (b :: acc).reverse :: go rest [] else go rest (b :: acc)

/-! ### driver -/

def parseRange? (s : String) : Option Range :=
  match s.splitOn "-" with
  | [a, b] => do pure ⟨← a.toNat?, ← b.toNat?⟩
  | _ => none

def parseHunk? (s : String) : Option (Range × Range) :=
  match s.splitOn ":" with
  | [b, a] => do pure (← parseRange? b, ← parseRange? a)
  | _ => none

def parseHunks? (s : String) : Option (List (Range × Range)) :=
  if s == "-" then some [] else (s.splitOn ",").mapM parseHunk?

def parseMode? (s : String) : Option Conflict :=
  match s.splitOn ":" with
  | ["ours"] => some .ours
  | ["theirs"] => some .theirs
  | ["union"] => some .union
  | [st, n] => do
    let n ← n.toNat?
    let st ← match st with
      | "merge" => some Style.merge | "diff3" => some .diff3 | "zdiff3" => some .zdiff3 | _ => none
    pure (.keep st n)
  | _ => none

def parseLabel? (s : String) : Option (Option Bytes) :=
  if s == "none" then some none else (bytesOfHex s).map some

def handle? : List String → Option String
  | ["merge", mode, la, lc, lo, base, ours, theirs, ha, hb] => do
    let mode ← parseMode? mode
    let labels : Labels := { ancestor := ← parseLabel? la, current := ← parseLabel? lc, other := ← parseLabel? lo }
    let inp : Input := { anc := linesWithTerminator (← bytesOfHex base), cur := linesWithTerminator (← bytesOfHex ours),
                         oth := linesWithTerminator (← bytesOfHex theirs) }
    let ha ← parseHunks? ha
    let hb ← parseHunks? hb
    match merge inp labels mode ha hb with
    | .error _ => some "panic"
    | .ok (.complete, ps) => some s!"complete {hexOfBytes (render ps)}"
    | .ok (.conflict, ps) => some s!"conflict {hexOfBytes (render ps)}"
  | _ => none

def handle (args : List String) : String := (handle? args).getD "bad-op"

end GixModel.C45
