import GixModel.Model.C38Core
/-
C39 — model of gitoxide's pathspec parsing and selection.

Rust functions modelled (all in /repo, gix-pathspec/src):
  parse.rs    Pattern::from_bytes (default `Defaults`), parse_short_keywords, parse_long_keywords,
              split_on_non_escaped_char, parse_attributes, unescape_attribute_values,
              unescape_and_check_attr_value, check_attribute_value
  pattern.rs  Pattern::normalize (empty prefix, relative paths: `Path::components`, gix_path::normalize),
              is_excluded, always_matches
  search/init.rs      mapping_from_pattern, common_prefix_len, Search::from_specs (stable sort: excludes first)
  search/mod.rs       Search::common_prefix
  search/matching.rs  Search::pattern_matching_relative_path, match_verbatim
and gix_glob::parse::pattern (first wildcard position) / Pattern::matches_repo_relative_path (the
MUST_BE_DIR guard; the wildcard match itself is a PARAMETER).

Parameters (an `Env`):
  `wm text value pathname icase` — `gix_glob::wildmatch(text, value, mode)` with
      `mode = (NO_MATCH_SLASH_LITERAL if pathname) | (IGNORE_CASE if icase)`; wildcard matching is
      property C36 (incl. that `Pattern::matches`' shortcuts equal it); the driver gets the real verdicts.
  `attr path name` — the slot of attribute `name` after `Stack::at_entry(path).matching_attributes`
      (`none` = no line decided it, `some .unspecified` = `!name`): property C38.
-/
namespace GixModel.C39
open GixModel GixModel.C38

inductive Mode where
  | shell | literal | glob
  deriving DecidableEq, Repr

/-- `gix_pathspec::Pattern` -/
structure PSpec where
  path : Bytes
  top : Bool
  icase : Bool
  exclude : Bool
  mustBeDir : Bool
  mode : Mode
  attrs : List Asg
  nil : Bool
  deriving DecidableEq, Repr

def PSpec.default : PSpec := ⟨[], false, false, false, false, Mode.shell, [], false⟩

/-- `MagicSignature::bits()` -/
def PSpec.sigBits (s : PSpec) : Nat :=
  (if s.top then 1 else 0) + (if s.icase then 2 else 0) + (if s.exclude then 4 else 0) + (if s.mustBeDir then 8 else 0)

structure Env where
  wm : Bytes → Bytes → Bool → Bool → Bool
  attr : Bytes → Bytes → Option St

/-! ### parse -/

/-- `"#%&'-,;<=>@_`~` — punctuation git reserves for future short magic -/
def unimplementedChars : Bytes := [34, 35, 37, 38, 39, 45, 44, 59, 60, 61, 62, 64, 95, 96, 126]

/-- `parse_short_keywords` on the bytes after the leading `:`: `(top, exclude, rest)` or `none` for
`Error::Unimplemented` -/
def parseShort : Bytes → Bool → Bool → Option (Bool × Bool × Bytes)
  | [], t, e => some (t, e, [])
  | b :: rest, t, e =>
    if b == 47 then parseShort rest true e
    else if b == 94 || b == 33 then parseShort rest t true
    else if b == 58 then some (t, e, rest)
    else if unimplementedChars.contains b then none
    else some (t, e, b :: rest)

/-- `split_on_non_escaped_char(.., b',', ..)`: a comma splits unless the byte before it is a backslash -/
def splitKwAux : UInt8 → Bytes → Bytes → List Bytes
  | _, acc, [] => [acc.reverse]
  | prev, acc, b :: rest =>
    if b == 44 && prev != 92 then acc.reverse :: splitKwAux b [] rest else splitKwAux b (b :: acc) rest

def splitKw (s : Bytes) : List Bytes := splitKwAux 0 [] s

/-- `is_valid_attr_value` -/
def validValueByte (b : UInt8) : Bool :=
  (48 ≤ b && b ≤ 57) || (65 ≤ b && b ≤ 90) || (97 ≤ b && b ≤ 122) || b == 44 || b == 45 || b == 95

/-- `unescape_and_check_attr_value` -/
def unescapeValue : Bytes → Option Bytes
  | [] => some []
  | 92 :: [] => none
  | 92 :: c :: rest => if validValueByte c then (unescapeValue rest).map (c :: ·) else none
  | b :: rest => if validValueByte b then (unescapeValue rest).map (b :: ·) else none

def splitOnSpace : Bytes → Bytes → List Bytes
  | acc, [] => [acc.reverse]
  | acc, b :: rest => if b == 32 then acc.reverse :: splitOnSpace [] rest else splitOnSpace (b :: acc) rest

/-- one space-separated element of `unescape_attribute_values` -/
def unescapeToken (tok : Bytes) : Option Bytes :=
  if tok.contains 61 then
    let name := tok.takeWhile (· != 61) ++ [61]
    let value := (tok.dropWhile (· != 61)).drop 1
    if value.contains 92 then (unescapeValue value).map (name ++ ·)
    else if value.all validValueByte then some tok else none
  else some tok

def joinSpace : List Bytes → Bytes
  | [] => []
  | t :: rest => t ++ [32] ++ joinSpace rest

/-- `unescape_attribute_values` (up to the number of separating spaces, which the following
tokenisation ignores) -/
def unescapeAttrValues (input : Bytes) : Option Bytes :=
  if !input.contains 61 then some input
  else (allSome ((splitOnSpace [] input).map unescapeToken)).map joinSpace

/-- `parse_attributes` -/
def parseAttributes (input : Bytes) : Option (List Asg) :=
  if input.isEmpty then none else
  match unescapeAttrValues input with
  | none => none
  | some u =>
    if (splitOnSpace [] u).any (fun t => (t.head? == some 33 || t.head? == some 45) && t.contains 61) then none
    else parseAttrs u

def attrPrefix : Bytes := [97, 116, 116, 114, 58]   -- "attr:"

/-- the closure of `parse_long_keywords` for one keyword -/
def applyKeyword (p : PSpec) (kw : Bytes) : Option PSpec :=
  if kw == [] then some p
  else if kw == [97, 116, 116, 114] then some p
  else if kw == [116, 111, 112] then some { p with top := true }
  else if kw == [105, 99, 97, 115, 101] then some { p with icase := true }
  else if kw == [101, 120, 99, 108, 117, 100, 101] then some { p with exclude := true }
  else if kw == [108, 105, 116, 101, 114, 97, 108] then
    (if p.mode = Mode.glob then none else some { p with mode := Mode.literal })
  else if kw == [103, 108, 111, 98] then
    (if p.mode = Mode.literal then none else some { p with mode := Mode.glob })
  else if attrPrefix.isPrefixOf kw then
    (if p.attrs.isEmpty then (parseAttributes (kw.drop attrPrefix.length)).map fun as => { p with attrs := as }
     else none)
  else none

def applyKeywords : PSpec → List Bytes → Option PSpec
  | p, [] => some p
  | p, kw :: rest => match applyKeyword p kw with
    | none => none
    | some p' => applyKeywords p' rest

/-- `parse_long_keywords` on the bytes after `(`: the spec and the bytes after the first `)` -/
def parseLong (p : PSpec) (afterParen : Bytes) : Option (PSpec × Bytes) :=
  if !afterParen.contains 41 then none else
  let kws := afterParen.takeWhile (· != 41)
  let rest := (afterParen.dropWhile (· != 41)).drop 1
  if kws.isEmpty then some (p, rest)
  else (applyKeywords p (splitKw kws)).map fun p' => (p', rest)

/-- what follows the short keywords: the long form if a `(` comes next -/
def afterShort (p : PSpec) (rest : Bytes) : Option (PSpec × Bytes) :=
  match rest with
  | 40 :: after => parseLong p after
  | _ => some (p, rest)

/-- the magic signature: the spec so far and the bytes of the path part -/
def parseMagic (input : Bytes) : Option (PSpec × Bytes) :=
  match input with
  | 58 :: rest =>
    match parseShort rest false false with
    | none => none
    | some (t, e, rest') => afterShort { PSpec.default with top := t, exclude := e } rest'
  | _ => some (PSpec.default, input)

/-- the path part: a trailing slash becomes MUST_BE_DIR -/
def finishSpec (p : PSpec) (path : Bytes) : PSpec :=
  if path.getLast? == some 47 then { p with mustBeDir := true, path := path.dropLast } else { p with path := path }

/-- `Pattern::from_bytes` with default `Defaults`; `none` = any `parse::Error` -/
def parseSpec (input : Bytes) : Option PSpec :=
  if input.isEmpty then none
  else if input == [58] then some { PSpec.default with nil := true }
  else (parseMagic input).map fun r => finishSpec r.1 r.2

/-! ### normalize (empty prefix) -/

def splitSlashAux : Bytes → Bytes → List Bytes
  | acc, [] => [acc.reverse]
  | acc, b :: rest => if b == 47 then acc.reverse :: splitSlashAux [] rest else splitSlashAux (b :: acc) rest

/-- `Path::components()` of a relative path: no empty pieces -/
def components (p : Bytes) : List Bytes := (splitSlashAux [] p).filter fun c => !c.isEmpty

def joinSlash : List Bytes → Bytes
  | [] => []
  | [c] => c
  | c :: rest => c ++ [47] ++ joinSlash rest

/-- resolve `..` against what is there; `none` when there is nothing left to pop -/
def resolveDots : List Bytes → List Bytes → Option (List Bytes)
  | acc, [] => some acc.reverse
  | acc, c :: rest =>
    if c == [46, 46] then
      match acc with
      | [] => none
      | _ :: acc' => resolveDots acc' rest
    else if c == [46] then resolveDots acc rest
    else resolveDots (c :: acc) rest

/-- `Pattern::normalize(prefix = "", root)` for a path that is not inside `root` when absolute:
`none` = `normalize::Error` -/
def normalize (s : PSpec) : Option PSpec :=
  if s.path.head? == some 47 then none
  else
    let comps := components s.path
    match resolveDots [] comps with
    | none => none
    | some cs =>
      if cs.isEmpty && !comps.isEmpty then some { s with path := [46], nil := true }
      else some { s with path := joinSlash cs }

/-! ### Search -/

/-- `pattern::Mapping<Spec>`: the spec and the first wildcard position of its glob -/
structure Mapping where
  spec : PSpec
  fwp : Option Nat
  deriving Repr

def toMapping (s : PSpec) : Mapping := ⟨s, firstWildcardPos s.path⟩

/-- `patterns.sort_by(excluded first)` — stable -/
def sortExcluded (ms : List Mapping) : List Mapping :=
  ms.filter (fun m => m.spec.exclude) ++ ms.filter (fun m => !m.spec.exclude)

/-- length of the common prefix of two byte strings, looking at no more than `n` bytes -/
def commonLen : Nat → Bytes → Bytes → Nat
  | 0, _, _ => 0
  | _ + 1, [], _ => 0
  | _ + 1, _, [] => 0
  | n + 1, a :: as, b :: bs => if a == b then commonLen n as bs + 1 else 0

def Mapping.always (m : Mapping) : Bool := m.spec.nil || m.spec.path.isEmpty

def literalLen (m : Mapping) : Nat :=
  if m.spec.icase then 0 else if m.always then 0 else m.fwp.getD m.spec.path.length

/-- `common_prefix_len` -/
def commonPrefixLen (ms : List Mapping) : Nat :=
  match ms.filter (fun m => !m.spec.exclude) with
  | [] => 0
  | base :: others =>
    let len := (base :: others).foldl (fun acc m => min acc (literalLen m)) (literalLen base)
    if len == 0 then 0
    else others.foldl (fun acc m => min acc (commonLen acc base.spec.path m.spec.path)) len

structure Search where
  patterns : List Mapping
  allExcluded : Bool
  commonPrefixLen : Nat
  deriving Repr

/-- `Search::from_specs(specs, None, root)`; `none` = a spec could not be normalised -/
def fromSpecs (specs : List PSpec) : Option Search :=
  (allSome (specs.map normalize)).map fun ns =>
    let ms := sortExcluded (ns.map toMapping)
    { patterns := ms, allExcluded := ms.all (fun m => m.spec.exclude), commonPrefixLen := commonPrefixLen ms }

/-- `Search::common_prefix` -/
def Search.commonPrefix (s : Search) : Bytes :=
  match s.patterns.find? (fun m => !m.spec.exclude) with
  | none => []
  | some m => m.spec.path.take s.commonPrefixLen

/-- `match_verbatim` -/
def matchVerbatim (m : Mapping) (path : Bytes) (isDir : Bool) : Bool :=
  let plen := m.spec.path.length
  let slashAt : Bool := path[plen]? == some 47
  let allowed : Bool := match path[plen]? with
    | none => path.length == plen
    | some _ => slashAt
  let req : Bool := !m.spec.mustBeDir || (slashAt || isDir)
  if allowed && req then
    (if m.spec.icase then eqIgnoreCase m.spec.path (path.take plen) else m.spec.path == path.take plen)
  else false

/-- the glob branch: `matches_repo_relative_path` then the verbatim fallback -/
def matchGlob (env : Env) (m : Mapping) (path : Bytes) (isDir pathname : Bool) : Bool :=
  let g := if !isDir && m.spec.mustBeDir then false else env.wm m.spec.path path pathname m.spec.icase
  if g then true else matchVerbatim m path isDir

def pathMatch (env : Env) (m : Mapping) (path : Bytes) (isDir : Bool) : Bool :=
  if m.always then true
  else if m.fwp.isNone then matchVerbatim m path isDir
  else match m.spec.mode with
    | Mode.shell => matchGlob env m path isDir false
    | Mode.literal => matchVerbatim m path isDir
    | Mode.glob => matchGlob env m path isDir true

/-- the attribute filter of one mapping -/
def attrsMatch (env : Env) (m : Mapping) (path : Bytes) : Bool :=
  if m.spec.attrs.isEmpty then true
  else if !(m.spec.attrs.any fun a => (env.attr path a.name).isSome) then
    -- the callback reported "nothing matched": every attribute is unspecified
    !(m.spec.attrs.any fun a => a.st != St.unspecified)
  else m.spec.attrs.all fun a => (env.attr path a.name).getD St.unspecified == a.st

/-- the closure of `find_map`: does this mapping yield a `Match`? -/
def mappingMatches (env : Env) (m : Mapping) (path : Bytes) (isDir : Bool) : Bool :=
  -- the `ignore_case && !prefix.is_empty()` guard never fires: the prefix directory is empty
  pathMatch env m path isDir && attrsMatch env m path

/-- is `path` selected: there is a first match and it is not an exclude (or nothing matched and all
patterns are excludes) — without looking at the common prefix -/
def selectNoShortcut (env : Env) (s : Search) (path : Bytes) (isDir : Bool) : Bool :=
  match s.patterns.find? (fun m => mappingMatches env m path isDir) with
  | some m => !m.spec.exclude
  | none => s.allExcluded

/-- `Search::pattern_matching_relative_path(path, Some(isDir), attrs).map_or(false, |m| !m.is_excluded())` -/
def select (env : Env) (s : Search) (path : Bytes) (isDir : Bool) : Bool :=
  if path.isEmpty then true
  else if path.take s.commonPrefixLen != s.commonPrefix || path.length < s.commonPrefixLen then false
  else selectNoShortcut env s path isDir

end GixModel.C39
