import GixModel.Basic.Dec
import GixModel.Extracted.ZlibConsts
/-
C56 — streaming compression and hashing.  Shared with C11 (loose objects), which imports this file.

Rust code modelled (all in /repo):
  gix_features::zlib::stream::deflate::Write::{write_inner, write, flush}   gix-features/src/zlib/stream/deflate/mod.rs
  gix_features::zlib::Inflate::once                                         gix-features/src/zlib/mod.rs
  gix_features::zlib::stream::inflate::read                                 gix-features/src/zlib/stream/inflate.rs
  gix_features::hash::{Hasher(update/digest), Write, bytes_with_hasher}     gix-features/src/hash.rs
  gix_object::{compute_hash, compute_stream_hash}, encode::loose_header     gix-object/src/{lib.rs,encode.rs}
  std::io::Write::write_all (default method, used by every caller of the writers)

EXTERNAL and therefore PARAMETERS (never axioms):
  * `flate2::Compress` / `flate2::Decompress`  →  `Compressor` / `Decompressor` (opaque state + one
    step function). Their contract is `Lemmas.C56.ZlibOk` (named hypotheses).
  * the SHA-1 block function                    →  `BlockFn`.
The Lean driver instantiates them with a stored-block (uncompressed) deflate codec (`Stored`) and a
complete executable SHA-1 (`sha1Block`), so that the same loops run.

Outcomes: `IoRes.err` is a Rust `Err`, `IoRes.panic` is a Rust panic (slice index out of range,
`unreachable!`), `IoRes.outOfFuel` is an artefact of the fuelled loops (theorems show it cannot
occur with the fuel the callers pass).
-/
namespace GixModel.C56
open GixModel

/-! ## the external codec: one call of `Compress::compress` / `Decompress::decompress` -/

/-- `flate2::Status` -/
inductive Status | ok | bufError | streamEnd
  deriving DecidableEq, Repr, Inhabited

/-- `flate2::FlushCompress` as used by gitoxide (`None` for `write`, `Finish` for `flush`) -/
inductive Flush | none | finish
  deriving DecidableEq, Repr

/-- what one call did: new state, bytes of input consumed (`total_in` delta), bytes written to the
output slice (`total_out` delta), status -/
structure Step (σ : Type) where
  state : σ
  consumed : Nat
  produced : Bytes
  status : Status

/-- `flate2::Compress`: `compress state input outCap flush`; `none` = `Err(CompressError)` -/
structure Compressor where
  σ : Type
  init : σ
  compress : σ → Bytes → Nat → Flush → Option (Step σ)

/-- `flate2::Decompress`: `decompress state input outCap finish`; `none` = `Err(DecompressError)`.
`finish` is `FlushDecompress::Finish` (else `None`). -/
structure Decompressor where
  σ : Type
  init : σ
  decompress : σ → Bytes → Nat → Bool → Option (Step σ)

inductive IoRes (α : Type) where
  | ok (a : α)
  | err
  | panic
  | outOfFuel
  deriving Repr

/-! ## `deflate::Write` -/

/-- `const BUF_SIZE: usize = 4096 * 8` — taken from the source on every run (Extracted/ZlibConsts.lean) -/
def BUF_SIZE : Nat := Extracted.deflateBufSize

/-- `deflate::Write<W>` with `W` a byte sink that never fails (`Vec<u8>`; a file that accepts all
writes): `inner` is everything handed to `inner.write_all` so far. `totalIn/totalOut` are the
compressor's `total_in()/total_out()` counters the loop reads. -/
structure Writer (σ : Type) where
  comp : σ
  totalIn : Nat
  totalOut : Nat
  inner : Bytes

def Writer.new (C : Compressor) : Writer C.σ := { comp := C.init, totalIn := 0, totalOut := 0, inner := [] }

/-- `write_inner(&mut self, buf, flush)`; `start` is `total_in_when_start`. -/
def writeInner (C : Compressor) : Nat → Writer C.σ → Nat → Bytes → Flush → IoRes (Writer C.σ × Nat)
  | 0, _, _, _, _ => .outOfFuel
  | fuel + 1, w, start, buf, fl =>
    let lastTotalIn := w.totalIn
    let lastTotalOut := w.totalOut
    match C.compress w.comp buf BUF_SIZE fl with
    | none => .err
    | some r =>
      let written := r.produced.length
      if written > BUF_SIZE then .panic            -- `&self.buf[..written]`
      else
        let w' : Writer C.σ :=
          { comp := r.state, totalIn := w.totalIn + r.consumed, totalOut := w.totalOut + written,
            inner := if written > 0 then w.inner ++ r.produced else w.inner }
        match r.status with
        | .streamEnd => .ok (w', w'.totalIn - start)
        | _ =>
          let consumed := w'.totalIn - lastTotalIn
          if consumed > buf.length then .panic     -- `&buf[consumed..]`
          else if w'.totalOut > lastTotalOut then writeInner C fuel w' start (buf.drop consumed) fl
          else if w'.totalIn > lastTotalIn then writeInner C fuel w' start (buf.drop consumed) fl
          else .ok (w', w'.totalIn - start)

/-- `<deflate::Write as io::Write>::write` -/
def Writer.write (C : Compressor) (fuel : Nat) (w : Writer C.σ) (buf : Bytes) : IoRes (Writer C.σ × Nat) :=
  writeInner C fuel w w.totalIn buf .none

/-- `<deflate::Write as io::Write>::flush` -/
def Writer.flush (C : Compressor) (fuel : Nat) (w : Writer C.σ) : IoRes (Writer C.σ) :=
  match writeInner C fuel w w.totalIn [] .finish with
  | .ok (w', _) => .ok w'
  | .err => .err
  | .panic => .panic
  | .outOfFuel => .outOfFuel

/-- `std::io::Write::write_all` (default method) over any `write`: loop until the buffer is empty,
`Ok(0)` is `ErrorKind::WriteZero`. Fuel: one unit per iteration; `buf.length + 1` always suffices
because every iteration removes at least one byte. -/
def writeAllWith {S : Type} (write : S → Bytes → IoRes (S × Nat)) : Nat → S → Bytes → IoRes S
  | 0, _, _ => .outOfFuel
  | fuel + 1, s, buf =>
    if buf.isEmpty then .ok s
    else match write s buf with
      | .ok (s', n) =>
        if n = 0 then .err
        else if n > buf.length then .panic       -- `&buf[n..]`
        else writeAllWith write fuel s' (buf.drop n)
      | .err => .err
      | .panic => .panic
      | .outOfFuel => .outOfFuel

def writeAll {S : Type} (write : S → Bytes → IoRes (S × Nat)) (s : S) (buf : Bytes) : IoRes S :=
  writeAllWith write (buf.length + 1) s buf

/-! ## `Inflate::once` and `inflate::read` -/

/-- `zlib::Inflate` = the decompressor state (its `total_in/out` counters are only used for deltas) -/
def inflateOnce (D : Decompressor) (s : D.σ) (input : Bytes) (outCap : Nat) : Option (Step D.σ) :=
  D.decompress s input outCap false

/-- A `BufRead`: the chunks `fill_buf` will return, in order (all non-empty); `&[u8]` is one chunk. -/
abbrev BufRead := List Bytes

def BufRead.fillBuf : BufRead → Bytes
  | [] => []
  | c :: _ => c

/-- `consume(n)`; `none` = the panic of slicing past the end of the current buffer -/
def BufRead.consume : BufRead → Nat → Option BufRead
  | [], n => if n = 0 then some [] else none
  | c :: rest, n =>
    if n > c.length then none
    else if n = c.length then some rest
    else some (c.drop n :: rest)

structure ReadOut (σ : Type) where
  state : σ
  rd : BufRead
  /-- what was written to the front of `dst` -/
  out : Bytes
  deriving Repr

/-- `inflate::read(rd, state, dst)`: `dstLen` is `dst.len()`, `acc` what has been written so far
(`total_written = acc.length`). Fuel: every `continue` consumed or produced something. -/
def inflateReadLoop (D : Decompressor) : Nat → D.σ → BufRead → Nat → Bytes → IoRes (ReadOut D.σ)
  | 0, _, _, _, _ => .outOfFuel
  | fuel + 1, s, rd, dstLen, acc =>
    let input := rd.fillBuf
    let eof := input.isEmpty
    match D.decompress s input dstLen eof with
    | none => .err                                   -- "corrupt deflate stream"
    | some r =>
      let written := r.produced.length
      if written > dstLen then .panic                -- `&mut dst[written..]`
      else match rd.consume r.consumed with
        | none => .panic
        | some rd' =>
          let acc' := acc ++ r.produced
          let dstLen' := dstLen - written
          match r.status with
          | .streamEnd => .ok { state := r.state, rd := rd', out := acc' }
          | _ =>
            if eof || dstLen' = 0 then .ok { state := r.state, rd := rd', out := acc' }
            else if r.consumed ≠ 0 || written ≠ 0 then inflateReadLoop D fuel r.state rd' dstLen' acc'
            else .panic                              -- `unreachable!("Definitely a bug somewhere")`

def BufRead.total (rd : BufRead) : Nat := (rd.map List.length).sum

def inflateRead (D : Decompressor) (s : D.σ) (rd : BufRead) (dstLen : Nat) : IoRes (ReadOut D.σ) :=
  inflateReadLoop D (rd.total + dstLen + 2) s rd dstLen []

/-! ## SHA-1: streaming wrapper around an external block function -/

structure H5 where
  a : UInt32
  b : UInt32
  c : UInt32
  d : UInt32
  e : UInt32
  deriving DecidableEq, Repr

/-- the SHA-1 compression function: chaining value × 64-byte block → chaining value -/
abbrev BlockFn := H5 → Bytes → H5

def H5.init : H5 := ⟨0x67452301, 0xEFCDAB89, 0x98BADCFE, 0x10325476, 0xC3D2E1F0⟩

/-- `Hasher`: chaining value, the not yet compressed tail (< 64 bytes), bytes compressed so far -/
structure Sha1 where
  h : H5
  pending : Bytes
  len : Nat
  deriving DecidableEq, Repr

def Sha1.new : Sha1 := { h := H5.init, pending := [], len := 0 }

/-- compress all complete 64-byte blocks at the front of `buf`; returns the chaining value and the
incomplete tail. Fuel `buf.length / 64 + 1` suffices. -/
def blocks (f : BlockFn) : Nat → H5 → Bytes → H5 × Bytes
  | 0, h, buf => (h, buf)
  | fuel + 1, h, buf =>
    let blk := buf.take 64
    if blk.length < 64 then (h, buf) else blocks f fuel (f h blk) (buf.drop 64)

/-- `Hasher::update` -/
def Sha1.update (f : BlockFn) (s : Sha1) (data : Bytes) : Sha1 :=
  let buf := s.pending ++ data
  let n := buf.length
  let r := blocks f (n / 64 + 1) s.h buf
  { h := r.1, pending := r.2, len := s.len + (n - r.2.length) }

def be32 (x : UInt32) : Bytes :=
  [(x >>> 24).toUInt8, (x >>> 16).toUInt8, (x >>> 8).toUInt8, x.toUInt8]

def be64 (n : Nat) : Bytes :=
  [UInt8.ofNat (n / 2 ^ 56), UInt8.ofNat (n / 2 ^ 48), UInt8.ofNat (n / 2 ^ 40), UInt8.ofNat (n / 2 ^ 32),
   UInt8.ofNat (n / 2 ^ 24), UInt8.ofNat (n / 2 ^ 16), UInt8.ofNat (n / 2 ^ 8), UInt8.ofNat n]

def H5.bytes (h : H5) : Bytes := be32 h.a ++ be32 h.b ++ be32 h.c ++ be32 h.d ++ be32 h.e

/-- `Hasher::digest`: the padding (0x80, zeros, 64-bit big-endian bit length) and one or two final
blocks -/
def Sha1.digest (f : BlockFn) (s : Sha1) : Bytes :=
  let bits := (s.len + s.pending.length) * 8
  let blocklen := s.pending.length
  if blocklen < 56 then
    (f s.h (s.pending ++ [0x80] ++ List.replicate (55 - blocklen) 0 ++ be64 bits)).bytes
  else
    let last := s.pending ++ [0x80] ++ List.replicate (119 - blocklen) 0 ++ be64 bits
    (f (f s.h (last.take 64)) (last.drop 64)).bytes

/-! ### the complete SHA-1 block function used by the driver -/

def rotl (x : UInt32) (n : UInt32) : UInt32 := (x <<< n) ||| (x >>> (32 - n))

def wordsOfBlock : Bytes → List UInt32
  | a :: b :: c :: d :: rest =>
    ((a.toUInt32 <<< 24) ||| (b.toUInt32 <<< 16) ||| (c.toUInt32 <<< 8) ||| d.toUInt32) :: wordsOfBlock rest
  | _ => []

/-- message schedule kept as the last 16 words (most recent first); 80 rounds -/
def sha1Rounds : Nat → Nat → List UInt32 → List UInt32 → H5 → H5
  | 0, _, _, _, v => v
  | n + 1, t, upcoming, hist, v =>
    -- `upcoming`: message words not yet used (rounds 0..15); `hist`: previous words, newest first
    let w : UInt32 :=
      match upcoming with
      | x :: _ => x
      | [] => rotl (hist.getD 2 0 ^^^ hist.getD 7 0 ^^^ hist.getD 13 0 ^^^ hist.getD 15 0) 1
    let fk : UInt32 × UInt32 :=
      if t < 20 then ((v.b &&& v.c) ||| ((~~~ v.b) &&& v.d), 0x5A827999)
      else if t < 40 then (v.b ^^^ v.c ^^^ v.d, 0x6ED9EBA1)
      else if t < 60 then ((v.b &&& v.c) ||| (v.b &&& v.d) ||| (v.c &&& v.d), 0x8F1BBCDC)
      else (v.b ^^^ v.c ^^^ v.d, 0xCA62C1D6)
    let tmp := rotl v.a 5 + fk.1 + v.e + fk.2 + w
    sha1Rounds n (t + 1) upcoming.tail ((w :: hist).take 16) ⟨tmp, v.a, rotl v.b 30, v.c, v.d⟩

def sha1Block : BlockFn := fun h blk =>
  let v := sha1Rounds 80 0 (wordsOfBlock blk) [] h
  ⟨h.a + v.a, h.b + v.b, h.c + v.c, h.d + v.d, h.e + v.e⟩

/-! ## gitoxide's hashing entry points -/

inductive Kind | tree | blob | commit | tag
  deriving Repr, DecidableEq

def Kind.bytes : Kind → Bytes
  | .tree => [116, 114, 101, 101]
  | .blob => [98, 108, 111, 98]
  | .commit => [99, 111, 109, 109, 105, 116]
  | .tag => [116, 97, 103]

/-- `gix_object::encode::loose_header` -/
def looseHeader (k : Kind) (size : Nat) : Bytes := k.bytes ++ [32] ++ natDec size ++ [0]

/-- `gix_object::compute_hash` -/
def computeHash (f : BlockFn) (k : Kind) (data : Bytes) : Bytes :=
  ((Sha1.new.update f (looseHeader k data.length)).update f data).digest f

/-- `const BUF_SIZE: usize = u16::MAX as usize` in `bytes_with_hasher` — taken from the source on every
run (Extracted/ZlibConsts.lean) -/
def HASH_BUF_SIZE : Nat := Extracted.hashBufSize

/-- `gix_features::hash::bytes_with_hasher(read, num_bytes_from_start, hasher, ..)` with the reader
abstracted to the bytes it will deliver (`read_exact` fails with `UnexpectedEof` when fewer than
requested are left); `should_interrupt` is never set. Fuel: one unit per 65535-byte round. -/
def bytesWithHasher (f : BlockFn) : Nat → Sha1 → Bytes → Nat → IoRes Bytes
  | 0, _, _, _ => .outOfFuel
  | fuel + 1, s, stream, bytesLeft =>
    if bytesLeft = 0 then .ok (s.digest f)
    else
      let n := min HASH_BUF_SIZE bytesLeft
      let out := stream.take n
      if out.length < n then .err
      else bytesWithHasher f fuel (s.update f out) (stream.drop n) (bytesLeft - n)

/-- `gix_object::compute_stream_hash` -/
def computeStreamHash (f : BlockFn) (k : Kind) (stream : Bytes) (streamLen : Nat) : IoRes Bytes :=
  bytesWithHasher f (streamLen + 1) (Sha1.new.update f (looseHeader k streamLen)) stream streamLen

/-- `hash::Write<T>`: the hasher plus the inner writer's state -/
structure HashWrite (S : Type) where
  hash : Sha1
  inner : S

/-- `<hash::Write<T> as io::Write>::write`: `written = inner.write(buf)?; hash.update(&buf[..written])` -/
def HashWrite.write {S : Type} (f : BlockFn) (innerWrite : S → Bytes → IoRes (S × Nat))
    (hw : HashWrite S) (buf : Bytes) : IoRes (HashWrite S × Nat) :=
  match innerWrite hw.inner buf with
  | .ok (s', written) =>
    if written > buf.length then .panic            -- `&buf[..written]`
    else .ok ({ hash := hw.hash.update f (buf.take written), inner := s' }, written)
  | .err => .err
  | .panic => .panic
  | .outOfFuel => .outOfFuel

/-- a `Vec<u8>`-like inner writer that accepts at most `maxWrite` bytes per call (0 = everything);
the sink is kept as the list of accepted pieces, newest first -/
def sinkWrite (maxWrite : Nat) (s : List Bytes) (buf : Bytes) : IoRes (List Bytes × Nat) :=
  let n := if maxWrite = 0 then buf.length else min maxWrite buf.length
  .ok (buf.take n :: s, n)

def sinkContent (s : List Bytes) : Bytes := s.reverse.flatten

/-! ## the stored-block codec the driver runs (an *instance* of the external parameters) -/

namespace Stored

def adlerStep (ab : Nat × Nat) (x : UInt8) : Nat × Nat :=
  let a := (ab.1 + x.toNat) % 65521
  (a, (ab.2 + a) % 65521)

def adler (ab : Nat × Nat) (bs : Bytes) : Nat × Nat := bs.foldl adlerStep ab

def adlerBytes (ab : Nat × Nat) : Bytes :=
  [UInt8.ofNat (ab.2 / 256), UInt8.ofNat ab.2, UInt8.ofNat (ab.1 / 256), UInt8.ofNat ab.1]

structure CState where
  hdrDone : Bool
  ad : Nat × Nat
  ended : Bool
  deriving Repr

def MAX_BLOCK : Nat := 65535

def blockHeader (final : Bool) (n : Nat) : Bytes :=
  [if final then 1 else 0, UInt8.ofNat n, UInt8.ofNat (n / 256), UInt8.ofNat (255 - n % 256), UInt8.ofNat (255 - n / 256)]

/-- how many bytes of the input one call turns into a block: what fits the output slice next to the zlib header,
the block header and the end-of-stream marker (16 bytes of framing at most) -/
def takeN (inp : Bytes) (cap : Nat) : Nat := min inp.length (min MAX_BLOCK (cap - 16))

/-- the call ends the stream: `Finish`, all input taken, a slice that holds the framing -/
def isFin (inp : Bytes) (cap : Nat) (fl : Flush) : Bool :=
  decide (fl = .finish) && decide (takeN inp cap = inp.length) && decide (16 ≤ cap)

/-- one call of the stored-block compressor on a stream that has not ended: the zlib header on the first call, up
to `takeN` bytes of input as ONE non-final stored block (never an empty one), and — on `Finish` with all input taken —
the final empty block and the Adler-32; everything produced fits the output slice, nothing is queued -/
def stepOf (s : CState) (inp : Bytes) (cap : Nat) (fl : Flush) : Step CState :=
  { state := { hdrDone := true, ad := adler s.ad (inp.take (takeN inp cap)), ended := isFin inp cap fl },
    consumed := takeN inp cap,
    produced := (if s.hdrDone then [] else [0x78, 0x01]) ++
      (if takeN inp cap = 0 then [] else blockHeader false (takeN inp cap) ++ inp.take (takeN inp cap)) ++
      (if isFin inp cap fl then blockHeader true 0 ++ adlerBytes (adler s.ad (inp.take (takeN inp cap))) else []),
    status := if isFin inp cap fl then .streamEnd
              else if takeN inp cap = 0 && s.hdrDone then .bufError else .ok }

def compress (s : CState) (inp : Bytes) (cap : Nat) (fl : Flush) : Option (Step CState) :=
  if s.ended then
    (if fl = .finish then some { state := s, consumed := 0, produced := [], status := .streamEnd } else none)
  else some (stepOf s inp cap fl)

def compressor : Compressor :=
  { σ := CState, init := { hdrDone := false, ad := (1, 0), ended := false }, compress := compress }

/-- fuel for `writeInner` with this compressor: every progressing call takes input or emits the header -/
def fuelFor (_w : Writer CState) (inputLen : Nat) : Nat := inputLen + 3

inductive Phase
  | hdr0 | hdr1 (cmf : UInt8)
  | blockHdr (got : Bytes)
  | data (remaining : Nat) (final : Bool)
  | trailer (got : Bytes)
  | done
  deriving Repr, DecidableEq

structure DState where
  phase : Phase
  ad : Nat × Nat
  /-- no call has been made yet -/
  fresh : Bool := false
  deriving Repr

/-- the byte-level inflater for streams made of stored blocks only; greedy like zlib: runs until the
input is exhausted or it needs room in the output. Returns `none` on a malformed stream (and on
non-stored block types, which this instance does not implement). `acc` is the output so far. -/
def run : Nat → DState → Bytes → Nat → Nat → Bytes → Option (DState × Nat × Bytes)
  | 0, s, _, _, consumed, acc => some (s, consumed, acc)
  | fuel + 1, s, inp, room, consumed, acc =>
    match s.phase with
    | .done => some (s, consumed, acc)
    | .data remaining final =>
      if remaining = 0 then
        run fuel { s with phase := if final then .trailer [] else .blockHdr [] } inp room consumed acc
      else
        let n := min remaining (min inp.length room)
        if n = 0 then some (s, consumed, acc)
        else
          let chunk := inp.take n
          run fuel { phase := .data (remaining - n) final, ad := adler s.ad chunk } (inp.drop n) (room - n)
            (consumed + n) (acc ++ chunk)
    | ph =>
      match inp with
      | [] => some (s, consumed, acc)
      | x :: rest =>
        match ph with
        | .hdr0 =>
          if x &&& 0x0f = 8 && x >>> 4 ≤ 7 then run fuel { s with phase := .hdr1 x } rest room (consumed + 1) acc
          else none
        | .hdr1 cmf =>
          if (cmf.toNat * 256 + x.toNat) % 31 = 0 && x &&& 0x20 = 0 then
            run fuel { s with phase := .blockHdr [] } rest room (consumed + 1) acc
          else none
        | .blockHdr got =>
          let got' := got ++ [x]
          if got'.length < 5 then
            (if got.isEmpty && (x >>> 1) &&& 3 ≠ 0 then none
             else run fuel { s with phase := .blockHdr got' } rest room (consumed + 1) acc)
          else
            let b0 := got'.getD 0 0
            let len := (got'.getD 1 0).toNat + 256 * (got'.getD 2 0).toNat
            let nlen := (got'.getD 3 0).toNat + 256 * (got'.getD 4 0).toNat
            if len + nlen ≠ 65535 then none
            else run fuel { s with phase := .data len (b0 &&& 1 = 1) } rest room (consumed + 1) acc
        | .trailer got =>
          let got' := got ++ [x]
          if got'.length < 4 then run fuel { s with phase := .trailer got' } rest room (consumed + 1) acc
          else if got' = adlerBytes s.ad then run fuel { s with phase := .done } rest room (consumed + 1) acc
          else none
        | _ => some (s, consumed, acc)

/-- with `Finish` an unfinished stream is an error — except on the very first call, which reports
`BufError` (both as in miniz_oxide: its first-call-with-Finish path maps "not done" to `MZError::Buf`,
later calls fail in the core with "cannot make progress") -/
def decompress (s : DState) (inp : Bytes) (cap : Nat) (finish : Bool) : Option (Step DState) :=
  match run (2 * inp.length + 8) { s with fresh := false } inp cap 0 [] with
  | none => none
  | some (s', consumed, out) =>
    if finish && s'.phase ≠ .done then
      (if s.fresh then some { state := s', consumed := consumed, produced := out, status := .bufError } else none)
    else
    some { state := s', consumed := consumed, produced := out,
           status := if s'.phase = .done then .streamEnd
                     else if consumed = 0 && out.isEmpty then .bufError else .ok }

def decompressor : Decompressor :=
  { σ := DState, init := { phase := .hdr0, ad := (1, 0), fresh := true }, decompress := decompress }

end Stored

/-! ## driver -/

/-- deterministic data generator shared with the harness: `mode 0` LCG bytes, `mode 1` a repeating
text-like pattern with an LCG byte every 13th position, `mode 2` zeros -/
def genBytes (mode : Nat) (seed : UInt64) (n : Nat) : Bytes :=
  go n seed 0 []
where
  go : Nat → UInt64 → Nat → Bytes → Bytes
    | 0, _, _, acc => acc.reverse
    | k + 1, x, i, acc =>
      let x' := x * 6364136223846793005 + 1442695040888963407
      let b : UInt8 :=
        if mode = 0 then (x' >>> 56).toUInt8
        else if mode = 1 then (if i % 13 = 12 then (x' >>> 56).toUInt8 else UInt8.ofNat (97 + i % 7))
        else 0
      go k x' (i + 1) (b :: acc)

/-- tail-recursive hex decoding (streams of tens of kilobytes arrive in hex) -/
def hexToBytes (s : String) : Option Bytes :=
  if s == "-" then some [] else go s.toList []
where
  go : List Char → Bytes → Option Bytes
    | [], acc => some acc.reverse
    | [_], _ => none
    | a :: b :: rest, acc =>
      match hexVal a, hexVal b with
      | some x, some y => go rest (UInt8.ofNat (x * 16 + y) :: acc)
      | _, _ => none

/-- `g<mode>:<seed>:<len>` or hex -/
def parseData? (s : String) : Option Bytes :=
  match s.splitOn ":" with
  | [g, seed, len] =>
    if g == "g0" || g == "g1" || g == "g2" then do
      let seed ← seed.toNat?
      let len ← len.toNat?
      some (genBytes (if g == "g0" then 0 else if g == "g1" then 1 else 2) (UInt64.ofNat seed) len)
    else none
  | [h] => hexToBytes h
  | _ => none

def parseNats? (s : String) : Option (List Nat) :=
  if s == "-" then some [] else (s.splitOn ",").mapM String.toNat?

def parseKind? : String → Option Kind
  | "tree" => some .tree | "blob" => some .blob | "commit" => some .commit | "tag" => some .tag
  | _ => none

/-- cut `data` into pieces of the given sizes (a size larger than what is left takes the rest; sizes
after the data ran out give empty pieces); whatever remains is one final piece -/
def splitBy : List Nat → Bytes → List Bytes
  | [], data => if data.isEmpty then [] else [data]
  | n :: ns, data => data.take n :: splitBy ns (data.drop n)

def sha1Hex (bs : Bytes) : String := hexOfBytes ((Sha1.new.update sha1Block bs).digest sha1Block)

def showNats (ns : List Nat) : String := if ns.isEmpty then "-" else ",".intercalate (ns.map toString)

def statusStr : Status → String
  | .ok => "ok" | .bufError => "buf" | .streamEnd => "end"

/-- the harness' write loop: call `write` on each piece, re-offering what a short write left over,
recording every return value -/
def driveWrites (C : Compressor) (fuelOf : Writer C.σ → Nat → Nat) :
    Nat → Writer C.σ → List Bytes → List Nat → Option (Writer C.σ × List Nat)
  | 0, _, _, _ => none
  | _ + 1, w, [], rets => some (w, rets.reverse)
  | fuel + 1, w, piece :: more, rets =>
    match Writer.write C (fuelOf w piece.length) w piece with
    | .ok (w', n) =>
      if n < piece.length ∧ n > 0 then driveWrites C fuelOf fuel w' (piece.drop n :: more) (n :: rets)
      else if n < piece.length then none
      else driveWrites C fuelOf fuel w' more (n :: rets)
    | _ => none

def handleDeflate (data : Bytes) (sizes : List Nat) : String :=
  let pieces := splitBy sizes data
  let C := Stored.compressor
  match driveWrites C Stored.fuelFor (data.length + pieces.length + 1) (Writer.new C) pieces [] with
  | none => "write-failed"
  | some (w, rets) =>
    match Writer.flush C (Stored.fuelFor w 0) w with
    | .ok w' =>
      match inflateRead Stored.decompressor Stored.decompressor.init [w'.inner] (data.length + 1) with
      | .ok r => s!"w={showNats rets} flush=ok rt={if r.out = data then "same" else "DIFFERENT"} len={r.out.length} sha1={sha1Hex r.out}"
      | _ => s!"w={showNats rets} flush=ok rt=inflate-failed"
    | _ => s!"w={showNats rets} flush=err"

/-- `write_all` of every piece in turn into a `hash::Write` over the inner writer `innerWrite` -/
def hashWritePieces {S : Type} (f : BlockFn) (innerWrite : S → Bytes → IoRes (S × Nat)) (hw : HashWrite S)
    (pieces : List Bytes) : IoRes (HashWrite S) :=
  pieces.foldl (fun acc piece =>
    match acc with
    | IoRes.ok hw => writeAll (HashWrite.write f innerWrite) hw piece
    | e => e) (IoRes.ok hw)

/-- `hash::Write` over a sink accepting at most `maxWrite` bytes per call, driven like `write_all` -/
def hashWriteAll (f : BlockFn) (maxWrite : Nat) (hw : HashWrite (List Bytes)) (pieces : List Bytes) :
    IoRes (HashWrite (List Bytes)) :=
  hashWritePieces f (sinkWrite maxWrite) hw pieces

def handle? : List String → Option String
  | ["deflate", data, sizes] => do
    let data ← parseData? data
    let sizes ← parseNats? sizes
    some (handleDeflate data sizes)
  | ["deflatesw", data, sizes, _maxWrite] => do
    -- `deflate::Write` over an inner writer that accepts at most `maxWrite` bytes per call: `write_inner` hands every
    -- batch to `inner.write_all`, and `write_all` over a prefix-accepting writer delivers the whole batch
    -- (Props.C56.inner_write_all_independent), so the model's sink is the same as for `deflate`
    let data ← parseData? data
    let sizes ← parseNats? sizes
    let _ ← _maxWrite.toNat?
    some (handleDeflate data sizes)
  | ["hash", kind, data, sizes, maxWrite] => do
    let kind ← parseKind? kind
    let data ← parseData? data
    let sizes ← parseNats? sizes
    let maxWrite ← maxWrite.toNat?
    let one := computeHash sha1Block kind data
    let streamed := match computeStreamHash sha1Block kind data data.length with
      | .ok d => hexOfBytes d
      | _ => "err"
    let written := match hashWriteAll sha1Block maxWrite { hash := Sha1.new, inner := [] }
        (looseHeader kind data.length :: splitBy sizes data) with
      | .ok hw => s!"{hexOfBytes (hw.hash.digest sha1Block)} sink={sha1Hex (sinkContent hw.inner)}"
      | _ => "err"
    some s!"one={hexOfBytes one} stream={streamed} write={written}"
  | ["streamhash", kind, declared, data] => do
    let kind ← parseKind? kind
    let declared ← declared.toNat?
    let data ← parseData? data
    some (match computeStreamHash sha1Block kind data declared with
      | .ok d => hexOfBytes d
      | .err => "err"
      | .panic => "panic"
      | .outOfFuel => "out-of-fuel")
  | ["once", z, cap] => do
    let z ← parseData? z
    let cap ← cap.toNat?
    some (match inflateOnce Stored.decompressor Stored.decompressor.init z cap with
      | none => "err"
      | some r => s!"st={statusStr r.status} out={hexOfBytes r.produced}")
  | ["read", z, chunks, dstLen] => do
    let z ← parseData? z
    let chunks ← parseNats? chunks
    let dstLen ← dstLen.toNat?
    let rd := (splitBy chunks z).filter (fun c => !c.isEmpty)
    some (match inflateRead Stored.decompressor Stored.decompressor.init rd dstLen with
      | .ok r => s!"n={r.out.length} sha1={sha1Hex r.out}"
      | .err => "err"
      | .panic => "panic"
      | .outOfFuel => "out-of-fuel")
  | _ => none

def handle (args : List String) : String := (handle? args).getD "bad-op"

end GixModel.C56
