import GixModel.Model.C56
/-
C11 — loose objects: written by gitoxide, read back; truncated files.

Rust code modelled (all in /repo):
  gix_odb::loose::Store::{write, write_buf, write_stream, dest, finalize_object}   gix-odb/src/store_impls/loose/write.rs
  gix_odb::loose::Store::{find_inner (try_find), try_header}, hash_path           gix-odb/src/store_impls/loose/{find.rs,mod.rs}
  gix_object::decode::loose_header, Kind::from_bytes                              gix-object/src/{lib.rs,kind.rs}
  gix_utils::btoi::{to_signed, to_unsigned} at u64                                gix-utils/src/btoi.rs
and, from Model/C56.lean, the writers they are built from (`hash::Write<deflate::Write<file>>`,
`write_all`) and `Inflate::once`.

`find_inner` is the code AFTER the /repo fixes (the remainder is inflated in a loop until `StreamEnd`;
nothing derived from the advertised size can overflow or index out of bounds); `findInnerBefore` keeps the earlier code (one `inflate::read` into an exactly sized
buffer, no end-of-stream check) to state what was wrong with it.

zlib is the external parameter of Model/C56.lean (`Compressor`/`Decompressor`), SHA-1's block function
is `BlockFn`. The file system is reduced to "the file at `dir/file` has `content`"; tempfile creation,
`create_dir` and `persist` (rename) are not modelled. u64 arithmetic that would overflow is a `panic`
(the harness is built with overflow checks, as debug builds are).
-/
namespace GixModel.C11
open GixModel GixModel.C56

/-- `const HEADER_MAX_SIZE: usize = 64` — from the source on every run -/
def HEADER_MAX_SIZE : Nat := Extracted.looseHeaderMaxSize

/-- `const BUF_SIZE: usize = 256` in `try_header` — from the source on every run -/
def TRY_HEADER_BUF_SIZE : Nat := Extracted.looseTryHeaderBufSize

/-! ## `decode::loose_header` -/

def isDigit10 (b : UInt8) : Bool := 48 ≤ b && b ≤ 57

/-- `btoi::to_unsigned::<u64>`: non-empty, all decimal digits, every step checked against u64 -/
def parseU64Go : Nat → Bytes → Option Nat
  | acc, [] => some acc
  | acc, b :: rest =>
    if !isDigit10 b then none
    else if acc * 10 ≥ 2 ^ 64 then none
    else if acc * 10 + (b.toNat - 48) ≥ 2 ^ 64 then none
    else parseU64Go (acc * 10 + (b.toNat - 48)) rest

def parseU64 (bs : Bytes) : Option Nat := if bs.isEmpty then none else parseU64Go 0 bs

/-- `btoi::to_signed::<u64>`: `+digits` is `to_unsigned`, `-digits` computes `0 - d` with checked
subtraction (so only `-0`, `-00`, … succeed) -/
def parseSize (bs : Bytes) : Option Nat :=
  match bs with
  | [] => none
  | b :: rest =>
    if b = 43 then parseU64 rest
    else if b = 45 then (if rest.isEmpty then none else if rest.all (· == 48) then some 0 else none)
    else parseU64 (b :: rest)

def kindOfBytes (bs : Bytes) : Option Kind :=
  if bs = Kind.tree.bytes then some .tree
  else if bs = Kind.blob.bytes then some .blob
  else if bs = Kind.commit.bytes then some .commit
  else if bs = Kind.tag.bytes then some .tag
  else none

def findByte (b : UInt8) : Bytes → Option Nat
  | [] => none
  | x :: rest => if x == b then some 0 else (findByte b rest).map (· + 1)

/-- `decode::loose_header(input)` → `(kind, size, header_size)`; `none` = `Err` -/
def decodeLooseHeader (input : Bytes) : Option (Kind × Nat × Nat) :=
  match findByte 32 input with
  | none => none
  | some kindEnd =>
    match kindOfBytes (input.take kindEnd) with
    | none => none
    | some kind =>
      match findByte 0 input with
      | none => none
      | some sizeEnd =>
        -- `&input[kind_end + 1..size_end]`: `size_end > kind_end` always holds here because the
        -- kind bytes contain no NUL and `input[kind_end]` is a space
        match parseSize ((input.take sizeEnd).drop (kindEnd + 1)) with
        | none => none
        | some size => some (kind, size, sizeEnd + 1)

/-! ## `find_inner`, `try_header` -/

inductive FindErr | decompress | sizeMismatch | decode | outOfMemory
  deriving DecidableEq, Repr

inductive FindRes where
  | ok (kind : Kind) (data : Bytes)
  | err (e : FindErr)
  | panic
  | outOfFuel
  deriving DecidableEq, Repr

inductive RestRes where
  | ok (out : Bytes)
  | err (e : FindErr)
  | panic
  | outOfFuel
  deriving DecidableEq, Repr

/-- the loop added by the fix: inflate the remainder with all input and all output space at hand
until `StreamEnd`; `Ok` without progress or `BufError` is an error. `acc` is everything inflated so
far (the 64 header-buffer bytes included), the result is everything inflated. Fuel: one unit per
iteration, each of which consumes or produces at least one byte. -/
def inflateRest (D : Decompressor) : Nat → D.σ → Bytes → Nat → Bytes → RestRes
  | 0, _, _, _, _ => .outOfFuel
  | fuel + 1, s, input, room, acc =>
    match inflateOnce D s input room with
    | none => .err .decompress
    | some r =>
      if r.consumed > input.length then .panic             -- `&input[input_pos..]`
      else if r.produced.length > room then .panic          -- `&mut output[output_pos..]`
      else match r.status with
        | .streamEnd => .ok (acc ++ r.produced)
        | .ok =>
          if r.consumed ≠ 0 || r.produced.length ≠ 0 then
            inflateRest D fuel r.state (input.drop r.consumed) (room - r.produced.length) (acc ++ r.produced)
          else .err .decompress
        | .bufError => .err .decompress

/-- `loose::Store::find_inner` on a file with content `file` — the code after both fixes: cbe15c1bf (inflate the
remainder until `StreamEnd`) and the hardening of everything derived from the advertised size (checked
additions, "more inflated than advertised" is `SizeMismatch`, `try_reserve_exact` instead of an aborting
allocation). Allocations below `isize::MAX` are assumed to succeed. -/
def findInner (D : Decompressor) (file : Bytes) : FindRes :=
  match inflateOnce D D.init file HEADER_MAX_SIZE with
  | none => .err .decompress
  | some r1 =>
    if r1.status = .bufError then .err .decompress
    else match decodeLooseHeader r1.produced with
      | none => .err .decode
      | some (kind, size, headerSize) =>
        if size + headerSize ≥ 2 ^ 64 then .err .outOfMemory                -- `size.checked_add(header_size)`
        else if r1.status = .streamEnd then
          if r1.produced.length ≠ size + headerSize then .err .sizeMismatch
          else .ok kind (r1.produced.drop headerSize)
        else
          if r1.produced.length > size + headerSize then .err .sizeMismatch  -- more inflated than advertised
          else if file.length + size + headerSize ≥ 2 ^ 63 then .err .outOfMemory  -- checked_add / try_reserve_exact
          else if r1.consumed > file.length then .panic                    -- `&input[consumed_in..]`
          else
            match inflateRest D (file.length + size + headerSize + 2) r1.state (file.drop r1.consumed)
                (size + headerSize - r1.produced.length) r1.produced with
            | .panic => .panic
            | .outOfFuel => .outOfFuel
            | .err e => .err e
            | .ok out =>
              if out.length ≠ size + headerSize then .err .sizeMismatch
              else .ok kind (out.drop headerSize)

/-- `find_inner` after cbe15c1bf but BEFORE the hardening: unchecked `size + header_size`, and
`&mut output[consumed_out..]` panics when the header advertises less than was already inflated -/
def findInnerUnhardened (D : Decompressor) (file : Bytes) : FindRes :=
  match inflateOnce D D.init file HEADER_MAX_SIZE with
  | none => .err .decompress
  | some r1 =>
    if r1.status = .bufError then .err .decompress
    else match decodeLooseHeader r1.produced with
      | none => .err .decode
      | some (kind, size, headerSize) =>
        if size + headerSize ≥ 2 ^ 64 then .panic                       -- `size + header_size as u64`
        else if r1.status = .streamEnd then
          if r1.produced.length ≠ size + headerSize then .err .sizeMismatch
          else .ok kind (r1.produced.drop headerSize)
        else
          if file.length + size + headerSize ≥ 2 ^ 63 then .panic       -- u64 overflow / `Vec` capacity overflow
          else if r1.consumed > file.length then .panic                  -- `&input[consumed_in..]`
          else if r1.produced.length > size + headerSize then .panic     -- `&mut output[consumed_out..]`
          else
            match inflateRest D (file.length + size + headerSize + 2) r1.state (file.drop r1.consumed)
                (size + headerSize - r1.produced.length) r1.produced with
            | .panic => .panic
            | .outOfFuel => .outOfFuel
            | .err e => .err e
            | .ok out =>
              if out.length ≠ size + headerSize then .err .sizeMismatch
              else .ok kind (out.drop headerSize)

/-- `find_inner` BEFORE the fix: the remainder goes through `inflate::read` into a buffer of exactly
the advertised size, and only the byte count is checked -/
def findInnerBefore (D : Decompressor) (file : Bytes) : FindRes :=
  match inflateOnce D D.init file HEADER_MAX_SIZE with
  | none => .err .decompress
  | some r1 =>
    if r1.status = .bufError then .err .decompress
    else match decodeLooseHeader r1.produced with
      | none => .err .decode
      | some (kind, size, headerSize) =>
        if size + headerSize ≥ 2 ^ 64 then .panic
        else if r1.status = .streamEnd then
          if r1.produced.length ≠ size + headerSize then .err .sizeMismatch
          else .ok kind (r1.produced.drop headerSize)
        else
          if file.length + size + headerSize ≥ 2 ^ 63 then .panic
          else if r1.consumed > file.length then .panic
          else if r1.produced.length > size + headerSize then .panic
          else
            let rest := file.drop r1.consumed
            match inflateRead D r1.state (if rest.isEmpty then [] else [rest]) (size + headerSize - r1.produced.length) with
            | .ok r =>
              if r.out.length + r1.produced.length ≠ size + headerSize then .err .sizeMismatch
              else .ok kind ((r1.produced ++ r.out).drop headerSize)
            | .err => .err .decompress
            | .panic => .panic
            | .outOfFuel => .outOfFuel

inductive HeaderRes where
  | ok (size : Nat) (kind : Kind)
  | err (e : FindErr)
  deriving DecidableEq, Repr

/-- the part of `try_header` after the `read`: `compressed` is what the read delivered -/
def tryHeaderOn (D : Decompressor) (compressed : Bytes) : HeaderRes :=
  match inflateOnce D D.init compressed (TRY_HEADER_BUF_SIZE - compressed.length) with
  | none => .err .decompress
  | some r =>
    if r.status = .bufError then .err .decompress
    else match decodeLooseHeader r.produced with
      | none => .err .decode
      | some (kind, size, _) => .ok size kind

/-- `loose::Store::try_header`: one `read` of at most `BUF_SIZE - HEADER_MAX_SIZE` bytes (a regular
file delivers `min` of that and its length), inflated once into the rest of the 256-byte buffer -/
def tryHeader (D : Decompressor) (file : Bytes) : HeaderRes :=
  tryHeaderOn D (file.take (TRY_HEADER_BUF_SIZE - HEADER_MAX_SIZE))

/-! ## writing -/

def hexDigitByte (n : Nat) : UInt8 := if n < 10 then UInt8.ofNat (48 + n) else UInt8.ofNat (87 + n)

def hexBytes (id : Bytes) : Bytes :=
  id.flatMap fun b => [hexDigitByte (b.toNat / 16), hexDigitByte (b.toNat % 16)]

/-- `hash_path(id, root)`: `root/<first two hex digits>/<the rest>` -/
def hashPath (id : Bytes) : Bytes × Bytes := ((hexBytes id).take 2, (hexBytes id).drop 2)

structure Written where
  id : Bytes
  dir : Bytes
  file : Bytes
  content : Bytes
  deriving DecidableEq, Repr

/-- `dest()` … `finalize_object()`: a `hash::Write<deflate::Write<tempfile>>`, every piece goes through
`write_all`, then `flush`; the id is the hasher's digest, the tempfile is renamed to `hash_path(id)`.
`write_buf(kind, data)` is `pieces = [loose_header(kind, data.len()), data]`; `write_stream` and the
typed `write` hand over the body in whatever pieces `io::copy` / `WriteTo::write_to` produce. -/
def storeWrite (C : Compressor) (f : BlockFn) (fuelW : Writer C.σ → Bytes → Nat) (fuelF : Writer C.σ → Nat)
    (pieces : List Bytes) : IoRes Written :=
  match hashWritePieces f (fun w buf => Writer.write C (fuelW w buf) w buf)
      { hash := Sha1.new, inner := Writer.new C } pieces with
  | .ok hw =>
    match Writer.flush C (fuelF hw.inner) hw.inner with
    | .ok w' =>
      let id := hw.hash.digest f
      .ok { id := id, dir := (hashPath id).1, file := (hashPath id).2, content := w'.inner }
    | .err => .err
    | .panic => .panic
    | .outOfFuel => .outOfFuel
  | .err => .err
  | .panic => .panic
  | .outOfFuel => .outOfFuel

/-! ## driver -/

def kindStr : Kind → String
  | .tree => "tree" | .blob => "blob" | .commit => "commit" | .tag => "tag"

def findResStr : FindRes → String
  | .ok k d => s!"ok:{kindStr k}:{d.length}:{sha1Hex d}"
  | .err _ => "err"
  | .panic => "panic"
  | .outOfFuel => "out-of-fuel"

def headerResStr : HeaderRes → String
  | .ok n k => s!"ok:{n}:{kindStr k}"
  | .err _ => "err"

def handleWrite (kind : Kind) (data : Bytes) (sizes : List Nat) : String :=
  let pieces := looseHeader kind data.length :: splitBy sizes data
  match storeWrite Stored.compressor sha1Block (fun w b => Stored.fuelFor w b.length)
      (fun w => Stored.fuelFor w 0) pieces with
  | .ok w =>
    s!"id={hexOfBytes w.id} path={String.ofList (w.dir.map fun b => Char.ofNat b.toNat)}/{String.ofList (w.file.map fun b => Char.ofNat b.toNat)} find={findResStr (findInner Stored.decompressor w.content)} header={headerResStr (tryHeader Stored.decompressor w.content)}"
  | _ => "write-failed"

def handle? : List String → Option String
  | ["write", kind, data, sizes] => do
    let kind ← parseKind? kind
    let data ← parseData? data
    let sizes ← parseNats? sizes
    some (handleWrite kind data sizes)
  | ["wtyped", kind, data] => do
    let kind ← parseKind? kind
    let data ← parseData? data
    some (handleWrite kind data [])
  | ["find", z] => do
    let z ← parseData? z
    some s!"find={findResStr (findInner Stored.decompressor z)} header={headerResStr (tryHeader Stored.decompressor z)}"
  | ["findc", z] => do
    let z ← parseData? z
    some s!"find={findResStr (findInner Stored.decompressor z)}"
  | ["findold", z] => do
    let z ← parseData? z
    some s!"find={findResStr (findInnerBefore Stored.decompressor z)}"
  | ["decode", h] => do
    let h ← parseData? h
    some (match decodeLooseHeader h with
      | none => "err"
      | some (k, n, hs) => s!"{kindStr k} {n} {hs}")
  | _ => none

def handle (args : List String) : String := (handle? args).getD "bad-op"

end GixModel.C11
