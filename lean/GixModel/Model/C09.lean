import GixModel.Basic.Hex
/-
C09 — model of pack index (`.idx`) and multi-pack index writing and lookup.

Rust functions modelled (all under /repo/gix-pack/src):
  index::encode::fanout                                   index/encode.rs        → `fanout`
  index::encode::write_to   (tables + 31-bit offset split)index/encode.rs        → `build`, `encodeOffsets`, `encodeBody`
  index::write (`items.sort_by_key(|e| e.data.id)`)       index/write/mod.rs     → `sortById`
  index::init::File::at_inner, read_fan                   index/init.rs          → `File.at`, `File.validate`
  index::access::{lookup, lookup_prefix}   (free fns)     index/access.rs        → `lookupWith`, `lookupPrefixWith`
  index::File::{oid_at_index, pack_offset_at_index, pack_offset_from_offset_v2,
                crc32_at_index, iter}                     index/access.rs        → `File.*`, `Idx.*`
  gix_hash::Prefix::{new, cmp_oid}                        gix-hash/src/prefix.rs → `Prefix.new`, `Prefix.cmpOid`
  multi_index::write (collect, sort, dedup)               multi_index/write.rs   → `midxBuild`
  multi_index::chunk::{offsets::write, large_offsets::*}  multi_index/chunk.rs   → `midxOffsets`, `numLargeOffsets`
  multi_index::File::{lookup, lookup_prefix,
                pack_id_and_pack_offset_at_index}         multi_index/access.rs  → `Midx.*`

Conventions: `Option α` is used as the *panic monad*: `none` = the Rust code panics at this point
(slice index out of bounds, `unreachable!`, `assert!`, `expect`, overflow of `lower + upper` in
u32 under overflow checks) or — for the fuelled loops — the fuel ran out. "Never panics" is a
theorem (`Props.C09`), not an artefact. The closures `oid_at_index` the Rust lookup functions take
are the parameter `oidAt : Nat → Option Bytes` here; it is instantiated with the mid-level table
(`ids[i]?`) and with the byte-level file (`File.oidAt`).
-/
namespace GixModel.C09
open GixModel

/-! ### ordering of ids -/

/-- `<[u8] as Ord>::cmp`: lexicographic, a proper prefix is smaller -/
def cmpBytes : Bytes → Bytes → Ordering
  | [], [] => .eq
  | [], _ :: _ => .lt
  | _ :: _, [] => .gt
  | a :: as, b :: bs =>
    if a.toNat < b.toNat then .lt else if b.toNat < a.toNat then .gt else cmpBytes as bs

def cmpNat (a b : Nat) : Ordering := if a < b then .lt else if b < a then .gt else .eq

/-! ### the writer: sorting, fan-out, offset split -/

structure Entry where
  id : Bytes
  offset : Nat   -- u64
  crc : Nat      -- u32
  deriving Repr, DecidableEq

/-- stable insertion: `e` goes before the first element whose id is not smaller -/
def insertById (e : Entry) : List Entry → List Entry
  | [] => [e]
  | x :: xs => if cmpBytes e.id x.id = .gt then x :: insertById e xs else e :: x :: xs

/-- `items.sort_by_key(|e| e.data.id)` (a stable sort) -/
def sortById (es : List Entry) : List Entry := es.foldr insertById []

/-- `iter.find(|(_, first_byte)| *first_byte != byte)` on the enumerated iterator whose next index
is `pos`: the found element (with its index) and the iterator state after it. -/
def findNe (byte : Nat) : Nat → List UInt8 → Option (Nat × UInt8) × Nat × List UInt8
  | pos, [] => (none, pos, [])
  | pos, fb :: rest => if fb.toNat ≠ byte then (some (pos, fb), pos + 1, rest) else findNe byte (pos + 1) rest

/-- the `for (offset_be, byte) in fan_out.iter_mut().zip(0u8..=255)` loop of `fanout`;
`k` = iterations left, `cur` = `idx_and_entry`, `(pos, rest)` = the enumerated iterator,
`ub` = `upper_bound`, `n` = `entries_len`. `none` = `unreachable!()`. -/
def fanLoop (n : Nat) : Nat → Nat → Option (Nat × UInt8) → Nat → List UInt8 → Nat → Option (List Nat)
  | 0, _, _, _, _, _ => some []
  | k + 1, byte, cur, pos, rest, ub =>
    match cur with
    | none => (fanLoop n k (byte + 1) none pos rest ub).map (n :: ·)
    | some (i, fb) =>
      if fb.toNat < byte then none
      else if byte < fb.toNat then (fanLoop n k (byte + 1) (some (i, fb)) pos rest ub).map (ub :: ·)
      else if byte = 255 then (fanLoop n k (byte + 1) (some (i, fb)) pos rest ub).map (n :: ·)
      else
        let r := findNe byte pos rest
        let ub' := match r.1 with
          | some (idx, _) => idx
          | none => n
        (fanLoop n k (byte + 1) r.1 r.2.1 r.2.2 ub').map (ub' :: ·)

/-- `index::encode::fanout` over the first bytes of the sorted ids -/
def fanout (firstBytes : List UInt8) : Option (List Nat) :=
  match firstBytes with
  | [] => fanLoop 0 256 0 none 0 [] 0
  | fb :: rest => fanLoop firstBytes.length 256 0 (some (0, fb)) 1 rest 0

def HIGH_BIT : Nat := 0x80000000
def LARGE_OFFSET_THRESHOLD : Nat := 0x7fffffff
def U32 : Nat := 4294967296

/-- the offsets loop of `write_to`: 31-bit offsets verbatim, larger ones escape into the 64-bit
table (`o64`, accumulated) as `index | HIGH_BIT`; the `assert!` on the table size is a panic. -/
def encodeOffsets : List Nat → List Nat → Option (List Nat × List Nat)
  | [], o64 => some ([], o64)
  | o :: rest, o64 =>
    if o > LARGE_OFFSET_THRESHOLD then
      if o64.length < LARGE_OFFSET_THRESHOLD then
        (encodeOffsets rest (o64 ++ [o])).map fun r => ((o64.length % U32 ||| HIGH_BIT) :: r.1, r.2)
      else none
    else (encodeOffsets rest o64).map fun r => (o % U32 :: r.1, r.2)

/-- The tables of a V2 index (also what the reader sees of a V1 index, `crcs = []` there). -/
structure Idx where
  fan : List Nat
  ids : List Bytes
  crcs : List Nat
  ofs32 : List Nat
  ofs64 : List Nat
  deriving Repr, DecidableEq

def firstBytes (ids : List Bytes) : Option (List UInt8) := ids.mapM (·.head?)

/-- `write_data_iter_to_stream` after traversal + `encode::write_to`: sort, fan-out, tables.
(`assert!(len <= u32::MAX)` included.) -/
def build (es : List Entry) : Option Idx := do
  let s := sortById es
  if s.length > 4294967295 then none
  let fbs ← firstBytes (s.map (·.id))
  let fan ← fanout fbs
  let (o32, o64) ← encodeOffsets (s.map (·.offset)) []
  some { fan := fan, ids := s.map (·.id), crcs := s.map (·.crc), ofs32 := o32, ofs64 := o64 }

/-! ### the readers' shared lookup functions (`index::access::{lookup, lookup_prefix}`) -/

/-- `lower_bound`/`upper_bound` from the fan-out table -/
def fanBounds (fan : List Nat) (firstByte : Nat) : Option (Nat × Nat) := do
  let hi ← fan[firstByte]?
  let lo ← if firstByte ≠ 0 then fan[firstByte - 1]? else some 0
  some (lo, hi)

/-- `while lower_bound < upper_bound { let mid = (lower_bound + upper_bound) / 2; … }` — the
midpoint is computed in u32 (overflow = panic under overflow checks); `c m` is
`target.cmp(mid_sha)`; returns the `mid` at which `Equal` was seen. -/
def bisect (c : Bytes → Option Ordering) (oidAt : Nat → Option Bytes) :
    Nat → Nat → Nat → Option (Option Nat)
  | 0, lo, hi => if lo < hi then none else some none
  | fuel + 1, lo, hi =>
    if lo < hi then
      if lo + hi < U32 then
        let mid := (lo + hi) / 2
        match oidAt mid with
        | none => none
        | some m =>
          match c m with
          | none => none
          | some .lt => bisect c oidAt fuel lo mid
          | some .eq => some (some mid)
          | some .gt => bisect c oidAt fuel (mid + 1) hi
      else none
    else some none

/-- `index::access::lookup` -/
def lookupWith (fan : List Nat) (oidAt : Nat → Option Bytes) (id : Bytes) : Option (Option Nat) := do
  let fb ← id.head?
  let (lo, hi) ← fanBounds fan fb.toNat
  bisect (fun m => some (cmpBytes id m)) oidAt (hi - lo) lo hi

/-- `gix_hash::Prefix`: a full-length id with everything behind the prefix zeroed + hex length -/
structure Prefix where
  bytes : Bytes
  hexLen : Nat
  deriving Repr, DecidableEq

/-- `Prefix::new(id, hex_len)`; `none` = `Err(TooLong | TooShort)` (no panics for a real id) -/
def Prefix.new (id : Bytes) (hexLen : Nat) : Option Prefix :=
  if hexLen > 2 * id.length then none
  else if hexLen < 4 then none
  else
    let half := hexLen / 2
    let mid : Bytes := if hexLen % 2 = 1 then (match id[half]? with | some b => [b &&& 0xf0] | none => []) else []
    let head := id.take half ++ mid
    some { bytes := head ++ List.replicate (id.length - head.length) 0, hexLen := hexLen }

/-- `Prefix::cmp_oid(candidate)`; the argument of `.then(…)` is evaluated eagerly, so its index
panics come first. -/
def Prefix.cmpOid (p : Prefix) (cand : Bytes) : Option Ordering :=
  let common := p.hexLen / 2
  if p.bytes.length < common ∨ cand.length < common then none
  else
    let second : Option Ordering :=
      if p.hexLen % 2 = 1 then
        match p.bytes[common]?, cand[common]? with
        | some a, some b => some (cmpNat a.toNat (b &&& 0xf0).toNat)
        | _, _ => none
      else some .eq
    match second with
    | none => none
    | some s =>
      match cmpBytes (p.bytes.take common) (cand.take common) with
      | .eq => some s
      | o => some o

inductive PrefixRes where
  | none
  | unique (i : Nat)
  | ambiguous
  deriving Repr, DecidableEq

/-- `((0..mid).rev()).take_while(|prev| cmp(prev) == Equal).last()` -/
def scanDown (c : Bytes → Option Ordering) (oidAt : Nat → Option Bytes) : Nat → Option (Option Nat)
  | 0 => some none
  | k + 1 =>
    match oidAt k with
    | none => none
    | some m =>
      match c m with
      | none => none
      | some .eq =>
        match scanDown c oidAt k with
        | none => none
        | some (some j) => some (some j)
        | some none => some (some k)
      | some _ => some none

/-- `((mid + 1)..num_objects).take_while(|next| cmp(next) == Equal).last()`; fuel = range length -/
def scanUp (c : Bytes → Option Ordering) (oidAt : Nat → Option Bytes) : Nat → Nat → Option (Option Nat)
  | 0, _ => some none
  | f + 1, i =>
    match oidAt i with
    | none => none
    | some m =>
      match c m with
      | none => none
      | some .eq =>
        match scanUp c oidAt f (i + 1) with
        | none => none
        | some (some j) => some (some j)
        | some none => some (some i)
      | some _ => some none

def isEqAt (c : Bytes → Option Ordering) (oidAt : Nat → Option Bytes) (i : Nat) : Option Bool :=
  match oidAt i with
  | none => none
  | some m =>
    match c m with
    | none => none
    | some o => some (o == .eq)

/-- the `Equal =>` arm of `lookup_prefix`: `mid` matches the prefix; look at the neighbours -/
def prefixHit (c : Bytes → Option Ordering) (oidAt : Nat → Option Bytes) (numObjects mid : Nat)
    (withCand : Bool) : Option (PrefixRes × Option (Nat × Nat)) :=
  if withCand then do
    let first ← scanDown c oidAt mid
    let last ← scanUp c oidAt (numObjects - (mid + 1)) (mid + 1)
    let range : Nat × Nat := match first, last with
      | some f, some l => (f, l + 1)
      | some f, none => (f, mid + 1)
      | none, some l => (mid, l + 1)
      | none, none => (mid, mid + 1)
    some (if range.2 - range.1 > 1 then .ambiguous else .unique mid, some range)
  else do
    let next := mid + 1
    let a ← if next < numObjects then isEqAt c oidAt next else some false
    if a then some (.ambiguous, none)
    else
      let b ← if mid ≠ 0 then isEqAt c oidAt (mid - 1) else some false
      if b then some (.ambiguous, none) else some (.unique mid, none)

/-- `index::access::lookup_prefix`; `withCand` = `candidates.is_some()`; the second component is
the value left in `*candidates` (as `start..end`). -/
def lookupPrefixWith (fan : List Nat) (oidAt : Nat → Option Bytes) (numObjects : Nat) (p : Prefix)
    (withCand : Bool) : Option (PrefixRes × Option (Nat × Nat)) := do
  let fb ← p.bytes.head?
  let (lo, hi) ← fanBounds fan fb.toNat
  match ← bisect p.cmpOid oidAt (hi - lo) lo hi with
  | none => some (.none, if withCand then some (0, 0) else none)
  | some mid => prefixHit p.cmpOid oidAt numObjects mid withCand

/-! ### mid-level reader: the accessors of `index::File` on the tables -/

def Idx.oidAt (x : Idx) (i : Nat) : Option Bytes := x.ids[i]?

/-- `num_objects = fan[FAN_LEN - 1]` -/
def Idx.numObjects (x : Idx) : Option Nat := x.fan[255]?

def Idx.lookup (x : Idx) (id : Bytes) : Option (Option Nat) := lookupWith x.fan x.oidAt id

def Idx.lookupPrefix (x : Idx) (p : Prefix) (withCand : Bool) : Option (PrefixRes × Option (Nat × Nat)) := do
  let n ← x.numObjects
  lookupPrefixWith x.fan x.oidAt n p withCand

/-- `pack_offset_from_offset_v2` on decoded tables -/
def decodeOffset (o32 o64 : List Nat) (i : Nat) : Option Nat := do
  let v ← o32[i]?
  if v &&& HIGH_BIT = HIGH_BIT then o64[v ^^^ HIGH_BIT]? else some v

/-- `pack_offset_at_index` (V2) -/
def Idx.offsetAt (x : Idx) (i : Nat) : Option Nat := decodeOffset x.ofs32 x.ofs64 i

/-- `crc32_at_index` (V2) -/
def Idx.crcAt (x : Idx) (i : Nat) : Option Nat := x.crcs[i]?

/-! ### byte layer: what `write_to` writes and what `File::at` + the accessors read -/

def be32 (n : Nat) : Bytes :=
  [UInt8.ofNat (n / 16777216 % 256), UInt8.ofNat (n / 65536 % 256), UInt8.ofNat (n / 256 % 256), UInt8.ofNat (n % 256)]

def be64 (n : Nat) : Bytes := be32 (n / U32 % U32) ++ be32 (n % U32)

/-- `u32::from_be_bytes(b.try_into().unwrap())`; `none` = wrong length -/
def readU32 : Bytes → Option Nat
  | [a, b, c, d] => some (a.toNat * 16777216 + b.toNat * 65536 + c.toNat * 256 + d.toNat)
  | _ => none

def readU64 (bs : Bytes) : Option Nat :=
  if bs.length = 8 then do
    let hi ← readU32 (bs.take 4)
    let lo ← readU32 (bs.drop 4)
    some (hi * U32 + lo)
  else none

/-- `&data[start..][..len]`; `none` = out-of-bounds panic -/
def slice (data : Bytes) (start len : Nat) : Option Bytes :=
  if start + len ≤ data.length then some ((data.drop start).take len) else none

def V2_SIGNATURE : Bytes := [0xff, 0x74, 0x4f, 0x63]

/-- everything `write_to` writes before the two trailing hashes -/
def encodeBody (x : Idx) : Bytes :=
  V2_SIGNATURE ++ be32 2 ++ x.fan.flatMap be32 ++ x.ids.flatten ++ x.crcs.flatMap be32
    ++ x.ofs32.flatMap be32 ++ x.ofs64.flatMap be64

/-- the whole file; the SHA-1 checksums are parameters -/
def encodeFile (x : Idx) (packHash idxHash : Bytes) : Bytes := encodeBody x ++ packHash ++ idxHash

inductive OpenErr | corrupt | unsupportedVersion
  deriving Repr, DecidableEq

structure File where
  data : Bytes
  v2 : Bool
  numObjects : Nat
  fan : List Nat
  hashLen : Nat
  deriving Repr

/-- `read_fan`: 256 big-endian u32 (the caller guarantees ≥ 1024 bytes; `none` = assert) -/
def readFan : Nat → Bytes → Option (List Nat)
  | 0, _ => some []
  | k + 1, d => do
    let v ← readU32 (d.take 4)
    let rest ← readFan k (d.drop 4)
    some (v :: rest)

/-- `fan.windows(2).any(|w| w[0] > w[1])` negated -/
def fanMonotone : List Nat → Bool
  | a :: b :: rest => decide (a ≤ b) && fanMonotone (b :: rest)
  | _ => true

/-- the validation `at_inner` does once the fan-out table is read: monotonic fan-out, and a file
size that fits `num_objects` (V1: exactly; V2: between no and `num_objects` 64-bit offsets) -/
def File.validate (data : Bytes) (v2 : Bool) (fan : List Nat) (hashLen : Nat) : Option (Except OpenErr File) :=
  match fan[255]? with
  | none => none
  | some n =>
    if !fanMonotone fan then some (.error .corrupt)
    else
      let minSize := if v2 then 8 + 256 * 4 + n * (hashLen + 4 + 4) + 2 * hashLen
                     else 256 * 4 + n * (4 + hashLen) + 2 * hashLen
      let maxSize := if v2 then minSize + n * 8 else minSize
      if data.length < minSize ∨ data.length > maxSize then some (.error .corrupt)
      else some (.ok { data := data, v2 := v2, numObjects := n, fan := fan, hashLen := hashLen })

/-- `index::File::at_inner` for a 20-byte hash; outer `none` = panic -/
def File.at (data : Bytes) : Option (Except OpenErr File) :=
  let hashLen := 20
  if data.length < 256 * 4 + 2 * hashLen then some (.error .corrupt)
  else
    if data.take 4 = V2_SIGNATURE then
      match readU32 ((data.drop 4).take 4) with
      | none => none
      | some v =>
        if v ≠ 2 then some (.error .unsupportedVersion)
        else
          match readFan 256 (data.drop 8) with
          | none => none
          | some fan => File.validate data true fan hashLen
    else
      match readFan 256 data with
      | none => none
      | some fan => File.validate data false fan hashLen

def V1_HEADER : Nat := 1024
def V2_HEADER : Nat := 1032

def File.oidAt (f : File) (i : Nat) : Option Bytes :=
  if f.v2 then slice f.data (V2_HEADER + i * f.hashLen) f.hashLen
  else slice f.data (V1_HEADER + i * (4 + f.hashLen) + 4) f.hashLen

def File.offsetCrc (f : File) : Nat := V2_HEADER + f.numObjects * f.hashLen
def File.offsetOfs32 (f : File) : Nat := f.offsetCrc + f.numObjects * 4
def File.offsetOfs64 (f : File) : Nat := f.offsetOfs32 + f.numObjects * 4

/-- `pack_offset_at_index` incl. `pack_offset_from_offset_v2` -/
def File.offsetAt (f : File) (i : Nat) : Option Nat :=
  if f.v2 then
    match (slice f.data (f.offsetOfs32 + i * 4) 4).bind readU32 with
    | none => none
    | some v =>
      if v &&& HIGH_BIT = HIGH_BIT then
        (slice f.data (f.offsetOfs64 + (v ^^^ HIGH_BIT) * 8) 8).bind readU64
      else some v
  else (slice f.data (V1_HEADER + i * (4 + f.hashLen)) 4).bind readU32

/-- `crc32_at_index`: inner `none` for V1 -/
def File.crcAt (f : File) (i : Nat) : Option (Option Nat) :=
  if f.v2 then ((slice f.data (f.offsetCrc + i * 4) 4).bind readU32).map some
  else some none

def File.lookup (f : File) (id : Bytes) : Option (Option Nat) := lookupWith f.fan f.oidAt id

def File.lookupPrefix (f : File) (p : Prefix) (withCand : Bool) : Option (PrefixRes × Option (Nat × Nat)) :=
  lookupPrefixWith f.fan f.oidAt f.numObjects p withCand

/-! ### multi-pack index -/

/-- `multi_index::write::Entry` -/
structure MEntry where
  id : Bytes
  pack : Nat      -- u32, position of the index in the sorted path list
  offset : Nat    -- u64
  mtime : Nat     -- `SystemTime` of the index file
  deriving Repr, DecidableEq

/-- the comparator of `entries.sort_by(…)`: id, then newest index first, then pack index -/
def mcmp (l r : MEntry) : Ordering :=
  match cmpBytes l.id r.id with
  | .eq =>
    match cmpNat r.mtime l.mtime with
    | .eq => cmpNat l.pack r.pack
    | o => o
  | o => o

def minsert (e : MEntry) : List MEntry → List MEntry
  | [] => [e]
  | x :: xs => if mcmp e x = .gt then x :: minsert e xs else e :: x :: xs

def msort (es : List MEntry) : List MEntry := es.foldr minsert []

/-- `entries.dedup_by_key(|e| e.id)`: an element whose id equals the last kept one is dropped -/
def mdedupAux : MEntry → List MEntry → List MEntry
  | x, [] => [x]
  | x, y :: rest => if x.id = y.id then mdedupAux x rest else x :: mdedupAux y rest

def mdedup : List MEntry → List MEntry
  | [] => []
  | x :: rest => mdedupAux x rest

/-- A pack index as the MIDX writer sees it: mtime + `index.iter()` (id, offset) in file order -/
structure PackIn where
  mtime : Nat
  entries : List (Bytes × Nat)
  deriving Repr

def collect : Nat → List PackIn → List MEntry
  | _, [] => []
  | k, p :: ps => p.entries.map (fun e => { id := e.1, pack := k, offset := e.2, mtime := p.mtime }) ++ collect (k + 1) ps

/-- `large_offsets::num_large_offsets`: `some count` iff some offset exceeds u32::MAX -/
def numLargeOffsets (es : List MEntry) : Option Nat :=
  if es.any (fun e => e.offset > 4294967295) then some (es.filter (fun e => e.offset > LARGE_OFFSET_THRESHOLD)).length
  else none

/-- `offsets::write`: outer `none` = the `expect` panic -/
def midxOffsets (large : Bool) : List MEntry → Nat → Option (List Nat)
  | [], _ => some []
  | e :: rest, nl =>
    if large then
      if e.offset > LARGE_OFFSET_THRESHOLD then
        (midxOffsets large rest ((nl + 1) % U32)).map ((nl ||| HIGH_BIT) :: ·)
      else (midxOffsets large rest nl).map (e.offset % U32 :: ·)
    else
      if e.offset < U32 then (midxOffsets large rest nl).map (e.offset :: ·) else none

structure Midx where
  fan : List Nat
  ids : List Bytes
  packIds : List Nat
  ofs32 : List Nat
  large : Option (List Nat)     -- the LOFF chunk, if written
  deriving Repr, DecidableEq

/-- `multi_index::File::write_from_index_paths` (tables only) -/
def midxBuild (packs : List PackIn) : Option Midx := do
  let es := mdedup (msort (collect 0 packs))
  let fbs ← firstBytes (es.map (·.id))
  let fan ← fanout fbs
  let nl := numLargeOffsets es
  let o32 ← midxOffsets nl.isSome es 0
  let large := match nl with
    | some _ => some ((es.filter (fun e => e.offset > LARGE_OFFSET_THRESHOLD)).map (·.offset))
    | none => none
  some { fan := fan, ids := es.map (·.id), packIds := es.map (·.pack), ofs32 := o32, large := large }

def Midx.oidAt (x : Midx) (i : Nat) : Option Bytes := x.ids[i]?
def Midx.numObjects (x : Midx) : Option Nat := x.fan[255]?
def Midx.lookup (x : Midx) (id : Bytes) : Option (Option Nat) := lookupWith x.fan x.oidAt id
def Midx.lookupPrefix (x : Midx) (p : Prefix) (withCand : Bool) : Option (PrefixRes × Option (Nat × Nat)) := do
  let n ← x.numObjects
  lookupPrefixWith x.fan x.oidAt n p withCand

/-- `pack_id_and_pack_offset_at_index` -/
def Midx.packAndOffsetAt (x : Midx) (i : Nat) : Option (Nat × Nat) := do
  let pk ← x.packIds[i]?
  let v ← x.ofs32[i]?
  if v &&& HIGH_BIT = HIGH_BIT then
    match x.large with
    | some l => do
      let o ← l[v ^^^ HIGH_BIT]?
      some (pk, o)
    | none => some (pk, v)
  else some (pk, v)

/-! ### driver -/

def parseEntry? (s : String) : Option Entry :=
  -- an optional 4th field (the blob content the harness hashes to get the id) is ignored
  let mk (i o c : String) : Option Entry := do
    let i ← bytesOfHex i
    let o ← o.toNat?
    let c ← c.toNat?
    some { id := i, offset := o, crc := c }
  match s.splitOn ":" with
  | [i, o, c] => mk i o c
  | [i, o, c, _] => mk i o c
  | _ => none

def showRange : Option (Nat × Nat) → String
  | some (a, b) => s!"{a}..{b}"
  | none => "-"

def showRes : PrefixRes → String
  | .none => "none"
  | .unique i => s!"u{i}"
  | .ambiguous => "amb"

/-- the accessors a query needs, mid-level or byte-level -/
structure View where
  lookup : Bytes → Option (Option Nat)
  lookupPrefix : Prefix → Bool → Option (PrefixRes × Option (Nat × Nat))
  info : Nat → Option String          -- what is recorded at an entry index
  fanHex : String
  tables : String

def hexList (f : Nat → Bytes) (l : List Nat) : String := hexOfBytes (l.flatMap f)

def Idx.view (x : Idx) : View where
  lookup := x.lookup
  lookupPrefix := x.lookupPrefix
  info := fun i => do
    let o ← x.offsetAt i
    let c ← x.crcAt i
    some s!"{o},{c}"
  fanHex := hexList be32 x.fan
  tables := hexOfBytes (encodeBody x)

def File.view (f : File) : View where
  lookup := f.lookup
  lookupPrefix := f.lookupPrefix
  info := fun i => do
    let o ← f.offsetAt i
    let c ← f.crcAt i
    some (match c with | some c => s!"{o},{c}" | none => s!"{o},-")
  fanHex := hexList be32 f.fan
  tables := "-"

def Midx.view (x : Midx) : View where
  lookup := x.lookup
  lookupPrefix := x.lookupPrefix
  info := fun i => do
    let (p, o) ← x.packAndOffsetAt i
    some s!"{p},{o}"
  fanHex := hexList be32 x.fan
  tables := hexList be32 x.packIds ++ "/" ++ hexList be32 x.ofs32 ++ "/" ++
    (match x.large with | some l => hexList be64 l | none => "none")

def answer (v : View) (q : String) : Option String :=
  match q.toList with
  | ['F'] => some v.fanHex
  | ['T'] => some v.tables
  | 'L' :: rest => do
    let id ← bytesOfHex (String.ofList rest)
    match v.lookup id with
    | none => some "panic"
    | some none => some "-"
    | some (some i) =>
      match v.info i with
      | none => some "panic"
      | some s => some s!"{i},{s}"
  | 'O' :: rest => do
    let i ← (String.ofList rest).toNat?
    match v.info i with
    | none => some "panic"
    | some s => some s
  | 'P' :: rest =>
    match (String.ofList rest).splitOn "," with
    | [h, id] => do
      let h ← h.toNat?
      let id ← bytesOfHex id
      match Prefix.new id h with
      | none => some "err"
      | some p =>
        match v.lookupPrefix p true, v.lookupPrefix p false with
        | some (r1, c1), some (r2, _) => some s!"{showRes r1},{showRange c1},{showRes r2}"
        | _, _ => some "panic"
    | _ => none
  | _ => none

def answers (v : View) (qs : List String) : Option String := do
  let as ← qs.mapM (answer v)
  some (" ".intercalate as)

def splitBar (l : List String) : List String × List String :=
  (l.takeWhile (· != "|"), (l.dropWhile (· != "|")).drop 1)

def parsePacks? : Nat → List String → Option (List PackIn × List String)
  | 0, rest => some ([], rest)
  | k + 1, mt :: n :: rest => do
    let mt ← mt.toNat?
    let n ← n.toNat?
    if rest.length < n then none
    let es ← (rest.take n).mapM parseEntry?
    let (ps, rest') ← parsePacks? k (rest.drop n)
    some ({ mtime := mt, entries := es.map (fun e => (e.id, e.offset)) } :: ps, rest')
  | _, _ => none

def handle? : List String → Option String
  | "idx" :: n :: rest => do
    let n ← n.toNat?
    let (es, qs) := splitBar rest
    if es.length ≠ n then none
    let es ← es.mapM parseEntry?
    match build es with
    | none => some "panic"
    | some x => answers x.view qs
  | "raw" :: file :: "|" :: qs => do
    let data ← bytesOfHex file
    match File.at data with
    | none => some "panic"
    | some (.error .corrupt) => some "err:corrupt"
    | some (.error .unsupportedVersion) => some "err:version"
    | some (.ok f) => answers f.view qs
  | "midx" :: np :: rest => do
    let np ← np.toNat?
    let (ps, rest) ← parsePacks? np rest
    match rest with
    | "|" :: qs =>
      match midxBuild ps with
      | none => some "panic"
      | some x => answers x.view qs
    | _ => none
  | _ => none

def handle (args : List String) : String := (handle? args).getD "bad-op"

end GixModel.C09
