import GixModel.Basic.Hex
import GixModel.Spec.C30
/-
C30 — model of how gitoxide reads a ref advertisement (code as repaired by the three `fix:`
commits a79c0b087, 0c75bc38f, f233de83a in /repo).

Rust functions modelled:
  gix_transport::client::capabilities::Capabilities::{from_bytes, iter}, Capability::{name, value}
  gix_transport::client::capabilities::recv::Capabilities::from_lines_with_version_detection
        (the V0/V1 part: peek, `extract_protocol`, `from_bytes`, `peek_buffer_replace_and_truncate`)
  gix_protocol::handshake::refs::shared::{from_capabilities, parse_v1, parse_v2, into_refs,
        chomp_newline, impl From<InternalRef> for Ref}
  gix_protocol::handshake::refs::blocking_io::{from_v1_refs_received_as_part_of_handshake_and_capabilities,
        from_v2_refs}
  gix_hash::ObjectId::from_hex (SHA-1: exactly 40 hex digits, either case)

The input of the model are the payloads of the data packet lines up to the first flush packet
(packet-line framing is property C29). A line that starts with `ERR ` is an IO error
(`fail_on_err_lines`). `Vec<InternalRef>` is a list with `push` at the end; `swap_remove` and `pop`
are modelled exactly. `unreachable!()` sites are `panic` outcomes.
-/
namespace GixModel.C30
open GixModel
open GixModel.Spec.C30 (Oid Ref toHex)

inductive Err where
  | io | nul | nocaps | version | symref | v1line | v2line | id | attr | invariant
  deriving Repr, DecidableEq

inductive Res (α : Type) where
  | ok (a : α)
  | err (e : Err)
  | panic
  deriving Repr, DecidableEq

/-! ### byte-string helpers (`bstr` / slice functions) -/

/-- split at the first `sep`: (before, after) without the separator -/
def splitOnce (sep : UInt8) : Bytes → Option (Bytes × Bytes)
  | [] => none
  | b :: rest =>
    if b = sep then some ([], rest)
    else match splitOnce sep rest with
      | some (a, r) => some (b :: a, r)
      | none => none

/-- `slice.split(|b| *b == sep)` -/
def splitAll (sep : UInt8) : Bytes → List Bytes
  | [] => [[]]
  | b :: rest =>
    if b = sep then [] :: splitAll sep rest
    else match splitAll sep rest with
      | t :: ts => (b :: t) :: ts
      | [] => [[b]]

/-- `slice.splitn(n, |b| *b == sep)` for `n ≥ 1` -/
def splitN : Nat → UInt8 → Bytes → List Bytes
  | 0, _, _ => []
  | 1, _, bs => [bs]
  | n + 2, sep, bs =>
    match splitOnce sep bs with
    | some (a, r) => a :: splitN (n + 1) sep r
    | none => [bs]

def stripPrefix : Bytes → Bytes → Option Bytes
  | [], bs => some bs
  | _ :: _, [] => none
  | p :: ps, b :: bs => if p = b then stripPrefix ps bs else none

def stripSuffix (suf bs : Bytes) : Option Bytes :=
  (stripPrefix suf.reverse bs.reverse).map List.reverse

def startsWith (p bs : Bytes) : Bool := (stripPrefix p bs).isSome

/-- `chomp_newline` / `TextRef::from`: one trailing `\n` is removed -/
def chomp (l : Bytes) : Bytes := if l.getLast? = some 10 then l.dropLast else l

def hexValB (b : UInt8) : Option Nat :=
  if 48 ≤ b.toNat ∧ b.toNat ≤ 57 then some (b.toNat - 48)
  else if 97 ≤ b.toNat ∧ b.toNat ≤ 102 then some (b.toNat - 87)
  else if 65 ≤ b.toNat ∧ b.toNat ≤ 70 then some (b.toNat - 55)
  else none

def decodeHex : Bytes → Option Bytes
  | [] => some []
  | [_] => none
  | a :: b :: rest =>
    match hexValB a, hexValB b, decodeHex rest with
    | some x, some y, some r => some (UInt8.ofNat (x * 16 + y) :: r)
    | _, _, _ => none

/-- `gix_hash::ObjectId::from_hex` -/
def fromHex (h : Bytes) : Option Oid := if h.length = 40 then decodeHex h else none

def bERR : Bytes := [69, 82, 82, 32]                                 -- "ERR "
def bVersionSp : Bytes := [118, 101, 114, 115, 105, 111, 110, 32]    -- "version "
def bSymref : Bytes := [115, 121, 109, 114, 101, 102]                -- symref
def bShallow : Bytes := [115, 104, 97, 108, 108, 111, 119]           -- shallow
def bPeeled : Bytes := [112, 101, 101, 108, 101, 100]                -- peeled
def bSymrefTargetName : Bytes := [115, 121, 109, 114, 101, 102, 45, 116, 97, 114, 103, 101, 116] -- symref-target
open GixModel.Spec.C30 (bNull bUnborn bPeelSuffix bCapabilities)

/-! ### `InternalRef` and the capability-borne symrefs -/

inductive IRef where
  | peeled (path : Bytes) (tag obj : Oid)
  | direct (path : Bytes) (obj : Oid)
  | symbolic (path : Bytes) (target : Option Bytes) (tag : Option Oid) (obj : Oid)
  | lookup (path : Bytes) (target : Option Bytes)
  deriving Repr, DecidableEq

/-- `impl From<InternalRef> for Ref`; `none` is the `unreachable!()` -/
def IRef.toRef : IRef → Option Ref
  | .symbolic p (some t) tag o => some (.symbolic p t tag o)
  | .symbolic p none none o => some (.direct p o)
  | .symbolic p none (some tag) o => some (.peeled p tag o)
  | .peeled p tag o => some (.peeled p tag o)
  | .direct p o => some (.direct p o)
  | .lookup _ _ => none

def IRef.isLookup : IRef → Bool
  | .lookup _ _ => true
  | _ => false

def convertAll : List IRef → Res (List Ref)
  | [] => .ok []
  | r :: rs =>
    match r.toRef, convertAll rs with
    | some x, .ok xs => .ok (x :: xs)
    | none, _ => .panic
    | _, other => other

/-- `into_refs`: lookup entries no advertised ref used are dropped, the rest is converted -/
def intoRefs (rs : List IRef) : Res (List Ref) := convertAll (rs.filter fun r => !r.isLookup)

/-- `Capability::name` -/
def capName (c : Bytes) : Bytes :=
  match splitOnce 61 c with
  | some (n, _) => n
  | none => c

/-- `Capability::value` -/
def capValue (c : Bytes) : Option Bytes := (splitOnce 61 c).map (·.2)

def mkTarget (t : Bytes) : Option Bytes := if t = bNull then none else some t

/-- `from_capabilities` over `Capabilities::iter()` -/
def fromCapabilities : List Bytes → Res (List IRef)
  | [] => .ok []
  | c :: cs =>
    if capName c = bSymref then
      match capValue c with
      | none => fromCapabilities cs
      | some v =>
        match splitOnce 58 v with
        | none => .err .symref
        | some (left, tgt) =>
          if left.isEmpty then .err .symref
          else match fromCapabilities cs with
            | .ok rest => .ok (.lookup left (mkTarget tgt) :: rest)
            | other => other
    else fromCapabilities cs

/-! ### `parse_v1` -/

structure V1State where
  refs : List IRef
  shallow : List Oid
  deriving Repr, DecidableEq

def lookupHasPath (path : Bytes) : IRef → Bool
  | .lookup p _ => p = path
  | _ => false

/-- `iter().take(n).position(p)` -/
def position (p : IRef → Bool) : Nat → List IRef → Option Nat
  | 0, _ => none
  | _ + 1, [] => none
  | n + 1, x :: xs =>
    if p x then some 0
    else match position p n xs with
      | some i => some (i + 1)
      | none => none

/-- `Vec::swap_remove(i)`: the removed element and the remaining vector, in which the last
element has taken the place of the removed one -/
def swapRemove : List IRef → Nat → Option (IRef × List IRef)
  | [], _ => none
  | [x], 0 => some (x, [])
  | x :: y :: ys, 0 => some (x, (y :: ys).getLast (List.cons_ne_nil _ _) :: (y :: ys).dropLast)
  | x :: xs, i + 1 =>
    match swapRemove xs i with
    | some (r, rest) => some (r, x :: rest)
    | none => none

/-- `Vec::pop` -/
def popLast (l : List IRef) : Option (List IRef × IRef) :=
  match l.getLast? with
  | some x => some (l.dropLast, x)
  | none => none

def parseV1 (numInitial : Nat) (st : V1State) (line : Bytes) : Res V1State :=
  let trimmed := chomp line
  match splitOnce 32 trimmed with
  | none => .err .v1line
  | some (hexHash, path) =>
    if path.isEmpty then .err .v1line
    else match stripSuffix bPeelSuffix path with
      | some stripped =>
        if hexHash.all (· = 48) && stripped = bCapabilities then .ok st
        else match popLast st.refs with
          | some (init, .symbolic ppath target none tag) =>
            if ppath ≠ stripped then .err .invariant
            else match fromHex hexHash with
              | some o => .ok { st with refs := init ++ [.symbolic ppath target (some tag) o] }
              | none => .err .id
          | some (init, .direct ppath tag) =>
            if ppath ≠ stripped then .err .invariant
            else match fromHex hexHash with
              | some o => .ok { st with refs := init ++ [.peeled ppath tag o] }
              | none => .err .id
          | _ => .err .invariant
      | none =>
        match fromHex hexHash with
        | some object =>
          match position (lookupHasPath path) numInitial st.refs with
          | some pos =>
            match swapRemove st.refs pos with
            | some (.lookup _ target, rest) =>
              .ok { st with refs := rest ++ [.symbolic path target none object] }
            | _ => .panic
          | none => .ok { st with refs := st.refs ++ [.direct path object] }
        | none =>
          if hexHash = bShallow then
            match fromHex path with
            | some id => .ok { st with shallow := st.shallow ++ [id] }
            | none => .err .id
          else .err .id

/-- the read loop of `from_v1_refs_received_as_part_of_handshake_and_capabilities`; `checkErr`
says whether the line still has to pass the reader's `ERR ` check -/
def parseV1Lines (numInitial : Nat) : V1State → List Bytes → Res V1State
  | st, [] => .ok st
  | st, l :: ls =>
    if startsWith bERR l then .err .io
    else match parseV1 numInitial st l with
      | .ok st' => parseV1Lines numInitial st' ls
      | other => other

structure V1Outcome where
  /-- `Protocol::V0` if the server sent no line at all, else `Protocol::V1` -/
  proto : Nat
  refs : List Ref
  shallow : List Oid
  deriving Repr, DecidableEq

inductive Detected where
  | v1
  | v2
  | bad
  deriving Repr, DecidableEq

/-- `Capabilities::extract_protocol` on the chomped first line -/
def extractProtocol (text : Bytes) : Detected :=
  if startsWith bVersionSp text then
    if text.length ≠ 9 then .bad
    else if text.getLast? = some 49 then .v1
    else if text.getLast? = some 50 then .v2
    else .bad
  else .v1

/-- `handshake()` for a server that answers with protocol V0/V1: `none` stands for "the server
answered with `version 2`" (then the V2 code path takes over, which is not this function). -/
def handshakeV1 (lines : List Bytes) : Option (Res V1Outcome) :=
  match lines with
  | [] => some (.ok { proto := 0, refs := [], shallow := [] })
  | first :: rest =>
    if startsWith bERR first then some (.err .io)
    else
      let text := chomp first
      match extractProtocol text with
      | .bad => some (.err .version)
      | .v2 => none
      | .v1 =>
        -- `Capabilities::from_bytes`: everything behind the first NUL byte; the peek buffer is cut
        -- there and gets a newline instead (`peek_buffer_replace_and_truncate`)
        match splitOnce 0 text with
        | none => some (.err .nul)
        | some (before, capsText) =>
          if capsText.isEmpty then some (.err .nocaps)
          else
            let caps := splitAll 32 capsText
            let first' := before ++ [10]
            match fromCapabilities caps with
            | .err e => some (.err e)
            | .panic => some .panic
            | .ok lookups =>
              -- the truncated first line comes out of the peek buffer: no second ERR check needed,
              -- it starts like the line that already passed
              match parseV1Lines lookups.length { refs := lookups, shallow := [] } (first' :: rest) with
              | .err e => some (.err e)
              | .panic => some .panic
              | .ok st =>
                match intoRefs st.refs with
                | .ok refs => some (.ok { proto := 1, refs := refs, shallow := st.shallow })
                | .err e => some (.err e)
                | .panic => some .panic

/-! ### `parse_v2` -/

structure V2Attrs where
  symrefTarget : Option Bytes
  peeled : Option Oid
  deriving Repr, DecidableEq

/-- one `attribute:value` token -/
def parseAttr (acc : V2Attrs) (tok : Bytes) : Res V2Attrs :=
  match splitOnce 58 tok with
  | none => .err .v2line
  | some (attr, value) =>
    if value.isEmpty then .err .v2line
    else if attr = bPeeled then
      match fromHex value with
      | some o => .ok { acc with peeled := some o }
      | none => .err .id
    else if attr = bSymrefTargetName then .ok { acc with symrefTarget := some value }
    else .err .attr

def parseAttrs : V2Attrs → List Bytes → Res V2Attrs
  | acc, [] => .ok acc
  | acc, t :: ts =>
    match parseAttr acc t with
    | .ok acc' => parseAttrs acc' ts
    | other => other

def parseV2 (line : Bytes) : Res Ref :=
  let trimmed := chomp line
  match splitN 4 32 trimmed with
  | hexHash :: path :: attrs =>
    let idr : Res (Option Oid) :=
      if hexHash = bUnborn then .ok none
      else match fromHex hexHash with
        | some o => .ok (some o)
        | none => .err .id
    match idr with
    | .err e => .err e
    | .panic => .panic
    | .ok id =>
      if path.isEmpty then .err .v2line
      else match parseAttrs { symrefTarget := none, peeled := none } attrs with
        | .err e => .err e
        | .panic => .panic
        | .ok a =>
          match a.symrefTarget, a.peeled with
          | some target, peeled =>
            if target = bNull then
              match peeled, id with
              | _, none => .err .invariant
              | none, some id => .ok (.direct path id)
              | some p, some id => .ok (.peeled path id p)
            else match id with
              | some id => .ok (.symbolic path target (peeled.map fun _ => id) (peeled.getD id))
              | none => .ok (.unborn path target)
          | none, some p =>
            match id with
            | some id => .ok (.peeled path id p)
            | none => .err .invariant
          | none, none =>
            match id with
            | some id => .ok (.direct path id)
            | none => .err .invariant
  | _ => .err .v2line

/-- `from_v2_refs` (the reader has `fail_on_err_lines` switched on by the handshake) -/
def fromV2 : List Bytes → Res (List Ref)
  | [] => .ok []
  | l :: ls =>
    if startsWith bERR l then .err .io
    else match parseV2 l with
      | .ok r =>
        match fromV2 ls with
        | .ok rs => .ok (r :: rs)
        | other => other
      | .err e => .err e
      | .panic => .panic

/-! ### driver -/

def Err.str : Err → String
  | .io => "err:io" | .nul => "err:nul" | .nocaps => "err:nocaps" | .version => "err:version"
  | .symref => "err:symref" | .v1line => "err:v1line" | .v2line => "err:v2line" | .id => "err:id"
  | .attr => "err:attr" | .invariant => "err:invariant"

def oidStr (o : Oid) : String := String.ofList ((toHex o).map fun b => Char.ofNat b.toNat)

def refStr : Ref → String
  | .direct n o => s!"D:{hexOfBytes n}:{oidStr o}"
  | .peeled n t o => s!"P:{hexOfBytes n}:{oidStr t}:{oidStr o}"
  | .symbolic n tg t o =>
    let ts := match t with | some t => oidStr t | none => "-"
    s!"S:{hexOfBytes n}:{hexOfBytes tg}:{ts}:{oidStr o}"
  | .unborn n tg => s!"U:{hexOfBytes n}:{hexOfBytes tg}"

def decodeLines : List String → Option (List Bytes)
  | [] => some []
  | h :: rest =>
    match bytesOfHex h, decodeLines rest with
    | some b, some bs => some (b :: bs)
    | _, _ => none

def joinWith (sep : String) : List String → String
  | [] => ""
  | [x] => x
  | x :: xs => x ++ sep ++ joinWith sep xs

def v1Str (o : V1Outcome) : String :=
  let sh := if o.shallow.isEmpty then "-" else joinWith "," (o.shallow.map oidStr)
  joinWith " " (s!"ok p{o.proto} sh={sh}" :: o.refs.map refStr)

open GixModel.Spec.C30 in
def parseEntry (tok : String) : Option Entry :=
  match tok.splitOn ":" with
  | [n, o, p, s] =>
    match bytesOfHex n, bytesOfHex o with
    | some n, some o =>
      let p? : Option (Option Bytes) := if p = "-" then some none else (bytesOfHex p).map some
      let s? : Option (Option Bytes) := if s = "-" then some none else (bytesOfHex s).map some
      match p?, s? with
      | some p, some s => some { name := n, oid := o, peeled := p, sym := s }
      | _, _ => none
    | _, _ => none
  | _ => none

def parseEntries : List String → Option (List Spec.C30.Entry)
  | [] => some []
  | t :: ts =>
    match parseEntry t, parseEntries ts with
    | some e, some es => some (e :: es)
    | _, _ => none

def parseHexList (s : String) : Option (List Bytes) :=
  if s = "-" then some [] else decodeLines (s.splitOn ",")

def linesStr (ls : List Bytes) : String :=
  if ls.isEmpty then "-" else joinWith " " (ls.map hexOfBytes)

def handle? : List String → Option String
  | "v1" :: hs =>
    match decodeLines hs with
    | none => none
    | some lines =>
      match handshakeV1 lines with
      | none => some "v2-detected"
      | some (.ok o) => some (v1Str o)
      | some (.err e) => some e.str
      | some .panic => some "panic"
  | "v2" :: hs =>
    match decodeLines hs with
    | none => none
    | some lines =>
      match fromV2 lines with
      | .ok rs => some (joinWith " " ("ok" :: rs.map refStr))
      | .err e => some e.str
      | .panic => some "panic"
  | "adv1" :: pre :: post :: sh :: headSym :: es =>
    match bytesOfHex pre, bytesOfHex post, parseHexList sh, parseEntries es with
    | some pre, some post, some sh, some es =>
      let hs? : Option (List (Bytes × Bytes)) :=
        if headSym = "-" then some [] else (bytesOfHex headSym).map fun t => [(Spec.C30.bHEAD, t)]
      match hs? with
      | none => none
      | some syms =>
        -- the capability text before/after the symref tokens is passed through as one token each
        -- (it contains spaces; only the joined text matters to `advertiseV1`)
        let s : Spec.C30.V1Server :=
          { capsPre := if pre.isEmpty then [] else [pre], capsPost := if post.isEmpty then [] else [post],
            symrefs := syms, entries := es, shallow := sh, dummy := false }
        some (linesStr (Spec.C30.advertiseV1 s))
    | _, _, _, _ => none
  | "adv2" :: asked :: unborn :: pfx :: es =>
    match parseHexList pfx, parseEntries es with
    | some pfx, some es =>
      let ub? : Option (Option Bytes) := if unborn = "-" then some none else (bytesOfHex unborn).map some
      match ub? with
      | none => none
      | some ub =>
        if asked ≠ "0" && asked ≠ "1" then none
        else
          let s : Spec.C30.V2Server :=
            { entries := es, unbornHead := ub, askedUnborn := asked = "1", prefixes := pfx }
          some (linesStr (Spec.C30.advertiseV2 s))
    | _, _ => none
  | _ => none

def handle (args : List String) : String := (handle? args).getD "bad-op"

end GixModel.C30
