import GixModel.Basic.Dec
/-
C19 — model of the packed-refs lookup.

Rust functions modelled (all in /repo/gix-ref/src/store/packed):
  find.rs    Buffer::binary_search_by (incl. the closure `search_start_of_record`)   `recordStart`, `keyAt`, `searchName`
             Buffer::try_find_full_name                                              `findFullName`
             Buffer::try_find (for names that look like full names: `refs/…`)        `tryFind`
  decode.rs  reference, until_newline, header                                         `reference`, `untilNewline`, `header`
  iter.rs    Iter::new / <Iter as Iterator>::next                                     `scan`
  buffer.rs  Buffer::from_bytes / open_with_backing (header, sort when not `sorted`)  `openBuffer`
  ../../parse.rs  hex_hash, newline                                                   `hexHash`, `newline`
  core::slice::binary_search_by (the branch-free loop of the installed std, 1.95)   `bsearch`
External: `gix_validate::reference::name` — the validity of a ref name — is a PARAMETER
`validName` of every function that needs it; the driver instantiates it with `validRefName`
(a hand transcription, tied by the correspondence harness). Theorems quantify over all `validName`.

Slices `a[..ofs]` in the Rust code are in range whenever the offsets come from the binary search
(`ofs ≤ a.len()`); `List.take` is total, so no panic outcome is needed here.
-/
namespace GixModel.C19
open GixModel

/-! ### byte search and order -/

def rfindByte (c : UInt8) : Bytes → Option Nat
  | [] => none
  | b :: rest =>
    match rfindByte c rest with
    | some i => some (i + 1)
    | none => if b = c then some 0 else none

/-- `Ord for [u8]`: lexicographic, bytes unsigned -/
def cmpBytes : Bytes → Bytes → Ordering
  | [], [] => .eq
  | [], _ :: _ => .lt
  | _ :: _, [] => .gt
  | a :: as, b :: bs =>
    if a.toNat < b.toNat then .lt
    else if b.toNat < a.toNat then .gt
    else cmpBytes as bs

/-! ### the record parser -/

def isHexLc (b : UInt8) : Bool := (48 ≤ b && b ≤ 57) || (97 ≤ b && b ≤ 102)

/-- winnow `take_while(m..=n, p)` -/
def takeWhileMN (m n : Nat) (p : UInt8 → Bool) (i : Bytes) : Option (Bytes × Bytes) :=
  let pre := (i.takeWhile p).take n
  if pre.length < m then none else some (pre, i.drop pre.length)

/-- `parse::hex_hash` (SHA-1 only: exactly 40 lower-case hex digits) -/
def hexHash (i : Bytes) : Option (Bytes × Bytes) := takeWhileMN 40 40 isHexLc i

/-- `parse::newline`: `\r\n` or `\n` -/
def newline : Bytes → Option Bytes
  | 13 :: 10 :: r => some r
  | 10 :: r => some r
  | _ => none

/-- `decode::until_newline`: everything up to `\r` or `\n`, then a newline -/
def untilNewline (i : Bytes) : Option (Bytes × Bytes) :=
  let pre := i.takeWhile (fun b => b != 13 && b != 10)
  match newline (i.drop pre.length) with
  | some r => some (pre, r)
  | none => none

structure Record where
  name : Bytes
  target : Bytes
  object : Option Bytes
  deriving Repr, DecidableEq

/-- `decode::reference`: `<hex> <name><nl>[^<hex><nl>]`; the peeled line is optional (`opt`
backtracks when it does not parse) -/
def reference (validName : Bytes → Bool) (i : Bytes) : Option (Record × Bytes) :=
  match hexHash i with
  | none => none
  | some (target, r) =>
    match r with
    | [] => none
    | sp :: r =>
      if sp ≠ 32 then none
      else
        match untilNewline r with
        | none => none
        | some (name, r) =>
          if !validName name then none
          else
            let plain : Option (Record × Bytes) := some ({ name := name, target := target, object := none }, r)
            match r with
            | [] => plain
            | c :: r' =>
              if c ≠ 94 then plain
              else
                match hexHash r' with
                | none => plain
                | some (obj, r'') =>
                  match newline r'' with
                  | none => plain
                  | some r3 => some ({ name := name, target := target, object := some obj }, r3)

/-! ### the byte-level binary search -/

/-- the closure `search_start_of_record` -/
def recordStart (a : Bytes) (ofs : Nat) : Nat :=
  match rfindByte 10 (a.take ofs) with
  | none => 0
  | some pos =>
    match a[pos + 1]? with
    | none => 0
    | some b =>
      if b = 94 then
        match rfindByte 10 (a.take pos) with
        | none => 0
        | some p => p + 1
      else pos + 1

/-- the key of the byte at `ofs`: the name of the record it belongs to; `none` = the record there
does not parse (the code then uses the empty name and raises `encountered_parse_failure`) -/
def keyAt (validName : Bytes → Bool) (a : Bytes) (ofs : Nat) : Option Bytes :=
  match reference validName (a.drop (recordStart a ofs)) with
  | some (r, _) => some r.name
  | none => none

def keyOrEmpty : Option Bytes → Bytes
  | some k => k
  | none => []

/-- `core::slice::binary_search_by` as compiled into the harness (Rust 1.95): the loop has no early
exit; `cmp i` is the comparator applied to element `i` (`Less` = element is smaller than the
target). `fuel` bounds the iterations (`size` at least halves… each round; `size` is enough). -/
def bsearchLoop (cmp : Nat → Ordering) : Nat → Nat → Nat → Nat
  | 0, base, _ => base
  | fuel + 1, base, size =>
    if size ≤ 1 then base
    else
      let half := size / 2
      let mid := base + half
      let base' := if cmp mid = .gt then base else mid
      bsearchLoop cmp fuel base' (size - half)

/-- `Ok idx` / `Err insertion_point` -/
def bsearch (cmp : Nat → Ordering) (len : Nat) : Except Nat Nat :=
  if len = 0 then .error 0
  else
    let base := bsearchLoop cmp len 0 len
    match cmp base with
    | .eq => .ok base
    | .lt => .error (base + 1)
    | .gt => .error base

/-- every index the search probes, in order (to collect `encountered_parse_failure`) -/
def probesLoop (cmp : Nat → Ordering) : Nat → Nat → Nat → List Nat
  | 0, base, _ => [base]
  | fuel + 1, base, size =>
    if size ≤ 1 then [base]
    else
      let half := size / 2
      let mid := base + half
      let base' := if cmp mid = .gt then base else mid
      mid :: probesLoop cmp fuel base' (size - half)

def probes (cmp : Nat → Ordering) (len : Nat) : List Nat :=
  if len = 0 then [] else probesLoop cmp len 0 len

inductive Found where
  | ok (r : Record)
  | none
  | parseError
  deriving Repr, DecidableEq

/-- `binary_search_by(name)` composed with what `try_find_full_name` does with its result, for an
arbitrary search result `res` and failure flag (`searchName` supplies the real ones) -/
def finish (validName : Bytes → Bool) (a : Bytes) (res : Except Nat Nat) (parseFailure : Bool) : Found :=
  match res with
  | .ok idx =>
    match reference validName (a.drop (recordStart a idx)) with
    | some (r, _) => .ok r
    | none => .parseError
  | .error _ => if parseFailure then .parseError else .none

def cmpAt (validName : Bytes → Bool) (a name : Bytes) (i : Nat) : Ordering :=
  cmpBytes (keyOrEmpty (keyAt validName a i)) name

/-- `Buffer::try_find_full_name` -/
def findFullName (validName : Bytes → Bool) (a name : Bytes) : Found :=
  let cmp := cmpAt validName a name
  let failed := (probes cmp a.length).any fun i => (keyAt validName a i).isNone
  finish validName a (bsearch cmp a.length) failed

/-! ### the linear scan (`packed::Iter`) -/

/-- `Iter::next` until the cursor is empty: parsed records, `none` for a line that does not parse
(the iterator then resumes after the next `\n`). `fuel` bounds the steps (`|a| + 1` is enough). -/
def scanFrom (validName : Bytes → Bool) : Nat → Bytes → List (Option Record)
  | 0, _ => []
  | fuel + 1, cursor =>
    if cursor.isEmpty then []
    else
      match reference validName cursor with
      | some (r, rest) => some r :: scanFrom validName fuel rest
      | none =>
        let line := cursor.takeWhile (· != 10)
        none :: scanFrom validName fuel (cursor.drop (line.length + 1))

/-- the traits of a header line: `(sorted)`; `none` = the header does not parse -/
def headerTraits (i : Bytes) : Option (Bytes × Bytes) :=
  -- b"# pack-refs with: "
  let pfx : Bytes := [35, 32, 112, 97, 99, 107, 45, 114, 101, 102, 115, 32, 119, 105, 116, 104, 58, 32]
  if i.take pfx.length = pfx then untilNewline (i.drop pfx.length) else none

/-- `split_str(" ")` -/
def splitSpaces : Bytes → List Bytes
  | [] => [[]]
  | b :: rest =>
    match splitSpaces rest with
    | [] => [[b]]   -- unreachable
    | t :: ts => if b = 32 then [] :: t :: ts else (b :: t) :: ts

/-- `decode::header`: `(sorted, rest)` -/
def header (i : Bytes) : Option (Bool × Bytes) :=
  match headerTraits i with
  | none => none
  | some (traits, rest) =>
    -- b"sorted"
    some ((splitSpaces traits).contains [115, 111, 114, 116, 101, 100], rest)

/-- `Iter::new(a)` then collecting: `none` = `Error::Header` -/
def scan (validName : Bytes → Bool) (a : Bytes) : Option (List (Option Record)) :=
  match a with
  | [] => some []
  | b :: _ =>
    if b = 35 then
      match header a with
      | none => none
      | some (_, rest) => some (scanFrom validName (rest.length + 1) rest)
    else some (scanFrom validName (a.length + 1) a)

def renderRecord (r : Record) : Bytes :=
  r.target ++ [32] ++ r.name ++ [10] ++
    (match r.object with
     | none => []
     | some o => [94] ++ o ++ [10])

def allSome : List (Option Record) → Option (List Record)
  | [] => some []
  | none :: _ => none
  | some r :: rest =>
    match allSome rest with
    | some rs => some (r :: rs)
    | none => none

inductive OpenError where
  | header
  | iter
  deriving Repr, DecidableEq

/-- `Buffer::from_bytes`: the bytes the lookups run on (`self.as_ref()`) -/
def openBuffer (validName : Bytes → Bool) (bytes : Bytes) : Except OpenError Bytes :=
  let hdr : Except OpenError (Bool × Bytes) :=
    match bytes with
    | [] => .ok (false, bytes)
    | b :: _ =>
      if b = 35 then
        match header bytes with
        | none => .error .header
        | some (sorted, rest) => .ok (sorted, rest)
      else .ok (false, bytes)
  match hdr with
  | .error e => .error e
  | .ok (sorted, body) =>
    if sorted then .ok body
    else
      match scan validName body with
      | none => .error .iter
      | some items =>
        match allSome items with
        | none => .error .iter
        | some rs =>
          let sortedRs := rs.mergeSort (fun x y => cmpBytes x.name y.name != .gt)
          .ok (sortedRs.flatMap renderRecord)

/-! ### ref name validity (driver instantiation of `validName`; `gix_validate`) -/

def hasSub (pat : Bytes) : Bytes → Bool
  | [] => pat.isEmpty
  | b :: rest => (pat.isPrefixOf (b :: rest)) || hasSub pat rest

def endsWith (sfx bs : Bytes) : Bool := sfx.reverse.isPrefixOf bs.reverse

def forbiddenByte (b : UInt8) : Bool :=
  b = 92 || b = 94 || b = 58 || b = 91 || b = 63 || b = 32 || b = 126 || b ≤ 31 || b = 127 || b = 42

/-- `gix_validate::tag::name` (also `reference::name_partial`) accepts -/
def validTagName (n : Bytes) : Bool :=
  !n.isEmpty && n.getLast? != some 47 && n.head? != some 47 && n.all (fun b => !forbiddenByte b)
    && !hasSub [46, 46] n && !hasSub [47, 46] n && !hasSub [64, 123] n && !hasSub [47, 47] n
    && !hasSub [46, 108, 111, 99, 107, 47] n && !endsWith [46, 108, 111, 99, 107] n
    && n.head? != some 46 && n.getLast? != some 46

/-- `gix_validate::reference::name` accepts -/
def validRefName (n : Bytes) : Bool :=
  validTagName n && (n.contains 47 || n.all fun b => (65 ≤ b && b ≤ 90) || b = 95)

/-! ### driver -/

def showFound : Found → String
  | .ok r => s!"ok {hexOfBytes r.name} {hexOfBytes r.target} {match r.object with | some o => hexOfBytes o | none => "none"}"
  | .none => "none"
  | .parseError => "err:parse"

def refsPrefix : Bytes := [114, 101, 102, 115, 47]

/-- `Buffer::try_find` for a name starting with `refs/` (and not `refs/worktree/`): the name is
validated as a partial name, then looked up verbatim -/
def tryFind (a name : Bytes) : String :=
  if !validTagName name then "err:name"
  else showFound (findFullName validRefName a name)

def handle? : List String → Option String
  | ["finds", buf, qs] => do
    let buf ← bytesOfHex buf
    let qs ← (qs.splitOn ",").mapM bytesOfHex
    match openBuffer validRefName buf with
    | .error .header => some "open-err:header"
    | .error .iter => some "open-err:iter"
    | .ok a => some (";".intercalate (qs.map (tryFind a)))
  | ["scan", buf] => do
    let buf ← bytesOfHex buf
    match openBuffer validRefName buf with
    | .error .header => some "open-err:header"
    | .error .iter => some "open-err:iter"
    | .ok a =>
      match scan validRefName a with
      | none => some "iter-err:header"
      | some items =>
        some (if items.isEmpty then "-" else
          ",".intercalate (items.map fun
            | some r => showFound (.ok r)
            | none => "bad"))
  | _ => none

def handle (args : List String) : String := (handle? args).getD "bad-op"

end GixModel.C19
