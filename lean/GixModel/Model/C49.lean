import GixModel.Basic.Dec
/-
C49 — decision cores of `gix status`.

(1) Index entry versus worktree file — `gix_status::index_as_worktree::function::State::
    compute_status`, with `gix_index::entry::Stat::{matches, is_racy}`,
    `gix_index::entry::Mode::change_to_match_fs` and the size shortcut of
    `gix_status::index_as_worktree::traits::FastEq::compare_blobs`. Everything the code reads from
    the outside world is an input FACT of the model: the index entry (mode, flags, recorded stat,
    whether its id is the empty blob), what `lstat` returned, the index timestamp, the options, and
    whether hashing the worktree content gives a different id (`hashDiffers`).

(2) Directory walk — `gix_dir::walk::classify::path` (status of one directory entry) and the
    hold / collapse logic of `gix_dir::walk::readdir` (`recursive`, `Mark::reduce_held_entries`,
    `Mark::try_collapse`, `emit_entry`), for the options `gix status` uses (no pathspec, no deletion
    mode, tracked entries not emitted). The directory tree with the per-entry facts (tracked?,
    ignored?, kind) is the input.

IO, threading, filters, submodule status, renames and pathspecs are not modelled.
-/
namespace GixModel.C49
open GixModel

/-! ## (1) index entry versus worktree -/

/-- `gix_index::entry::Stat` (all fields u32 in the index) -/
structure Stat where
  mtimeS : Nat
  mtimeN : Nat
  ctimeS : Nat
  ctimeN : Nat
  dev : Nat
  ino : Nat
  uid : Nat
  gid : Nat
  size : Nat
  deriving Repr, DecidableEq

/-- `gix_index::entry::stat::Options` -/
structure StatOpts where
  trustCtime : Bool
  checkStat : Bool
  useNsec : Bool
  useStdev : Bool
  deriving Repr, DecidableEq

/-- `Stat::matches` -/
def Stat.matches (self other : Stat) (o : StatOpts) : Bool :=
  if self.mtimeS != other.mtimeS then false
  else if o.checkStat && o.useNsec && self.mtimeN != other.mtimeN then false
  else if self.size != other.size then false
  else if o.trustCtime && self.ctimeS != other.ctimeS then false
  else if o.trustCtime && o.checkStat && o.useNsec && self.ctimeN != other.ctimeN then false
  else if o.checkStat then
    if o.useStdev && self.dev != other.dev then false
    else self.ino == other.ino && self.gid == other.gid && self.uid == other.uid
  else true

/-- `Stat::is_racy(timestamp, opts)`: the low 32 bits of the index timestamp's seconds (`tsS` is
the full value) against the file's mtime as stored in the 32-bit stat -/
def isRacy (tsS tsN : Nat) (st : Stat) (o : StatOpts) : Bool :=
  if tsS % 2 ^ 32 < st.mtimeS then true
  else if tsS % 2 ^ 32 == st.mtimeS then (if o.useNsec && o.checkStat then tsN ≤ st.mtimeN else true)
  else false

/-- index entry modes that matter here -/
inductive Mode | file | fileExec | symlink | commit | dir
  deriving Repr, DecidableEq

structure Entry where
  mode : Mode
  /-- any of UPTODATE | SKIP_WORKTREE | ASSUME_VALID | FSMONITOR_VALID -/
  skip : Bool
  intentToAdd : Bool
  stat : Stat
  /-- `entry.id.is_empty_blob()` -/
  emptyBlob : Bool
  deriving Repr, DecidableEq

inductive FsKind | file | symlink | dir | other
  deriving Repr, DecidableEq

/-- what `lstat` said: `exec` = regular file with the owner-executable bit; `stat` is
`Stat::from_fs` (already truncated to 32 bits), `len` the untruncated `metadata.len()` -/
structure Meta where
  kind : FsKind
  exec : Bool
  stat : Stat
  len : Nat
  deriving Repr, DecidableEq

inductive Lookup
  | notFound
  | found (m : Meta)
  deriving Repr, DecidableEq

structure Opts where
  stat : StatOpts
  /-- `core.symlinks` -/
  symlink : Bool
  /-- `core.fileMode` -/
  execBit : Bool
  deriving Repr, DecidableEq

inductive ModeChange | none | type | execBit
  deriving Repr, DecidableEq

/-- `Mode::change_to_match_fs` (arms in source order) -/
def changeToMatchFs (m : Mode) (fs : Meta) (hasSymlinks execBit : Bool) : ModeChange :=
  let isFile := fs.kind == .file
  let isSymlink := fs.kind == .symlink
  let isDir := fs.kind == .dir
  if (m == .file || m == .fileExec) && !isFile then .type
  else if m == .symlink && hasSymlinks && !isSymlink then .type
  else if m == .symlink && !hasSymlinks && !isFile then .type
  else if (m == .commit || m == .dir) && !isDir then .type
  else if m == .file && execBit && fs.exec then .execBit
  else if m == .fileExec && execBit && !fs.exec then .execBit
  else .none

/-- `FastEq::compare_blobs`: `true` = content change reported. The entry's recorded (32-bit)
size is compared with the worktree length truncated to 32 bits. -/
def compareBlobs (e : Entry) (len : Nat) (hashDiffers : Bool) : Bool :=
  if e.stat.size != len % 2 ^ 32 && (e.emptyBlob || e.stat.size != 0) then true else hashDiffers

inductive Status
  | unchanged            -- no record is produced (also for entries skipped by their flags)
  | removed
  | typeChange
  | intentToAdd
  | modified (exec content setSizeZero : Bool)
  | needsUpdate
  | submodule            -- delegated to the submodule status (not modelled)
  deriving Repr, DecidableEq

/-- `State::process` + `State::compute_status` for a stage-0 entry -/
def entryStatus (e : Entry) (l : Lookup) (tsS tsN : Nat) (o : Opts) (hashDiffers : Bool) : Status :=
  if e.skip then .unchanged
  else match l with
  | .notFound => .removed
  | .found m =>
    if m.kind == .dir then (if e.mode == .commit then .submodule else .removed)
    else if e.intentToAdd then .intentToAdd
    else match changeToMatchFs e.mode m o.symlink o.execBit with
      | .type => .typeChange
      | mc =>
        let execChanged := mc == .execBit
        let statClean := !execChanged && m.stat.matches e.stat o.stat && (e.emptyBlob == (e.stat.size == 0))
        let racy := statClean && isRacy tsS tsN m.stat o.stat
        if statClean && !racy then .unchanged
        else
          let content := compareBlobs e m.len hashDiffers
          if content || execChanged then .modified execChanged content (content && racy)
          else .needsUpdate

/-! ## (2) directory walk: classification and collapsing -/

/-- `gix_ignore::Kind` -/
inductive IgnKind | expendable | precious
  deriving Repr, DecidableEq

/-- `gix_dir::entry::Status` -/
inductive DStatus
  | pruned
  | tracked
  | ignored (k : IgnKind)
  | untracked
  deriving Repr, DecidableEq

/-- what is known about one directory entry before classifying it -/
structure PathFacts where
  /-- the entry's name is `.git` -/
  dotGit : Bool
  /-- on disk it is a directory (`Kind::Directory | Kind::Repository`) -/
  isDir : Bool
  /-- the index has an entry with exactly this path / entries below `path/` -/
  indexFile : Bool
  indexDir : Bool
  /-- the exclude stack's verdict for this path -/
  excluded : Option IgnKind
  /-- a directory containing a `.git` that is a repository other than ours -/
  nestedRepo : Bool
  deriving Repr, DecidableEq

/-- `classify::path` for the options of `gix status` (no pathspec, not for deletion): the status
of the entry and whether it is a repository. An index entry of the same kind (file for file,
directory for directory) makes it tracked; otherwise excludes decide, otherwise it is untracked. -/
def classify (f : PathFacts) : DStatus × Bool :=
  if f.dotGit then (.pruned, false)
  else
    let indexKindIsDir : Option Bool := if f.indexFile then some false else if f.indexDir then some true else none
    if indexKindIsDir == some f.isDir then (.tracked, false)
    else match f.excluded with
      | some k => (.ignored k, false)
      | none => (.untracked, f.isDir && f.nestedRepo)

/-- a directory tree as the walk sees it -/
inductive Tree
  | file (name : Bytes) (f : PathFacts)
  | dir (name : Bytes) (f : PathFacts) (children : List Tree)
  deriving Repr

/-- how untracked / ignored entries are reported -/
inductive Emission | matching | collapse
  deriving Repr, DecidableEq

structure WalkOpts where
  emitUntracked : Emission
  /-- `None` = ignored entries are not reported -/
  emitIgnored : Option Emission
  emitEmptyDirectories : Bool
  /-- `emit_collapsed = Some(OnStatusMismatch)`: entries folded into a directory of a different
  status are still reported (the ignored file inside an untracked directory) -/
  emitCollapsedMismatch : Bool
  deriving Repr, DecidableEq

/-- an entry as emitted or held: path, status, on-disk directory?, repository?, empty directory? -/
structure Item where
  path : Bytes
  status : DStatus
  isDir : Bool
  repo : Bool
  emptyDir : Bool
  deriving Repr, DecidableEq

def WalkOpts.shouldHold (o : WalkOpts) (s : DStatus) : Bool :=
  s != .pruned && (o.emitIgnored == some .collapse || o.emitUntracked == .collapse)

/-- `emit_entry`: is the entry handed to the delegate? (tracked and pruned entries are not, ignored
ones only if requested, empty directories only if requested) -/
def WalkOpts.emits (o : WalkOpts) (i : Item) : Bool :=
  !((!o.emitEmptyDirectories && i.emptyDir) || i.status == .tracked
    || (o.emitIgnored == none && (match i.status with | .ignored _ => true | _ => false))
    || i.status == .pruned)

def joinPath (dir name : Bytes) : Bytes := if dir.isEmpty then name else dir ++ 47 :: name

/-- `Mark::try_collapse`: the status of the directory if all `held` entries can be folded into it -/
def collapseStatus (o : WalkOpts) (held : List Item) : Option DStatus :=
  if held.any (fun i => i.repo) then none
  else
    let expendable := (held.filter fun i => i.status == .ignored .expendable).length
    let precious := (held.filter fun i => i.status == .ignored .precious).length
    let untracked := (held.filter fun i => i.status == .untracked).length
    let entries := held.length
    if o.emitUntracked == .collapse && untracked != 0 && untracked + expendable + precious == entries then
      some .untracked
    else if o.emitIgnored == some .collapse then
      if expendable != 0 && expendable == entries then some (.ignored .expendable)
      else if precious != 0 && precious == entries then some (.ignored .precious)
      else none
    else none

/-- result of walking one directory: entries emitted so far (in order), entries still held for
the parent, and `prevent_collapse` -/
structure WalkRes where
  emitted : List Item
  held : List Item
  prevent : Bool
  deriving Repr, DecidableEq

mutual
/-- `readdir::recursive` on the children of directory `path` whose own classification is
`dirStatus`; `mayCollapse` is false for the root; a directory the index knows (`tracked`) is never
folded -/
def walkDir (o : WalkOpts) (mayCollapse : Bool) (path : Bytes) (dirStatus : DStatus)
    (children : List Tree) : WalkRes :=
  let r := walkChildren o path children
  if children.isEmpty then
    let it : Item := ⟨path, dirStatus, true, false, true⟩
    if o.shouldHold dirStatus then ⟨[], [it], false⟩
    else ⟨if o.emits it then [it] else [], [], false⟩
  else if r.prevent then ⟨r.emitted ++ r.held.filter o.emits, [], true⟩
  else
    match (if mayCollapse && dirStatus != .tracked then collapseStatus o r.held else none) with
    | some st =>
      ⟨r.emitted ++ (if o.emitCollapsedMismatch then r.held.filter (fun i => i.status != st && o.emits i) else []),
        [⟨path, st, true, false, false⟩], false⟩
    | none => ⟨r.emitted ++ r.held.filter o.emits, [], true⟩

/-- the loop over the entries of one directory -/
def walkChildren (o : WalkOpts) (path : Bytes) : List Tree → WalkRes
  | [] => ⟨[], [], false⟩
  | .file name f :: rest =>
    let (st, _) := classify f
    let it : Item := ⟨joinPath path name, st, false, false, false⟩
    let r := walkChildren o path rest
    if o.shouldHold st then ⟨r.emitted, it :: r.held, r.prevent⟩
    else ⟨(if o.emits it then [it] else []) ++ r.emitted, r.held, r.prevent⟩
  | .dir name f children :: rest =>
    let (st, repo) := classify f
    let p := joinPath path name
    let r := walkChildren o path rest
    -- `can_recurse`: tracked and untracked directories that are not repositories (ignored ones are not entered)
    if !repo && (st == .tracked || st == .untracked) then
      let sub := walkDir o true p st children
      ⟨sub.emitted ++ r.emitted, sub.held ++ r.held, sub.prevent || r.prevent⟩
    else
      let it : Item := ⟨p, st, true, repo, false⟩
      if o.shouldHold st then ⟨r.emitted, it :: r.held, r.prevent⟩
      else ⟨(if o.emits it then [it] else []) ++ r.emitted, r.held, r.prevent⟩
end

/-- `gix_dir::walk` from the worktree root: what the delegate receives -/
def walk (o : WalkOpts) (children : List Tree) : List Item :=
  let r := walkDir o false [] .tracked children
  r.emitted ++ r.held.filter o.emits

/-! ## (3) the report: changes of index entries, then untracked and ignored entries -/

/-- what is known about one stage-0 index entry: its path, the entry, what `lstat` said and whether
hashing the worktree content gives a different id -/
structure EntryFacts where
  path : Bytes
  e : Entry
  l : Lookup
  hashDiffers : Bool
  deriving Repr

/-- a worktree as `status` sees it (no submodules, no renames tracking, no pathspec) -/
structure Worktree where
  entries : List EntryFacts
  /-- the index timestamp -/
  tsS : Nat
  tsN : Nat
  o : Opts
  /-- the directory tree with the per-entry facts -/
  tree : List Tree

inductive Line
  /-- an index entry whose worktree file differs, with its status -/
  | change (path : Bytes) (s : Status)
  /-- an untracked or ignored entry -/
  | other (path : Bytes) (s : DStatus)
  deriving Repr, DecidableEq

/-- does the status produce a record for the user? (`needsUpdate` only refreshes the index) -/
def Status.reported : Status → Bool
  | .unchanged | .needsUpdate | .submodule => false
  | _ => true

/-- everything `gix status` reports (`-unormal`, `--ignored`): per index entry its status if it is
a change, then what the directory walk emits -/
def report (w : Worktree) (wo : WalkOpts) : List Line :=
  (w.entries.filterMap fun x =>
    let s := entryStatus x.e x.l w.tsS w.tsN w.o x.hashDiffers
    if s.reported then some (.change x.path s) else none) ++
  (walk wo w.tree).map fun i => .other i.path i.status

/-! ## driver -/

def natsOf (l : List String) : Option (List Nat) := l.mapM String.toNat?

def statOf : List Nat → Option Stat
  | [a, b, c, d, e, f, g, h, i] => some ⟨a, b, c, d, e, f, g, h, i⟩
  | _ => none

def modeOf : String → Option Mode
  | "file" => some .file | "exec" => some .fileExec | "symlink" => some .symlink
  | "commit" => some .commit | "dir" => some .dir | _ => none

def kindOf : String → Option FsKind
  | "file" => some .file | "symlink" => some .symlink | "dir" => some .dir | "other" => some .other
  | _ => none

def bit (s : String) : Option Bool := if s == "1" then some true else if s == "0" then some false else none

def Status.str : Status → String
  | .unchanged => "unchanged"
  | .removed => "removed"
  | .typeChange => "type"
  | .intentToAdd => "ita"
  | .modified x c z => s!"modified:{if x then 1 else 0}{if c then 1 else 0}{if z then 1 else 0}"
  | .needsUpdate => "needs-update"
  | .submodule => "submodule"

def handleEntry (a : List String) : Option String :=
  match a with
  | mode :: skip :: ita :: empty :: rest => do
    let mode ← modeOf mode
    let skip ← bit skip
    let ita ← bit ita
    let empty ← bit empty
    let es ← natsOf (rest.take 9) >>= statOf
    let rest := rest.drop 9
    let (lookup, rest) ← match rest with
      | "nf" :: r => some (Lookup.notFound, r)
      | kind :: exec :: r => do
        let kind ← kindOf kind
        let exec ← bit exec
        let fs ← natsOf (r.take 9) >>= statOf
        let len ← (r.drop 9).head? >>= String.toNat?
        some (Lookup.found ⟨kind, exec, fs, len⟩, r.drop 10)
      | _ => none
    match rest with
    | [tsS, tsN, tc, cs, ns, sd, sl, xb, hd] =>
      let tsS ← tsS.toNat?
      let tsN ← tsN.toNat?
      let o : Opts := ⟨⟨← bit tc, ← bit cs, ← bit ns, ← bit sd⟩, ← bit sl, ← bit xb⟩
      let e : Entry := ⟨mode, skip, ita, es, empty⟩
      some (entryStatus e lookup tsS tsN o (← bit hd)).str
    | _ => none
  | _ => none

def factsOf (s : String) : Option PathFacts :=
  match s.toList with
  | [a, b, c, d, e, f] => do
    let bb (ch : Char) : Option Bool := if ch == '1' then some true else if ch == '0' then some false else none
    let ex : Option IgnKind ← (if e == '0' then some none else if e == 'e' then some (some .expendable)
      else if e == 'p' then some (some .precious) else none)
    some ⟨← bb a, ← bb b, ← bb c, ← bb d, ex, ← bb f⟩
  | _ => none

/-- parse `n` trees from the token list (fuel = number of tokens) -/
def parseTrees : Nat → Nat → List String → Option (List Tree × List String)
  | _, 0, rest => some ([], rest)
  | 0, _, _ => none
  | fuel + 1, n + 1, "f" :: name :: facts :: rest => do
    let name ← bytesOfHex name
    let f ← factsOf facts
    let (ts, rest) ← parseTrees fuel n rest
    some (.file name f :: ts, rest)
  | fuel + 1, n + 1, "d" :: name :: facts :: k :: rest => do
    let name ← bytesOfHex name
    let f ← factsOf facts
    let k ← k.toNat?
    let (children, rest) ← parseTrees fuel k rest
    let (ts, rest) ← parseTrees fuel n rest
    some (.dir name f children :: ts, rest)
  | _, _, _ => none

def DStatus.str : DStatus → String
  | .pruned => "pruned" | .tracked => "tracked" | .ignored _ => "ignored" | .untracked => "untracked"

/-- insertion sort of the emitted entries by their printed path (the real walk's order depends on
`readdir`) -/
def insertBy (x : Bytes × String) : List (Bytes × String) → List (Bytes × String)
  | [] => [x]
  | y :: ys => if decide (x.1 ≤ y.1) then x :: y :: ys else y :: insertBy x ys

def handleWalk (a : List String) : Option String :=
  match a with
  | mode :: n :: rest => do
    let n ← n.toNat?
    let (trees, left) ← parseTrees (rest.length + 1) n rest
    if !left.isEmpty then none
    let o : WalkOpts ← (if mode == "normal" then some ⟨.collapse, some .collapse, false, true⟩
      else if mode == "all" then some ⟨.matching, some .matching, false, true⟩ else none)
    let items := walk o trees
    let printed := items.map fun i => ((if i.isDir then i.path ++ [47] else i.path), i.status.str)
    let sorted := printed.foldr insertBy []
    if sorted.isEmpty then some "-"
    else some (String.intercalate "," (sorted.map fun (p, s) => s!"{hexOfBytes p}:{s}"))
  | _ => none

def handle (args : List String) : String :=
  match args with
  | "entry" :: rest => (handleEntry rest).getD "bad-op"
  | "walk" :: rest => (handleWalk rest).getD "bad-op"
  | _ => "bad-op"

end GixModel.C49
