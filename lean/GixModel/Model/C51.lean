/-
C51 — models of the parallel helpers in gix-features/src/parallel.

(a) `InOrderIter` (in_order.rs) as a pure function of the arrival sequence of the inner iterator:
    `feed` is the part of the `next()` calls that pulls from `inner`, `drain` the calls after `inner`
    ended; `collect` = everything the iterator yields. `unreachable!`, `assert!` and `debug_assert!`
    are explicit `Out.panic*` outcomes.

(b) `in_parallel_with_slice` (in_parallel.rs) as a small-step transition system whose events are
    the atomic actions of the worker threads:
      fetch     `index.fetch_update(SeqCst, SeqCst, |x| (x < input_len).then_some(x + 1))`
      load      `stop_everything.load(Relaxed)` for the index just claimed (`break` if set)
      consumeOk / consumeErr   the call of `consume(&mut input[i], ..)` returning Ok / Err
      store     `stop_everything.store(true)` after a failed consume
      extStop   anybody else setting `stop_everything` (the watch-interrupts thread when
                `periodic()` returns `None`, or a `consume` using its `should_interrupt` argument)
    for any number `k` of threads (thread ids are `Nat`, `pcs : Nat → Pc`), any interleaving
    (= any event list accepted by `step`). Assumed of the runtime: each of these actions is atomic
    and the flag/counter behave sequentially consistently.

(c) `in_parallel` (and `reduce::Stepwise`, which has the same threads and channels) as the
    transition system `cstep`: a feeder thread sending the items into a bounded channel of capacity
    `k`, `k` workers (`recv`, `consume`, `send`), a bounded result channel of capacity `k`, the
    reducer in the calling thread; events are single channel operations / `consume` / `feed` calls.
    Assumed of crossbeam / std channels: FIFO, `send` blocks while full and fails once every
    receiver is gone, `recv` blocks while empty and fails once empty and every sender is gone.
-/
namespace GixModel.C51

/-! ### (a) InOrderIter -/

inductive Item (T : Type)
  | ok (seq : Nat) (v : T)
  | err (code : Nat)
  deriving Repr

inductive Out (T : Type)
  | val (v : T)
  | err (code : Nat)
  | panicLess       -- `unreachable!("in a correctly ordered sequence we can never see keys again")`
  | panicDup        -- `assert!(previous.is_none())`
  | panicLeftover   -- `debug_assert!(self.store.is_empty())`
  deriving Repr, DecidableEq

/-- the `BTreeMap<SequenceId, T>` -/
abbrev Buf (T : Type) := List (Nat × T)

def lookup {T : Type} (k : Nat) : Buf T → Option T
  | [] => none
  | (k', v) :: rest => if k' = k then some v else lookup k rest

def erase {T : Type} (k : Nat) : Buf T → Buf T
  | [] => []
  | (k', v) :: rest => if k' = k then erase k rest else (k', v) :: erase k rest

structure IOState (T : Type) where
  store : Buf T
  next : Nat

/-- the `next()` calls while `inner` still yields: outputs, and the state unless the iterator ended
(error or panic) -/
def feed {T : Type} : List (Item T) → IOState T → List (Out T) × Option (IOState T)
  | [], st => ([], some st)
  | Item.err e :: _, _ => ([Out.err e], none)
  | Item.ok c v :: rest, st =>
    if c = st.next then
      ((Out.val v) :: (feed rest { st with next := st.next + 1 }).1, (feed rest { st with next := st.next + 1 }).2)
    else if c < st.next then ([Out.panicLess], none)
    else if (lookup c st.store).isSome then ([Out.panicDup], none)
    else
      match lookup st.next ((c, v) :: st.store) with
      | some v' =>
        ((Out.val v') :: (feed rest { store := erase st.next ((c, v) :: st.store), next := st.next + 1 }).1,
          (feed rest { store := erase st.next ((c, v) :: st.store), next := st.next + 1 }).2)
      | none => feed rest { st with store := (c, v) :: st.store }

/-- the `next()` calls after `inner` returned `None` -/
def drain {T : Type} : Nat → IOState T → List (Out T)
  | 0, st => if st.store.isEmpty then [] else [Out.panicLeftover]
  | fuel + 1, st =>
    match lookup st.next st.store with
    | some v => Out.val v :: drain fuel { store := erase st.next st.store, next := st.next + 1 }
    | none => if st.store.isEmpty then [] else [Out.panicLeftover]

/-- everything `InOrderIter::from(arrivals.into_iter())` yields -/
def collect {T : Type} (arrivals : List (Item T)) : List (Out T) :=
  match feed arrivals { store := [], next := 0 } with
  | (outs, some st) => outs ++ drain st.store.length st
  | (outs, none) => outs

/-! ### (b) in_parallel_with_slice -/

inductive Pc
  | fetch
  | check (i : Nat)
  | consume (i : Nat)
  | failing
  | doneOk
  | doneErr
  deriving DecidableEq, Repr

structure Sys where
  /-- `input.len()` -/
  n : Nat
  /-- number of worker threads -/
  k : Nat
  idx : Nat
  stop : Bool
  pcs : Nat → Pc
  /-- calls of `consume`: (thread, index, returned Ok), newest first -/
  consumed : List (Nat × Nat × Bool)
  /-- indices claimed and dropped because the stop flag was seen -/
  skipped : List Nat

inductive Ev
  | fetch (t : Nat)
  | load (t : Nat)
  | consumeOk (t : Nat)
  | consumeErr (t : Nat)
  | store (t : Nat)
  | extStop
  deriving DecidableEq, Repr

def Sys.init (n k : Nat) : Sys :=
  { n := n, k := k, idx := 0, stop := false, pcs := fun _ => Pc.fetch, consumed := [], skipped := [] }

def setPc (pcs : Nat → Pc) (t : Nat) (pc : Pc) : Nat → Pc := fun j => if j = t then pc else pcs j

/-- one atomic action; `none` = the action is not possible in this state -/
def step (s : Sys) : Ev → Option Sys
  | Ev.fetch t =>
    if t < s.k ∧ s.pcs t = Pc.fetch then
      if s.idx < s.n then some { s with idx := s.idx + 1, pcs := setPc s.pcs t (Pc.check s.idx) }
      else some { s with pcs := setPc s.pcs t Pc.doneOk }
    else none
  | Ev.load t =>
    if t < s.k then
      match s.pcs t with
      | Pc.check i =>
        if s.stop then some { s with pcs := setPc s.pcs t Pc.doneOk, skipped := i :: s.skipped }
        else some { s with pcs := setPc s.pcs t (Pc.consume i) }
      | _ => none
    else none
  | Ev.consumeOk t =>
    if t < s.k then
      match s.pcs t with
      | Pc.consume i => some { s with pcs := setPc s.pcs t Pc.fetch, consumed := (t, i, true) :: s.consumed }
      | _ => none
    else none
  | Ev.consumeErr t =>
    if t < s.k then
      match s.pcs t with
      | Pc.consume i => some { s with pcs := setPc s.pcs t Pc.failing, consumed := (t, i, false) :: s.consumed }
      | _ => none
    else none
  | Ev.store t =>
    if t < s.k ∧ s.pcs t = Pc.failing then some { s with stop := true, pcs := setPc s.pcs t Pc.doneErr }
    else none
  | Ev.extStop => some { s with stop := true }

/-- a schedule = a list of events, oldest first -/
def runSched (s : Sys) : List Ev → Option Sys
  | [] => some s
  | e :: es => match step s e with
    | some s' => runSched s' es
    | none => none

def Pc.isDone : Pc → Bool
  | Pc.doneOk => true
  | Pc.doneErr => true
  | _ => false

/-- all worker threads have returned -/
def Sys.allDone (s : Sys) : Prop := ∀ t, t < s.k → (s.pcs t).isDone = true

/-- the function returns `Err` iff some worker returned `Err` (`results.push(res?)`) -/
def Sys.resultErr (s : Sys) : Prop := ∃ t, t < s.k ∧ s.pcs t = Pc.doneErr

def Sys.consumedIdx (s : Sys) : List Nat := s.consumed.map fun c => c.2.1

/-! ### (c) in_parallel (channels) -/

/-- a worker of `in_parallel`: `for item in receive_input { send_result.send(consume(item)) }` -/
inductive WPc
  | idle               -- about to `recv` from the input channel
  | item (i : Nat)     -- received item `i`, about to call `consume`
  | result (i : Nat)   -- consumed item `i`, about to `send` the result
  | done
  deriving DecidableEq, Repr

/-- the thread that called `in_parallel`: `for item in receive_result { reducer.feed(item)? }; reducer.finalize()` -/
inductive RPc
  | running
  | failed      -- `feed` returned `Err`: the function returns, dropping `receive_result`
  | finalized   -- the result channel was disconnected and empty: `finalize()` is called
  deriving DecidableEq, Repr

/-- `in_parallel(input, Some(k), .., consume, reducer)` with `n` input items; both channels are
`crossbeam_channel::bounded(k)`. Items and their results are identified by the item's index. -/
structure Chan where
  n : Nat
  k : Nat
  /-- the feeder thread has sent items `0 .. sent-1` -/
  sent : Nat
  /-- the feeder thread returned (input exhausted or `send` failed): the input channel is disconnected -/
  prodDone : Bool
  inQ : List Nat
  wpcs : Nat → WPc
  outQ : List Nat
  /-- results `feed` accepted, newest first -/
  fed : List Nat
  rpc : RPc
  /-- calls of `consume`: (worker, item), newest first -/
  consumed : List (Nat × Nat)
  /-- results that were produced but never accepted by the reducer -/
  lost : List Nat

inductive CEv
  | prodSend           -- `send_input.send(item)` succeeds
  | prodEnd            -- the feeder returns: input exhausted, or `send` failed as all receivers are gone
  | recv (t : Nat)     -- a worker receives the next item
  | workerEnd (t : Nat)  -- a worker's `recv` fails (disconnected and empty): the worker returns
  | consume (t : Nat)
  | send (t : Nat)     -- `send_result.send(result)` succeeds
  | sendFail (t : Nat) -- `send_result.send(result)` fails as the receiver is gone: the worker returns
  | feedOk             -- the reducer accepts the next result
  | feedErr            -- `feed` fails on the next result: `in_parallel` returns `Err`, dropping the receiver
  | finalize           -- the result channel is disconnected and empty
  | drop               -- the result receiver is dropped without reading on (`Stepwise::drop`, or the caller unwinding)
  deriving DecidableEq, Repr

def Chan.init (n k : Nat) : Chan :=
  { n := n, k := k, sent := 0, prodDone := false, inQ := [], wpcs := fun _ => WPc.idle, outQ := [],
    fed := [], rpc := RPc.running, consumed := [], lost := [] }

def setW (w : Nat → WPc) (t : Nat) (pc : WPc) : Nat → WPc := fun j => if j = t then pc else w j

/-- all `k` workers have returned (decidable: checked for `t = k-1, …, 0`) -/
def allWorkersDone (w : Nat → WPc) : Nat → Bool
  | 0 => true
  | k + 1 => decide (w k = WPc.done) && allWorkersDone w k

def cstep (c : Chan) : CEv → Option Chan
  | CEv.prodSend =>
    if c.prodDone = false ∧ c.sent < c.n ∧ c.inQ.length < c.k ∧ allWorkersDone c.wpcs c.k = false then
      some { c with inQ := c.inQ ++ [c.sent], sent := c.sent + 1 }
    else none
  | CEv.prodEnd =>
    if c.prodDone = false ∧ (c.sent = c.n ∨ allWorkersDone c.wpcs c.k = true) then some { c with prodDone := true }
    else none
  | CEv.recv t =>
    if t < c.k ∧ c.wpcs t = WPc.idle then
      match c.inQ with
      | i :: q => some { c with inQ := q, wpcs := setW c.wpcs t (WPc.item i) }
      | [] => none
    else none
  | CEv.workerEnd t =>
    if t < c.k ∧ c.wpcs t = WPc.idle ∧ c.inQ = [] ∧ c.prodDone = true then
      some { c with wpcs := setW c.wpcs t WPc.done }
    else none
  | CEv.consume t =>
    if t < c.k then
      match c.wpcs t with
      | WPc.item i => some { c with wpcs := setW c.wpcs t (WPc.result i), consumed := (t, i) :: c.consumed }
      | _ => none
    else none
  | CEv.send t =>
    if t < c.k ∧ c.rpc = RPc.running ∧ c.outQ.length < c.k then
      match c.wpcs t with
      | WPc.result i => some { c with wpcs := setW c.wpcs t WPc.idle, outQ := c.outQ ++ [i] }
      | _ => none
    else none
  | CEv.sendFail t =>
    if t < c.k ∧ c.rpc ≠ RPc.running then
      match c.wpcs t with
      | WPc.result i => some { c with wpcs := setW c.wpcs t WPc.done, lost := i :: c.lost }
      | _ => none
    else none
  | CEv.feedOk =>
    if c.rpc = RPc.running then
      match c.outQ with
      | r :: q => some { c with outQ := q, fed := r :: c.fed }
      | [] => none
    else none
  | CEv.feedErr =>
    if c.rpc = RPc.running then
      match c.outQ with
      | r :: q => some { c with outQ := [], lost := (r :: q) ++ c.lost, rpc := RPc.failed }
      | [] => none
    else none
  | CEv.finalize =>
    if c.rpc = RPc.running ∧ c.outQ = [] ∧ allWorkersDone c.wpcs c.k = true then some { c with rpc := RPc.finalized }
    else none
  | CEv.drop =>
    if c.rpc = RPc.running then some { c with outQ := [], lost := c.outQ ++ c.lost, rpc := RPc.failed }
    else none

def crun (c : Chan) : List CEv → Option Chan
  | [] => some c
  | e :: es => match cstep c e with
    | some c' => crun c' es
    | none => none

def Chan.consumedIdx (c : Chan) : List Nat := c.consumed.map fun x => x.2

/-- everything has returned -/
def Chan.terminal (c : Chan) : Prop :=
  c.prodDone = true ∧ allWorkersDone c.wpcs c.k = true ∧ c.rpc ≠ RPc.running

/-! ### driver -/


def showOut : Out Nat → String
  | .val v => s!"v{v}"
  | .err e => s!"e{e}"
  | .panicLess => "panic:less"
  | .panicDup => "panic:dup"
  | .panicLeftover => "panic:leftover"

def parseItem (s : String) : Option (Item Nat) :=
  match s.toList with
  | 'o' :: r =>
    match (String.ofList r).splitOn ":" with
    | [a, b] => do
      let a ← a.toNat?
      let b ← b.toNat?
      some (Item.ok a b)
    | _ => none
  | 'e' :: r => (String.ofList r).toNat?.map Item.err
  | _ => none

/-- an event of the real log with what the real code observed -/
inductive Obs
  | claimed (t i : Nat)
  | exhausted (t : Nat)
  | load (t : Nat) (v : Bool)
  | consumed (t i : Nat) (ok : Bool)
  | stored (t : Nat)
  | ext

def parseObs (s : String) : Option Obs :=
  let two (r : List Char) : Option (Nat × Nat) :=
    match (String.ofList r).splitOn ":" with
    | [a, b] => do
      let a ← a.toNat?
      let b ← b.toNat?
      some (a, b)
    | _ => none
  match s.toList with
  | 'F' :: r => (two r).map fun p => Obs.claimed p.1 p.2
  | 'X' :: r => (String.ofList r).toNat?.map Obs.exhausted
  | 'L' :: r => (two r).map fun p => Obs.load p.1 (p.2 == 1)
  | 'K' :: r => (two r).map fun p => Obs.consumed p.1 p.2 true
  | 'R' :: r => (two r).map fun p => Obs.consumed p.1 p.2 false
  | 'S' :: r => (String.ofList r).toNat?.map Obs.stored
  | ['E'] => some Obs.ext
  | _ => none

/-- replay one logged event: the model must be able to do it AND must observe the same value -/
def replayObs (s : Sys) : Obs → Option Sys
  | Obs.claimed t i => if s.idx = i ∧ s.idx < s.n then step s (Ev.fetch t) else none
  | Obs.exhausted t => if s.idx < s.n then none else step s (Ev.fetch t)
  | Obs.load t v => if s.stop = v then step s (Ev.load t) else none
  | Obs.consumed t i ok =>
    if s.pcs t = Pc.consume i then step s (if ok then Ev.consumeOk t else Ev.consumeErr t) else none
  | Obs.stored t => step s (Ev.store t)
  | Obs.ext => step s Ev.extStop

def replayAll : Sys → List Obs → Nat → Sys ⊕ Nat
  | s, [], _ => Sum.inl s
  | s, o :: os, pos => match replayObs s o with
    | some s' => replayAll s' os (pos + 1)
    | none => Sum.inr pos

def insertSorted (x : Nat × Nat × Bool) : List (Nat × Nat × Bool) → List (Nat × Nat × Bool)
  | [] => [x]
  | y :: ys => if x.1 ≤ y.1 then x :: y :: ys else y :: insertSorted x ys

def handle? : List String → Option String
  | "inorder" :: items => do
    let items ← items.mapM parseItem
    let outs := (collect items).map showOut
    some (if outs.isEmpty then "-" else ",".intercalate outs)
  | "slice" :: n :: k :: evs => do
    let n ← n.toNat?
    let k ← k.toNat?
    let evs ← evs.mapM parseObs
    match replayAll (Sys.init n k) evs 0 with
    | Sum.inr pos => some s!"rejected:{pos}"
    | Sum.inl s =>
      -- (index, thread, ok) sorted by index
      let cs := (s.consumed.map fun c => (c.2.1, c.1, c.2.2)).foldr insertSorted []
      let shown := cs.map fun c => s!"{c.1}:{c.2.1}:{if c.2.2 then 1 else 0}"
      let allDone := (List.range k).all fun t => (s.pcs t).isDone
      let isErr := (List.range k).any fun t => s.pcs t == Pc.doneErr
      some s!"accepted consumed={if shown.isEmpty then "-" else ",".intercalate shown} result={if isErr then "err" else "ok"} done={if allDone then 1 else 0}"
  | _ => none

def handle (args : List String) : String := (handle? args).getD "bad-op"

end GixModel.C51
