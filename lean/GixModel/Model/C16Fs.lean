/-
C16, extended model: the file system has directories and reflogs.

On top of the core model (GixModel.Model.C17Core) this adds what the real code does when nested
names meet (`refs/heads/a` is a file where `refs/heads/a/b` needs a directory, or the other way
round — in the `refs/` tree and in the `logs/` tree) and the reflog contents:

* creating the lock file `<name>.lock` fails like a held lock when a proper directory prefix of
  `name` is a loose reference file (`create_dir_all` reports AlreadyExists);
* in `commit_inner` every update first appends its reflog line (`reflog_create_or_append`; fails
  when a prefix of the name has a reflog FILE or the name itself is a non-empty DIRECTORY of
  reflogs), then renames its lock file onto the reference (fails when the reference path is a
  non-empty directory: loose references or lock files below it);
* then the reflogs of deleted references are removed (fails when the path is a directory or below
  a file), packed-refs is committed, and the loose files of deleted references are removed (fails
  below a file).

A failure in commit stops it where it is: what was done stays done. That is the real code's
behaviour (see Props/C16.lean: `df_partial_commit_witness`), not all-or-nothing.
-/
import GixModel.Model.C17Core

namespace GixModel.C16Fs
open GixModel.C17

/-- `p/` is a proper directory prefix of `n` -/
def isDirPrefix (p n : Name) : Bool := (p ++ [47]).isPrefixOf n

/-- reflog line: (old, new); old = 0 is the null id -/
abbrev LogLine := Oid × Oid

structure StoreX where
  base : Store
  /-- reflog files -/
  logs : List (Name × List LogLine) := []
  deriving Repr, DecidableEq

/-- a loose reference FILE sits where `n` needs a directory -/
def refFileAbove (S : Store) (n : Name) : Bool := S.loose.any fun kv => isDirPrefix kv.1 n

/-- the path of `n` is a non-empty directory: loose references or lock files below it -/
def refBelow (S : Store) (n : Name) : Bool :=
  S.loose.any (fun kv => isDirPrefix n kv.1) || S.locks.any (fun l => isDirPrefix n l)

def logFileAbove (logs : List (Name × List LogLine)) (n : Name) : Bool := logs.any fun kv => isDirPrefix kv.1 n
def logBelow (logs : List (Name × List LogLine)) (n : Name) : Bool := logs.any fun kv => isDirPrefix n kv.1

-- "refs/heads/" "refs/remotes/" "refs/notes/" "refs/worktree/"
def bHeads : Name := [114, 101, 102, 115, 47, 104, 101, 97, 100, 115, 47]
def bRemotes : Name := [114, 101, 102, 115, 47, 114, 101, 109, 111, 116, 101, 115, 47]
def bNotes : Name := [114, 101, 102, 115, 47, 110, 111, 116, 101, 115, 47]

/-- `should_autocreate_reflog` -/
def autoLog (n : Name) : Bool :=
  startsWith bHeads n || startsWith bRemotes n || startsWith bNotes n || startsWith bWorktree n || n == bHead

/-- the reflog line `commit_inner` wants to write for an update, if any:
`log_update` together with `do_update` -/
def logLineOf (e : Edit) : Option LogLine :=
  match e.update.change with
  | .update _ expected (.symbolic _) =>
    match expected with
    | .existingMustMatch (.object o) => some (0, o)
    | _ => none
  | .update _ expected (.object new) =>
    let previous : Option Oid := match expected with
      | .mustExistAndMatch (.object p) => some p
      | _ => e.leafPrev
    match previous with
    | some p => if p = new then none else some (p, new)
    | none => some (0, new)
  | .delete _ _ => none

def appendLog (logs : List (Name × List LogLine)) (n : Name) (l : LogLine) : List (Name × List LogLine) :=
  match lookup logs n with
  | some ls => insertKey logs n (ls ++ [l])
  | none => insertKey logs n [l]

inductive ErrX where
  | core (e : Err)
  | reflog
  | lockCommit (n : Name)
  | deleteReflog (n : Name)
  | deleteRef (n : Name)
  deriving DecidableEq, Repr

inductive ResX where
  | ok (S : StoreX)
  | err (e : ErrX) (S : StoreX)
  | panic (S : StoreX)
  | hang
  deriving Repr

/-- the reflog part of one iteration of the first loop ("reflog first, then reference"):
`none` = `reflog_create_or_append` fails -/
def logStep (logs : List (Name × List LogLine)) (e : Edit) : Option (List (Name × List LogLine)) :=
  match logLineOf e with
  | some l =>
    if autoLog e.name || (lookup logs e.name).isSome then
      if logFileAbove logs e.name || logBelow logs e.name then none
      else some (appendLog logs e.name l)
    else if logFileAbove logs e.name then none   -- `open` fails with ENOTDIR, not NotFound
    else some logs
  | none => some logs

/-- the rename of the lock file onto the reference fails: the path is a non-empty directory -/
def renameBlocked (dl : Bool) (S : Store) (e : Edit) : Bool :=
  match e.update.change with
  | .update log _ new =>
    !(dl && !new.isSymbolic && packable e.name) && decide (log = .andReference) && e.lock && refBelow S e.name
  | .delete _ _ => false

/-- first loop of `commit_inner`: reflog line, then the rename. `none` in the third component =
went through; `some e` = stopped with this error, the rest of the edits untouched. -/
def updatesX (dl : Bool) : StoreX → List Edit → StoreX × List Edit × Option ErrX
  | SX, [] => (SX, [], none)
  | SX, e :: rest =>
    match logStep SX.logs e with
    | none => (SX, e.core :: rest.map Edit.core, some .reflog)
    | some logs1 =>
      if renameBlocked dl SX.base e then
        ({ SX with logs := logs1 }, e.core :: rest.map Edit.core, some (.lockCommit e.name))
      else
        let r := commitUpdateStep dl SX.base e.core
        let rs := updatesX dl { base := r.1, logs := logs1 } rest
        (rs.1, r.2 :: rs.2.1, rs.2.2)

/-- second loop: remove the reflogs of deleted references -/
def logDeletesX : List (Name × List LogLine) → List Edit → List (Name × List LogLine) × Option ErrX
  | logs, [] => (logs, none)
  | logs, e :: rest =>
    match e.update.change with
    | .delete _ _ =>
      if logFileAbove logs e.name || logBelow logs e.name then (logs, some (.deleteReflog e.name))
      else logDeletesX (eraseKey logs e.name) rest
    | .update _ _ _ => logDeletesX logs rest

/-- last loop: remove the loose files of deleted references -/
def deletesX (dl : Bool) : Store → List Edit → Store × List Edit × Option ErrX
  | S, [] => (S, [], none)
  | S, e :: rest =>
    if takeLockAndDelete dl e && refFileAbove S e.name then (S, e :: rest, some (.deleteRef e.name))
    else
      let r := commitDeleteStep dl S e
      let rs := deletesX dl r.1 rest
      (rs.1, r.2 :: rs.2.1, rs.2.2)

/-- `commit_inner` with directories and reflogs; on an error what was done stays done and all
locks are dropped -/
def commitX (SX : StoreX) (p : Prepared) : ResX :=
  let dl := decide (p.mode = .updatesRemoveLoose)
  let unlockAll : Store → List Edit → Store := fun S es =>
    { releaseAll S es with packedLock := if p.ptx.isSome then false else S.packedLock }
  let r1 := updatesX dl SX p.edits
  match r1.2.2 with
  | some e => .err e { r1.1 with base := unlockAll r1.1.base r1.2.1 }
  | none =>
    let r2 := logDeletesX r1.1.logs r1.2.1
    match r2.2 with
    | some e => .err e { base := unlockAll r1.1.base r1.2.1, logs := r2.1 }
    | none =>
      let packedDone : Option Store := match p.ptx with
        | some ptx => commitPacked r1.1.base ptx
        | none => some r1.1.base
      match packedDone with
      | none => .err (.core .packedCommit) { base := unlockAll r1.1.base r1.2.1, logs := r2.1 }
      | some S2 =>
        let r3 := deletesX dl S2 r1.2.1
        match r3.2.2 with
        | some e => .err e { base := releaseAll r3.1 r3.2.1, logs := r2.1 }
        | none => .ok { base := releaseAll r3.1 r3.2.1, logs := r2.1 }

/-- names of the edits whose lock file cannot be created because a loose reference is in the way:
for `prepare` they look exactly like held locks -/
def blockedNames (S : Store) (es : List Edit) : List Name :=
  (es.map Edit.name).filter fun n => refFileAbove S n && !(S.locks.contains n)

def unblock (blocked : List Name) (S : Store) : Store :=
  { S with locks := S.locks.filter fun n => !(blocked.contains n) }

/-- prepare + commit with directories and reflogs -/
def runX (env : Env) (SX : StoreX) (t : Txn) : ResX :=
  match preProcess (fun n => lookup SX.base.loose n) t.edits with
  | .outOfFuel => .hang
  | .cycle => .err (.core .preprocess) SX
  | .duplicate => .err (.core .preprocess) SX
  | .ok es =>
    let blocked := blockedNames SX.base es
    let Splus : Store := { SX.base with locks := SX.base.locks ++ blocked }
    match prepareWith .fixed env Splus t with
    | .hang => .hang
    | .err e S1 => .err (.core e) { SX with base := unblock blocked S1 }
    | .panic S1 => .panic { SX with base := unblock blocked S1 }
    | .ok p S1 =>
      match commitX { SX with base := unblock blocked S1 } p with
      | r => r

end GixModel.C16Fs
