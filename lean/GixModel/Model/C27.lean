import GixModel.Model.C27Core
import GixModel.Spec.C27
import GixModel.Spec.C27Value
import GixModel.Lemmas.C27Total
/-
C27 — driver. The model proper is `Model/C27Core.lean` (gitoxide's side) and `Spec/C27.lean`
(git's side); this file only defines the line protocol over both, so that the harness can tie the
model to the real gitoxide code AND the spec to the real git binary.
-/
namespace GixModel.C27
open GixModel GixModel.C26

/-! ### driver -/

def errStr : LookupErr → String
  | .sectionMissing => "err:section"
  | .subSectionMissing => "err:subsection"
  | .keyMissing => "err:key"

def optSub (s : String) : Option (Option Bytes) :=
  if s == "~" then some none else (bytesOfHex s).map some

def showOptInt : Option Int → String
  | none => "err"
  | some v => s!"{v}"

def showOptBool : Option Bool → String
  | none => "err"
  | some b => if b then "true" else "false"

def handle? : List String → Option String
  | ["norm", x] => do
    let v ← bytesOfHex x
    some (hexOfBytes (normalize v))
  | ["bool", x] => do
    let v ← bytesOfHex x
    some (showOptBool (gixBool v))
  | ["int", x] => do
    let v ← bytesOfHex x
    some (showOptInt (gixInt v))
  | ["gitvalue", x] => do
    let v ← bytesOfHex x
    match gitParseValue v with
    | none => some "err"
    | some o => some s!"ok {hexOfBytes o}"
  | ["plain", x] => do
    let v ← bytesOfHex x
    some (if plainText v || plainTextCrlf v then "true" else "false")
  | ["plaindec", x] => do
    let v ← bytesOfHex x
    some (if plainDecimal v then "true" else "false")
  | ["booldev", x] => do
    let v ← bytesOfHex x
    some (if boolDeviates v then "true" else "false")
  | ["gitbool", x] => do
    let v ← bytesOfHex x
    some (showOptBool (gitBool v))
  | ["gitint", x] => do
    let v ← bytesOfHex x
    some (showOptInt (gitInt v))
  | ["get", file, sec, sub, key] => do
    let bs ← bytesOfHex file
    let sec ← bytesOfHex sec
    let sub ← optSub sub
    let key ← bytesOfHex key
    match fileFromBytes bs with
    | none => some "parse-err"
    | some f =>
      let one := match rawValue f sec sub key with
        | .ok v => hexOfBytes v
        | .error e => errStr e
      let all := match rawValues f sec sub key with
        | .ok vs => ",".intercalate (vs.map hexOfBytes)
        | .error e => errStr e
      let b := match fileBoolean f sec sub key with
        | none => "none"
        | some b => showOptBool b
      let i := match fileInteger f sec sub key with
        | none => "none"
        | some i => showOptInt i
      some s!"one={one} all={all} bool={b} int={i}"
  | _ => none

def handle (args : List String) : String := (handle? args).getD "bad-op"

end GixModel.C27
