import GixModel.Model.C39Core
import GixModel.Spec.C39
/-
C39 — driver glue (line protocol). Operations:

  parse <hex spec>
      → `gix=<ok <signature bits> <shell|literal|glob> <nil> <path hex> <attrs> | err> git=<ok|err>`:
        what `gix_pathspec::parse` yields and whether git accepts the pathspec at all
  select <nspecs> <hex>… <npaths> <hex>… <nattr> (<path hex> <name hex> <state>)… <nwm> (<text hex> <value hex> <flags> <0|1>)…
      → `gix=<one bit per path | err> git=<one bit per path | err>`: the paths the model of gitoxide's
        `Search` selects and the paths the transcription of git's matcher selects. The two tables are
        the parameters `Env.attr` (states from the real attribute stack: s, u, v<hex>, x = `!name`) and
        `Env.wm` (verdicts of the real `gix_glob::wildmatch`; flags bit0 = pathname, bit1 = icase).
-/
namespace GixModel.C39
open GixModel GixModel.C38

def showSt : St → String
  | .set => "s" | .unset => "u" | .unspecified => "x" | .value v => "v" ++ hexOfBytes v

def showMode : Mode → String
  | .shell => "shell" | .literal => "literal" | .glob => "glob"

def showSpec (s : PSpec) : String :=
  let attrs := if s.attrs.isEmpty then "-" else ",".intercalate (s.attrs.map fun a => hexOfBytes a.name ++ "/" ++ showSt a.st)
  s!"ok {s.sigBits} {showMode s.mode} {if s.nil then 1 else 0} {hexOfBytes s.path} {attrs}"

def takeHexes : Nat → List String → Option (List Bytes × List String)
  | 0, rest => some ([], rest)
  | n + 1, x :: rest => do
    let b ← bytesOfHex x
    let (bs, rest) ← takeHexes n rest
    some (b :: bs, rest)
  | _, _ => none

def parseState (s : String) : Option St :=
  if s == "s" then some St.set else if s == "u" then some St.unset else if s == "x" then some St.unspecified
  else if s.startsWith "v" then (bytesOfHex (s.drop 1).toString).map St.value else none

def takeAttrs : Nat → List String → Option (List (Bytes × Bytes × St) × List String)
  | 0, rest => some ([], rest)
  | n + 1, p :: a :: s :: rest => do
    let p ← bytesOfHex p
    let a ← bytesOfHex a
    let s ← parseState s
    let (xs, rest) ← takeAttrs n rest
    some ((p, a, s) :: xs, rest)
  | _, _ => none

def takeWm : Nat → List String → Option (List (Bytes × Bytes × Nat × Bool) × List String)
  | 0, rest => some ([], rest)
  | n + 1, t :: v :: f :: r :: rest => do
    let t ← bytesOfHex t
    let v ← bytesOfHex v
    let f ← f.toNat?
    let r ← (if r == "1" then some true else if r == "0" then some false else none)
    let (xs, rest) ← takeWm n rest
    some ((t, v, f, r) :: xs, rest)
  | _, _ => none

def tableEnv (attrs : List (Bytes × Bytes × St)) (wms : List (Bytes × Bytes × Nat × Bool)) (dflt : Bool) : Env :=
  { wm := fun t v pathname icase =>
      let f := (if pathname then 1 else 0) + (if icase then 2 else 0)
      match wms.find? (fun e => e.1 == t && e.2.1 == v && e.2.2.1 == f) with
      | some e => e.2.2.2
      | none => dflt
    attr := fun p n => (attrs.find? fun e => e.1 == p && e.2.1 == n).map fun e => e.2.2 }

def showBits (bs : List Bool) : String :=
  if bs.isEmpty then "-" else String.ofList (bs.map fun b => if b then '1' else '0')

def runSelect (specs paths : List Bytes) (attrs : List (Bytes × Bytes × St)) (wms : List (Bytes × Bytes × Nat × Bool))
    (dflt : Bool) : String :=
  let env := tableEnv attrs wms dflt
  let gix : String :=
    match allSome (specs.map parseSpec) with
    | none => "err"
    | some ps => match fromSpecs ps with
      | none => "err"
      | some s => showBits (paths.map fun p => select env s p false)
  let git : String := match GixModel.Spec.C39.gitSelect env specs paths with
    | none => "err"
    | some bs => showBits bs
  s!"gix={gix} git={git}"

def handle? : List String → Option String
  | ["parse", h] => do
    let bs ← bytesOfHex h
    let gix := match parseSpec bs with | some s => showSpec s | none => "err"
    let git := match GixModel.Spec.C39.initItem bs with | some _ => "ok" | none => "err"
    some s!"gix={gix} git={git}"
  | "select" :: ns :: rest => do
    let ns ← ns.toNat?
    let (specs, rest) ← takeHexes ns rest
    match rest with
    | np :: rest =>
      let np ← np.toNat?
      let (paths, rest) ← takeHexes np rest
      match rest with
      | na :: rest =>
        let na ← na.toNat?
        let (attrs, rest) ← takeAttrs na rest
        match rest with
        | nw :: rest =>
          let nw ← nw.toNat?
          let (wms, rest) ← takeWm nw rest
          if !rest.isEmpty then none else
          let a := runSelect specs paths attrs wms false
          let b := runSelect specs paths attrs wms true
          some (if a == b then a else "missing-verdict " ++ a ++ " | " ++ b)
        | _ => none
      | _ => none
    | _ => none
  | _ => none

def handle (args : List String) : String := (handle? args).getD "bad-op"

end GixModel.C39
