import GixModel.Model.C24Core
import GixModel.Basic.Dec
/-
C25 — model of the index *writer* (gix-index, SHA-1 repositories).

Rust functions modelled (all in /repo):
  gix_index::Entry::write_to                                   gix-index/src/entry/write.rs
  gix_index::entry::Flags::to_storage, at_rest::FlagsExtended::from_flags   gix-index/src/entry/flags.rs
  gix_index::write::{header, entries, State::write_to, State::write_extensions,
                     State::detect_required_version, Extensions::should_write}   gix-index/src/write.rs
  gix_index::extension::tree::write (Tree::write_to)           gix-index/src/extension/tree/write.rs
  gix_index::extension::sparse::write_to                       gix-index/src/extension/sparse.rs
  gix_index::extension::end_of_index_entry::write_to           gix-index/src/extension/end_of_index_entry/write.rs
  gix_index::File::write_to                                    gix-index/src/file/write.rs

Entries are the in-memory entries: `flags` is the full `u32` of `entry::Flags` (it may carry `REMOVE`
and other in-memory-only bits). The byte counter of `CountBytes` is a `u32` that errors beyond
4 GiB; the model counts in `Nat` (files below 4 GiB). SHA-1 is a parameter. The decoder side is the
C24 model.
-/
namespace GixModel.C25
open GixModel GixModel.C24

structure State where
  entries : List Entry
  tree : Option Tree
  isSparse : Bool

/-- `Flags::REMOVE` (1 << 17) -/
def isRemoved (e : Entry) : Bool := e.flags / 131072 % 2 == 1

/-- `Flags::EXTENDED` (1 << 14) -/
def isExtended (e : Entry) : Bool := e.flags / 16384 % 2 == 1

def be16 (n : Nat) : Bytes := [UInt8.ofNat (n / 256 % 256), UInt8.ofNat (n % 256)]

/-- `to_storage().bits()`: the low 16 bits without the path length -/
def storageFlags (e : Entry) : Nat := e.flags % 65536 / 4096 * 4096

/-- `FlagsExtended::from_flags(flags).bits()`: INTENT_TO_ADD (1<<29) and SKIP_WORKTREE (1<<30), shifted down by 16 -/
def extendedFlags (e : Entry) : Nat := e.flags / 536870912 % 4 * 8192

/-- `Entry::write_to`: no padding, one NUL after the path -/
def writeEntry (e : Entry) : Bytes :=
  be32 e.stat.ctimeS ++ (be32 e.stat.ctimeN ++ (be32 e.stat.mtimeS ++ (be32 e.stat.mtimeN ++
  (be32 e.stat.dev ++ (be32 e.stat.ino ++ (be32 e.mode ++ (be32 e.stat.uid ++ (be32 e.stat.gid ++
  (be32 e.stat.size ++ (e.id ++ (be16 (storageFlags e + min e.path.length 4095) ++
  ((if isExtended e then be16 (extendedFlags e) else []) ++ (e.path ++ [0])))))))))))))

/-- `write::entries`: entries with `REMOVE` are skipped; after each entry the stream is padded with
NULs to a multiple of 8 relative to the end of the header. `count` = bytes written so far. -/
def writeEntriesGo (headerSize : Nat) : Nat → List Entry → Bytes
  | _, [] => []
  | count, e :: es =>
    if isRemoved e then writeEntriesGo headerSize count es
    else
      let b := writeEntry e
      let c := count + b.length
      let pad := if (c - headerSize) % 8 = 0 then 0 else 8 - (c - headerSize) % 8
      b ++ (List.replicate pad 0 ++ writeEntriesGo headerSize (c + pad) es)

/-- `detect_required_version` -/
def requiredVersion (es : List Entry) : Nat := if es.any isExtended then 3 else 2

/-- `write::header` -/
def writeHeader (version n : Nat) : Bytes := sigDIRC ++ (be32 version ++ be32 n)

/-- `itoa` of an unsigned number (`digitsFuel` with enough fuel: one unit per digit) -/
def itoaNat (n : Nat) : Bytes := digitsFuel 10 (n + 1) n

mutual
  /-- `tree_entry` in `Tree::write_to` -/
  def writeTreeEntry : Tree → Bytes
    | .mk name id num cs =>
      name ++ [0] ++
        (match num with
         | some n => itoaNat n
         | none => [45, 49]) ++ [32] ++ itoaNat cs.length ++ [10] ++
        (match num with
         | some _ => id
         | none => []) ++ writeTreeEntries cs
  def writeTreeEntries : List Tree → Bytes
    | [] => []
    | t :: ts => writeTreeEntry t ++ writeTreeEntries ts
end

def writeExt (sig payload : Bytes) : Bytes := sig ++ (be32 payload.length ++ payload)

/-- `write::Extensions` reduced to what it decides: write TREE? write EOIE? (`All` = both,
`None` = neither; the sparse marker does not depend on it) -/
structure Options where
  treeCache : Bool
  endOfIndexEntry : Bool
  skipHash : Bool

/-- the extensions `write_extensions` emits, as (signature, payload) -/
def extensionsOf (s : State) (o : Options) : List (Bytes × Bytes) :=
  (match s.tree with
   | some t => if o.treeCache then [(sigTREE, writeTreeEntry t)] else []
   | none => []) ++
  (if s.isSparse then [(sigSdir, [])] else [])

/-- `State::write_to`: the version and the bytes -/
def writeState (sha1 : Bytes → Bytes) (s : State) (o : Options) : Nat × Bytes :=
  let version := requiredVersion s.entries
  let kept := (s.entries.filter fun e => !isRemoved e).length
  let hdr := writeHeader version kept
  let body := writeEntriesGo hdr.length hdr.length s.entries
  let offsetToExtensions := hdr.length + body.length
  let exts := extensionsOf s o
  let extBytes := exts.flatMap fun (sig, p) => writeExt sig p
  let eoie :=
    if s.entries.length > 0 ∧ o.endOfIndexEntry ∧ !exts.isEmpty then
      writeExt sigEOIE (be32 offsetToExtensions ++ sha1 (exts.flatMap fun (sig, p) => sig ++ be32 p.length))
    else []
  (version, hdr ++ (body ++ (extBytes ++ eoie)))

/-- `File::write_to`: the state followed by the hash of everything before it (or the null hash) -/
def writeFile (sha1 : Bytes → Bytes) (s : State) (o : Options) : Nat × Bytes :=
  let (version, bytes) := writeState sha1 s o
  (version, bytes ++ (if o.skipHash then List.replicate hashLen 0 else sha1 bytes))

end GixModel.C25
