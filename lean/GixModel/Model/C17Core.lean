/-
C16/C17 shared core: an executable model of gitoxide's loose+packed reference transactions.

Modelled code (gix-ref):
  transaction/ext.rs            extend_with_splits_of_symbolic_refs, assure_one_name_has_one_edit,
                                pre_process
  store/file/transaction/prepare.rs   prepare_inner, lock_ref_and_apply_change,
                                possibly_adjust_name_for_prefixes (plain names only)
  store/file/transaction/commit.rs    commit_inner
  store/packed/transaction.rs   prepare (filter of deletions, peeling = "object known"), commit
                                (merge of the sorted buffer with the sorted edits)

The concrete store is what is on disk: loose ref files, the packed-refs file (or its absence),
`<ref>.lock` files and `packed-refs.lock` (own and foreign alike — a lock is a file).
Reflogs, directory/file conflicts between nested names (`a` vs `a/b`) and file-system errors other
than "lock file exists" are outside the model (the harness keeps histories inside that domain).

Loops of the real code are either structural here or carry explicit fuel with `none`/`hang` for
"did not finish"; GixModel.Lemmas.C17 proves the fuel always suffices.
-/
namespace GixModel.C17

abbrev Name := List UInt8
abbrev Oid := Nat

inductive Target where
  | object (o : Oid)
  | symbolic (n : Name)
  deriving DecidableEq, Repr, Inhabited

/-- `transaction::PreviousValue` -/
inductive Prev where
  | any
  | mustExist
  | mustNotExist
  | mustExistAndMatch (t : Target)
  | existingMustMatch (t : Target)
  deriving DecidableEq, Repr, Inhabited

/-- `transaction::RefLog` -/
inductive LogMode where
  | andReference
  | only
  deriving DecidableEq, Repr, Inhabited

/-- `transaction::Change` (the reflog message and `force_create_reflog` are not modelled) -/
inductive Change where
  | update (log : LogMode) (expected : Prev) (new : Target)
  | delete (expected : Prev) (log : LogMode)
  deriving DecidableEq, Repr, Inhabited

/-- `transaction::RefEdit` -/
structure RefEdit where
  change : Change
  name : Name
  deref : Bool
  deriving DecidableEq, Repr, Inhabited

/-- `file::transaction::Edit`; `lock` = this edit owns the file `<name>.lock` -/
structure Edit where
  update : RefEdit
  lock : Bool := false
  parent : Option Nat := none
  leafPrev : Option Oid := none
  deriving DecidableEq, Repr, Inhabited

def Change.logMode : Change → LogMode
  | .update log _ _ => log
  | .delete _ log => log

def Edit.name (e : Edit) : Name := e.update.name

/-! ## transaction/ext.rs -/

/-- body of the `for` loop of `extend_with_splits_of_symbolic_refs` for the edit at index `eid`:
the (possibly altered) edit and the split-off edit for the referent, if any -/
def splitEdit (find : Name → Option Target) (eid : Nat) (e : Edit) : Edit × List Edit :=
  if e.update.deref then
    match find e.update.name with
    | some (.symbolic referent) =>
      match e.update.change with
      | .delete expected log =>
        ({ e with update := { e.update with deref := false, change := .delete expected .only } },
         [{ update := { change := .delete expected log, name := referent, deref := true },
            parent := some eid }])
      | .update log expected new =>
        ({ e with update := { e.update with deref := false, change := .update .only .any new } },
         [{ update := { change := .update log expected new, name := referent, deref := true },
            parent := some eid }])
    | _ => ({ e with update := { e.update with deref := false } }, [])
  else (e, [])

/-- one pass over `self[first..]`; `eid` is the index of the head of the list -/
def splitPass (find : Name → Option Target) : Nat → List Edit → List Edit × List Edit
  | _, [] => ([], [])
  | eid, e :: rest =>
    let r := splitEdit find eid e
    let rs := splitPass find (eid + 1) rest
    (r.1 :: rs.1, r.2 ++ rs.2)

/-- the `loop { … }` of `extend_with_splits_of_symbolic_refs` as written: it has no bound of its
own besides `round == 5`; `none` = the fuel ran out (never happens: `split_rounds_terminate`) -/
def splitLoop (find : Name → Option Target) : (fuel round first : Nat) → List Edit →
    Option (Except Unit (List Edit))
  | 0, _, _, _ => none
  | fuel + 1, round, first, es =>
    let r := splitPass find first (es.drop first)
    let es' := es.take first ++ r.1
    if r.2.isEmpty then some (.ok es')
    else if round == 5 then some (.error ())
    else splitLoop find fuel (round + 1) es'.length (es' ++ r.2)

def extendWithSplits (find : Name → Option Target) (es : List Edit) : Option (Except Unit (List Edit)) :=
  splitLoop find 5 1 0 es

/-- `assure_one_name_has_one_edit` (sort + adjacent-equal = some name occurs twice) -/
def hasDup : List Name → Bool
  | [] => false
  | n :: rest => rest.contains n || hasDup rest

inductive PreRes where
  | ok (es : List Edit)
  | cycle
  | duplicate
  | outOfFuel
  deriving Repr

def preProcess (find : Name → Option Target) (edits : List RefEdit) : PreRes :=
  match extendWithSplits find (edits.map fun u => { update := u }) with
  | none => .outOfFuel
  | some (.error _) => .cycle
  | some (.ok es) => if hasDup (es.map Edit.name) then .duplicate else .ok es

/-! ## the parent-chain walks of prepare_inner -/

inductive WalkRes where
  | name (n : Name)
  | indexPanic
  deriving DecidableEq, Repr

/-- The loop that names the failing ref after a lock error (after fix 004049487):
`while let Some(parent_idx) = cursor { let parent = &updates[parent_idx];
   if parent.parent_index.is_none() { ref_name = parent.name(); } cursor = parent.parent_index; }`
`none` = out of fuel. -/
def walk (es : List Edit) : (fuel : Nat) → (cursor : Option Nat) → (refName : Name) → Option WalkRes
  | _, none, refName => some (.name refName)
  | 0, some _, _ => none
  | fuel + 1, some p, refName =>
    match es[p]? with
    | none => some .indexPanic
    | some parent =>
      walk es fuel parent.parent (if parent.parent.isNone then parent.name else refName)

namespace Legacy
/-- The loop as it was before the fix: the cursor is only advanced in the `else` branch. -/
def walk (es : List Edit) : (fuel : Nat) → (cursor : Option Nat) → (refName : Name) → Option WalkRes
  | _, none, refName => some (.name refName)
  | 0, some _, _ => none
  | fuel + 1, some p, refName =>
    match es[p]? with
    | none => some .indexPanic
    | some parent =>
      if parent.parent.isNone then walk es fuel (some p) parent.name
      else walk es fuel parent.parent refName
end Legacy

/-- `while let Some(parent) = cursor.take().map(|idx| &mut updates[idx]) { cursor = parent.parent_index;
parent.leaf_referent_previous_oid = Some(oid) }`; `none` = out of fuel, `some none` = index panic -/
def setLeaf (oid : Oid) : (fuel : Nat) → (cursor : Option Nat) → List Edit → Option (Option (List Edit))
  | _, none, es => some (some es)
  | 0, some _, _ => none
  | fuel + 1, some p, es =>
    match es[p]? with
    | none => some none
    | some parent => setLeaf oid fuel parent.parent (es.set p { parent with leafPrev := some oid })

/-! ## gix-utils backoff.rs and gix-lock acquire.rs -/

/-- `randomize` with the random factor `r ∈ 750..=1250` made explicit -/
def randomize (r : Nat) (backoffMs : Nat) : Nat :=
  let v := r * backoffMs / 1000
  if v = 0 then backoffMs else v

/-- state of `Exponential` -/
structure Expo where
  multiplier : Nat := 1
  exponent : Nat := 1
  deriving Repr, DecidableEq

/-- `Iterator::next` (max_multiplier = 1000): the wait before the transform, and the next state -/
def Expo.next (s : Expo) : Nat × Expo :=
  let m := s.multiplier + (2 * s.exponent + 1)
  (s.multiplier, if m > 1000 then { multiplier := 1000, exponent := s.exponent }
                 else { multiplier := m, exponent := s.exponent + 1 })

/-- `until_no_remaining(time)`: `take_while` with the `stop_next_iteration` flag; `transform k m`
is the transform applied to the k-th item. `none` = out of fuel. -/
def waits (transform : Nat → Nat → Nat) (time : Nat) :
    (fuel : Nat) → (k : Nat) → Expo → (elapsed : Nat) → (stopNext : Bool) → Option (List Nat)
  | 0, _, _, _, _ => none
  | fuel + 1, k, s, elapsed, stopNext =>
    if stopNext then some []
    else
      let r := s.next
      let d := transform k r.1
      let elapsed' := elapsed + d
      (waits transform time fuel (k + 1) r.2 elapsed' (decide (elapsed' > time))).map (d :: ·)

/-- the waits of `Exponential::default().until_no_remaining(time)` / `default_with_random()` -/
def waitsOf (transform : Nat → Nat → Nat) (time : Nat) : Option (List Nat) :=
  waits transform time (time + 2) 0 {} 0 false

inductive TryLock where
  | acquired
  | alreadyExists
  | otherError
  deriving DecidableEq, Repr

inductive LockOutcome where
  | locked
  | permanentlyLocked (attempts : Nat)
  | io
  deriving DecidableEq, Repr

/-- the `for wait in …` loop of `lock_with_mode`; `tryLock k` is the result of the k-th attempt -/
def lockLoop (tryLock : Nat → TryLock) : (ws : List Nat) → (k : Nat) → LockOutcome
  | [], k =>
    match tryLock k with
    | .acquired => .locked
    | .alreadyExists => .permanentlyLocked (k + 1)
    | .otherError => .io
  | _ :: ws, k =>
    match tryLock k with
    | .acquired => .locked
    | .alreadyExists => lockLoop tryLock ws (k + 1)
    | .otherError => .io

/-- `Fail` -/
inductive Fail where
  | immediately
  | afterDurationWithBackoff (ms : Nat)
  deriving DecidableEq, Repr

/-- `lock_with_mode`; `none` only if the back-off iterator were infinite -/
def lockWithMode (transform : Nat → Nat → Nat) (mode : Fail) (tryLock : Nat → TryLock) : Option LockOutcome :=
  match mode with
  | .immediately => some (lockLoop tryLock [] 0)
  | .afterDurationWithBackoff t => (waitsOf transform t).map fun ws => lockLoop tryLock ws 0

/-! ## the store -/

def lookup {α : Type} : List (Name × α) → Name → Option α
  | [], _ => none
  | (k, v) :: rest, n => if k = n then some v else lookup rest n

def eraseKey {α : Type} (l : List (Name × α)) (n : Name) : List (Name × α) :=
  l.filter fun kv => kv.1 ≠ n

def insertKey {α : Type} (l : List (Name × α)) (n : Name) (v : α) : List (Name × α) :=
  (n, v) :: eraseKey l n

/-- bytewise lexicographic order (the order of packed-refs) -/
def nameLt : Name → Name → Bool
  | [], [] => false
  | [], _ :: _ => true
  | _ :: _, [] => false
  | a :: as, b :: bs =>
    if a.toNat < b.toNat then true else if b.toNat < a.toNat then false else nameLt as bs

structure Store where
  /-- loose reference files -/
  loose : List (Name × Target) := []
  /-- the packed-refs file: `none` = no such file -/
  packed : Option (List (Name × Oid)) := none
  /-- `<name>.lock` files -/
  locks : List Name := []
  /-- `packed-refs.lock` -/
  packedLock : Bool := false
  deriving Repr, DecidableEq

/-- what `try_find` sees: loose first, then packed -/
def Store.find (S : Store) (n : Name) : Option Target :=
  match lookup S.loose n with
  | some t => some t
  | none => match S.packed with
    | some b => (lookup b n).map .object
    | none => none

/-- `PackedRefs` -/
inductive Mode where
  | deletionsOnly
  | updates
  | updatesRemoveLoose
  deriving DecidableEq, Repr

def startsWith (p n : Name) : Bool := p.isPrefixOf n

-- "refs/" "refs/bisect/" "refs/worktree/" "refs/rewritten/"
def bRefs : Name := [114, 101, 102, 115, 47]
def bBisect : Name := [114, 101, 102, 115, 47, 98, 105, 115, 101, 99, 116, 47]
def bWorktree : Name := [114, 101, 102, 115, 47, 119, 111, 114, 107, 116, 114, 101, 101, 47]
def bRewritten : Name := [114, 101, 102, 115, 47, 114, 101, 119, 114, 105, 116, 116, 101, 110, 47]

/-- `possibly_adjust_name_for_prefixes(name).is_some()` for plain names (no `main-worktree/`,
`worktrees/<name>/` prefixes): everything below `refs/` except the per-worktree hierarchies;
pseudo-refs such as `HEAD` are not packable -/
def packable (n : Name) : Bool :=
  startsWith bRefs n && !startsWith bBisect n && !startsWith bWorktree n && !startsWith bRewritten n

structure Env where
  /-- the object database handed to the packed transaction knows this object -/
  known : Oid → Bool

inductive LockFail where
  | held
  deriving DecidableEq, Repr

inductive Err where
  | preprocess
  | packedLock
  | packedPrepare
  | lockAcquire (name : Name)
  | deleteMustExist (name : Name)
  | mustNotExist (name : Name)
  | mustExist (name : Name)
  | outOfDate (name : Name)
  | packedCommit
  deriving DecidableEq, Repr

/-- result of running something on a store; the store is always the one left on disk -/
inductive Res (α : Type) where
  | ok (a : α) (S : Store)
  | err (e : Err) (S : Store)
  | panic (S : Store)
  | hang
  deriving Repr

def acquire (S : Store) (n : Name) : Option Store :=
  if n ∈ S.locks then none else some { S with locks := n :: S.locks }

def release (S : Store) (n : Name) : Store := { S with locks := S.locks.erase n }

/-- state of a `packed::Transaction` after `prepare` -/
structure PTx where
  buffer : Option (List (Name × Oid))
  /-- `some oid` = update, `none` = deletion -/
  edits : List (Name × Option Oid)
  deriving Repr, DecidableEq

inductive CheckErr where
  | deleteMustExist
  | mustNotExist
  | mustExist
  | outOfDate
  | bug
  deriving DecidableEq, Repr

/-- the `match (&expected, &existing_ref)` of the `Change::Delete` arm -/
def checkDelete (expected : Prev) (existing : Option Target) : Option CheckErr :=
  match expected, existing with
  | .mustNotExist, _ => some .bug
  | .existingMustMatch _, none => none
  | .any, _ => none
  | .mustExist, some _ => none
  | .mustExist, none => some .deleteMustExist
  | .mustExistAndMatch _, none => some .deleteMustExist
  | .mustExistAndMatch p, some e => if p ≠ e then some .outOfDate else none
  | .existingMustMatch p, some e => if p ≠ e then some .outOfDate else none

/-- the `match (&expected, &existing_ref)` of the `Change::Update` arm -/
def checkUpdate (expected : Prev) (existing : Option Target) (new : Target) : Option CheckErr :=
  match expected, existing with
  | .any, _ => none
  | .mustExist, some _ => none
  | .mustNotExist, none => none
  | .existingMustMatch _, none => none
  | .mustExist, none => some .mustExist
  | .mustNotExist, some e => if e ≠ new then some .mustNotExist else none
  | .mustExistAndMatch p, some e => if p ≠ e then some .outOfDate else none
  | .existingMustMatch p, some e => if p ≠ e then some .outOfDate else none
  | .mustExistAndMatch _, none => some .mustExist

/-- `new_would_change_existing` → (is_effective, is_symbolic) -/
def newWouldChange (new existing : Target) : Bool × Bool :=
  match new, existing with
  | .object n, .object o => (decide (o ≠ n), false)
  | .symbolic n, .symbolic o => (decide (o ≠ n), true)
  | .object _, _ => (true, false)
  | .symbolic _, _ => (true, true)

def Target.isSymbolic : Target → Bool
  | .symbolic _ => true
  | .object _ => false

structure Ctx where
  /-- `self.packed_transaction.as_ref().and_then(packed::Transaction::buffer)` -/
  buffer : Option (List (Name × Oid))
  /-- `self.packed_transaction.is_some()` -/
  hasGlobalLock : Bool
  /-- `PackedRefs::DeletionsAndNonSymbolicUpdatesRemoveLooseSourceReference` -/
  directToPacked : Bool

inductive StepErr where
  | lock
  | check (e : CheckErr)
  deriving DecidableEq, Repr

/-- `existing_ref` of `lock_ref_and_apply_change` -/
def readExisting (S : Store) (buffer : Option (List (Name × Oid))) (n : Name) : Option Target :=
  match lookup S.loose n with
  | some t => some t
  | none => match buffer with
    | some b => (lookup b n).map .object
    | none => none

/-- "Keep the previous value for the caller": `*expected = MustExistAndMatch(existing.target)` -/
def recordExisting (existing : Option Target) (expected : Prev) : Prev :=
  match existing with
  | some t => .mustExistAndMatch t
  | none => expected

/-- `(is_effective, is_symbolic)` -/
def effectiveness (existing : Option Target) (new : Target) : Bool × Bool :=
  match existing with
  | some t => newWouldChange new t
  | none => (true, new.isSymbolic)

/-- `lock_ref_and_apply_change`. On error every lock taken inside has been dropped again (the
store is the one passed in). -/
def lockAndApply (cx : Ctx) (S : Store) (e : Edit) : Except StepErr (Store × Edit) :=
  let existing := readExisting S cx.buffer e.name
  match e.update.change with
  | .delete expected log =>
    let locked : Option (Store × Bool) :=
      if cx.hasGlobalLock then some (S, false) else (acquire S e.name).map fun S' => (S', true)
    match locked with
    | none => .error .lock
    | some (S1, lk) =>
      match checkDelete expected existing with
      | some ce => .error (.check ce)
      | none =>
        .ok (S1, { e with update := { e.update with change := .delete (recordExisting existing expected) log }, lock := lk })
  | .update log expected new =>
    let locked : Option (Store × Bool) :=
      if cx.hasGlobalLock then some (S, false) else (acquire S e.name).map fun S' => (S', true)
    match locked with
    | none => .error .lock
    | some (S1, lk) =>
      match checkUpdate expected existing new with
      | some ce => .error (.check ce)
      | none =>
        let es : Bool × Bool := effectiveness existing new
        let upd : RefEdit := { e.update with change := .update log (recordExisting existing expected) new }
        -- references that cannot be packed are always written loose (fix 11ff4993b)
        if (es.1 && !(cx.directToPacked && packable e.name)) || es.2 then
          if lk then .ok (S1, { e with update := upd, lock := true })
          else match acquire S1 e.name with
            | none => .error .lock
            | some S2 => .ok (S2, { e with update := upd, lock := true })
        else
          .ok (if lk then release S1 e.name else S1, { e with update := upd, lock := false })

/-- drop every lock the edits own (what dropping `updates` does) -/
def releaseAll (S : Store) : List Edit → Store
  | [] => S
  | e :: es => releaseAll (if e.lock then release S e.name else S) es

def errOfCheck (n : Name) : CheckErr → Option Err
  | .deleteMustExist => some (.deleteMustExist n)
  | .mustNotExist => some (.mustNotExist n)
  | .mustExist => some (.mustExist n)
  | .outOfDate => some (.outOfDate n)
  | .bug => none

/-- `Change::previous_value()` restricted to objects -/
def prevOid (c : Change) : Option Oid :=
  match c with
  | .update _ (.mustExistAndMatch (.object o)) _ => some o
  | .update _ (.existingMustMatch (.object o)) _ => some o
  | .delete (.mustExistAndMatch (.object o)) _ => some o
  | .delete (.existingMustMatch (.object o)) _ => some o
  | _ => none

/-- which walk names the failing ref: the repaired one or the one before fix 004049487 -/
inductive WalkKind where
  | fixed
  | legacy
  deriving DecidableEq, Repr

def walkBy (k : WalkKind) (es : List Edit) (fuel : Nat) (cursor : Option Nat) (nm : Name) : Option WalkRes :=
  match k with
  | .fixed => walk es fuel cursor nm
  | .legacy => Legacy.walk es fuel cursor nm

/-- the `for cid in 0..updates.len()` loop of `prepare_inner`. `unlockPacked` undoes the packed
transaction's lock on the error paths (dropping `self`). -/
def prepLoop (wk : WalkKind) (cx : Ctx) (unlockPacked : Store → Store) :
    (todo : Nat) → (cid : Nat) → Store → List Edit → Res (List Edit)
  | 0, _, S, es => .ok es S
  | todo + 1, cid, S, es =>
    match es[cid]? with
    | none => .ok es S
    | some e =>
      match lockAndApply cx S e with
      | .error .lock =>
        match walkBy wk es es.length e.parent e.name with
        | none => .hang
        | some .indexPanic => .panic (unlockPacked (releaseAll S es))
        | some (.name n) => .err (.lockAcquire n) (unlockPacked (releaseAll S es))
      | .error (.check ce) =>
        match errOfCheck e.name ce with
        | some err => .err err (unlockPacked (releaseAll S es))
        | none => .panic (unlockPacked (releaseAll S es))
      | .ok (S1, e1) =>
        let es1 := es.set cid e1
        match prevOid e1.update.change, e1.parent with
        | some oid, some p =>
          match setLeaf oid es1.length (some p) es1 with
          | none => .hang
          | some none => .panic (unlockPacked (releaseAll S1 es1))
          | some (some es2) => prepLoop wk cx unlockPacked todo (cid + 1) S1 es2
        | _, _ => prepLoop wk cx unlockPacked todo (cid + 1) S1 es1

/-- the loop over `updates` that collects `edits_for_packed_transaction`:
(edits, needs_packed_refs_lookups, num_updates) -/
def packedEditsOf (mode : Mode) : List Edit → List (Name × Option Oid) × Bool × Nat
  | [] => ([], false, 0)
  | e :: rest =>
    let r := packedEditsOf mode rest
    if e.update.change.logMode = .only then r
    else if !packable e.name then r
    else match e.update.change with
      | .update _ _ (.object o) =>
        if mode ≠ .deletionsOnly then ((e.name, some o) :: r.1, r.2.1, r.2.2 + 1)
        else (r.1, true, r.2.2)
      | .update _ _ (.symbolic _) => (r.1, true, r.2.2)
      | .delete _ _ => ((e.name, none) :: r.1, r.2.1, r.2.2)

/-- the `.filter(…)` of `packed::Transaction::prepare`: deletions of names the buffer does not
have are dropped (all deletions are kept when there is no buffer) -/
def filterPackedEdits (buffer : Option (List (Name × Oid))) (edits : List (Name × Option Oid)) :
    List (Name × Option Oid) :=
  edits.filter fun e =>
    match e.2, buffer with
    | none, some b => (lookup b e.1).isSome
    | _, _ => true

/-- peeling needs every new object to be found -/
def allKnown (env : Env) (edits : List (Name × Option Oid)) : Bool :=
  edits.all fun e => match e.2 with
    | some o => env.known o
    | none => true

structure Prepared where
  edits : List Edit
  ptx : Option PTx
  mode : Mode
  deriving Repr

structure Txn where
  edits : List RefEdit
  mode : Mode
  deriving Repr

/-- `prepare_inner` -/
def prepareWith (wk : WalkKind) (env : Env) (S : Store) (t : Txn) : Res Prepared :=
  match preProcess (fun n => lookup S.loose n) t.edits with
  | .outOfFuel => .hang
  | .cycle => .err .preprocess S
  | .duplicate => .err .preprocess S
  | .ok es =>
    let enter := t.mode ≠ .deletionsOnly || S.packed.isSome || S.packedLock
    let pe := packedEditsOf t.mode es
    -- `some (some ptx)` = a packed transaction, `some none` = none needed, `none` = lock error
    let wanted : Bool := enter && (!pe.1.isEmpty || pe.2.1)
    let mustCreate : Bool := (t.mode ≠ .deletionsOnly && pe.2.2 > 0) || S.packedLock
    let withTx : Bool := wanted && (mustCreate || S.packed.isSome)
    if withTx then
      if S.packedLock then .err .packedLock S
      else
        let S1 := { S with packedLock := true }
        let unlockPacked : Store → Store := fun S' => { S' with packedLock := false }
        let edits := filterPackedEdits S.packed pe.1
        if !allKnown env edits then .err .packedPrepare S
        else
          let ptx : PTx := { buffer := S.packed, edits := edits }
          let cx : Ctx := { buffer := S.packed, hasGlobalLock := true,
                            directToPacked := decide (t.mode = .updatesRemoveLoose) }
          match prepLoop wk cx unlockPacked es.length 0 S1 es with
          | .ok es' S2 => .ok { edits := es', ptx := some ptx, mode := t.mode } S2
          | .err e S2 => .err e S2
          | .panic S2 => .panic S2
          | .hang => .hang
    else
      let cx : Ctx := { buffer := none, hasGlobalLock := false,
                        directToPacked := decide (t.mode = .updatesRemoveLoose) }
      match prepLoop wk cx id es.length 0 S es with
      | .ok es' S2 => .ok { edits := es', ptx := none, mode := t.mode } S2
      | .err e S2 => .err e S2
      | .panic S2 => .panic S2
      | .hang => .hang

/-! ## packed::Transaction::commit -/

def insertSorted (e : Name × Option Oid) : List (Name × Option Oid) → List (Name × Option Oid)
  | [] => [e]
  | x :: xs => if nameLt x.1 e.1 then x :: insertSorted e xs else e :: x :: xs

/-- `edits.sort_by(name)` -/
def sortEdits : List (Name × Option Oid) → List (Name × Option Oid)
  | [] => []
  | e :: es => insertSorted e (sortEdits es)

/-- `write_edit`: lines written for one edit -/
def writeEdit (e : Name × Option Oid) : List (Name × Oid) :=
  match e.2 with
  | some o => [(e.1, o)]
  | none => []

/-- the merge loop of `packed::Transaction::commit` (fuel = total number of items) -/
def mergePacked : (fuel : Nat) → List (Name × Oid) → List (Name × Option Oid) → List (Name × Oid)
  | 0, _, _ => []
  | _ + 1, [], [] => []
  | fuel + 1, p :: ps, [] => p :: mergePacked fuel ps []
  | fuel + 1, [], e :: es => writeEdit e ++ mergePacked fuel [] es
  | fuel + 1, p :: ps, e :: es =>
    if nameLt p.1 e.1 then p :: mergePacked fuel ps (e :: es)
    else if nameLt e.1 p.1 then writeEdit e ++ mergePacked fuel (p :: ps) es
    else writeEdit e ++ mergePacked fuel ps es

def mergeAll (ps : List (Name × Oid)) (es : List (Name × Option Oid)) : List (Name × Oid) :=
  mergePacked (ps.length + es.length) ps es

/-- the lines of the packed buffer; no buffer = `std::iter::empty()` -/
def bufferList (b : Option (List (Name × Oid))) : List (Name × Oid) :=
  match b with
  | some l => l
  | none => []

/-- `packed::Transaction::commit` on the store (the packed lock is released either way);
`none` = `remove_file` of a packed-refs file that does not exist -/
def commitPacked (S : Store) (p : PTx) : Option Store :=
  if p.edits.isEmpty then some { S with packedLock := false }
  else
    let lines := mergeAll (bufferList p.buffer) (sortEdits p.edits)
    if lines.isEmpty then
      if S.packed.isSome then some { S with packed := none, packedLock := false }
      else none
    else some { S with packed := some lines, packedLock := false }

/-! ## commit_inner -/

/-- one iteration of the first loop of `commit_inner`: move an updated ref into place -/
def commitUpdateStep (deleteLoose : Bool) (S : Store) (e : Edit) : Store × Edit :=
  match e.update.change with
  | .update log _ new =>
    if deleteLoose && !new.isSymbolic && packable e.name then
      -- "Don't do anything else while keeping the lock" (deleted after packed-refs was written)
      (S, e)
    else if log = .andReference then
      -- `lock.map(Marker::commit)`: rename the lock file onto the reference
      (if e.lock then { release S e.name with loose := insertKey S.loose e.name new } else S,
       { e with lock := false })
    else
      -- the lock is dropped without being committed
      (if e.lock then release S e.name else S, { e with lock := false })
  | .delete _ _ => (S, e)

/-- first loop: move updated refs into place -/
def commitUpdates (deleteLoose : Bool) : Store → List Edit → Store × List Edit
  | S, [] => (S, [])
  | S, e :: rest =>
    let r := commitUpdateStep deleteLoose S e
    let rs := commitUpdates deleteLoose r.1 rest
    (rs.1, r.2 :: rs.2)

/-- `take_lock_and_delete` of the last loop -/
def takeLockAndDelete (deleteLoose : Bool) (e : Edit) : Bool :=
  match e.update.change with
  | .update log _ new => deleteLoose && decide (log = .andReference) && !new.isSymbolic && packable e.name
  | .delete _ log => decide (log = .andReference)

/-- one iteration of the last loop of `commit_inner`: delete a loose reference -/
def commitDeleteStep (deleteLoose : Bool) (S : Store) (e : Edit) : Store × Edit :=
  if takeLockAndDelete deleteLoose e then
    let S1 : Store := { S with loose := eraseKey S.loose e.name }
    (if e.lock then release S1 e.name else S1, { e with lock := false })
  else (S, e)

/-- last loop: delete loose references -/
def commitDeletes (deleteLoose : Bool) : Store → List Edit → Store × List Edit
  | S, [] => (S, [])
  | S, e :: rest =>
    let r := commitDeleteStep deleteLoose S e
    let rs := commitDeletes deleteLoose r.1 rest
    (rs.1, r.2 :: rs.2)

/-- `leaf_referent_previous_oid` is only used for the reflog entry, which is not modelled -/
def Edit.core (e : Edit) : Edit := { e with leafPrev := none }

/-- `commit_inner`; locks still owned at the end are dropped with `updates` -/
def commit (S : Store) (p : Prepared) : Res Unit :=
  let deleteLoose := decide (p.mode = .updatesRemoveLoose)
  let r1 := commitUpdates deleteLoose S (p.edits.map Edit.core)
  match p.ptx with
  | some ptx =>
    match commitPacked r1.1 ptx with
    | none => .err .packedCommit { releaseAll r1.1 r1.2 with packedLock := false }
    | some S2 =>
      let r3 := commitDeletes deleteLoose S2 r1.2
      .ok () (releaseAll r3.1 r3.2)
  | none =>
    let r3 := commitDeletes deleteLoose r1.1 r1.2
    .ok () (releaseAll r3.1 r3.2)

/-- prepare + commit -/
def runWith (wk : WalkKind) (env : Env) (S : Store) (t : Txn) : Res Unit :=
  match prepareWith wk env S t with
  | .ok p S1 => commit S1 p
  | .err e S1 => .err e S1
  | .panic S1 => .panic S1
  | .hang => .hang

def prepare := prepareWith .fixed
def run := runWith .fixed

/-! ## what the other party and git do to the store (history operations) -/

/-- `git pack-refs --all [--prune|--no-prune]`: every loose non-symbolic ref below `refs/` (but not
the per-worktree hierarchies) whose object exists is written to packed-refs (replacing an entry of the same name); with `--prune` the
loose file goes away -/
def packCandidates (env : Env) (loose : List (Name × Target)) : List (Name × Option Oid) :=
  loose.filterMap fun kv =>
    match kv.2 with
    | .object o => if packable kv.1 && env.known o then some (kv.1, some o) else none
    | .symbolic _ => none

def gitPackRefs (env : Env) (prune : Bool) (S : Store) : Store :=
  let cands := packCandidates env S.loose
  let packed := mergeAll (bufferList S.packed) (sortEdits cands)
  { S with
    packed := some packed
    loose := if prune then S.loose.filter fun kv => !(cands.any fun c => c.1 = kv.1) else S.loose }

/-- the name a chain of symbolic refs starting at `n` ends at, the way `split_symref_update`
follows it: `none` if a name is met twice -/
def gitLeaf (find : Name → Option Target) : (fuel : Nat) → (seen : List Name) → Name → Option Name
  | 0, _, _ => none
  | fuel + 1, seen, n =>
    match find n with
    | some (.symbolic next) => if next ∈ (n :: seen) then none else gitLeaf find fuel (n :: seen) next
    | _ => some n

/-- what git reads through a chain of symbolic refs without RESOLVE_REF_READING (at most 5 reads):
`some (some o)` an object, `some none` the chain ends at a missing ref (null id), `none` = cycle
or too deep -/
def gitResolve (find : Name → Option Target) : (fuel : Nat) → Name → Option (Option Oid)
  | 0, _ => none
  | fuel + 1, n =>
    match find n with
    | some (.object o) => some (some o)
    | some (.symbolic next) => gitResolve find fuel next
    | none => some none

-- "HEAD"
def bHead : Name := [72, 69, 65, 68]

/-- what `git update-ref` decides to do to which name -/
inductive GitAction where
  | erase
  | write (o : Oid)
  | nothing
  deriving DecidableEq, Repr

/-- `git update-ref [-d] [--no-deref] <name> [<new>] [<old>]` (git 2.39, files backend), outside
directory/file conflicts, as a decision over what `find` shows; `old = some none` is the all-zero
id; `fuel` bounds the walk along symbolic refs. `none` = git fails. -/
def gitDecide (find : Name → Option Target) (fuel : Nat) (del noderef : Bool) (name : Name) (new : Option Oid)
    (old : Option (Option Oid)) : Option (Name × GitAction) :=
  -- without HEAD the directory is not a repository
  if (find bHead).isNone then none else
  let target? := if noderef then some name else gitLeaf find fuel [] name
  match target? with
  | none => none
  | some target =>
    let current : Option (Option Oid) := match find target with
      | some (.object o) => some (some o)
      | some (.symbolic referent) => gitResolve find 5 referent
      | none => some none
    let oldOk : Bool := match old, current with
      | none, _ => true
      | some none, _ => del || decide (current = some none)
      | some (some _), none => false
      | some (some o), some c => decide (c = some o)
    if !oldOk then none
    else if del then some (target, .erase)
    else match new with
      | some o =>
        -- the reference already has the desired value: nothing is written
        if find target = some (.object o) then some (target, .nothing) else some (target, .write o)
      | none => none

def gitUpdateRef (S : Store) (del noderef : Bool) (name : Name) (new : Option Oid)
    (old : Option (Option Oid)) : Option Store :=
  match gitDecide S.find (S.loose.length + 1) del noderef name new old with
  | none => none
  | some (target, .erase) =>
    some { S with loose := eraseKey S.loose target, packed := S.packed.map fun b => eraseKey b target }
  | some (target, .write o) => some { S with loose := insertKey S.loose target (.object o) }
  | some (_, .nothing) => some S

end GixModel.C17
