import GixModel.Model.C06Core
import GixModel.Model.C15
/-
C06 (round 3) — own models with explicit panic sites:
  gix_refspec::parse::function::{parse (Operation::Fetch), validated, looks_like_object_hash}
                                                            gix-refspec/src/parse.rs
  gix_url::parse::{find_scheme, url (its prelude up to the length guard)}   gix-url/src/parse.rs
`gix_validate::reference::name_partial` is C15's model (it has a panic outcome).
-/
namespace GixModel.C06
open GixModel

/-! ### refspec parsing for fetch -/

def nonEmpty? (b : Bytes) : Option Bytes := if b.isEmpty then none else some b

def bHEAD : Bytes := [72, 69, 65, 68]
def bRefsSlash : Bytes := [114, 101, 102, 115, 47]

/-- `validated(spec, allow_revspecs = false)`: `ok hasGlob` -/
def validatedFetch (spec : Option Bytes) : Res Bool :=
  match spec with
  | none => .ok false
  | some s =>
    let globCount := (s.filter (· = 42)).length
    if globCount > 1 then .err                              -- PatternUnsupported
    else if globCount = 1 then
      match findByte 42 s with
      | none => .panic                                      -- .expect("glob present")
      | some pos =>
        if pos ≥ s.length then .panic                       -- buf[glob_pos] = b'a'
        else match C15.refNamePartial C15.extractedTable (s.set pos 97) with
          | .ok _ => .ok true
          | .err _ => .err
          | .panic => .panic
    else match C15.refNamePartial C15.extractedTable s with
      | .ok _ => .ok false
      | .err _ => .err
      | .panic => .panic

def isAsciiHexDigit (b : UInt8) : Bool := (48 ≤ b && b ≤ 57) || (97 ≤ b && b ≤ 102) || (65 ≤ b && b ≤ 70)

/-- everything behind the `src` / `dst` split -/
def refspecFinish (negative : Bool) (src dst : Option Bytes) : Res Unit :=
  let src := src.map fun s => if s = [64] then bHEAD else s
  match validatedFetch src with
  | .err => .err | .panic => .panic | .hang => .hang
  | .ok srcPat =>
    match validatedFetch dst with
    | .err => .err | .panic => .panic | .hang => .hang
    | .ok dstPat =>
      if !negative && srcPat != dstPat then .err            -- PatternUnbalanced
      else if negative then
        match src with
        | none => .err                                      -- NegativeEmpty
        | some s =>
          if srcPat then .err
          else if s.length ≥ 40 && s.all isAsciiHexDigit then .err
          else if !(bRefsSlash.isPrefixOf s) && s ≠ bHEAD then .err
          else .ok ()
      else .ok ()

/-- what follows the mode prefix -/
def refspecBody (negative : Bool) (spec : Bytes) : Res Unit :=
  match findByte 58 spec with
  | some pos =>
    if negative then .err                                   -- NegativeWithDestination
    else match splitAt spec pos with                        -- spec.split_at(pos)
      | none => .panic
      | some (src, dst0) =>
        match sliceFrom dst0 1 with                         -- &dst[1..]
        | none => .panic
        | some dst =>
          match nonEmpty? src, nonEmpty? dst with
          | none, none => refspecFinish negative (some bHEAD) none
          | none, some d => refspecFinish negative (some bHEAD) (some d)
          | some s, none => refspecFinish negative (some s) none
          | some s, some d => refspecFinish negative (some s) (some d)
  | none =>
    match nonEmpty? spec with
    | none => if !negative then .ok () else refspecFinish negative none none
    | some s => refspecFinish negative (some s) none

/-- `gix_refspec::parse(spec, Operation::Fetch)` -/
def refspecFetch (spec : Bytes) : Res Unit :=
  match spec with
  | [] => .ok ()
  | 94 :: _ =>
    (match sliceFrom spec 1 with                            -- &spec[1..]
     | none => .panic
     | some r => refspecBody true r)
  | 43 :: _ =>
    (match sliceFrom spec 1 with
     | none => .panic
     | some r => refspecBody false r)
  | _ => refspecBody false spec

/-! ### `gix_url::parse`: classification and the prelude of `url()` -/

def findSub3 (a b c : UInt8) : Bytes → Option Nat
  | x :: y :: z :: rest => if x = a ∧ y = b ∧ z = c then some 0 else (findSub3 a b c (y :: z :: rest)).map (· + 1)
  | _ => none

/-- `find_scheme` (`&input[..colon]`) and, for the `Url` class, `input[protocol_end + 3..]`,
`input.len() - protocol_end` and `input[..min(protocol_end + 3 + 1024, len)]` of `url()`; the
result says only whether one of these sites fires (everything behind them is the url crate). -/
def urlSites (input : Bytes) : Res Unit :=
  match findSub3 58 47 47 input with
  | some protocolEnd =>
    match sliceFrom input (protocolEnd + 3) with            -- input[protocol_end + "://".len()..]
    | none => .panic
    | some _ =>
      if input.length < protocolEnd then .panic             -- input.len() - protocol_end
      else match sliceTo input (min (protocolEnd + 3 + 1024) input.length) with
        | none => .panic
        | some _ => .ok ()
  | none =>
    match findByte 58 input with
    | some colon =>
      (match sliceTo input colon with                       -- &input[..colon]
       | none => .panic
       | some _ => .ok ())
    | none => .ok ()

end GixModel.C06

namespace GixModel.C06
open GixModel

/-! ### packed-refs lookup: `search_start_of_record` -/

def rfindNl : Bytes → Option Nat
  | [] => none
  | b :: bs =>
    match rfindNl bs with
    | some i => some (i + 1)
    | none => if b = 10 then some 0 else none

/-- the closure `search_start_of_record(ofs)` of `Buffer::binary_search_by`, followed by the slice
`&a[start..]` its result is used for: `a[..ofs]`, `a[..pos]` and `&a[start..]` are the sites -/
def recordStart (a : Bytes) (ofs : Nat) : Res Nat :=
  match sliceTo a ofs with                                  -- a[..ofs]
  | none => .panic
  | some upTo =>
    let start : Res Nat :=
      match rfindNl upTo with
      | none => .ok 0
      | some pos =>
        match a[pos + 1]? with                              -- a.get(candidate)
        | none => .ok 0
        | some b =>
          if b = 94 then
            match sliceTo a pos with                        -- a[..pos]
            | none => .panic
            | some before => .ok ((rfindNl before).map (· + 1) |>.getD 0)
          else .ok (pos + 1)
    match start with
    | .ok s => (match sliceFrom a s with                    -- &a[search_start_of_record(ofs)..]
        | none => .panic
        | some _ => .ok s)
    | r => r

end GixModel.C06
