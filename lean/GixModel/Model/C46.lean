import GixModel.Basic.CommitDag
/-
C46 — model of `gix_revision::merge_base()` (gix-revision/src/merge_base.rs):

  merge_base            the early return for `others.is_empty() || others.contains(&first)`,
                        paint_down_to_common, remove_redundant, `None` for an empty result
  paint_down_to_common  flags COMMIT1/COMMIT2/STALE/RESULT in the graph's per-commit data, a
                        `PriorityQueue<GenThenTime, ObjectId>`, the loop "while the queue holds a
                        non-stale entry", the `expect("we have non-stale")` pop
  remove_redundant      (with the `fix:` commit in /repo: descend into the first parent that is
                        not STALE yet) sorted copy + min-generation cursor, RESULT/STALE marking,
                        `walk_start`, the explicit DFS stack, `count_still_independent`

What is abstracted, and how the theorems deal with it:
  * the commit graph is `CG.Dag` (parents / commit time / generation as data); every parent exists
    (no shallow boundary), so `get_or_insert_full_commit` always finds the commit;
  * `gix_revwalk::PriorityQueue` is ANY lawful `CG.PQ` — the theorems hold for every pop order;
  * `walk_start.sort_by(|a, b| a.0.cmp(&b.0))` orders by object id (a hash): ANY permutation
    `wsOrder`;
  * flags live in a total map `Nat → Flags` (`clear_commit_data` = the all-clear map);
  * every loop runs on fuel derived from `n`, an upper bound on the number of commits
    (`Lemmas.C46`: it always suffices); Rust panics (`expect`, indexing, `usize` underflow) are the
    outcome `Res.panic`.
-/
namespace GixModel.C46
open GixModel GixModel.CG

/-- `GenThenTime` -/
structure Key where
  gen : Nat
  time : Int
  deriving DecidableEq, Repr

/-- `Ord for GenThenTime`: generation first, then commit time -/
def Key.le (a b : Key) : Bool :=
  decide (a.gen < b.gen) || (a.gen == b.gen && decide (a.time ≤ b.time))

def keyOf (g : Dag) (x : Nat) : Key := ⟨g.gen x, g.time x⟩

structure Flags where
  c1 : Bool := false
  c2 : Bool := false
  stale : Bool := false
  result : Bool := false
  deriving DecidableEq, Repr

/-- Per-commit flags as a total map (`clear_commit_data` = `clear`). A structure around the
function, not a bare function type: a definition whose result type is a function is compiled with
the looked-up commit as one more argument and would redo its work on every later lookup. -/
structure FlagMap where
  get : Nat → Flags

instance : CoeFun FlagMap (fun _ => Nat → Flags) := ⟨FlagMap.get⟩

def FlagMap.clear : FlagMap := ⟨fun _ => {}⟩

def FlagMap.set (m : FlagMap) (i : Nat) (f : Flags) : FlagMap := ⟨fun j => if j = i then f else m.get j⟩

/-- `data |= STALE` -/
def FlagMap.setStale (m : FlagMap) (i : Nat) : FlagMap := m.set i { m i with stale := true }
/-- `data.remove(STALE)` -/
def FlagMap.clearStale (m : FlagMap) (i : Nat) : FlagMap := m.set i { m i with stale := false }
/-- `data |= RESULT` -/
def FlagMap.setResult (m : FlagMap) (i : Nat) : FlagMap := m.set i { m i with result := true }
/-- `data.remove(RESULT)` -/
def FlagMap.clearResult (m : FlagMap) (i : Nat) : FlagMap := m.set i { m i with result := false }

/-- `flags_without_result`: what a commit passes on to its parents -/
structure Pass where
  c1 : Bool
  c2 : Bool
  stale : Bool
  deriving DecidableEq, Repr

/-- `(parent.data & pass) == pass` -/
def Flags.covers (f : Flags) (p : Pass) : Bool :=
  (!p.c1 || f.c1) && (!p.c2 || f.c2) && (!p.stale || f.stale)

/-- `parent.data |= pass` -/
def Flags.add (f : Flags) (p : Pass) : Flags :=
  { f with c1 := f.c1 || p.c1, c2 := f.c2 || p.c2, stale := f.stale || p.stale }

/-! ### paint_down_to_common -/

structure PState (Q : Type) where
  flags : FlagMap
  queue : Q
  out : List (Nat × Key)

/-- the loop over `commit.parents` -/
def propagate (g : Dag) (q : PQ Key) (pass : Pass) : List Nat → FlagMap → q.Q → FlagMap × q.Q
  | [], fl, qu => (fl, qu)
  | p :: ps, fl, qu =>
    if (fl p).covers pass then propagate g q pass ps fl qu
    else propagate g q pass ps (fl.set p ((fl p).add pass)) (q.insert (keyOf g p) p qu)

/-- `for other in others { data |= COMMIT2; queue.insert }` -/
def paintOthers (g : Dag) (q : PQ Key) : List Nat → FlagMap → q.Q → FlagMap × q.Q
  | [], fl, qu => (fl, qu)
  | o :: os, fl, qu =>
    paintOthers g q os (fl.set o { fl o with c2 := true }) (q.insert (keyOf g o) o qu)

def paintInit (g : Dag) (q : PQ Key) (first : Nat) (others : List Nat) : PState q.Q :=
  let fl1 := FlagMap.clear.set first { c1 := true }
  let q1 := q.insert (keyOf g first) first q.empty
  let r := paintOthers g q others fl1 q1
  { flags := r.1, queue := r.2, out := [] }

/-- the pass flags of a popped commit: `COMMIT1|COMMIT2` without STALE adds STALE -/
def passOf (f : Flags) : Pass :=
  { c1 := f.c1, c2 := f.c2, stale := f.stale || (f.c1 && f.c2) }

/-- `if !commit.data.contains(RESULT) { commit.data |= RESULT; … }` for a merge-base candidate -/
def markBase (fl : FlagMap) (c : Nat) (isBase : Bool) : FlagMap :=
  if isBase && !(fl c).result then fl.setResult c else fl

/-- one iteration of the `while` body for the popped `(k, c)`; `qu` is the queue after the pop -/
def paintStep (g : Dag) (q : PQ Key) (s : PState q.Q) (k : Key) (c : Nat) (qu : q.Q) : PState q.Q :=
  let f := s.flags c
  let isBase := f.c1 && f.c2 && !f.stale
  let out1 := if isBase && !f.result then s.out ++ [(c, k)] else s.out
  let r := propagate g q (passOf f) (g.parents c) (markBase s.flags c isBase) qu
  { flags := r.1, queue := r.2, out := out1 }

def paintLoop (g : Dag) (q : PQ Key) : Nat → PState q.Q → Res (PState q.Q)
  | 0, _ => .fuel
  | fuel + 1, s =>
    if (q.items s.queue).any (fun e => !(s.flags e.2).stale) then
      match q.pop s.queue with
      | none => .panic            -- `expect("we have non-stale")`
      | some ((k, c), qu) => paintLoop g q fuel (paintStep g q s k c qu)
    else .ok s

/-- fuel that always suffices for `paintLoop` on a graph with at most `n` commits -/
def paintFuel (n : Nat) (others : List Nat) : Nat := 3 * n + others.length + 2

def paint (g : Dag) (q : PQ Key) (n first : Nat) (others : List Nat) : Res (PState q.Q) :=
  paintLoop g q (paintFuel n others) (paintInit g q first others)

/-! ### remove_redundant -/

structure RState where
  flags : FlagMap
  /-- `walk_start`, head = the entry `pop()` returns next -/
  ws : List (Nat × Key)
  /-- the DFS stack, head = `stack.last()` -/
  stack : List (Nat × Key)
  count : Nat
  pos : Nat
  minGen : Nat

/-- stable insertion sort by key, ascending (`v.sort_by(|a, b| a.1.cmp(&b.1))`) -/
def insertByKey (e : Nat × Key) : List (Nat × Key) → List (Nat × Key)
  | [] => [e]
  | x :: xs => if Key.le x.2 e.2 then x :: insertByKey e xs else e :: x :: xs

def sortByKey (l : List (Nat × Key)) : List (Nat × Key) :=
  l.foldl (fun acc e => insertByKey e acc) []

/-- parents of one result commit: not yet STALE ones are marked and pushed on `walk_start` -/
def markParents (g : Dag) : List Nat → FlagMap → List (Nat × Key) → FlagMap × List (Nat × Key)
  | [], fl, ws => (fl, ws)
  | p :: ps, fl, ws =>
    if (fl p).stale then markParents g ps fl ws
    else markParents g ps (fl.setStale p) (ws ++ [(p, keyOf g p)])

/-- `for (id, _) in commits { data |= RESULT; for parent … }` -/
def markResults (g : Dag) : List (Nat × Key) → FlagMap → List (Nat × Key) → FlagMap × List (Nat × Key)
  | [], fl, ws => (fl, ws)
  | (c, _) :: cs, fl, ws =>
    let r := markParents g (g.parents c) (fl.setResult c) ws
    markResults g cs r.1 r.2

/-- "allow walking everything at first": remove STALE from every `walk_start` entry -/
def unmark (ws : List (Nat × Key)) (fl : FlagMap) : FlagMap :=
  ws.foldl (fun fl e => fl.clearStale e.1) fl

/-- `while min_gen_pos < len - 1 && sorted[min_gen_pos] is STALE { min_gen_pos += 1 }`;
`none` = index out of bounds -/
def advance (fl : FlagMap) (sorted : List (Nat × Key)) : Nat → Nat → Option Nat
  | 0, pos => some pos
  | fuel + 1, pos =>
    if pos + 1 < sorted.length then
      match sorted[pos]? with
      | none => none
      | some e => if (fl e.1).stale then advance fl sorted fuel (pos + 1) else some pos
    else some pos

inductive Visit where
  | continue (s : RState)
  | done (s : RState)
  | panic

/-- the `if commit.data.contains(RESULT) { … }` block for the commit on top of the stack -/
def visitResult (sorted : List (Nat × Key)) (s : RState) (c : Nat) : Visit :=
  if (s.flags c).result then
    if s.count = 0 then .panic          -- `count_still_independent -= 1` on 0usize
    else
      let s1 : RState := { s with flags := s.flags.clearResult c, count := s.count - 1 }
      if s1.count ≤ 1 then .done s1
      else
        match sorted[s1.pos]? with
        | none => .panic
        | some e =>
          if c = e.1 then
            match advance s1.flags sorted sorted.length s1.pos with
            | none => .panic
            | some pos' =>
              match sorted[pos']? with
              | none => .panic
              | some e' => .continue { s1 with pos := pos', minGen := e'.2.gen }
          else .continue s1
  else .continue s

/-- first parent that is not STALE yet -/
def firstFresh (fl : FlagMap) : List Nat → Option Nat
  | [] => none
  | p :: ps => if (fl p).stale then firstFresh fl ps else some p

/-- generation cut-off, then push the first not yet visited parent or pop -/
def explore (g : Dag) (s : RState) (c : Nat) (k : Key) (below : List (Nat × Key)) : RState :=
  if k.gen < s.minGen then { s with stack := below }
  else
    match firstFresh s.flags (g.parents c) with
    | some p =>
      { s with flags := s.flags.setStale p, stack := (p, keyOf g p) :: (c, k) :: below }
    | none => { s with stack := below }

def rrLoop (g : Dag) (sorted : List (Nat × Key)) : Nat → RState → Res RState
  | 0, _ => .fuel
  | fuel + 1, s =>
    match s.stack with
    | [] =>
      match s.ws with
      | [] => .ok s
      | (c, k) :: rest =>
        if s.count > 1 then
          rrLoop g sorted fuel
            { s with ws := rest, flags := s.flags.setStale c, stack := [(c, k)] }
        else .ok { s with ws := rest }
    | (c, k) :: below =>
      match visitResult sorted s c with
      | .panic => .panic
      | .done s1 => .ok s1
      | .continue s1 => rrLoop g sorted fuel (explore g s1 c k below)

def rrInit (g : Dag) (wsOrder : List (Nat × Key) → List (Nat × Key)) (commits : List (Nat × Key))
    (minGen : Nat) : RState :=
  let r := markResults g commits FlagMap.clear []
  let ws := wsOrder r.2
  { flags := unmark ws r.1, ws := ws, stack := [], count := commits.length, pos := 0, minGen := minGen }

def rrFuel (n : Nat) (ws : List (Nat × Key)) : Nat := 2 * n + 2 * ws.length + 2

def removeRedundant (g : Dag) (wsOrder : List (Nat × Key) → List (Nat × Key)) (n : Nat)
    (commits : List (Nat × Key)) : Res (List Nat) :=
  if commits.isEmpty then .ok []
  else
    let sorted := sortByKey commits
    match sorted[0]? with
    | none => .panic
    | some e0 =>
      let s0 := rrInit g wsOrder commits e0.2.gen
      match rrLoop g sorted (rrFuel n s0.ws) s0 with
      | .ok s => .ok ((commits.filter fun e => !(s.flags e.1).stale).map (·.1))
      | .panic => .panic
      | .fuel => .fuel

/-- `merge_base(first, others, graph)`; `n` bounds the number of commits (fuel only) -/
def mergeBase (g : Dag) (q : PQ Key) (wsOrder : List (Nat × Key) → List (Nat × Key)) (n first : Nat)
    (others : List Nat) : Res (Option (List Nat)) :=
  if others.isEmpty || others.contains first then .ok (some [first])
  else
    match paint g q n first others with
    | .ok s =>
      match removeRedundant g wsOrder n s.out with
      | .ok r => .ok (if r.isEmpty then none else some r)
      | .panic => .panic
      | .fuel => .fuel
    | .panic => .panic
    | .fuel => .fuel

/-- `graph.clear_commit_data(|f| *f = Flags::empty())` -/
def clearCommitData (_old : FlagMap) : FlagMap := FlagMap.clear

/-- `merge_base()` on a re-used `Graph` whose commits still carry the flags `old` of earlier —
possibly aborted — queries: the flags are cleared BEFORE anything else happens, so painting starts
from `clearCommitData old = FlagMap.clear` exactly as in `mergeBase` (see
`Props.C46.merge_base_ignores_stale_flags`). -/
def mergeBaseOn (g : Dag) (q : PQ Key) (wsOrder : List (Nat × Key) → List (Nat × Key)) (n : Nat)
    (old : FlagMap) (first : Nat) (others : List Nat) : Res (Option (List Nat)) :=
  if others.isEmpty || others.contains first then .ok (some [first])
  else
    match paintLoop g q (paintFuel n others)
        (let r := paintOthers g q others ((clearCommitData old).set first { c1 := true })
                    (q.insert (keyOf g first) first q.empty)
         { flags := r.1, queue := r.2, out := [] }) with
    | .ok s =>
      match removeRedundant g wsOrder n s.out with
      | .ok r => .ok (if r.isEmpty then none else some r)
      | .panic => .panic
      | .fuel => .fuel
    | .panic => .panic
    | .fuel => .fuel

/-- the returned commits as a list (`None` = no merge base) -/
def basesOf : Option (List Nat) → List Nat
  | none => []
  | some l => l

/-! ### driver -/

structure CommitRow where
  time : Int
  gen : Nat
  parents : List Nat

def parseIdxList (s : String) : Option (List Nat) :=
  if s == "-" then some [] else (s.splitOn ",").mapM String.toNat?

def parseRow (s : String) : Option CommitRow :=
  match s.splitOn ":" with
  | [t, gn, ps] => do
    let t ← t.toInt?
    let gn ← gn.toNat?
    let ps ← parseIdxList ps
    some { time := t, gen := gn, parents := ps }
  | _ => none

def takeRows : Nat → List String → Option (List CommitRow × List String)
  | 0, rest => some ([], rest)
  | n + 1, x :: rest => do
    let r ← parseRow x
    let (rs, rest) ← takeRows n rest
    some (r :: rs, rest)
  | _, _ => none

def dagOfRows (rows : Array CommitRow) : Dag where
  parents := fun i => match rows[i]? with | some r => r.parents | none => []
  time := fun i => match rows[i]? with | some r => r.time | none => 0
  gen := fun i => match rows[i]? with | some r => r.gen | none => 0

/-- ascending insertion sort of naturals (output canonicalisation only) -/
def sortNat (l : List Nat) : List Nat :=
  l.foldl (fun acc x => (acc.filter (· ≤ x)) ++ [x] ++ (acc.filter (fun y => !(y ≤ x)))) []

def showIdx (l : List Nat) : String :=
  if l.isEmpty then "-" else ",".intercalate (l.map toString)

/-- the driver's `walk_start` order: as pushed (any permutation is allowed by the theorems) -/
def wsId (l : List (Nat × Key)) : List (Nat × Key) := l

def handle? : List String → Option String
  | "mbretry" :: _cg :: n :: rest => do
    -- the same query on a Graph in which an aborted query left every flag set
    let n ← n.toNat?
    let (rows, rest) ← takeRows n rest
    match rest with
    | first :: others =>
      let first ← first.toNat?
      let others ← others.mapM String.toNat?
      if first ≥ n || others.any (· ≥ n) then none
      else
        let g := dagOfRows rows.toArray
        let dirty : FlagMap := ⟨fun _ => { c1 := true, c2 := true, stale := true, result := true }⟩
        match mergeBaseOn g (listPQ Key.le) wsId n dirty first others with
        | .ok none => some "bases:none"
        | .ok (some r) => some ("bases:" ++ showIdx (sortNat r))
        | .panic => some "panic"
        | .fuel => some "fuel"
    | [] => none
  | "mb" :: _cg :: n :: rest => do
    let n ← n.toNat?
    let (rows, rest) ← takeRows n rest
    match rest with
    | first :: others =>
      let first ← first.toNat?
      let others ← others.mapM String.toNat?
      if first ≥ n || others.any (· ≥ n) then none
      else
        let g := dagOfRows rows.toArray
        match mergeBase g (listPQ Key.le) wsId n first others with
        | .ok none => some "bases:none"
        | .ok (some r) => some ("bases:" ++ showIdx (sortNat r))
        | .panic => some "panic"
        | .fuel => some "fuel"
    | [] => none
  | _ => none

def handle (args : List String) : String := (handle? args).getD "bad-op"

end GixModel.C46
