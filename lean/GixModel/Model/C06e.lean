import GixModel.Model.C06Core
import GixModel.Model.C06b
import GixModel.Model.C05
import GixModel.Model.C21
import GixModel.Model.C27
import GixModel.Model.C53
/-
C06 (round 3) — more own models with explicit panic sites:

  gix_quote::ansi_c::undo                                   gix-quote/src/ansi_c.rs
  gix_config_value::Integer::try_from(&BStr) + to_decimal   gix-config-value/src/integer.rs
  gix_date::parse::function::parse_raw (reached through gix_date::parse for inputs of the shape
      `[-]<digits> <sign>HHMM`, which none of the earlier formats accepts)   gix-date/src/parse.rs
  gix_ref::file::log::LineRef::from_bytes: the index expressions of `decode::one` and the
      `ObjectId::from_hex(..).expect("parse validation")` of `previous_oid()` / `new_oid()`
                                                            gix-ref/src/store/file/log/line.rs

Conventions as in Model/C06.lean / C06b.lean.
-/
namespace GixModel.C06
open GixModel

/-! ### `gix_quote::ansi_c::undo` -/

/-- `find_byteset(b"\"\\")` -/
def findQuoteOrBackslash : Bytes → Option Nat
  | [] => none
  | b :: bs => if b = 34 ∨ b = 92 then some 0 else (findQuoteOrBackslash bs).map (· + 1)

/-- the single-letter escapes `n r t a b v f " \` -/
def isSimpleEscape (c : UInt8) : Bool :=
  c = 110 || c = 114 || c = 116 || c = 97 || c = 98 || c = 118 || c = 102 || c = 34 || c = 92

def isOctal (c : UInt8) : Bool := 48 ≤ c && c ≤ 55

/-- the `loop` of `undo` on what follows the opening quote; fuel = iterations -/
def undoLoop : Nat → Bytes → Res Unit
  | 0, _ => .hang
  | fuel + 1, input =>
    match findQuoteOrBackslash input with
    | none => .ok ()                                        -- unterminated: everything is taken
    | some pos =>
      match sliceTo input pos with                          -- &input[..position]
      | none => .panic
      | some _ =>
        match input[pos]? with                              -- input[position]
        | none => .panic
        | some c =>
          if c = 34 then .ok ()
          else if c = 92 then
            -- consume_one_past: input.get(position + 1..), first(), get(1..).unwrap_or_default()
            if pos + 1 > input.length then .err
            else match input.drop (pos + 1) with
              | [] => .err
              | next :: rest =>
                if isSimpleEscape next then undoLoop fuel rest
                else if 48 ≤ next ∧ next ≤ 51 then
                  if rest.length < 2 then .err              -- input.get(..2)
                  else if (rest.take 2).length ≠ 2 then .panic   -- read_exact(..).expect(..)
                  else if !(rest.take 2).all isOctal then .err   -- to_unsigned_with_radix(&buf, 8): ≤ 0o377, no overflow
                  else match sliceFrom rest 2 with          -- &input[2..]
                    | none => .panic
                    | some rest2 => undoLoop fuel rest2
                else .err                                   -- UnsupportedEscapeByte
          else .panic                                       -- unreachable!("cannot find character that we didn't search for")

/-- `ansi_c::undo(input)` -/
def undoRun (input : Bytes) : Res Unit :=
  match input with
  | 34 :: _ =>
    if input.length < 2 then .err
    else match sliceFrom input 1 with                       -- &input[1..]
      | none => .panic
      | some rest => undoLoop (rest.length + 1) rest
  | _ => .ok ()

/-! ### `gix_config_value::Integer` -/

/-- `str::is_char_boundary(i)` for `i < len` of valid UTF-8: the byte is not a continuation byte -/
def isCharBoundary (s : Bytes) (i : Nat) : Bool :=
  if i = 0 ∨ i = s.length then true
  else match s[i]? with
    | none => false
    | some b => !(128 ≤ b.toNat && b.toNat < 192)

/-- `Integer::try_from(&BStr)` followed by `to_decimal()` (what `File::integer` and the harness
observe): the value, `none` = error -/
def configInt (s : Bytes) : Res (Option Int) :=
  if !C53.isUtf8 s then .ok none                            -- std::str::from_utf8
  else match C27.rustParseI64 s with
    | some v => .ok (some v)
    | none =>
      if s.length ≤ 1 then .ok none
      else if s.length < 1 then .panic                      -- s.len() - 1
      else if !isCharBoundary s (s.length - 1) then .ok none
      else
        -- s.split_at(s.len() - 1): panics off a char boundary or past the end
        if s.length - 1 > s.length ∨ !isCharBoundary s (s.length - 1) then .panic
        else .ok (C27.gixInt s)

/-! ### `gix_date` raw format -/

def i32Hi : Int := 2147483647
def i32Lo : Int := -2147483648

def isDigit' (b : UInt8) : Bool := 48 ≤ b && b ≤ 57

/-- the inputs for which `gix_date::parse` is `parse_raw`: `[-]<digits> <sign>HHMM`, ASCII only -/
def rawShaped (s : Bytes) : Bool :=
  match C06.findByte 32 s with
  | none => false
  | some k =>
    let secs := s.take k
    let off := s.drop (k + 1)
    let digits := match secs with | 45 :: d => d | d => d
    !digits.isEmpty && digits.all isDigit' &&
    off.length = 5 && (off.head? = some 43 || off.head? = some 45) && (off.drop 1).all isDigit'

def decOf (ds : Bytes) : Int := (ds.foldl (fun acc b => acc * 10 + (b.toNat - 48)) 0 : Nat)

/-- the offset arithmetic of `parse_raw`: `hours * 3600 + minutes * 60`, then `*= -1` for a minus
sign, all overflow-checked `i32`; `off` = the five bytes `<sign>HHMM` -/
def rawOffset (off : Bytes) : Res Unit :=
  if decOf ((off.drop 1).take 2) * 3600 > i32Hi ∨ decOf ((off.drop 3).take 2) * 60 > i32Hi ∨
      decOf ((off.drop 1).take 2) * 3600 + decOf ((off.drop 3).take 2) * 60 > i32Hi then .panic
  else if -(decOf ((off.drop 1).take 2) * 3600 + decOf ((off.drop 3).take 2) * 60) < i32Lo then .panic
  else .ok ()

/-- the seconds fit `i64` (`str::parse::<i64>`) -/
def rawSecondsOk (secs : Bytes) : Bool :=
  match secs with
  | 45 :: d => decide (decOf d ≤ 9223372036854775808)
  | d => decide (decOf d ≤ 9223372036854775807)

/-- `parse_raw` on a raw-shaped input -/
def parseRaw (s : Bytes) : Res Unit :=
  match C06.findByte 32 s with
  | none => .err
  | some k => if rawSecondsOk (s.take k) then rawOffset (s.drop (k + 1)) else .err

/-- the harness entry point `date-raw`: only raw-shaped inputs are given to `gix_date::parse` -/
def dateRawRun (s : Bytes) : Res Unit := if rawShaped s then parseRaw s else .err

/-! ### reflog line: index expressions of `decode::one`, and the two `expect`s -/

/-- `before_message_len` of `decode::one`: `none` = the slice `line[email_end..]` panics -/
def beforeMessageLen (bytes line : Bytes) : Option Nat :=
  match findByte 62 line with
  | none => some bytes.length
  | some emailEnd =>
    match sliceFrom line emailEnd with                      -- line[email_end..]
    | none => none
    | some tail =>
      match findByte 9 tail with
      | none => some bytes.length
      | some pos => some (emailEnd + pos)

/-- `previous_oid()` / `new_oid()` on what the two `terminated(hex_hash, " ")` cut out of `before`
(40 lower-case hex digits each in this SHA-1-only build): the `.expect("parse validation")` -/
def reflogIds (before : Bytes) : Res Unit :=
  if ((before.takeWhile isHexLc).take 40).length < 40 then .ok ()
  else
    match before.drop 40 with
    | 32 :: r2 =>
      if ((r2.takeWhile isHexLc).take 40).length < 40 then .ok ()
      else
        match C05.idFromHex ((before.takeWhile isHexLc).take 40), C05.idFromHex ((r2.takeWhile isHexLc).take 40) with
        | .ok _, .ok _ => .ok ()
        | _, _ => .panic                                    -- .expect("parse validation")
    | _ => .ok ()

/-- the slices `decode::one` takes around the combinators, and the accessors' `expect`s. `ok` says
only that no site fired; whether the line parses is C21's `parseLine`. -/
def reflogLineSites (bytes : Bytes) : Res Unit :=
  match sliceTo bytes ((findByte 10 bytes).getD bytes.length) with   -- &bytes[..eol]
  | none => .panic
  | some line =>
    match beforeMessageLen bytes line with
    | none => .panic
    | some n =>
      match sliceTo bytes n with                            -- &bytes[..before_message_len]
      | none => .panic
      | some before => reflogIds before

end GixModel.C06
