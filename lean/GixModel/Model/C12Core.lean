/-
C12 — the slot-map protocol of the dynamic object store (gix-odb/src/store_impls/dynamic) as a
small-step transition system.  This file is the *protocol core* the safety theorems are about;
`Model/C12.lean` runs the real control flow of `Handle::contains` / `try_find` /
`load_one_index` / `consolidate_with_disk_state` on top of it (every action of that control flow is
one `step` of this file) and is what the correspondence harness compares with the real code.

Shared memory (one `Store`):
  * `disk` / `loose`      the objects directory: index files `(file id, objects)` and loose objects.
                          It changes only by the environment events, which follow git's rule: a new
                          pack / multi-pack index appears complete (`envAdd`), an index file or a
                          loose object disappears only if every object it holds is still available: an
                          index file may go when each of its objects is in another index file that is
                          present or loose (`envRemove`), a loose object when it is in an index file
                          that is present (`envRemoveLoose`).
  * `slots k`             `files[k] : MutableIndexAndPack` = `generation` (AtomicU32), `files`
                          (ArcSwap<Option<IndexAndPacks>>), and whether the consolidating thread is
                          inside its `slot.write` critical section (`wlock`).
                          A `Bundle` is one *installation* of an index file into a slot: `stamp` is a
                          ghost counter value unique to the installation (`set_slot_to_index`), `file`
                          the on-disk file it was created for; `idx` / `pack` are the `OnDiskFileState`s;
                          a multi-pack index is ONE installation standing for several packs (`more`:
                          the states of pack 1, 2, …); a snapshot keeps it as one entry per pack (`pk`).
  * `pubGen pubSlots pubPtr pubInit`  the published `SlotMapIndex` (`self.index`, an ArcSwap).
  * `cons`                the state of the thread inside `consolidate_with_disk_state` (at most one:
                          it holds `self.write`).
Per handle (any number, `newHandle`): the snapshot (`g` = `marker.generation`, `entries` =
`snapshot.indices`), a snapshot being collected (`coll`), and the progress of a `load_pack` call (`pc`).

Events = the atomic actions of the code (one atomic load/store/RMW, or one critical section of
`slot.write` — those are atomic with respect to each other because they hold the same mutex):
  collBegin   `collect_snapshot`: `self.index.load()` + `index.marker()`
  collSlot    `collect_snapshot`: `file.files.load()` of the next slot of that index
  collEnd     the handle replaces its snapshot
  promote     `snapshot.indices.swap(0, idx)`
  retCached   a lookup hit an entry whose pack is already in the snapshot entry
  lp1         `load_pack`: `self.index.load()`, `index.generation != marker.generation → None`
  lp2         `load_pack`: `slot.files.load()` (pin)
  lp3         `load_pack`: `slot.generation.load() > marker.generation → None`
  lp4         `load_pack`: the match on the pinned value when no lock is needed
  lp5         `load_pack`: the critical section that loads the pack
  loadIdx     `load_next_index`: the critical section that loads one index
  consBegin   `consolidate_with_disk_state`: `self.write.lock()`
  consSetGen / consSetFiles / consSetFilesM   `set_slot_to_index`: `slot.generation.store(..)`, then
              `slot.files.store(..)` (`consSetFilesM`: a multi-pack index standing for several packs)
  consPutBack `assure_slot_matches_index` on a disposable bundle
  consPublish `self.index.store(new_index)`
  consTrash   removal of a slot while handles need stable pack ids (`files.trash()`)
  consClearGen / consClearFiles   removal otherwise: `slot.generation.store(generation)`, `*files_mut = None`
  consEnd     the lock is released
The consolidating thread is modelled with *local* guards only (which generation it must store where,
publish before clearing, never clear a slot of the index it just published); which slots it picks is
left open here (any choice is covered by the theorems) and fixed by the planner in `Model/C12.lean`.

`Cfg` selects the code as repaired (`Cfg.fixed`) or as found: `bumpOnClear = false` is the code before
/repo 83cc28f87 (a slot could be cleared without a new generation), `recheck = false` the code before
/repo 819a694a5 (no second generation check under the slot lock).

Assumed of the runtime: SeqCst atomics and ArcSwap loads/stores are atomic and totally ordered,
`parking_lot::Mutex` gives mutual exclusion.  Not modelled: alternates (several object directories),
`Error` returns out of the middle of `consolidate_with_disk_state` after a slot was overwritten
(`InsufficientSlots`, `GenerationOverflow`, I/O errors), u32 overflow of generations.
-/
namespace GixModel.C12

inductive LoadSt
  | unloaded | loaded | garbage | missing
  deriving DecidableEq, Repr

namespace LoadSt
def isLoaded : LoadSt → Bool
  | loaded | garbage => true
  | _ => false
def isDisposable : LoadSt → Bool
  | garbage | missing => true
  | _ => false
def putBack : LoadSt → LoadSt
  | garbage => loaded
  | missing => unloaded
  | x => x
def trash : LoadSt → LoadSt
  | loaded => garbage
  | x => x
end LoadSt

/-- what identifies the content of a slot: the installation (`stamp`) and the file it is for -/
structure Ident where
  stamp : Nat
  file : Nat
  deriving DecidableEq, Repr

structure Bundle where
  stamp : Nat
  file : Nat
  multi : Bool
  idx : LoadSt
  pack : LoadSt
  /-- a multi-pack index stands for several packs: the load states of pack 1, 2, … (pack 0 is `pack`) -/
  more : List LoadSt := []
  deriving DecidableEq, Repr

def Bundle.ident (b : Bundle) : Ident := { stamp := b.stamp, file := b.file }
def Bundle.isDisposable (b : Bundle) : Bool :=
  b.idx.isDisposable || b.pack.isDisposable || b.more.any LoadSt.isDisposable
def Bundle.putBack (b : Bundle) : Bundle :=
  { b with idx := b.idx.putBack, pack := b.pack.putBack, more := b.more.map LoadSt.putBack }
def Bundle.trash (b : Bundle) : Bundle :=
  { b with idx := b.idx.trash, pack := b.pack.trash, more := b.more.map LoadSt.trash }
/-- the load state of pack `j` of the installation; a number the multi-pack index does not have reads as
`missing` (`bundle.data.get(pack_index)` is `None`: `load_pack` returns `None`) -/
def Bundle.packAt (b : Bundle) : Nat → LoadSt
  | 0 => b.pack
  | j + 1 => b.more.getD j LoadSt.missing
/-- `IndexAndPacks::load_index` on a multi-pack index whose file is loaded builds the list of its packs anew:
every pack is `Unloaded` again (packs that were open are dropped and re-opened on demand) -/
def Bundle.resetPacks (b : Bundle) : Bundle :=
  { b with pack := LoadSt.unloaded, more := b.more.map fun _ => LoadSt.unloaded }
def Bundle.setPackAt (b : Bundle) (j : Nat) (st : LoadSt) : Bundle :=
  match j with
  | 0 => { b with pack := st }
  | j + 1 => { b with more := b.more.set j st }

structure Slot where
  gen : Nat
  files : Option Bundle
  wlock : Bool
  deriving DecidableEq, Repr

def Slot.empty : Slot := { gen := 0, files := none, wlock := false }

/-- `handle::IndexLookup`: the slot it came from, what was in the slot, and the pack if known -/
structure Entry where
  slot : Nat
  id : Ident
  multi : Bool
  pack : Option Ident
  /-- which pack of the installation the entry stands for (a multi-pack index is kept as one entry per pack) -/
  pk : Nat := 0
  deriving DecidableEq, Repr

structure Coll where
  g : Nat
  todo : List Nat
  acc : List Entry
  deriving DecidableEq, Repr

inductive RPc
  | idle
  | lp1 (i : Nat)
  | pinned (i : Nat) (p : Option Bundle)
  | checked (i : Nat) (p : Option Bundle)
  deriving DecidableEq, Repr

structure Handle where
  g : Nat
  entries : List Entry
  coll : Option Coll
  pc : RPc
  deriving DecidableEq, Repr

def Handle.fresh : Handle := { g := 0, entries := [], coll := none, pc := RPc.idle }

structure Cons where
  owner : Nat
  G : Nat
  bumped : Bool
  published : Bool
  newGen : Nat
  pending : Option Nat
  deriving DecidableEq, Repr

/-- a pack handed to a lookup: `want` = what the handle found the object id in, `got` = whose pack -/
structure Ret where
  h : Nat
  want : Ident
  got : Ident
  deriving DecidableEq, Repr

structure Cfg where
  bumpOnClear : Bool
  recheck : Bool
  deriving DecidableEq, Repr

def Cfg.fixed : Cfg := { bumpOnClear := true, recheck := true }

structure Sys where
  cfg : Cfg
  disk : List (Nat × List Nat)
  loose : List Nat
  nSlots : Nat
  slots : Nat → Slot
  pubGen : Nat
  pubSlots : List Nat
  pubPtr : Nat
  pubInit : Bool
  nHandles : Nat
  handles : Nat → Handle
  cons : Option Cons
  nextStamp : Nat
  nextPtr : Nat
  rets : List Ret
  panicked : Bool

def Sys.init (cfg : Cfg) (nSlots : Nat) : Sys :=
  { cfg := cfg, disk := [], loose := [], nSlots := nSlots, slots := fun _ => Slot.empty,
    pubGen := 0, pubSlots := [], pubPtr := 0, pubInit := false, nHandles := 0,
    handles := fun _ => Handle.fresh, cons := none, nextStamp := 0, nextPtr := 1, rets := [],
    panicked := false }

inductive Ev
  | envAdd (file : Nat) (objs : List Nat)
  | envRemove (file : Nat)
  | envAddLoose (o : Nat)
  | envRemoveLoose (o : Nat)
  | newHandle
  | collBegin (h : Nat)
  | collSlot (h : Nat)
  | collEnd (h : Nat)
  | promote (h i : Nat)
  | retCached (h i : Nat)
  | lp1 (h i : Nat)
  | lp2 (h : Nat)
  | lp3 (h : Nat)
  | lp4 (h : Nat)
  | lp5 (h : Nat)
  | loadIdx (k gIx : Nat)
  | consBegin (h : Nat)
  | consSetGen (k : Nat)
  | consSetFiles (k file : Nat) (multi : Bool)
  | consPutBack (k : Nat)
  | consPublish (slots : List Nat) (bump : Bool)
  | consTrash (k : Nat)
  | consClearGen (k : Nat)
  | consClearFiles (k : Nat)
  | consEnd
  /-- `set_slot_to_index` for a multi-pack index that stands for `extra + 1` packs -/
  | consSetFilesM (k file extra : Nat)
  deriving DecidableEq, Repr

def setAt {α : Type} (f : Nat → α) (i : Nat) (a : α) : Nat → α := fun j => if j = i then a else f j

def Sys.setSlot (s : Sys) (k : Nat) (sl : Slot) : Sys := { s with slots := setAt s.slots k sl }
def Sys.setHandle (s : Sys) (h : Nat) (hd : Handle) : Sys := { s with handles := setAt s.handles h hd }

def onDisk (disk : List (Nat × List Nat)) (file : Nat) : Bool := disk.any fun d => d.1 == file

/-- is object `o` in an index file on disk other than `except`? -/
def heldElsewhere (disk : List (Nat × List Nat)) (except : Option Nat) (o : Nat) : Bool :=
  disk.any fun d => (some d.1 != except) && d.2.contains o

def objsOf (disk : List (Nat × List Nat)) (file : Nat) : List Nat :=
  match disk.find? fun d => d.1 == file with
  | some d => d.2
  | none => []

def entryOf (k : Nat) (b : Bundle) : Entry :=
  { slot := k, id := b.ident, multi := b.multi, pack := if b.pack.isLoaded then some b.ident else none }

/-- the entry for pack `j` of an installation -/
def entryAt (k : Nat) (b : Bundle) (j : Nat) : Entry :=
  { slot := k, id := b.ident, multi := b.multi, pack := if (b.packAt j).isLoaded then some b.ident else none,
    pk := j }

/-- what `collect_snapshot` takes from a slot: one entry per pack of the installation -/
def entriesOf (k : Nat) (b : Bundle) : List Entry := (List.range (b.more.length + 1)).map (entryAt k b)

def swap0 {α : Type} (l : List α) (i : Nat) : List α :=
  match l[0]?, l[i]? with
  | some a, some b => (l.set 0 b).set i a
  | _, _ => l

def setPack (l : List Entry) (i : Nat) (p : Ident) : List Entry :=
  match l[i]? with
  | some e => l.set i { e with pack := some p }
  | none => l

/-- the handle got a pack for entry `i`: remember it in the entry, record it, back to idle -/
def Sys.ret (s : Sys) (h : Nat) (hd : Handle) (i : Nat) (e : Entry) (got : Ident) : Sys :=
  { (s.setHandle h { hd with pc := RPc.idle, entries := setPack hd.entries i got }) with
    rets := { h := h, want := e.id, got := got } :: s.rets }

/-- one atomic action; `none` = not possible in this state -/
def step (s : Sys) : Ev → Option Sys
  | Ev.envAdd file objs =>
    if onDisk s.disk file then none else some { s with disk := (file, objs) :: s.disk }
  | Ev.envRemove file =>
    if onDisk s.disk file && (objsOf s.disk file).all (fun o => heldElsewhere s.disk (some file) o || s.loose.contains o) then
      some { s with disk := s.disk.filter fun d => d.1 != file }
    else none
  | Ev.envAddLoose o => some { s with loose := o :: s.loose }
  | Ev.envRemoveLoose o =>
    if s.loose.contains o && heldElsewhere s.disk none o then
      some { s with loose := s.loose.filter fun x => x != o }
    else none
  | Ev.newHandle => some { s with nHandles := s.nHandles + 1 }
  | Ev.collBegin h =>
    let hd := s.handles h
    if h < s.nHandles ∧ hd.pc = RPc.idle ∧ hd.coll = none then
      some (s.setHandle h { hd with
        coll := some { g := s.pubGen, todo := if s.pubInit then s.pubSlots else [], acc := [] } })
    else none
  | Ev.collSlot h =>
    let hd := s.handles h
    match hd.coll with
    | some c =>
      match c.todo with
      | k :: rest =>
        let acc := match (s.slots k).files with
          | some b => if b.idx.isLoaded then c.acc ++ entriesOf k b else c.acc
          | none => c.acc
        some (s.setHandle h { hd with coll := some { c with todo := rest, acc := acc } })
      | [] => none
    | none => none
  | Ev.collEnd h =>
    let hd := s.handles h
    match hd.coll with
    | some c =>
      if c.todo = [] then some (s.setHandle h { hd with g := c.g, entries := c.acc, coll := none })
      else none
    | none => none
  | Ev.promote h i =>
    let hd := s.handles h
    if h < s.nHandles ∧ hd.pc = RPc.idle ∧ hd.coll = none then
      some (s.setHandle h { hd with entries := swap0 hd.entries i })
    else none
  | Ev.retCached h i =>
    let hd := s.handles h
    if h < s.nHandles ∧ hd.pc = RPc.idle ∧ hd.coll = none then
      match hd.entries[i]? with
      | some e =>
        match e.pack with
        | some p => some { s with rets := { h := h, want := e.id, got := p } :: s.rets }
        | none => none
      | none => none
    else none
  | Ev.lp1 h i =>
    let hd := s.handles h
    if h < s.nHandles ∧ hd.pc = RPc.idle ∧ hd.coll = none then
      match hd.entries[i]? with
      | some e =>
        if e.pack = none then
          if s.pubGen = hd.g then some (s.setHandle h { hd with pc := RPc.lp1 i }) else some s
        else none
      | none => none
    else none
  | Ev.lp2 h =>
    let hd := s.handles h
    match hd.pc with
    | RPc.lp1 i =>
      match hd.entries[i]? with
      | some e => some (s.setHandle h { hd with pc := RPc.pinned i (s.slots e.slot).files })
      | none => none
    | _ => none
  | Ev.lp3 h =>
    let hd := s.handles h
    match hd.pc with
    | RPc.pinned i p =>
      match hd.entries[i]? with
      | some e =>
        if (s.slots e.slot).gen > hd.g then some (s.setHandle h { hd with pc := RPc.idle })
        else some (s.setHandle h { hd with pc := RPc.checked i p })
      | none => none
    | _ => none
  | Ev.lp4 h =>
    let hd := s.handles h
    match hd.pc with
    | RPc.checked i p =>
      match hd.entries[i]? with
      | some e =>
        match p with
        | none => some { (s.setHandle h { hd with pc := RPc.idle }) with panicked := true }
        | some b =>
          if b.multi != e.multi then some (s.setHandle h { hd with pc := RPc.idle })
          else if (b.packAt e.pk).isLoaded then some (s.ret h hd i e b.ident)
          else none
      | none => none
    | _ => none
  | Ev.lp5 h =>
    let hd := s.handles h
    match hd.pc with
    | RPc.checked i (some b) =>
      match hd.entries[i]? with
      | some e =>
        let sl := s.slots e.slot
        if b.multi == e.multi && !(b.packAt e.pk).isLoaded && !sl.wlock then
          if s.cfg.recheck && decide (sl.gen > hd.g) then some (s.setHandle h { hd with pc := RPc.idle })
          else
            match sl.files with
            | none => some { (s.setHandle h { hd with pc := RPc.idle }) with panicked := true }
            | some b' =>
              if b'.multi != e.multi then some (s.setHandle h { hd with pc := RPc.idle })
              else
                match b'.packAt e.pk with
                | LoadSt.loaded => some (s.ret h hd i e b'.ident)
                | LoadSt.garbage => some (s.ret h hd i e b'.ident)
                | LoadSt.missing => some (s.setHandle h { hd with pc := RPc.idle })
                | LoadSt.unloaded =>
                  if onDisk s.disk b'.file then
                    some ((s.setSlot e.slot { sl with files := some (b'.setPackAt e.pk LoadSt.loaded) }).ret
                      h hd i e b'.ident)
                  else
                    some ((s.setSlot e.slot { sl with files := some (b'.setPackAt e.pk LoadSt.missing) }).setHandle
                      h { hd with pc := RPc.idle })
        else none
      | none => none
    | _ => none
  | Ev.loadIdx k gIx =>
    let sl := s.slots k
    if k < s.nSlots ∧ gIx ≤ s.pubGen ∧ sl.wlock = false then
      if sl.gen > gIx then some s
      else
        match sl.files with
        | none => some s
        | some b =>
          if b.idx.isLoaded then
            if b.multi && b.idx == LoadSt.loaded then some (s.setSlot k { sl with files := some b.resetPacks })
            else some s
          else if onDisk s.disk b.file then
            some (s.setSlot k { sl with files := some { (if b.multi then b.resetPacks else b) with idx := LoadSt.loaded } })
          else some (s.setSlot k { sl with files := some { b with idx := LoadSt.missing } })
    else none
  | Ev.consBegin h =>
    if h < s.nHandles ∧ s.cons = none then
      some { s with cons := some { owner := h, G := s.pubGen, bumped := false, published := false,
                                   newGen := s.pubGen, pending := none } }
    else none
  | Ev.consSetGen k =>
    match s.cons with
    | some c =>
      let sl := s.slots k
      if k < s.nSlots ∧ c.published = false ∧ c.pending = none then
        if sl.files.isSome then
          some { (s.setSlot k { sl with gen := c.G + 1, wlock := true }) with
                 cons := some { c with bumped := true, pending := some k } }
        else
          some { (s.setSlot k { sl with gen := c.G, wlock := true }) with
                 cons := some { c with pending := some k } }
      else none
    | none => none
  | Ev.consSetFiles k file multi =>
    match s.cons with
    | some c =>
      if c.published = false ∧ c.pending = some k then
        let sl := s.slots k
        let b : Bundle := { stamp := s.nextStamp, file := file, multi := multi,
                            idx := if multi then LoadSt.loaded else LoadSt.unloaded, pack := LoadSt.unloaded }
        some { (s.setSlot k { sl with files := some b, wlock := false }) with
               cons := some { c with pending := none }, nextStamp := s.nextStamp + 1 }
      else none
    | none => none
  | Ev.consPutBack k =>
    match s.cons with
    | some c =>
      let sl := s.slots k
      if k < s.nSlots ∧ c.published = false ∧ c.pending = none then
        match sl.files with
        | some b =>
          if b.isDisposable then some (s.setSlot k { sl with gen := c.G, files := some b.putBack })
          else none
        | none => none
      else none
    | none => none
  | Ev.consPublish slots bump =>
    match s.cons with
    | some c =>
      if c.published = false ∧ c.pending = none then
        let ng := if c.bumped || bump then c.G + 1 else c.G
        some { s with pubGen := ng, pubSlots := slots, pubPtr := s.nextPtr, pubInit := true,
                      nextPtr := s.nextPtr + 1,
                      cons := some { c with published := true, newGen := ng } }
      else none
    | none => none
  | Ev.consTrash k =>
    match s.cons with
    | some c =>
      let sl := s.slots k
      if k < s.nSlots ∧ c.published = true ∧ c.pending = none then
        match sl.files with
        | some b => some (s.setSlot k { sl with files := some b.trash })
        | none => some s
      else none
    | none => none
  | Ev.consClearGen k =>
    match s.cons with
    | some c =>
      let sl := s.slots k
      if k < s.nSlots ∧ c.published = true ∧ c.pending = none ∧ k ∉ s.pubSlots
          ∧ (s.cfg.bumpOnClear = true → c.newGen = c.G + 1) then
        some { (s.setSlot k { sl with gen := c.newGen, wlock := true }) with
               cons := some { c with pending := some k } }
      else none
    | none => none
  | Ev.consClearFiles k =>
    match s.cons with
    | some c =>
      if c.published = true ∧ c.pending = some k then
        let sl := s.slots k
        some { (s.setSlot k { sl with files := none, wlock := false }) with
               cons := some { c with pending := none } }
      else none
    | none => none
  | Ev.consEnd =>
    match s.cons with
    | some c =>
      if c.pending = none ∧ (c.published = true ∨ c.bumped = false) then some { s with cons := none }
      else none
    | none => none
  | Ev.consSetFilesM k file extra =>
    match s.cons with
    | some c =>
      if c.published = false ∧ c.pending = some k then
        let sl := s.slots k
        let b : Bundle := { stamp := s.nextStamp, file := file, multi := true, idx := LoadSt.loaded,
                            pack := LoadSt.unloaded, more := List.replicate extra LoadSt.unloaded }
        some { (s.setSlot k { sl with files := some b, wlock := false }) with
               cons := some { c with pending := none }, nextStamp := s.nextStamp + 1 }
      else none
    | none => none

/-- all schedules = all event lists accepted by `step` -/
def run (s : Sys) : List Ev → Option Sys
  | [] => some s
  | e :: es =>
    match step s e with
    | some s' => run s' es
    | none => none

end GixModel.C12
