import GixModel.Model.C38Core
import GixModel.Spec.C38
/-
C38 — driver glue (line protocol). Operations:

  parse <hex file>
      → the usable lines `Attributes::bytes_to_patterns` yields, `;`-separated:
        `<lineNo>:P:<text hex>:<mode bits>:<first wildcard pos | n>:<attrs>` or `<lineNo>:M:<name hex>:<attrs>`
  attrs <icase> <isDir> <path hex> <sel> <nglobals> <hex>… <info hex|none> <ndirs> (<dir hex> <file hex>)…
        <nverdicts> (<pattern text hex> <mode bits> <rel path hex> <0|1>)…
      → `gix=<assignments> git=<assignments>`: what the model of gitoxide's stack reports and what the
        transcription of git's attr.c reports. `sel` is `*` (all attributes: the specified ones, sorted)
        or a comma-separated list of hex names (reported in that order, unspecified ones included).
        The verdict table is the matcher parameter `Env.pm` (filled in by the harness from gix-glob).
-/
namespace GixModel.C38
open GixModel

def showSt : St → String
  | .set => "s" | .unset => "u" | .unspecified => "x" | .value v => "v" ++ hexOfBytes v

def showAsgs (as : List Asg) : String :=
  if as.isEmpty then "-" else ",".intercalate (as.map fun a => hexOfBytes a.name ++ "/" ++ showSt a.st)

def showLine (l : Line) : String :=
  match l.kind with
  | .pattern p =>
    s!"{l.lineNo}:P:{hexOfBytes p.text}:{p.bits}:{match p.fwp with | some n => toString n | none => "n"}:{showAsgs l.attrs}"
  | .macro n => s!"{l.lineNo}:M:{hexOfBytes n}:{showAsgs l.attrs}"

def insertSorted (x : String) : List String → List String
  | [] => [x]
  | y :: ys => if x < y then x :: y :: ys else y :: insertSorted x ys

def sortStrings (xs : List String) : List String := xs.foldr insertSorted []

/-- canonical rendering of a result: `get` is the per-name lookup, `names` the candidates -/
def showResult (sel : List Bytes) (names : List Bytes) (get : Bytes → St) : String :=
  if sel.isEmpty then
    let xs := (names.eraseDups.filter fun n => get n != St.unspecified).map fun n => hexOfBytes n ++ ":" ++ showSt (get n)
    if xs.isEmpty then "-" else ",".intercalate (sortStrings xs)
  else ",".intercalate (sel.map fun n => hexOfBytes n ++ ":" ++ showSt (get n))

def takeHexes : Nat → List String → Option (List Bytes × List String)
  | 0, rest => some ([], rest)
  | n + 1, x :: rest => do
    let b ← bytesOfHex x
    let (bs, rest) ← takeHexes n rest
    some (b :: bs, rest)
  | _, _ => none

def takeDirs : Nat → List String → Option (List (Bytes × Bytes) × List String)
  | 0, rest => some ([], rest)
  | n + 1, d :: c :: rest => do
    let d ← bytesOfHex d
    let c ← bytesOfHex c
    let (xs, rest) ← takeDirs n rest
    some ((d, c) :: xs, rest)
  | _, _ => none

structure Verdict where
  text : Bytes
  bits : Nat
  rel : Bytes
  v : Bool

def takeVerdicts : Nat → List String → Option (List Verdict × List String)
  | 0, rest => some ([], rest)
  | n + 1, t :: b :: r :: v :: rest => do
    let t ← bytesOfHex t
    let b ← b.toNat?
    let r ← bytesOfHex r
    let v ← (if v == "1" then some true else if v == "0" then some false else none)
    let (xs, rest) ← takeVerdicts n rest
    some (⟨t, b, r, v⟩ :: xs, rest)
  | _, _ => none

def tableEnv (tbl : List Verdict) (dflt : Bool) : Env :=
  ⟨fun p rel _ _ => match tbl.find? (fun e => e.text == p.text && e.bits == p.bits && e.rel == rel) with
    | some e => e.v
    | none => dflt⟩

def parseSel (s : String) : Option (List Bytes) :=
  if s == "*" then some [] else (s.splitOn ",").mapM bytesOfHex

def parseBit (s : String) : Option Bool :=
  if s == "1" then some true else if s == "0" then some false else none

def runAttrs (icase isDir : Bool) (path : Bytes) (sel : List Bytes) (globals : List Bytes)
    (info : Option Bytes) (dirs : List (Bytes × Bytes)) (tbl : List Verdict) (dflt : Bool) : String :=
  let env := tableEnv tbl dflt
  let t : PTree := { globals := globals.map parseFile, info := info.map parseFile,
                     dirs := fun d => (dirs.lookup d).map parseFile }
  let gix : String := match resolveOut env t path isDir icase sel with
    | none => "fuel"
    | some o => (if o.bad then "underflow " else "") ++ showResult sel (o.filled.map (·.1)) o.get
  let tg : PTree := { globals := globals.map (Spec.C38.parseFileC true), info := info.map (Spec.C38.parseFileC true),
                      dirs := fun d => (dirs.lookup d).map (Spec.C38.parseFileC true) }
  let vals := Spec.C38.gitCollect env tg (Spec.C38.gitPath path isDir) icase
  let git := showResult sel (vals.map (·.1)) (Spec.C38.gitValue vals)
  s!"gix={gix} git={git}"

def handle? : List String → Option String
  | ["parse", h] => do
    let bs ← bytesOfHex h
    let ls := parseFile bs
    some (if ls.isEmpty then "-" else ";".intercalate (ls.map showLine))
  | "attrs" :: icase :: isDir :: path :: sel :: ng :: rest => do
    let icase ← parseBit icase
    let isDir ← parseBit isDir
    let path ← bytesOfHex path
    let sel ← parseSel sel
    let ng ← ng.toNat?
    let (globals, rest) ← takeHexes ng rest
    match rest with
    | info :: nd :: rest =>
      let info ← (if info == "none" then some none else (bytesOfHex info).map some)
      let nd ← nd.toNat?
      let (dirs, rest) ← takeDirs nd rest
      match rest with
      | nv :: rest =>
        let nv ← nv.toNat?
        let (tbl, rest) ← takeVerdicts nv rest
        if !rest.isEmpty then none else
        let a := runAttrs icase isDir path sel globals info dirs tbl false
        let b := runAttrs icase isDir path sel globals info dirs tbl true
        some (if a == b then a else "missing-verdict " ++ a ++ " | " ++ b)
      | _ => none
    | _ => none
  | _ => none

def handle (args : List String) : String := (handle? args).getD "bad-op"

end GixModel.C38
