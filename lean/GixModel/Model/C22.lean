import GixModel.Basic.Hex
/-
C22 — lock files: name derivation, exclusivity, commit / drop effects.

Rust code modelled (all in /repo):
  gix_lock::acquire::add_lock_suffix          gix-lock/src/acquire.rs   (after fix 180e638ad: file_name + ".lock")
  gix_lock::file::strip_lock_suffix           gix-lock/src/file.rs      (extension → to_str → split_at → with_extension)
  gix_tempfile::Handle::at_path (name part)   gix-tempfile/src/handle.rs (prefix = file_stem, suffix = "." + lossy ext)
  gix_lock::acquire::lock_with_mode, commit::{File,Marker}::commit, Drop for gix_tempfile::Handle,
  gix_fs::dir::create::all, gix_fs::dir::remove::empty_upward_until_boundary
      — as a transition system over an abstract file system whose events are the atomic system calls
        (mkdir, rmdir, open(O_CREAT|O_EXCL), write, rename, unlink), any number of holders, any interleaving.
std pieces the code goes through and which are therefore modelled too (tied by the harness):
  Path::{file_name, file_stem, extension, with_extension, with_file_name} on unix bytes, for "plain" paths
  (components separated by single '/', none empty, "." or ".."), String::from_utf8_lossy, str::from_utf8,
  str::is_char_boundary.
-/
namespace GixModel.C22
open GixModel

/-! ## 1. `std::path` on unix bytes -/

/-- ".lock" -/
def dotLock : Bytes := [46, 108, 111, 99, 107]

/-- the bytes after the last '/' -/
def fileName (p : Bytes) : Bytes := (p.reverse.takeWhile (· != 47)).reverse
/-- everything up to and including the last '/' -/
def dirPart (p : Bytes) : Bytes := (p.reverse.dropWhile (· != 47)).reverse

def splitSlash : Bytes → List Bytes
  | [] => [[]]
  | b :: rest =>
    if b == 47 then [] :: splitSlash rest
    else match splitSlash rest with
      | [] => [[b]]
      | c :: cs => (b :: c) :: cs

def joinSlash : List Bytes → Bytes
  | [] => []
  | [c] => c
  | c :: cs => c ++ 47 :: joinSlash cs

/-- a `Component::Normal`: not empty, not "." and not ".." -/
def normalComp (c : Bytes) : Bool := c != [] && c != [46] && c != [46, 46]

/-- "", "/", "a/", "a/b.c/", "/a/b/": what may precede the file name of a plain path -/
def dirOk (d : Bytes) : Bool :=
  d == [] ||
  (match splitSlash d with
   | [] => false
   | c :: cs => (c == [] || normalComp c) && cs.dropLast.all normalComp && cs.getLast? == some [])

/-- The domain on which `std::path` is modelled: the final component is a normal file name and
the directories before it are separated by single slashes without "." / ".." / empty components.
For such a path `file_name()` is the part after the last '/', `parent()` the part before it. -/
def plain (p : Bytes) : Bool := normalComp (fileName p) && dirOk (dirPart p)

/-- `rsplit_file_at_dot` of library/std/src/path.rs on a file NAME: (file_stem, extension). -/
def rsplitDot (f : Bytes) : Bytes × Option Bytes :=
  if f == [46, 46] then (f, none)
  else
    match f.reverse.dropWhile (· != 46) with
    | [] => (f, none)                                   -- no dot at all
    | _ :: rb =>
      if rb.isEmpty then (f, none)                      -- the only dot is the first byte
      else (rb.reverse, some (f.reverse.takeWhile (· != 46)).reverse)

def extension? (p : Bytes) : Option Bytes := (rsplitDot (fileName p)).2
def fileStem (p : Bytes) : Bytes := (rsplitDot (fileName p)).1

/-- Result of a modelled function: a value, a Rust panic, or "this input is outside the modelled
path domain" (never produced for plain paths; the harness only sends plain paths). -/
inductive Res (α : Type) where
  | ok (a : α)
  | panic
  | unmodelled
  deriving Repr, DecidableEq

/-- `PathBuf::set_extension`: no-op when there is no file name (`..`), else truncate after the
file stem and push "." + extension unless the extension is empty. -/
def setExtension (q e : Bytes) : Res Bytes :=
  let f := fileName q
  if f == [46, 46] then .ok q
  else if f == [] || f == [46] then .unmodelled
  else
    let base := dirPart q ++ (rsplitDot f).1
    .ok (if e.isEmpty then base else base ++ 46 :: e)

/-- `Path::with_extension` as implemented since Rust 1.7x: copy the path up to and including the
dot of the old extension, then `set_extension` on that copy. -/
def withExtension (p e : Bytes) : Res Bytes :=
  match extension? p with
  | none => setExtension p e
  | some pe => setExtension (p.take (p.length - pe.length)) e

/-! ## 2. UTF-8 as `core::str` sees it -/

def isCont (b : UInt8) : Bool := 128 ≤ b && b < 192

/-- One step of `Utf8Chunks::next`: for a non-empty input, the number of bytes consumed and
whether they form a valid scalar value (otherwise they are one maximal invalid prefix). -/
def utf8Step : Bytes → Nat × Bool
  | [] => (0, true)
  | b0 :: rest =>
    if b0 < 128 then (1, true)
    else if 194 ≤ b0 && b0 ≤ 223 then
      match rest with
      | b1 :: _ => if isCont b1 then (2, true) else (1, false)
      | [] => (1, false)
    else if 224 ≤ b0 && b0 ≤ 239 then
      match rest with
      | b1 :: rest2 =>
        let ok1 := (b0 == 224 && 160 ≤ b1 && b1 ≤ 191) || (225 ≤ b0 && b0 ≤ 236 && isCont b1)
          || (b0 == 237 && 128 ≤ b1 && b1 ≤ 159) || (238 ≤ b0 && isCont b1)
        if ok1 then
          match rest2 with
          | b2 :: _ => if isCont b2 then (3, true) else (2, false)
          | [] => (2, false)
        else (1, false)
      | [] => (1, false)
    else if 240 ≤ b0 && b0 ≤ 244 then
      match rest with
      | b1 :: rest2 =>
        let ok1 := (b0 == 240 && 144 ≤ b1 && b1 ≤ 191) || (241 ≤ b0 && b0 ≤ 243 && isCont b1)
          || (b0 == 244 && 128 ≤ b1 && b1 ≤ 143)
        if ok1 then
          match rest2 with
          | b2 :: rest3 =>
            if isCont b2 then
              match rest3 with
              | b3 :: _ => if isCont b3 then (4, true) else (3, false)
              | [] => (3, false)
            else (2, false)
          | [] => (2, false)
        else (1, false)
      | [] => (1, false)
    else (1, false)

/-- U+FFFD -/
def replacement : Bytes := [239, 191, 189]

def lossyFuel : Nat → Bytes → Bytes
  | 0, _ => []
  | n + 1, bs =>
    if bs.isEmpty then []
    else
      let (k, ok) := utf8Step bs
      (if ok then bs.take k else replacement) ++ lossyFuel n (bs.drop k)

/-- `String::from_utf8_lossy` (every step consumes at least one byte, so `length` fuel suffices) -/
def lossy (bs : Bytes) : Bytes := lossyFuel bs.length bs

def validFuel : Nat → Bytes → Bool
  | 0, bs => bs.isEmpty
  | n + 1, bs =>
    if bs.isEmpty then true
    else
      let (k, ok) := utf8Step bs
      ok && validFuel n (bs.drop k)

/-- `str::from_utf8(..).is_ok()` / `OsStr::to_str().is_some()` -/
def validUtf8 (bs : Bytes) : Bool := validFuel bs.length bs

/-- `str::is_char_boundary` -/
def isCharBoundary (s : Bytes) (k : Nat) : Bool :=
  k == 0 || (if k ≥ s.length then k == s.length else
    match s[k]? with
    | some b => !isCont b
    | none => false)

/-! ## 3. The three name functions -/

/-- `gix_lock::acquire::add_lock_suffix` (repaired code): `file_name() + ".lock"` put back with
`with_file_name` (= parent joined with the new name). -/
def addLockSuffix (p : Bytes) : Res Bytes :=
  if plain p then .ok (dirPart p ++ (fileName p ++ dotLock)) else .unmodelled

/-- `gix_lock::file::strip_lock_suffix`, as written: `extension().expect(..).to_str().expect(..)`,
`split_at(len.saturating_sub(5))`, `with_extension`. -/
def stripLockSuffix (lp : Bytes) : Res Bytes :=
  if !plain lp then .unmodelled
  else match extension? lp with
    | none => .panic                                     -- "at least our own extension"
    | some ext =>
      if !validUtf8 ext then .panic                      -- "no illegal UTF8 in extension"
      else
        let k := ext.length - 5
        if !isCharBoundary ext k then .panic             -- str::split_at
        else withExtension lp (ext.take k)

/-- The path at which `gix_tempfile::Handle::at_path(path, …)` creates its file with
`O_CREAT|O_EXCL`: `parent/​(file_stem ++ "." ++ lossy(extension))`, zero random bytes. -/
def tempPath (lp : Bytes) : Res Bytes :=
  if !plain lp then .unmodelled
  else
    let (stem, ext) := rsplitDot (fileName lp)
    .ok (dirPart lp ++ stem ++ (match ext with | none => [] | some e => 46 :: lossy e))

/-- The code before the fix (kept as the recorded defect): the extension went through
`to_string_lossy` and `with_extension`. -/
def addLockSuffixOld (p : Bytes) : Res Bytes :=
  if !plain p then .unmodelled
  else withExtension p (match extension? p with
    | none => [108, 111, 99, 107]
    | some e => lossy e ++ dotLock)

/-! ## 4. File system and the lock protocol as a transition system -/

/-- `ino` identifies the open file description that created a lock file (`some h` for the lock
file created by holder `h`, `none` for foreign files): a holder writes through its descriptor, so
its writes reach the lock *path* only while the path still names the file it created. -/
inductive Node where
  | file (content : Bytes) (ino : Option Nat)
  | dir
  deriving Repr, DecidableEq

section Generic
variable {α : Type} [DecidableEq α]

/-- A file system: finitely many entries; the first entry for a path counts. -/
abbrev FS (α : Type) := List (α × Node)

def look : FS α → α → Option Node
  | [], _ => none
  | (q, n) :: rest, p => if q = p then some n else look rest p

def del (fs : FS α) (p : α) : FS α := fs.filter (fun e => e.1 ≠ p)
def put (fs : FS α) (p : α) (n : Node) : FS α := (p, n) :: del fs p

/-- What the lock protocol needs to know about paths: the parent directory (`none` for the root of
the modelled tree) and the lock path of a resource (`none`: not a lockable path). -/
structure Ops (α : Type) where
  par : α → Option α
  lk : α → Option α

def hasChild (o : Ops α) (fs : FS α) (d : α) : Bool := fs.any (fun e => o.par e.1 = some d)

def parentIsDir (o : Ops α) (fs : FS α) (p : α) : Bool :=
  match o.par p with
  | none => false
  | some d => look fs d = some Node.dir

structure Holder (α : Type) where
  id : Nat
  lock : α
  res : α
  /-- everything this holder wrote into its lock file -/
  buf : Bytes
  deriving Repr, DecidableEq

structure State (α : Type) where
  fs : FS α
  holders : List (Holder α)

/-- The atomic actions. `mkdir`/`rmdir` may be issued by anyone at any time (they are what
`create_dir::all` and `empty_upward_until_boundary` are made of); `put`/`del` are foreign writes
and deletions of regular files, allowed everywhere except on a lock file that is currently held
(the one assumption of every lock-file scheme); the rest is the protocol: `acquire` =
`open(lock, O_CREAT|O_EXCL)`, `write`, `commit` = `rename(lock, resource)`, `drop` = `unlink(lock)`. -/
inductive Event (α : Type) where
  | mkdir (d : α)
  | rmdir (d : α)
  | put (p : α) (c : Bytes)
  | del (p : α)
  | acquire (h : Nat) (r : α)
  | write (h : Nat) (c : Bytes)
  | commit (h : Nat)
  | drop (h : Nat)
  deriving Repr

def findHolder (hs : List (Holder α)) (h : Nat) : Option (Holder α) := hs.find? (fun x => x.id = h)

def heldLock (hs : List (Holder α)) (p : α) : Bool := hs.any (fun x => x.lock = p)

/-- One atomic action; `none` = the system call fails / the action is not possible, and then the
state is unchanged. -/
def step (o : Ops α) (s : State α) : Event α → Option (State α)
  | .mkdir d =>
    if look s.fs d = none ∧ parentIsDir o s.fs d then some { s with fs := put s.fs d .dir } else none
  | .rmdir d =>
    if look s.fs d = some .dir ∧ hasChild o s.fs d = false then some { s with fs := del s.fs d } else none
  | .put p c =>
    if heldLock s.holders p then none
    else if parentIsDir o s.fs p ∧ look s.fs p ≠ some .dir then
      some { s with fs := put s.fs p (.file c (match look s.fs p with | some (.file _ t) => t | _ => none)) }
    else none
  | .del p =>
    if heldLock s.holders p then none
    else match look s.fs p with
      | some (.file _ _) => some { s with fs := del s.fs p }
      | _ => none
  | .acquire h r =>
    match o.lk r with
    | none => none
    | some l =>
      if (findHolder s.holders h).isSome then none
      else if look s.fs l = none ∧ parentIsDir o s.fs l then
        some { fs := put s.fs l (.file [] (some h)), holders := ⟨h, l, r, []⟩ :: s.holders }
      else none
  | .write h c =>
    match findHolder s.holders h with
    | none => none
    | some hd =>
      some { fs := (match look s.fs hd.lock with
                    | some (.file old t) => if t = some h then put s.fs hd.lock (.file (old ++ c) t) else s.fs
                    | _ => s.fs),
             holders := s.holders.map (fun x => if x.id = h then { x with buf := x.buf ++ c } else x) }
  | .commit h =>
    match findHolder s.holders h with
    | none => none
    | some hd =>
      match look s.fs hd.lock with
      | some (.file c t) =>
        if look s.fs hd.res = some .dir then none
        else some { fs := put (del s.fs hd.lock) hd.res (.file c t),
                    holders := s.holders.filter (fun x => x.id ≠ h) }
      | _ => none
  | .drop h =>
    match findHolder s.holders h with
    | none => none
    | some hd => some { fs := del s.fs hd.lock, holders := s.holders.filter (fun x => x.id ≠ h) }

/-- A schedule: any list of atomic actions, each possible when it happens. -/
def run (o : Ops α) : State α → List (Event α) → Option (State α)
  | s, [] => some s
  | s, e :: es => match step o s e with
    | none => none
    | some s' => run o s' es

end Generic

/-! ## 5. The concrete instance used by the driver: paths are component lists -/

abbrev Path := List Bytes

/-- lock path of a resource: the real `add_lock_suffix` applied to the joined path -/
def lkPath (r : Path) : Option Path :=
  match addLockSuffix (joinSlash r) with
  | .ok l => some (splitSlash l)
  | _ => none

def pathOps : Ops Path where
  par := fun p => if p.isEmpty then none else some p.dropLast
  lk := lkPath

/-- `gix_fs::dir::create::all` when nobody interferes: the missing ancestors, top-down.
`Except.error true`: the directory itself is a file (`AlreadyExists`, which `lock_with_mode` reports
as "permanently locked"); `Except.error false`: a proper ancestor is a file (`NotADirectory`). -/
def createAll (fs : FS Path) (dir : Path) : Except Bool (List Path) :=
  go (List.range (dir.length + 1) |>.map (fun n => dir.take n)) []
where
  go : List Path → List Path → Except Bool (List Path)
    | [], acc => .ok acc.reverse
    | c :: cs, acc =>
      match look fs c with
      | some .dir => go cs acc
      | some (.file _ _) => .error (cs.isEmpty)
      | none => if acc.isEmpty && c.isEmpty then .error false else go cs (c :: acc)

/-- `gix_fs::dir::remove::empty_upward_until_boundary(target, boundary)` when nobody interferes:
the directories it removes, in order. -/
def rmUpGo : Nat → FS Path → Path → Path → List Path
  | 0, _, _, _ => []
  | n + 1, fs, cur, b =>
    let next (fs' : FS Path) : List Path :=
      let p := cur.dropLast
      if p = b ∨ cur.isEmpty then [] else rmUpGo n fs' p b
    match look fs cur with
    | some .dir => if hasChild pathOps fs cur then [] else cur :: next (del fs cur)
    | some (.file _ _) => []
    | none => next fs

def rmUp (fs : FS Path) (target boundary : Path) : List Path :=
  if !(boundary.isPrefixOf target) then []
  else if target = boundary then []
  else if look fs target = none then []
  else rmUpGo (target.length + 1) fs target boundary

/-! ### scenario interpreter (driver glue: every change of the file system goes through `run`) -/

inductive Kind | file | closedFile | marker
  deriving DecidableEq

structure Handle where
  h : Nat
  kind : Kind
  boundary : Option Path

structure Sim where
  st : State Path
  hs : List Handle

def rootState : State Path := { fs := [([], .dir)], holders := [] }

def bytesLt : Bytes → Bytes → Bool
  | [], [] => false
  | [], _ :: _ => true
  | _ :: _, [] => false
  | a :: as, b :: bs => if a < b then true else if b < a then false else bytesLt as bs

def insertSorted (x : Bytes × String) : List (Bytes × String) → List (Bytes × String)
  | [] => [x]
  | y :: ys => if bytesLt x.1 y.1 then x :: y :: ys else y :: insertSorted x ys

def sortEntries (xs : List (Bytes × String)) : List (Bytes × String) := xs.foldr insertSorted []

def dedupKeys : FS Path → List Path → FS Path
  | [], _ => []
  | (p, n) :: rest, seen => if seen.contains p then dedupKeys rest seen else (p, n) :: dedupKeys rest (p :: seen)

def listing (fs : FS Path) (filesOnly : Bool) : String :=
  let ents := (dedupKeys fs []).filterMap fun (p, n) =>
    if p.isEmpty then none
    else match n with
      | .dir => if filesOnly then none else some (joinSlash p, hexOfBytes (joinSlash p) ++ "/")
      | .file c _ => some (joinSlash p, hexOfBytes (joinSlash p) ++ "=" ++ hexOfBytes c)
  let sorted := (sortEntries ents).map (·.2)
  if sorted.isEmpty then "-" else ",".intercalate sorted

/-- paths are compared component-wise by `std::path` (`starts_with`, `==`): `a/`, `a//b`, `./a` are `a`, `a/b`, `a` -/
def pathOfHex (s : String) : Option Path :=
  (bytesOfHex s).map fun b => (splitSlash b).filter (fun c => c ≠ [] ∧ c ≠ [46])

def runEvents (sim : Sim) (evs : List (Event Path)) : Option Sim :=
  (run pathOps sim.st evs).map fun st => { sim with st := st }

/-- acquire as the library does it: `create_dir::all` if a boundary is given, then O_EXCL create -/
def simAcquire (sim : Sim) (h : Nat) (kind : Kind) (r : Path) (b : Option Path) : Sim × String :=
  match lkPath r with
  | none => (sim, "bad-op")
  | some l =>
    let dir := l.dropLast
    let mk : Except Bool (List Path) := match b with
      | none => .ok []
      | some _ => createAll sim.st.fs dir
    match mk with
    | .error true => (sim, "locked")
    | .error false => (sim, "err")
    | .ok ds =>
      match runEvents sim (ds.map .mkdir) with
      | none => (sim, "bad-op")
      | some sim1 =>
        match runEvents sim1 [.acquire h r] with
        | some sim2 => ({ sim2 with hs := sim2.hs ++ [⟨h, kind, b⟩] }, "ok")
        | none =>
          if look sim1.st.fs l ≠ none then (sim1, "locked") else (sim1, "err")

def simDrop (sim : Sim) (hd : Handle) : Sim :=
  match findHolder sim.st.holders hd.h with
  | none => sim
  | some holder =>
    match runEvents sim [.drop hd.h] with
    | none => sim
    | some sim1 =>
      let sim1 := { sim1 with hs := sim1.hs.filter (fun x => x.h ≠ hd.h) }
      match hd.boundary with
      | none => sim1
      | some b =>
        match runEvents sim1 ((rmUp sim1.st.fs holder.lock.dropLast b).map .rmdir) with
        | some sim2 => sim2
        | none => sim1

def simToken (sim : Sim) (tok : String) : Sim × String :=
  let f := tok.splitOn ":"
  let findH (h : Nat) : Option Handle := sim.hs.find? (fun x => x.h = h)
  match f with
  | ["F", p, c] =>
    match pathOfHex p, bytesOfHex c with
    | some p, some c =>
      match createAll sim.st.fs p.dropLast with
      | .ok ds =>
        match runEvents sim (ds.map .mkdir ++ [.put p c]) with
        | some s => (s, "ok")
        | none => (sim, "err")
      | .error _ => (sim, "err")
    | _, _ => (sim, "bad-op")
  | ["G", p] =>
    match pathOfHex p with
    | some p =>
      match createAll sim.st.fs p with
      | .ok ds =>
        match runEvents sim (ds.map .mkdir) with
        | some s => (s, "ok")
        | none => (sim, "err")
      | .error _ => (sim, "err")
    | none => (sim, "bad-op")
  | [k, h, p, b] =>
    if k ≠ "A" ∧ k ≠ "K" then (sim, "bad-op") else
    match h.toNat?, pathOfHex p, (if b == "n" then some none else (pathOfHex b).map some) with
    | some h, some p, some b =>
      if (findH h).isSome then (sim, "bad-op")
      else simAcquire sim h (if k == "A" then .file else .marker) p b
    | _, _, _ => (sim, "bad-op")
  | ["W", h, c] =>
    match h.toNat?, bytesOfHex c with
    | some h, some c =>
      match findH h with
      | some ⟨_, .file, _⟩ =>
        match runEvents sim [.write h c] with
        | some s => (s, "ok")
        | none => (sim, "err")
      | _ => (sim, "nohandle")
    | _, _ => (sim, "bad-op")
  | ["X", h] =>
    match h.toNat? with
    | some h =>
      match findH h with
      | some ⟨_, .file, b⟩ =>
        ({ sim with hs := sim.hs.map (fun x => if x.h = h then ⟨h, .closedFile, b⟩ else x) }, "ok")
      | _ => (sim, "nohandle")
    | none => (sim, "bad-op")
  | ["C", h] =>
    match h.toNat? with
    | some h =>
      match findH h with
      | none => (sim, "nohandle")
      | some ⟨_, .marker, _⟩ => (sim, "err")           -- "refusing to commit marker that was never opened"
      | some _ =>
        match runEvents sim [.commit h] with
        | some s => ({ s with hs := s.hs.filter (fun x => x.h ≠ h) }, "ok")
        | none => (sim, "err")
    | none => (sim, "bad-op")
  | ["D", h] =>
    match h.toNat? with
    | some h =>
      match findH h with
      | none => (sim, "nohandle")
      | some hd => (simDrop sim hd, "ok")
    | none => (sim, "bad-op")
  | _ => (sim, "bad-op")

def simSeq (toks : List String) : String :=
  let (sim, outs) := toks.foldl (fun (acc : Sim × List String) t =>
    let (s, o) := simToken acc.1 t
    (s, o :: acc.2)) (⟨rootState, []⟩, [])
  if outs.contains "bad-op" then "bad-op" else
  -- whatever is still held is dropped in handle order at the end of the scenario
  let hsSorted := sim.hs.foldr (fun x acc =>
    let rec ins (x : Handle) : List Handle → List Handle
      | [] => [x]
      | y :: ys => if x.h < y.h then x :: y :: ys else y :: ins x ys
    ins x acc) []
  let sim := hsSorted.foldl simDrop sim
  ",".intercalate outs.reverse ++ "|" ++ listing sim.st.fs false

/-- replay of a race log: acquisitions, commits and drops in the order they were logged must be a
schedule of the transition system (directories are created when needed, never removed). -/
def simRace (paths : List Path) (evs : List String) : String :=
  let rec go (i : Nat) (sim : Sim) : List String → String
    | [] => "legal files=" ++ listing sim.st.fs true
    | e :: rest =>
      let bad := s!"illegal@{i}:{e}"
      match e.splitOn ":" with
      | ["A", h, ri] =>
        match h.toNat?, ri.toNat? with
        | some h, some ri =>
          match paths[ri]? with
          | some r =>
            match simAcquire sim h .file r (some []) with
            | (sim', "ok") => go (i + 1) sim' rest
            | _ => bad
          | none => "bad-op"
        | _, _ => "bad-op"
      | ["C", h, c] =>
        match h.toNat?, bytesOfHex c with
        | some h, some c =>
          match runEvents sim [.write h c, .commit h] with
          | some sim' => go (i + 1) sim' rest
          | none => bad
        | _, _ => "bad-op"
      | ["D", h] =>
        match h.toNat? with
        | some h =>
          match runEvents sim [.drop h] with
          | some sim' => go (i + 1) sim' rest
          | none => bad
        | none => "bad-op"
      | _ => "bad-op"
  go 0 ⟨rootState, []⟩ evs

/-! ### driver -/

def resHex : Res Bytes → String
  | .ok b => hexOfBytes b
  | .panic => "panic"
  | .unmodelled => "unmodelled"

def handleName (dir name : Bytes) (mode : String) (pre : Bool) : String :=
  let p := dir ++ name
  match addLockSuffix p with
  | .ok lock =>
    match stripLockSuffix lock, tempPath lock with
    | .ok res, .ok tmp =>
      let tmpName := fileName tmp
      let held0 : List (Bytes × Bytes) := (if pre then [(name, [111, 108, 100])] else [])
      let held := held0.filter (fun e => e.1 ≠ tmpName) ++ [(tmpName, [])]
      let new : Bytes := [110, 101, 119]
      let after : List (Bytes × Bytes) :=
        if mode == "c" then
          (held0.filter (fun e => e.1 ≠ tmpName ∧ e.1 ≠ fileName res)) ++ [(fileName res, new)]
        else held0.filter (fun e => e.1 ≠ tmpName)
      let show1 (xs : List (Bytes × String)) : String :=
        let s := (sortEntries xs).map (·.2)
        if s.isEmpty then "-" else ",".intercalate s
      s!"lock={hexOfBytes lock} res={hexOfBytes res} held={show1 (held.map fun e => (e.1, hexOfBytes e.1))} fin=ok after={show1 (after.map fun e => (e.1, hexOfBytes e.1 ++ ":" ++ hexOfBytes e.2))}"
    | .panic, _ => "panic"
    | _, _ => "bad-op"
  | _ => "bad-op"

def handle? : List String → Option String
  | ["lossy", x] => do
    let b ← bytesOfHex x
    some s!"{hexOfBytes (lossy b)} valid={if validUtf8 b then 1 else 0}"
  | ["name", d, n, mode, pre] => do
    let d ← bytesOfHex d
    let n ← bytesOfHex n
    if mode ≠ "c" ∧ mode ≠ "d" then none
    else if pre ≠ "0" ∧ pre ≠ "1" then none
    else some (handleName d n mode (pre == "1"))
  | "seq" :: toks => some (simSeq toks)
  | "race" :: n :: rest => do
    let n ← n.toNat?
    let paths ← (rest.take n).mapM pathOfHex
    if paths.length ≠ n then none else some (simRace paths (rest.drop n))
  | _ => none

def handle (args : List String) : String := (handle? args).getD "bad-op"

end GixModel.C22
