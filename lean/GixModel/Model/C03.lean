import GixModel.Basic.Tree
import GixModel.Spec.C03
/-
C03 — driver for the tree-entry order, `entries.sort()` + `Tree::write_to`, and
`TreeRef::bisect_entry`. The definitions themselves live in `Basic/Tree.lean` (shared with
C04/C44); `Spec/C03.lean` holds git's `base_name_compare`, exposed here as op `gitcmp` so that the
transcription is compared with the git binary (`git mktree` ordering two entries) on every run.

ops (byte strings in hex, `-` = empty):
  cmp <modeA> <nameA> <modeB> <nameB>          -> lt|eq|gt           <Entry as Ord>::cmp (= EntryRef's)
  gitcmp <modeA> <nameA> <modeB> <nameB>       -> lt|eq|gt           Spec: sign of base_name_compare
  sort <n> (<mode> <name> <oid>)*              -> ok <hex>|err       entries.sort(); write_to
  bisect <name> <0|1> <n> (<mode> <name> <oid>)*  -> none|some <mode> <oid>   TreeRef::bisect_entry
-/
namespace GixModel.C03
open GixModel GixModel.Tree

def takeEntries : Nat → List String → Option (List Entry × List String)
  | 0, rest => some ([], rest)
  | n + 1, m :: nm :: oid :: rest => do
    let m ← m.toNat?
    let nm ← bytesOfHex nm
    let oid ← bytesOfHex oid
    let (es, rest) ← takeEntries n rest
    some ({ mode := m, name := nm, oid := oid } :: es, rest)
  | _, _ => none

def handle? : List String → Option String
  | ["cmp", ma, na, mb, nb] => do
    let ma ← ma.toNat?
    let na ← bytesOfHex na
    let mb ← mb.toNat?
    let nb ← bytesOfHex nb
    some (ordStr (entryCmp ⟨ma, na, []⟩ ⟨mb, nb, []⟩))
  | ["gitcmp", ma, na, mb, nb] => do
    let ma ← ma.toNat?
    let na ← bytesOfHex na
    let mb ← mb.toNat?
    let nb ← bytesOfHex nb
    some (ordStr (Spec.C03.ordOfInt (Spec.C03.baseNameCompare na ma nb mb)))
  | "sort" :: n :: rest => do
    let n ← n.toNat?
    let (es, rest) ← takeEntries n rest
    if !rest.isEmpty then none
    else match writeEntries (sortEntries es) with
      | none => some "err"
      | some bs => some s!"ok {hexOfBytes bs}"
  | "bisect" :: name :: d :: n :: rest => do
    let name ← bytesOfHex name
    let d ← (if d == "1" then some true else if d == "0" then some false else none)
    let n ← n.toNat?
    let (es, rest) ← takeEntries n rest
    if !rest.isEmpty then none
    else match binarySearchBy es (fun e => cmpNames e.name e.isTree name d) with
      | .oob => some "panic"
      | .insertAt _ => some "none"
      | .found i =>
        match es[i]? with
        | none => some "panic"
        | some e => some s!"some {e.mode} {hexOfBytes e.oid}"
  | _ => none

def handle (args : List String) : String := (handle? args).getD "bad-op"

end GixModel.C03
