/-
C23 — registered tempfiles and termination signals.

Rust code modelled (all in /repo/gix-tempfile/src):
  lib.rs       REGISTRY : dashmap  usize → Option<ForksafeTempfile>,  NEXT_MAP_INDEX
  handle.rs    Handle::<()>::at_path / new_writable_inner   (create the file, fetch_add, REGISTRY.insert)
               Handle::with_mut        REGISTRY.remove → closure on the file → REGISTRY.insert
               Handle::close           REGISTRY.remove → REGISTRY.insert(closed)
               Handle::persist         REGISTRY.remove → rename(2) (→ REGISTRY.insert on failure)
               Handle::take            REGISTRY.remove (ownership goes to the caller)
               Drop for Handle         REGISTRY.remove → unlink(2)
  forksafe.rs  ForksafeTempfile { owning_process_id }, drop_without_deallocation (unlink)
  registry.rs  cleanup_tempfiles_signal_safe:
                 for idx in 0..NEXT_MAP_INDEX { if let Some(entry) = REGISTRY.try_entry(idx) {
                    if entry is Some(tf) && tf.owning_process_id == getpid() { take it; unlink } } }
  signal.rs    handler::cleanup_tempfiles_nix = the loop above, then (mode 2) the default action.

A transition system in the sense of DESIGN.md §3: the events are the atomic actions of that code
(one registry mutation, one system call, one iteration of the handler loop), executed by any number
of processes (pids are `Nat`, `fork` copies the registry) in any interleaving.  Threads are not
named: every event of a live process is enabled whenever its guard holds, which over-approximates
any number of threads (including the interrupted one continuing).  Shard locks of the dashmap are
free toggles (`shardLock`/`shardUnlock`); the handler's `try_entry` skips a locked shard.
-/
namespace GixModel.C23

/-- File names: tempfiles live under `tmp`, persist targets under `dst`. The step function does not
care; the distinction is only used by the well-behavedness predicate `wb`. -/
inductive Path where
  | tmp (n : Nat)
  | dst (n : Nat)
  deriving DecidableEq, Repr

def Path.isTmp : Path → Bool
  | .tmp _ => true
  | .dst _ => false

/-- `ForksafeTempfile`: the path and `owning_process_id`. -/
structure Entry where
  path : Path
  pid : Nat
  deriving DecidableEq, Repr

structure State where
  /-- pid has ever existed -/
  born : Nat → Bool
  /-- pid exists and has not terminated -/
  alive : Nat → Bool
  /-- `NEXT_MAP_INDEX` of the process -/
  next : Nat → Nat
  /-- ids handed out by `fetch_add` whose `REGISTRY.insert` has not happened yet -/
  pending : Nat → Nat → Bool
  /-- the registry of process `p`: id ↦ slot (`None` slot = emptied by the handler) -/
  reg : Nat → Nat → Option (Option Entry)
  /-- entries a thread of `p` has taken out of the registry (the local `t` of with_mut/close/
  persist/drop): a handle operation is in progress on that id -/
  held : Nat → Nat → Option Entry
  /-- shard `s` of `p`'s dashmap is write-locked -/
  locked : Nat → Nat → Bool
  /-- the directory -/
  fs : Path → Bool
  /-- file created by `p` (local variable of at_path), not registered yet -/
  fresh : Path → Option Nat
  /-- ghost: which process registered the file that is at this path now -/
  owner : Path → Option Nat
  /-- ghost: a tempfile was renamed to this path -/
  persisted : Path → Bool

def upd {α β} [DecidableEq α] (f : α → β) (a : α) (b : β) : α → β := fun x => if x = a then b else f x

def upd2 {β} (f : Nat → Nat → β) (p i : Nat) (b : β) : Nat → Nat → β :=
  fun q j => if q = p ∧ j = i then b else f q j

def init : State where
  born := fun p => p == 0
  alive := fun p => p == 0
  next := fun _ => 0
  pending := fun _ _ => false
  reg := fun _ _ => none
  held := fun _ _ => none
  locked := fun _ _ => false
  fs := fun _ => false
  fresh := fun _ => none
  owner := fun _ => none
  persisted := fun _ => false

inductive Event where
  /-- open(O_CREAT|O_EXCL) by tempfile::Builder::tempfile_in / NamedTempFile::new_in -/
  | fsCreate (p : Nat) (a : Path)
  /-- NEXT_MAP_INDEX.fetch_add(1) -/
  | allocId (p : Nat)
  /-- REGISTRY.insert(id, Some(tempfile)) for a new tempfile -/
  | regInsert (p id : Nat) (a : Path)
  /-- REGISTRY.remove(&id): first action of with_mut, close, persist, take and drop -/
  | regRemove (p id : Nat)
  /-- the closure of with_mut is running (write/flush/seek on the file) -/
  | opWrite (p id : Nat)
  /-- REGISTRY.insert(id, Some(t)) at the end of with_mut / close / a failed persist -/
  | regReinsert (p id : Nat)
  /-- rename(2) of persist -/
  | persistRename (p id : Nat) (t : Path)
  /-- unlink(2) of drop_impl / of dropping a taken tempfile -/
  | dropUnlink (p id : Nat)
  | shardLock (p s : Nat)
  | shardUnlock (p s : Nat)
  /-- fork(2): the child `c` gets a copy of the registry -/
  | fork (p c : Nat)
  /-- one iteration of the loop in cleanup_tempfiles_signal_safe -/
  | sigVisit (p idx : Nat)
  /-- the process ends without running destructors (default signal action, abort, _exit) -/
  | exit (p : Nat)
  deriving Repr

/-- One iteration of the handler loop for index `idx` in process `p`. -/
def visit (sh : Nat → Nat) (p idx : Nat) (s : State) : State :=
  if s.locked p (sh idx) then s
  else match s.reg p idx with
    | some (some e) =>
      if e.pid = p then
        { s with reg := upd2 s.reg p idx (some none),
                 fs := upd s.fs e.path false,
                 owner := upd s.owner e.path none }
      else s
    | _ => s

/-- The transition function; `none` = the event is not enabled. `sh` maps an id to its shard. -/
def step (sh : Nat → Nat) (s : State) : Event → Option State
  | .fsCreate p a =>
    if s.alive p ∧ s.fs a = false then
      some { s with fs := upd s.fs a true, owner := upd s.owner a none, fresh := upd s.fresh a (some p) }
    else none
  | .allocId p =>
    if s.alive p then
      some { s with pending := upd2 s.pending p (s.next p) true, next := upd s.next p (s.next p + 1) }
    else none
  | .regInsert p id a =>
    if s.alive p ∧ s.pending p id ∧ s.fresh a = some p then
      some { s with reg := upd2 s.reg p id (some (some ⟨a, p⟩)),
                    pending := upd2 s.pending p id false,
                    fresh := upd s.fresh a none,
                    owner := upd s.owner a (some p) }
    else none
  | .regRemove p id =>
    if s.alive p then
      match s.reg p id with
      | some (some e) => some { s with reg := upd2 s.reg p id none, held := upd2 s.held p id (some e) }
      | some none => some { s with reg := upd2 s.reg p id none }
      | none => some s
    else none
  | .opWrite p id =>
    if s.alive p ∧ (s.held p id).isSome then some s else none
  | .regReinsert p id =>
    if s.alive p then
      match s.held p id with
      | some e => some { s with reg := upd2 s.reg p id (some (some e)), held := upd2 s.held p id none }
      | none => none
    else none
  | .persistRename p id t =>
    if s.alive p then
      match s.held p id with
      | some e =>
        if s.fs e.path then
          some { s with held := upd2 s.held p id none,
                        fs := upd (upd s.fs e.path false) t true,
                        owner := upd (upd s.owner e.path none) t none,
                        persisted := upd s.persisted t true }
        else none
      | none => none
    else none
  | .dropUnlink p id =>
    if s.alive p then
      match s.held p id with
      | some e =>
        some { s with held := upd2 s.held p id none,
                      fs := upd s.fs e.path false,
                      owner := upd s.owner e.path none }
      | none => none
    else none
  | .shardLock p k => if s.alive p then some { s with locked := upd2 s.locked p k true } else none
  | .shardUnlock p k => if s.alive p then some { s with locked := upd2 s.locked p k false } else none
  | .fork p c =>
    if s.alive p ∧ s.born c = false then
      some { s with born := upd s.born c true,
                    alive := upd s.alive c true,
                    next := upd s.next c (s.next p),
                    pending := fun q j => if q = c then false else s.pending q j,
                    reg := fun q j => if q = c then s.reg p j else s.reg q j,
                    held := fun q j => if q = c then s.held p j else s.held q j,
                    locked := fun q j => if q = c then s.locked p j else s.locked q j }
    else none
  | .sigVisit p idx =>
    if s.alive p ∧ idx < s.next p then some (visit sh p idx s) else none
  | .exit p =>
    if s.alive p then some { s with alive := upd s.alive p false } else none

/-- `expect_none(REGISTRY.insert(..))` would panic: the id is already occupied. -/
def expectNoneFails (s : State) : Event → Bool
  | .regInsert p id _ => (s.reg p id).isSome
  | .regReinsert p id => (s.reg p id).isSome
  | _ => false

def run (sh : Nat → Nat) (s : State) : List Event → Option State
  | [] => some s
  | e :: es => match step sh s e with
    | some s' => run sh s' es
    | none => none

/-- The handler loop run without interruption: visits `0, 1, …, n-1` where `n` is NEXT_MAP_INDEX. -/
def handlerFrom (sh : Nat → Nat) (p : Nat) (s : State) : List Nat → State
  | [] => s
  | i :: is => handlerFrom sh p (visit sh p i s) is

def handler (sh : Nat → Nat) (p : Nat) (s : State) : State :=
  handlerFrom sh p s (List.range (s.next p))

def signalEvents (p n : Nat) : List Event := (List.range n).map (Event.sigVisit p)

/-- Every interleaving: the states reachable from `init` by enabled events. -/
inductive Reach (sh : Nat → Nat) : State → Prop where
  | init : Reach sh init
  | step {s s' : State} (e : Event) : Reach sh s → step sh s e = some s' → Reach sh s'

/-- Well-behaved events: tempfiles are created in the `tmp` namespace and persisted into the `dst`
namespace (a persist target is never the name of a tempfile), and a process unlinks / renames only
tempfiles it registered itself (a forked child does not drop or persist handles it inherited). -/
def wb (s : State) : Event → Prop
  | .fsCreate _ a => a.isTmp = true
  | .persistRename p id t => t.isTmp = false ∧ ∀ e, s.held p id = some e → e.pid = p
  | .dropUnlink p id => ∀ e, s.held p id = some e → e.pid = p
  | _ => True

inductive ReachWB (sh : Nat → Nat) : State → Prop where
  | init : ReachWB sh init
  | step {s s' : State} (e : Event) : ReachWB sh s → wb s e → step sh s e = some s' → ReachWB sh s'

/-! ## API level: what one call of the public API does, as a sequence of events

Used by the driver (and as documentation of the event order in the code). A scenario is a list of
tokens executed in order; a token may carry `@k`: a signal is delivered to the calling process
after the k-th event of the call. -/

inductive Kind | writable | closed | taken
  deriving DecidableEq, Repr

structure Sim where
  st : State
  /-- the handle table of each process: (process, label, registry id, kind); fork copies it -/
  handles : List (Nat × Nat × Nat × Kind)

def Sim.lookup (m : Sim) (p h : Nat) : Option (Nat × Kind) :=
  (m.handles.find? (fun x => x.1 == p && x.2.1 == h)).map (·.2.2)

def Sim.setKind (m : Sim) (p h : Nat) (k : Kind) : Sim :=
  { m with handles := m.handles.map (fun x => if x.1 == p && x.2.1 == h then (x.1, x.2.1, x.2.2.1, k) else x) }

def Sim.forkHandles (m : Sim) (p c : Nat) : Sim :=
  { m with handles := (m.handles.filter (fun x => x.1 == p)).map (fun x => (c, x.2)) ++ m.handles }

/-- how a signal acts: `handled` = one of TERM/INT/QUIT (the handler is installed), `die` = the
default action follows (Mode::DeleteTempfilesOnTerminationAndRestoreDefaultBehaviour, or the signal
is not handled at all) -/
structure SigCfg where
  handled : Bool
  die : Bool

def deliver (sh : Nat → Nat) (cfg : SigCfg) (p : Nat) (s : State) : State :=
  if s.alive p then
    let s1 := if cfg.handled then handler sh p s else s
    if cfg.die || !cfg.handled then { s1 with alive := upd s1.alive p false } else s1
  else s

/-- Run the events of one API call; `sigAt = some k` delivers a signal after `k` events — or at the
end of the call when it has fewer than `k` events (the harness stops at the end of a call whose
hook point was not passed because the entry was already gone).
Returns the state and whether the process is still alive. -/
def runCall (sh : Nat → Nat) (cfg : SigCfg) (p : Nat) (sigAt : Option Nat) :
    State → Nat → List Event → Option (State × Bool)
  | s, k, [] =>
    let s := match sigAt with
      | some j => if k ≤ j then deliver sh cfg p s else s
      | none => s
    some (s, s.alive p)
  | s, k, e :: es =>
    let s := if sigAt = some k then deliver sh cfg p s else s
    if s.alive p = false then some (s, false)
    else match step sh s e with
      | some s' => runCall sh cfg p sigAt s' (k + 1) es
      | none => none

inductive Tok where
  /-- `writable_at` (closed = false) / `mark_at` (closed = true) of tmp `n` under label `h` -/
  | create (p h n : Nat) (closed : Bool)
  | withMut (p h : Nat)
  | close (p h : Nat)
  | persist (p h n : Nat)
  | drop (p h : Nat)
  | take (p h : Nat)
  | dropTaken (p h : Nat)
  | fork (p c : Nat)
  | signal (p : Nat)
  | exit (p : Nat)

def finish (m : Sim) (r : Option (State × Bool)) (okRes : String) (f : Sim → Sim) : Option (Sim × String) :=
  match r with
  | some (s, true) => some (f { m with st := s }, okRes)
  | some (s, false) => some ({ m with st := s }, "killed")
  | none => none

/-- One API call: the new simulation state and the result as the harness sees it
(`ok`, `gone` = the entry was not in the registry any more, `err` = rename failed, `exists` =
O_EXCL refused, `badkind` = the handle is not of the kind the call needs (nothing happens),
`dead` = the process is not alive, `killed` = the process died during the call). -/
def execTok (sh : Nat → Nat) (cfg : SigCfg) (m : Sim) (sigAt : Option Nat) : Tok → Option (Sim × String)
  | .create p h n closed =>
    if m.st.alive p = false then some (m, "dead")
    else if (m.lookup p h).isSome then none
    else if m.st.fs (.tmp n) then
      -- open(O_EXCL) fails: AlreadyExists, no id is consumed, no event happens
      if sigAt.isSome then none else some (m, "exists")
    else
      let id := m.st.next p
      finish m (runCall sh cfg p sigAt m.st 0 [.fsCreate p (.tmp n), .allocId p, .regInsert p id (.tmp n)]) "ok"
        (fun m' => { m' with handles := (p, h, id, if closed then Kind.closed else Kind.writable) :: m'.handles })
  | .withMut p h =>
    if m.st.alive p = false then some (m, "dead")
    else match m.lookup p h with
      | some (id, Kind.writable) =>
        match m.st.reg p id with
        | some (some _) =>
          finish m (runCall sh cfg p sigAt m.st 0 [.regRemove p id, .opWrite p id, .regReinsert p id]) "ok" (fun m' => m')
        | _ => finish m (runCall sh cfg p sigAt m.st 0 [.regRemove p id]) "gone" (fun m' => m')
      | some _ => if sigAt.isSome then none else some (m, "badkind")
      | none => if sigAt.isSome then none else some (m, "badkind")
  | .close p h =>
    if m.st.alive p = false then some (m, "dead")
    else match m.lookup p h with
      | some (id, Kind.writable) =>
        match m.st.reg p id with
        | some (some _) =>
          finish m (runCall sh cfg p sigAt m.st 0 [.regRemove p id, .regReinsert p id]) "ok"
            (fun m' => m'.setKind p h Kind.closed)
        | _ => finish m (runCall sh cfg p sigAt m.st 0 [.regRemove p id]) "gone" (fun m' => m')
      | some _ => if sigAt.isSome then none else some (m, "badkind")
      | none => if sigAt.isSome then none else some (m, "badkind")
  | .persist p h n =>
    if m.st.alive p = false then some (m, "dead")
    else match m.lookup p h with
      | some (id, k) =>
        if k = Kind.taken then (if sigAt.isSome then none else some (m, "badkind")) else
        match m.st.reg p id with
        | some (some e) =>
          if m.st.fs e.path then
            finish m (runCall sh cfg p sigAt m.st 0 [.regRemove p id, .persistRename p id (.dst n)]) "ok" (fun m' => m')
          else
            -- rename fails (the source is gone): the entry is put back and the handle returned
            finish m (runCall sh cfg p sigAt m.st 0 [.regRemove p id, .regReinsert p id]) "err" (fun m' => m')
        | _ =>
          -- Ok(None) for a writable handle, Ok(()) for a closed one
          finish m (runCall sh cfg p sigAt m.st 0 [.regRemove p id]) (if k = Kind.closed then "ok" else "gone") (fun m' => m')
      | none => if sigAt.isSome then none else some (m, "badkind")
  | .drop p h =>
    if m.st.alive p = false then some (m, "dead")
    else match m.lookup p h with
      | some (id, k) =>
        if k = Kind.taken then (if sigAt.isSome then none else some (m, "badkind")) else
        match m.st.reg p id with
        | some (some _) =>
          finish m (runCall sh cfg p sigAt m.st 0 [.regRemove p id, .dropUnlink p id]) "ok" (fun m' => m')
        | _ => finish m (runCall sh cfg p sigAt m.st 0 [.regRemove p id]) "ok" (fun m' => m')
      | none => if sigAt.isSome then none else some (m, "badkind")
  | .take p h =>
    if m.st.alive p = false then some (m, "dead")
    else match m.lookup p h with
      | some (id, k) =>
        if k = Kind.taken then (if sigAt.isSome then none else some (m, "badkind")) else
        match m.st.reg p id with
        | some (some _) =>
          finish m (runCall sh cfg p sigAt m.st 0 [.regRemove p id]) "ok" (fun m' => m'.setKind p h Kind.taken)
        | _ => finish m (runCall sh cfg p sigAt m.st 0 [.regRemove p id]) "gone" (fun m' => m')
      | none => if sigAt.isSome then none else some (m, "badkind")
  | .dropTaken p h =>
    if m.st.alive p = false then some (m, "dead")
    else match m.lookup p h with
      | some (id, Kind.taken) =>
        -- the taken file is dropped once; afterwards the label is spent
        match m.st.held p id with
        | some _ => finish m (runCall sh cfg p sigAt m.st 0 [.dropUnlink p id]) "ok" (fun m' => m')
        | none => if sigAt.isSome then none else some (m, "badkind")
      | some _ => if sigAt.isSome then none else some (m, "badkind")
      | none => if sigAt.isSome then none else some (m, "badkind")
  | .fork p c =>
    if m.st.alive p = false then some (m, "dead")
    else match step sh m.st (.fork p c) with
      | some s => some ({ m with st := s }.forkHandles p c, "ok")
      | none => none
  | .signal p =>
    if m.st.alive p = false then some (m, "dead")
    else
      let s := deliver sh cfg p m.st
      some ({ m with st := s }, if s.alive p then "ok" else "killed")
  | .exit p =>
    if m.st.alive p = false then some (m, "dead")
    else match step sh m.st (.exit p) with
      | some s => some ({ m with st := s }, "ok")
      | none => none

def Tok.proc : Tok → Nat
  | .create p _ _ _ | .withMut p _ | .close p _ | .persist p _ _ | .drop p _ | .take p _
  | .dropTaken p _ | .fork p _ | .signal p | .exit p => p

/-- A signal before the first step of a call (`@0`) acts on the state the call then starts from:
which steps the call takes (entry present / already gone) is decided after it. -/
def execTokSig (sh : Nat → Nat) (cfg : SigCfg) (m : Sim) (sigAt : Option Nat) (t : Tok) : Option (Sim × String) :=
  match sigAt with
  | some 0 =>
    if m.st.alive t.proc = false then some (m, "dead")
    else
      let s := deliver sh cfg t.proc m.st
      if s.alive t.proc then execTok sh cfg { m with st := s } none t
      else some ({ m with st := s }, "killed")
  | _ => execTok sh cfg m sigAt t

def execAll (sh : Nat → Nat) (cfg : SigCfg) : Sim → List (Tok × Option Nat) → Option (Sim × List String)
  | m, [] => some (m, [])
  | m, (t, sg) :: rest =>
    match execTokSig sh cfg m sg t with
    | some (m', r) =>
      match execAll sh cfg m' rest with
      | some (m'', rs) => some (m'', r :: rs)
      | none => none
    | none => none

/-! ## Driver glue (strings only here) -/

def shardDrv (id : Nat) : Nat := id % 4

def splitDots (s : String) : List String := s.splitOn "."

def parseTok (w : String) : Option (Tok × Option Nat) :=
  let (body, sg) := match w.splitOn "@" with
    | [b] => (b, (none : Option (Option Nat)))
    | [b, k] => (b, some k.toNat?)
    | _ => ("", none)
  let sg? : Option (Option Nat) := match sg with
    | none => some none
    | some (some k) => some (some k)
    | some none => none
  match sg? with
  | none => none
  | some sgv =>
    match body.toList with
    | [] => none
    | c :: restc =>
      let nums := ((String.ofList restc).splitOn ".").map String.toNat?
      let t : Option Tok := match c, nums with
        | 'A', [some p, some h, some n] => some (.create p h n false)
        | 'M', [some p, some h, some n] => some (.create p h n true)
        | 'W', [some p, some h] => some (.withMut p h)
        | 'C', [some p, some h] => some (.close p h)
        | 'P', [some p, some h, some n] => some (.persist p h n)
        | 'D', [some p, some h] => some (.drop p h)
        | 'T', [some p, some h] => some (.take p h)
        | 'X', [some p, some h] => some (.dropTaken p h)
        | 'F', [some p, some c] => some (.fork p c)
        | 'S', [some p] => some (.signal p)
        | 'E', [some p] => some (.exit p)
        | _, _ => none
      t.map (fun t => (t, sgv))

def parseToks : List String → Option (List (Tok × Option Nat))
  | [] => some []
  | w :: ws => do
    let t ← parseTok w
    let ts ← parseToks ws
    pure (t :: ts)

def pathName : Path → String
  | .tmp n => "t" ++ toString n
  | .dst n => "d" ++ toString n

/-- the names the scenario can mention, in the order of the harness' sorted listing -/
def mentioned (toks : List (Tok × Option Nat)) : List Path :=
  toks.foldr (fun t acc => match t.1 with
    | .create _ _ n _ => Path.tmp n :: acc
    | .persist _ _ n => Path.dst n :: acc
    | _ => acc) []

def insertSorted (x : String) : List String → List String
  | [] => [x]
  | y :: ys => if x < y then x :: y :: ys else if x == y then y :: ys else y :: insertSorted x ys

def listing (s : State) (ps : List Path) : String :=
  let names := (ps.filter (fun a => s.fs a)).foldr (fun a acc => insertSorted (pathName a) acc) []
  if names.isEmpty then "-" else ",".intercalate names

def handle? : List String → Option String
  | "sc" :: mode :: hd :: ws => do
    let die ← (match mode with | "die" => some true | "cont" => some false | _ => none)
    let handled ← (match hd with | "H" => some true | "U" => some false | _ => none)
    let toks ← parseToks ws
    let (m, rs) ← execAll shardDrv ⟨handled, die⟩ ⟨init, []⟩ toks
    some (",".intercalate rs ++ ";" ++ listing m.st (mentioned toks))
  | "rnd" :: hd :: nfin :: observed :: ws => do
    -- a signal (followed by the default action) hit a free-running single process at an unknown
    -- moment: `nfin` calls had completed, the next one may have been anywhere. The answer is the
    -- observed listing if some position of the signal explains it, else the possible listings.
    let handled ← (match hd with | "H" => some true | "U" => some false | _ => none)
    let nfin ← nfin.toNat?
    let toks ← parseToks ws
    let cfg : SigCfg := ⟨handled, true⟩
    let (m, _) ← execAll shardDrv cfg ⟨init, []⟩ (toks.take nfin)
    let names := mentioned toks
    let outcomes ← (match toks.drop nfin with
      | [] => some [listing (deliver shardDrv cfg 0 m.st) names]
      | (t, _) :: _ =>
        (List.range 5).mapM (fun k => do
          let (m', _) ← execTokSig shardDrv cfg m (some k) t
          pure (listing (deliver shardDrv cfg 0 m'.st) names)))
    some (if outcomes.contains observed then observed else "impossible:" ++ "|".intercalate outcomes.eraseDups)
  | _ => none

def handle (args : List String) : String := (handle? args).getD "bad-op"

end GixModel.C23
