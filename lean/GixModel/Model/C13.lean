import GixModel.Basic.Hex
/-
C13 — alternate object databases.

Rust code modelled (all in /repo, after fixes 29c21bf8d and b87c9b3ef):
  gix_odb::alternate::resolve          gix-odb/src/alternate/mod.rs   (explicit work stack, `seen` list)
  gix_odb::alternate::parse::content   gix-odb/src/alternate/parse.rs (lines, comments, quoted entries)
  gix_quote::ansi_c::undo              gix-quote/src/ansi_c.rs        (own transcription, output only)
  PathBuf::join + gix_path::realpath_opts on trees without symlinks = lexical normalisation
The traversal is modelled generically over an abstract "world" (what each directory's alternates
file resolves to); the driver instantiates it with byte paths. The code before the two fixes
(relative entries joined to the ROOT objects directory; work stack used last-in-first-out) is kept
as `resolveOld`.
-/
namespace GixModel.C13
open GixModel

/-! ## 1. The traversal, generically -/

inductive Err where
  | parse
  | other
  deriving Repr, DecidableEq

/-- What the alternates files of a set of object directories say. `kids base dir`: the entries of
`dir/info/alternates` as gitoxide parses them, relative ones joined to `base`, canonicalised
(`.ok []` when there is no file). `gkids dir`: the same file as git parses it, relative entries
joined to `dir`. `isDir`: does the directory exist. -/
structure World (D : Type) where
  kids : D → D → Except Err (List D)
  gkids : D → List D
  isDir : D → Bool

inductive Out (D : Type) where
  | ok (dirs : List D)
  | cycle
  | err (e : Err)
  | fuel
  deriving Repr, DecidableEq

section Generic
variable {D : Type} [DecidableEq D]

/-- the `for path in parse::content(..)` loop: every entry must be new, and is remembered -/
def pushKids (seen : List D) : List D → Option (List D)
  | [] => some seen
  | c :: cs => if c ∈ seen then none else pushKids (seen ++ [c]) cs

/-- `while let Some((depth, dir)) = dirs.pop()`; the head of `stack` is the top of the Rust `Vec`.
After fix b87c9b3ef the entries of one file are on the stack in file order. -/
def loop (w : World D) : Nat → List D → List D → List D → Out D
  | _, [], _, out => .ok out
  | 0, _ :: _, _, _ => .fuel
  | n + 1, dir :: stack, seen, out =>
    match w.kids dir dir with
    | .error e => .err e
    | .ok cs =>
      match pushKids seen cs with
      | none => .cycle
      | some seen' => loop w n (cs ++ stack) seen' (out ++ [dir])

/-- `gix_odb::alternate::resolve`: the root itself is visited first but not returned -/
def resolve (w : World D) (fuel : Nat) (root : D) : Out D :=
  match loop w fuel [root] [root] [] with
  | .ok out => .ok out.tail
  | o => o

/-- the code before the fixes: relative entries joined to the root, stack popped from the back -/
def loopOld (w : World D) (root : D) : Nat → List D → List D → List D → Out D
  | _, [], _, out => .ok out
  | 0, _ :: _, _, _ => .fuel
  | n + 1, dir :: stack, seen, out =>
    match w.kids root dir with
    | .error e => .err e
    | .ok cs =>
      match pushKids seen cs with
      | none => .cycle
      | some seen' => loopOld w root n (cs.reverse ++ stack) seen' (out ++ [dir])

def resolveOld (w : World D) (fuel : Nat) (root : D) : Out D :=
  match loopOld w root fuel [root] [root] [] with
  | .ok out => .ok out.tail
  | o => o

end Generic

/-! ## 2. Bytes: `ansi_c::undo`, `parse::content`, paths -/

inductive UndoRes where
  | ok (out : Bytes)
  | err
  deriving Repr, DecidableEq

def unescape (c : UInt8) : Option UInt8 :=
  if c = 110 then some 10 else if c = 114 then some 13 else if c = 116 then some 9
  else if c = 97 then some 7 else if c = 98 then some 8 else if c = 118 then some 11
  else if c = 102 then some 12 else if c = 34 then some 34 else if c = 92 then some 92
  else none

def octDigit (c : UInt8) : Option Nat := if 48 ≤ c ∧ c ≤ 55 then some (c.toNat - 48) else none

def consOut (b : UInt8) : UndoRes → UndoRes
  | .ok o => .ok (b :: o)
  | .err => .err

/-- the loop of `undo` on the input after the opening quote; stops at the closing quote (the rest
of the line is ignored by `parse::content`), accepts a missing closing quote -/
def undoBody : Bytes → UndoRes
  | [] => .ok []
  | b :: rest =>
    if b = 34 then .ok []
    else if b = 92 then
      match rest with
      | [] => .err
      | next :: rest =>
        match unescape next with
        | some x => consOut x (undoBody rest)
        | none =>
          if 48 ≤ next ∧ next ≤ 51 then
            match rest with
            | d1 :: d2 :: rest =>
              match octDigit next, octDigit d1, octDigit d2 with
              | some x, some y, some z => consOut (UInt8.ofNat ((x * 8 + y) * 8 + z)) (undoBody rest)
              | _, _, _ => .err
            | _ => .err
          else .err
    else consOut b (undoBody rest)

/-- `gix_quote::ansi_c::undo(line)?.0` for a line that starts with `"` -/
def undoQuoted (line : Bytes) : UndoRes :=
  match line with
  | _ :: rest => if rest.isEmpty then .err else undoBody rest
  | [] => .err

/-- `input.split(|b| *b == b'\n')` -/
def splitNl : Bytes → List Bytes
  | [] => [[]]
  | b :: rest =>
    if b = 10 then [] :: splitNl rest
    else match splitNl rest with
      | [] => [[b]]
      | l :: ls => (b :: l) :: ls

/-- one line of `parse::content`: `none` = error, `some none` = skipped -/
def parseLine (line : Bytes) : Option (Option Bytes) :=
  match line with
  | [] => some none
  | b :: _ =>
    if b = 35 then some none
    else if b = 34 then
      match undoQuoted line with
      | .ok p => some (some p)
      | .err => none
    else some (some line)

def parseLines : List Bytes → Option (List Bytes)
  | [] => some []
  | l :: ls =>
    match parseLine l, parseLines ls with
    | some (some p), some ps => some (p :: ps)
    | some none, some ps => some ps
    | _, _ => none

/-- `gix_odb::alternate::parse::content` (on unix `try_from_bstr` cannot fail) -/
def parseContent (bs : Bytes) : Option (List Bytes) := parseLines (splitNl bs)

def splitSlash : Bytes → List Bytes
  | [] => [[]]
  | b :: rest =>
    if b = 47 then [] :: splitSlash rest
    else match splitSlash rest with
      | [] => [[b]]
      | c :: cs => (b :: c) :: cs

/-- `realpath_opts` of an absolute path in a tree without symlinks: drop "." and empty components,
".." pops (`MissingParent` when there is nothing to pop) -/
def normComps : List Bytes → List Bytes → Option (List Bytes)
  | [], acc => some acc.reverse
  | c :: cs, acc =>
    if c = [] ∨ c = [46] then normComps cs acc
    else if c = [46, 46] then
      match acc with
      | [] => none
      | _ :: acc' => normComps cs acc'
    else normComps cs (c :: acc)

def joinComps : List Bytes → Bytes
  | [] => [47]
  | cs => cs.flatMap (fun c => 47 :: c)

def normalize (p : Bytes) : Option Bytes :=
  match p with
  | 47 :: _ => (normComps (splitSlash p) []).map joinComps
  | _ => none

/-- `PathBuf::join` -/
def joinPath (base p : Bytes) : Bytes :=
  match p with
  | 47 :: _ => p
  | _ => if base.getLast? = some 47 then base ++ p else base ++ 47 :: p

/-! ### git's side of the parsing (Spec, validated against the git binary by the harness) -/

/-- `unquote_c_style`: the unquoted bytes and what follows the closing quote; `none` = error -/
def gitUnquoteBody : Bytes → Option (Bytes × Bytes)
  | [] => none
  | b :: rest =>
    if b = 34 then some ([], rest)
    else if b = 92 then
      match rest with
      | [] => none
      | next :: rest =>
        match unescape next with
        | some x => (gitUnquoteBody rest).map fun (o, r) => (x :: o, r)
        | none =>
          if 48 ≤ next ∧ next ≤ 51 then
            match rest with
            | d1 :: d2 :: rest =>
              match octDigit next, octDigit d1, octDigit d2 with
              | some x, some y, some z =>
                (gitUnquoteBody rest).map fun (o, r) => (UInt8.ofNat ((x * 8 + y) * 8 + z) :: o, r)
              | _, _, _ => none
            | _ => none
          else none
    else if b = 0 then none
    else (gitUnquoteBody rest).map fun (o, r) => (b :: o, r)

def untilNl : Bytes → Bytes × Bytes
  | [] => ([], [])
  | b :: rest => if b = 10 then ([], rest) else let (l, r) := untilNl rest; (b :: l, r)

/-- `link_alt_odb_entries` + `parse_alt_odb_entry` with separator '\n' -/
def gitParse : Nat → Bytes → List Bytes
  | 0, _ => []
  | _ + 1, [] => []
  | n + 1, b :: rest =>
    if b = 0 then []
    else if b = 35 then gitParse n (untilNl rest).2
    else
      let plain : List Bytes :=
        let (l, r) := untilNl (b :: rest)
        (if l.isEmpty then [] else [l]) ++ gitParse n r
      if b = 34 then
        match gitUnquoteBody rest with
        | some (o, r) => (if o.isEmpty then [] else [o]) ++ gitParse n r.tail
        | none => plain
      else plain

/-! ### git's traversal (Spec) -/

section GenericGit
variable {D : Type} [DecidableEq D]

/-- `read_info_alternates(dir, depth)` with `fuel = 6 - depth`: entries are linked while
`depth ≤ 5`; an entry already linked (or the main object directory) or not a directory is skipped;
each new entry is appended and its own alternates are read before the next entry (pre-order). -/
def gitLink (w : World D) : Nat → D → List D × List D → List D × List D
  | 0, _, st => st
  | n + 1, dir, st =>
    (w.gkids dir).foldl (fun st c =>
      if c ∈ st.1 then st
      else if w.isDir c then gitLink w n c (st.1 ++ [c], st.2 ++ [c])
      else st) st

def gitResolve (w : World D) (root : D) : List D := (gitLink w 6 root ([root], [])).2

end GenericGit

/-! ## 3. The driver instance -/

structure Disk where
  dirs : List (Bytes × Option Bytes)

def Disk.file (d : Disk) (p : Bytes) : Option Bytes :=
  match d.dirs.find? (fun e => e.1 = p) with
  | some (_, c) => c
  | none => none

def resolveAll (base : Bytes) : List Bytes → Option (List Bytes)
  | [] => some []
  | p :: ps =>
    match normalize (joinPath base p), resolveAll base ps with
    | some x, some xs => some (x :: xs)
    | _, _ => none

def Disk.world (d : Disk) : World Bytes where
  kids := fun base dir =>
    match d.file dir with
    | none => .ok []
    | some content =>
      match parseContent content with
      | none => .error .parse
      | some ps =>
        match resolveAll base ps with
        | some cs => .ok cs
        | none => .error .other
  gkids := fun dir =>
    match d.file dir with
    | none => []
    | some content => (gitParse (content.length + 1) content).filterMap (fun p => normalize (joinPath dir p))
  isDir := fun p => d.dirs.any (fun e => e.1 = p)

def Disk.fuel (d : Disk) : Nat :=
  d.dirs.foldl (fun n e => n + 1 + (match e.2 with | some c => c.length | none => 0)) 2

def showOut : Out Bytes → String
  | .ok [] => "ok:-"
  | .ok l => "ok:" ++ ",".intercalate (l.map hexOfBytes)
  | .cycle => "err:cycle"
  | .err .parse => "err:parse"
  | .err .other => "err:other"
  | .fuel => "fuel"

def parseDirs : Nat → List String → Option (List (Bytes × Option Bytes))
  | 0, [] => some []
  | 0, _ :: _ => none
  | n + 1, d :: c :: rest => do
    let d ← bytesOfHex d
    let c ← (if c == "none" then some none else (bytesOfHex c).map some)
    let ds ← parseDirs n rest
    some ((d, c) :: ds)
  | _ + 1, _ => none

def handle? : List String → Option String
  | kind :: _tag :: root :: k :: rest => do
    let root ← bytesOfHex root
    let k ← k.toNat?
    let dirs ← parseDirs k rest
    let disk : Disk := ⟨dirs⟩
    if kind == "alt" then some (showOut (resolve disk.world disk.fuel root))
    else if kind == "altold" then some (showOut (resolveOld disk.world disk.fuel root))
    else if kind == "gitalt" then some (showOut (.ok (gitResolve disk.world root)))
    else none
  | _ => none

def handle (args : List String) : String := (handle? args).getD "bad-op"

end GixModel.C13
