import GixModel.Basic.Hex
import GixModel.Basic.Sha1C24
/-
C24 — model of the index *decoder* (gix-index, SHA-1 repositories).

Rust functions modelled (all in /repo, at the repaired state — see known-findings.txt, C24):
  gix_index::util::{read_u32, split_at_pos, split_at_byte_exclusive, var_int}      gix-index/src/lib.rs
  gix_features::decode::leb64_from_read                                          gix-features/src/decode.rs
  gix_index::decode::header::decode                                              gix-index/src/decode/header.rs
  gix_index::decode::entries::{load_one, skip_padding, chunk}                    gix-index/src/decode/entries.rs
  gix_index::decode::{State::from_bytes, entries, stat}                          gix-index/src/decode/mod.rs
  gix_index::extension::{Iter, decode::all}                                      gix-index/src/extension/{iter,decode}.rs
  gix_index::extension::end_of_index_entry::decode                               …/end_of_index_entry/decode.rs
  gix_index::extension::index_entry_offset_table::{decode, find}                 …/index_entry_offset_table.rs
  gix_index::extension::tree::decode                                             …/tree/decode.rs
  gix_index::extension::resolve_undo::decode                                     …/resolve_undo.rs
  gix_index::extension::link::decode, untracked_cache::decode, fs_monitor::decode
  gix_bitmap::ewah::{decode, Vec::for_each_set_bit}                              gix-bitmap/src/ewah.rs

Conventions: `Option.none` is the Rust `None`/`Err` of the inner parsers; the top level returns an
`Outcome` that distinguishes the error kinds of `decode::Error` and `panic`. In-memory flags are the
`u32` bits of `entry::Flags` as a `Nat`; bit tests are written with `/` and `%` so that `omega`
can reason about them. A path is the byte string the entry's range selects in the path backing.
SHA-1 (only used by the EOIE check) is a parameter.
-/
namespace GixModel.C24
open GixModel

def hashLen : Nat := 20

/-! ### `util` -/

def readU32 : Bytes → Option (Nat × Bytes)
  | a :: b :: c :: d :: rest =>
    some (a.toNat * 16777216 + b.toNat * 65536 + c.toNat * 256 + d.toNat, rest)
  | _ => none

def readU16 : Bytes → Option (Nat × Bytes)
  | a :: b :: rest => some (a.toNat * 256 + b.toNat, rest)
  | _ => none

def readU64 (data : Bytes) : Option (Nat × Bytes) :=
  match readU32 data with
  | none => none
  | some (hi, d) =>
    match readU32 d with
    | none => none
    | some (lo, d) => some (hi * 4294967296 + lo, d)

/-- `split_at_pos`: `None` when fewer than `n` bytes are left -/
def splitAtPos (data : Bytes) (n : Nat) : Option (Bytes × Bytes) :=
  if (data.take n).length < n then none else some (data.take n, data.drop n)

/-- first occurrence of `b`: (before, after) -/
def splitAtByte (b : UInt8) : Bytes → Option (Bytes × Bytes)
  | [] => none
  | x :: xs =>
    if x = b then some ([], xs)
    else match splitAtByte b xs with
      | none => none
      | some (p, r) => some (x :: p, r)

/-- `split_at_byte_exclusive`: additionally `None` when fewer than two bytes are left -/
def splitAtByteExclusive (data : Bytes) (b : UInt8) : Option (Bytes × Bytes) :=
  match data with
  | [] => none
  | [_] => none
  | _ => splitAtByte b data

/-- the loop of `leb64_from_read` after a byte with the continuation bit; `i` = bytes read so far.
An 11th byte is an `InvalidData` error (repaired: it tripped a `debug_assert!` before and wrapped
silently in release builds); `value << 7` drops the bits above 2^64 for a 10-byte number. -/
def varIntLoop (value i : Nat) : Bytes → Option (Nat × Bytes)
  | [] => none
  | b :: rest =>
    if i + 1 > 10 then none
    else
      let v := (value + 1) * 128 % 18446744073709551616 + b.toNat % 128
      if b.toNat ≥ 128 then varIntLoop v (i + 1) rest else some (v, rest)

def varInt : Bytes → Option (Nat × Bytes)
  | [] => none
  | b :: rest =>
    if b.toNat ≥ 128 then varIntLoop (b.toNat % 128) 1 rest else some (b.toNat % 128, rest)

/-! ### entries -/

structure Stat where
  ctimeS : Nat
  ctimeN : Nat
  mtimeS : Nat
  mtimeN : Nat
  dev : Nat
  ino : Nat
  uid : Nat
  gid : Nat
  size : Nat
  deriving Repr, DecidableEq

structure Entry where
  stat : Stat
  /-- `entry::Mode` bits after `from_bits_truncate` -/
  mode : Nat
  id : Bytes
  /-- `entry::Flags` bits (u32), `PATH_LEN` bits cleared -/
  flags : Nat
  path : Bytes
  deriving Repr, DecidableEq

/-- union of all `entry::Mode` constants: `from_bits_truncate` keeps exactly these bits -/
def modeMask : Nat := 0o160755

def truncMode (m : Nat) : Nat := m &&& modeMask

/-- `skip_padding` (repaired: `None` instead of slicing past the end). `consumed` = bytes between
the first byte of the entry and the current position; the entry ends at `(consumed + 8) & !7`. -/
def skipPadding (data : Bytes) (consumed : Nat) : Option Bytes :=
  let skip := (consumed + 8) / 8 * 8 - consumed
  if (data.take skip).length < skip then none else some (data.drop skip)

/-- the fixed-size part of an on-disk entry: ten u32, the hash, the flags and, when `EXTENDED`
is set, the extended flags. Returns the in-memory flag bits *with* the name-length bits, the
number of bytes consumed, and the rest. -/
def loadFixed (data : Bytes) : Option (Stat × Nat × Bytes × Nat × Nat × Bytes) :=
  match readU32 data with
  | none => none
  | some (ctimeS, d) =>
  match readU32 d with
  | none => none
  | some (ctimeN, d) =>
  match readU32 d with
  | none => none
  | some (mtimeS, d) =>
  match readU32 d with
  | none => none
  | some (mtimeN, d) =>
  match readU32 d with
  | none => none
  | some (dev, d) =>
  match readU32 d with
  | none => none
  | some (ino, d) =>
  match readU32 d with
  | none => none
  | some (mode, d) =>
  match readU32 d with
  | none => none
  | some (uid, d) =>
  match readU32 d with
  | none => none
  | some (gid, d) =>
  match readU32 d with
  | none => none
  | some (size, d) =>
  match splitAtPos d hashLen with
  | none => none
  | some (hash, d) =>
  match readU16 d with
  | none => none
  | some (flags16, d) =>
    let st : Stat := { ctimeS, ctimeN, mtimeS, mtimeN, dev, ino, uid, gid, size }
    if flags16 / 16384 % 2 = 1 then
      match readU16 d with
      | none => none
      | some (x, d) =>
        -- `FlagsExtended::from_bits`: only INTENT_TO_ADD (1<<13) and SKIP_WORKTREE (1<<14)
        if x % 8192 ≠ 0 ∨ x / 32768 ≠ 0 then none
        else some (st, mode, hash, flags16 + x * 65536, 64, d)
    else some (st, mode, hash, flags16, 62, d)

/-- `load_one`. `prev` is the path of the previous entry of the same `chunk` call. -/
def loadOne (v4 : Bool) (prev : Option Bytes) (data : Bytes) : Option (Entry × Bytes) :=
  match loadFixed data with
  | none => none
  | some (st, mode, hash, flags, fixed, d) =>
    let mk (path : Bytes) : Entry :=
      { stat := st, mode := truncMode mode, id := hash, flags := flags / 4096 * 4096, path := path }
    if v4 then
      match varInt d with
      | none => none
      | some (strip, d) =>
        let pfx : Option Bytes :=
          match prev with
          | none => some []
          | some p => if p.length < strip then none else some (p.take (p.length - strip))
        match pfx with
        | none => none
        | some pfx =>
          match splitAtByteExclusive d 0 with
          | none => none
          | some (suffix, d) => some (mk (pfx ++ suffix), d)
    else if flags % 4096 = 4095 then
      match splitAtByteExclusive d 0 with
      | none => none
      | some (path, _) =>
        match skipPadding (d.drop path.length) (fixed + path.length) with
        | none => none
        | some d => some (mk path, d)
    else
      match splitAtPos d (flags % 4096) with
      | none => none
      | some (path, d) =>
        match skipPadding d (fixed + flags % 4096) with
        | none => none
        | some d => some (mk path, d)

/-- `entries::chunk`: `n` entries, the previous path threaded through (it starts as `None`).
Returns the index of the failing entry on error. -/
def chunkGo (v4 : Bool) : Nat → Option Bytes → Bytes → Option (List Entry × Bytes)
  | 0, _, data => some ([], data)
  | n + 1, prev, data =>
    match loadOne v4 prev data with
    | none => none
    | some (e, rest) =>
      match chunkGo v4 n (some e.path) rest with
      | none => none
      | some (es, rest) => some (e :: es, rest)

def chunk (v4 : Bool) (n : Nat) (data : Bytes) : Option (List Entry × Bytes) :=
  chunkGo v4 n none data

/-! ### parallel decoding by offset table -/

structure Offset where
  fromStart : Nat
  numEntries : Nat
  deriving Repr, DecidableEq

inductive Res (α : Type) where
  | ok (a : α)
  | err
  | panic
  deriving Repr, DecidableEq

/-- one thread: the blocks of its group one after the other, each from its own file offset with a
fresh `chunk` call; an offset beyond the end is `Error::Entry` (repaired: `&data[offset..]`
panicked in the worker thread before). -/
def decodeGroup (v4 : Bool) (data : Bytes) : List Offset → Res (List Entry)
  | [] => .ok []
  | o :: os =>
    if data.length < o.fromStart then .err
    else match chunk v4 o.numEntries (data.drop o.fromStart) with
      | none => .err
      | some (es, _) =>
        match decodeGroup v4 data os with
        | .ok rest => .ok (es ++ rest)
        | .err => .err
        | .panic => .panic

/-- `slice::chunks(c)` for `c ≥ 1`, with fuel = length -/
def chunksOf (c : Nat) : Nat → List Offset → List (List Offset)
  | 0, _ => []
  | _ + 1, [] => []
  | fuel + 1, xs => xs.take c :: chunksOf c fuel (xs.drop c)

/-- joining the threads in order: any panicking thread makes `from_bytes` panic (the scope
re-raises it), otherwise the first error wins, otherwise the entries are concatenated in order. -/
def joinGroups : List (Res (List Entry)) → Res (List Entry)
  | [] => .ok []
  | r :: rs =>
    match r, joinGroups rs with
    | .panic, _ => .panic
    | _, .panic => .panic
    | .err, _ => .err
    | _, .err => .err
    | .ok a, .ok b => .ok (a ++ b)

/-- the multi-threaded branch of `from_bytes` for a group size `c` -/
def decodeGrouped (v4 : Bool) (c : Nat) (data : Bytes) (offs : List Offset) : Res (List Entry) :=
  joinGroups ((chunksOf c offs.length offs).map (decodeGroup v4 data))

def ceilDiv (a b : Nat) : Nat := (a + b - 1) / b

/-! ### extensions -/

/-- `extension::Iter`: (signature, payload) list and the bytes consumed; an extension whose size
runs past the end stops the iteration after its 8 header bytes. Fuel = length of the data. -/
def extIter : Nat → Bytes → List (Bytes × Bytes) × Nat
  | 0, _ => ([], 0)
  | fuel + 1, data =>
    match data with
    | s0 :: s1 :: s2 :: s3 :: z0 :: z1 :: z2 :: z3 :: rest =>
      let size := z0.toNat * 16777216 + z1.toNat * 65536 + z2.toNat * 256 + z3.toNat
      if (rest.take size).length < size then ([], 8)
      else
        let (more, consumed) := extIter fuel (rest.drop size)
        (([s0, s1, s2, s3], rest.take size) :: more, 8 + size + consumed)
    | _ => ([], 0)

def sigTREE : Bytes := [84, 82, 69, 69]
def sigREUC : Bytes := [82, 69, 85, 67]
def sigUNTR : Bytes := [85, 78, 84, 82]
def sigFSMN : Bytes := [70, 83, 77, 78]
def sigEOIE : Bytes := [69, 79, 73, 69]
def sigIEOT : Bytes := [73, 69, 79, 84]
def sigLink : Bytes := [108, 105, 110, 107]
def sigSdir : Bytes := [115, 100, 105, 114]
def sigDIRC : Bytes := [68, 73, 82, 67]

def be32 (n : Nat) : Bytes :=
  [UInt8.ofNat (n / 16777216 % 256), UInt8.ofNat (n / 65536 % 256), UInt8.ofNat (n / 256 % 256),
   UInt8.ofNat (n % 256)]

/-- the bytes the yielded extensions span: 8 header bytes + payload each -/
def extsSpan (exts : List (Bytes × Bytes)) : Nat := (exts.map fun sp => 8 + sp.2.length).sum

/-- `end_of_index_entry::decode`: offset of the first extension if a well-formed EOIE is the last
extension. `sha1` hashes the concatenated (signature, size) pairs. -/
def eoieDecode (sha1 : Bytes → Bytes) (data : Bytes) : Option Nat :=
  if data.length < 32 + hashLen then none
  else
    let startOfEoie := data.length - 32 - hashLen
    let ext := (data.drop startOfEoie).take 32
    let sig := ext.take 4
    match readU32 (ext.drop 4) with
    | none => none
    | some (size, body) =>
      if sig ≠ sigEOIE ∨ size ≠ 24 then none
      else match readU32 body with
        | none => none
        | some (offset, checksum) =>
          if offset < 12 ∨ offset > startOfEoie then none
          else
            let region := (data.drop offset).take (startOfEoie - offset)
            let (exts, _) := extIter region.length region
            let hashed := exts.flatMap fun (s, p) => s ++ be32 p.length
            if sha1 hashed ≠ checksum then none
            -- the last chunk that was yielded must end exactly where the EOIE starts (and there must
            -- be one); the 8 header bytes of an extension whose size overruns the region do not count
            else if exts.isEmpty ∨ extsSpan exts ≠ region.length then none
            else some offset

/-- `index_entry_offset_table::decode` -/
def ieotEntries : Nat → Bytes → Option (List Offset)
  | 0, _ => some []
  | n + 1, data =>
    match readU32 data with
    | none => none
    | some (off, d) =>
      match readU32 d with
      | none => none
      | some (cnt, d) =>
        match ieotEntries n d with
        | none => none
        | some os => some ({ fromStart := off, numEntries := cnt } :: os)

def ieotDecode (data : Bytes) : Option (List Offset) :=
  match readU32 data with
  | none => none
  | some (version, d) =>
    if version ≠ 1 then none
    else if d.length / 8 = 0 ∨ d.length % 8 ≠ 0 then none
    else ieotEntries (d.length / 8) d

/-- `index_entry_offset_table::find`: the first IEOT extension, decoded -/
def ieotFind (extensions : Bytes) : Option (List Offset) :=
  if extensions.length < hashLen then none
  else
    let body := extensions.take (extensions.length - hashLen)
    match (extIter body.length body).1.find? (fun sp => sp.1 == sigIEOT) with
    | none => none
    | some (_, p) => ieotDecode p

/-! #### TREE -/

inductive Tree where
  | mk (name : Bytes) (id : Bytes) (numEntries : Option Nat) (children : List Tree)

def Tree.name : Tree → Bytes
  | .mk n _ _ _ => n

def isDigit (b : UInt8) : Bool := 48 ≤ b.toNat && b.toNat ≤ 57

/-- `btoi::to_unsigned` below `bound` (exclusive): non-empty, all digits, no overflow -/
def parseUnsigned (bound : Nat) (bs : Bytes) : Option Nat :=
  if bs.isEmpty then none
  else bs.foldl (fun acc b =>
    match acc with
    | none => none
    | some a => if isDigit b then (if a * 10 + (b.toNat - 48) < bound then some (a * 10 + (b.toNat - 48)) else none) else none)
    (some 0)

/-- `btoi::to_signed::<i32>` -/
def parseI32 (bs : Bytes) : Option Int :=
  match bs with
  | [] => none
  | 43 :: rest => (parseUnsigned 2147483648 rest).map Int.ofNat
  | 45 :: rest => (parseUnsigned 2147483649 rest).map fun n => - Int.ofNat n
  | _ => (parseUnsigned 2147483648 bs).map Int.ofNat

/-- byte-wise lexicographic `≤` on names (`SmallVec<[u8]>: Ord`) -/
def bytesLe : Bytes → Bytes → Bool
  | [], _ => true
  | _ :: _, [] => false
  | a :: as, b :: bs => if a.toNat < b.toNat then true else if b.toNat < a.toNat then false else bytesLe as bs

/-- stable insertion sort by name = what `sort_by(|a, b| a.name.cmp(&b.name))` (stable) yields -/
def insertByName (t : Tree) : List Tree → List Tree
  | [] => [t]
  | x :: xs => if bytesLe x.name t.name then x :: insertByName t xs else t :: x :: xs

def sortByName : List Tree → List Tree
  | [] => []
  | x :: xs => insertByName x (sortByName xs)

def hasAdjacentDup : List Tree → Bool
  | a :: b :: rest => a.name == b.name || hasAdjacentDup (b :: rest)
  | _ => false

/-- `MAX_DEPTH` of the TREE and UNTR decoders -/
def maxDepth : Nat := 4096

mutual
  /-- `one_recursive`; nodes nested deeper than `maxDepth` are refused (repaired: unbounded
  recursion before); fuel bounds the nesting + sibling count (data length + 2 suffices) -/
  def treeOne : Nat → Nat → Bytes → Option (Tree × Bytes)
    | 0, _, _ => none
    | fuel + 1, depth, data =>
      if depth > maxDepth then none
      else
      match splitAtByteExclusive data 0 with
      | none => none
      | some (path, d) =>
      match splitAtByteExclusive d 32 with
      | none => none
      | some (cnt, d) =>
      match parseI32 cnt with
      | none => none
      | some numEntries =>
      match splitAtByteExclusive d 10 with
      | none => none
      | some (sub, d) =>
      match parseUnsigned 18446744073709551616 sub with
      | none => none
      | some subtreeCount =>
        let idRest : Option (Bytes × Bytes) :=
          if numEntries ≥ 0 then splitAtPos d hashLen else some (List.replicate hashLen 0, d)
        match idRest with
        | none => none
        | some (id, d) =>
          match treeMany fuel (depth + 1) subtreeCount d with
          | none => none
          | some (subs, d) =>
            let sorted := sortByName subs
            if hasAdjacentDup sorted then none
            else some (.mk path id (if numEntries ≥ 0 then some numEntries.toNat else none) sorted, d)
  def treeMany : Nat → Nat → Nat → Bytes → Option (List Tree × Bytes)
    | 0, _, _, _ => none
    | _ + 1, _, 0, data => some ([], data)
    | fuel + 1, depth, n + 1, data =>
      match treeOne fuel depth data with
      | none => none
      | some (t, d) =>
        match treeMany fuel depth n d with
        | none => none
        | some (ts, d) => some (t :: ts, d)
end

/-- `tree::decode` (repaired: leftover bytes give `None`, they tripped an `assert!` before) -/
def treeDecode (data : Bytes) : Res (Option Tree) :=
  match treeOne (data.length + 2) 0 data with
  | none => .ok none
  | some (t, rest) => if rest.isEmpty then .ok (some t) else .ok none

/-! #### REUC -/

structure ReucPath where
  name : Bytes
  /-- (mode, id) per stage 1..3 -/
  stages : List (Option (Nat × Bytes))
  deriving Repr, DecidableEq

def isOctDigit (b : UInt8) : Bool := 48 ≤ b.toNat && b.toNat ≤ 55

/-- `u32::from_str_radix(s, 8)`: optional leading `+`, at least one digit, no overflow -/
def parseOctU32 (bs : Bytes) : Option Nat :=
  let digits := match bs with
    | 43 :: rest => rest
    | _ => bs
  if digits.isEmpty then none
  else digits.foldl (fun acc b =>
    match acc with
    | none => none
    | some a => if isOctDigit b then (if a * 8 + (b.toNat - 48) < 4294967296 then some (a * 8 + (b.toNat - 48)) else none) else none)
    (some 0)

def reucModes : Nat → Bytes → Option (List Nat × Bytes)
  | 0, d => some ([], d)
  | n + 1, d =>
    match splitAtByteExclusive d 0 with
    | none => none
    | some (m, d) =>
      match parseOctU32 m with
      | none => none
      | some mode =>
        match reucModes n d with
        | none => none
        | some (ms, d) => some (mode :: ms, d)

def reucStages : List Nat → Bytes → Option (List (Option (Nat × Bytes)) × Bytes)
  | [], d => some ([], d)
  | m :: ms, d =>
    if m = 0 then
      match reucStages ms d with
      | none => none
      | some (ss, d) => some (none :: ss, d)
    else
      match splitAtPos d hashLen with
      | none => none
      | some (h, d) =>
        match reucStages ms d with
        | none => none
        | some (ss, d) => some (some (m, h) :: ss, d)

def reucGo : Nat → Bytes → Option (List ReucPath)
  | 0, _ => none
  | fuel + 1, data =>
    if data.isEmpty then some []
    else
      match splitAtByteExclusive data 0 with
      | none => none
      | some (path, d) =>
        match reucModes 3 d with
        | none => none
        | some (modes, d) =>
          match reucStages modes d with
          | none => none
          | some (stages, d) =>
            match reucGo fuel d with
            | none => none
            | some ps => some ({ name := path, stages := stages } :: ps)

def reucDecode (data : Bytes) : Option (List ReucPath) := reucGo (data.length + 1) data

/-! #### EWAH bitmaps -/

structure Ewah where
  numBits : Nat
  words : List Nat
  rlw : Nat
  deriving Repr, DecidableEq

def readWords : Nat → Bytes → Option (List Nat × Bytes)
  | 0, d => some ([], d)
  | n + 1, d =>
    match readU64 d with
    | none => none
    | some (w, d) =>
      match readWords n d with
      | none => none
      | some (ws, d) => some (w :: ws, d)

/-- `ewah::decode` -/
def ewahDecode (data : Bytes) : Option (Ewah × Bytes) :=
  match readU32 data with
  | none => none
  | some (numBits, d) =>
    match readU32 d with
    | none => none
    | some (len, d) =>
      if (d.take (len * 8)).length < len * 8 then none
      else match readWords len d with
        | none => none
        | some (ws, d) =>
          match readU32 d with
          | none => none
          | some (rlw, d) => some ({ numBits, words := ws, rlw }, d)

def wordBits (w : Nat) (base : Nat) : List Nat :=
  (List.range 64).filterMap fun i => if w / 2 ^ i % 2 = 1 then some (base + i) else none

/-- how an iteration over the set bits ended: all words consumed, the literal count overran the
words (`None` after the repair of `for_each_set_bit`, an `expect` panic before), or the consumer
stopped at the first index `≥ limit` (which is delivered as the last element). -/
inductive BitsEnd where
  | done
  | fail
  | over
  deriving Repr, DecidableEq

/-- keep the indices below `limit` and the first one at or beyond it -/
def cutAt (limit : Nat) : List Nat → List Nat × Bool
  | [] => ([], false)
  | b :: bs =>
    if b ≥ limit then ([b], true)
    else let (r, o) := cutAt limit bs; (b :: r, o)

/-- a run of `runLen` set bits starting at `index`, cut at `limit` without materialising more -/
def runBits (index runLen limit : Nat) : List Nat × Bool :=
  if runLen = 0 then ([], false)
  else if index + runLen ≤ limit then ((List.range runLen).map (index + ·), false)
  else if index ≥ limit then ([index], true)
  else ((List.range (limit - index + 1)).map (index + ·), true)

/-- the literal words following a run-length word -/
def ewahLiterals (limit : Nat) : Nat → List Nat → Nat → List Nat × Option BitsEnd × List Nat × Nat
  | 0, ws, index => ([], none, ws, index)
  | _ + 1, [], index => ([], some .fail, [], index)
  | n + 1, w :: ws, index =>
    let (bits, over) := cutAt limit (wordBits w index)
    if over then (bits, some .over, ws, index)
    else
      let (more, e, rest, index') := ewahLiterals limit n ws (index + 64)
      (bits ++ more, e, rest, index')

/-- `for_each_set_bit` with a consumer that stops at the first index `≥ limit`; fuel = number of
words + 1. -/
def ewahBitsGo (limit : Nat) : Nat → List Nat → Nat → List Nat × BitsEnd
  | 0, _, _ => ([], .done)
  | _ + 1, [], _ => ([], .done)
  | fuel + 1, w :: ws, index =>
    let runLen := w / 2 % 4294967296 * 64
    let lit := w / 8589934592
    let (run, over) := if w % 2 = 1 then runBits index runLen limit else ([], false)
    if over then (run, .over)
    else
      match ewahLiterals limit lit ws (index + runLen) with
      | (bits, some e, _, _) => (run ++ bits, e)
      | (bits, none, rest, index') =>
        let (more, e) := ewahBitsGo limit fuel rest index'
        (run ++ bits ++ more, e)

def Ewah.bits (e : Ewah) (limit : Nat) : List Nat × BitsEnd :=
  ewahBitsGo limit (e.words.length + 1) e.words 0

/-- display limit used by the drivers for bitmaps nobody iterates at decode time -/
def showLimit : Nat := 4096

/-! #### link -/

structure Link where
  checksum : Bytes
  bitmaps : Option (Ewah × Ewah)
  deriving Repr, DecidableEq

/-- `link::decode` (an error is mandatory: `decode::Error::Extension`) -/
def linkDecode (data : Bytes) : Option Link :=
  match splitAtPos data hashLen with
  | none => none
  | some (id, d) =>
    if d.isEmpty then some { checksum := id, bitmaps := none }
    else match ewahDecode d with
      | none => none
      | some (del, d) =>
        match ewahDecode d with
        | none => none
        | some (rep, d) =>
          if !d.isEmpty then none
          else some { checksum := id, bitmaps := some (del, rep) }

/-! #### UNTR -/

/-- `decode::stat` as used by the extensions (repaired: ctime first, then mtime — the two were
swapped before) -/
def extStat (data : Bytes) : Option (Stat × Bytes) :=
  match readU32 data with
  | none => none
  | some (a, d) =>
  match readU32 d with
  | none => none
  | some (b, d) =>
  match readU32 d with
  | none => none
  | some (c, d) =>
  match readU32 d with
  | none => none
  | some (e, d) =>
  match readU32 d with
  | none => none
  | some (dev, d) =>
  match readU32 d with
  | none => none
  | some (ino, d) =>
  match readU32 d with
  | none => none
  | some (uid, d) =>
  match readU32 d with
  | none => none
  | some (gid, d) =>
  match readU32 d with
  | none => none
  | some (size, d) =>
    some ({ ctimeS := a, ctimeN := b, mtimeS := c, mtimeN := e, dev, ino, uid, gid, size }, d)

structure OidStat where
  stat : Stat
  id : Bytes
  deriving Repr, DecidableEq

structure UDir where
  name : Bytes
  untracked : List Bytes
  subDirs : List Nat
  stat : Option Stat
  excludeOid : Option Bytes
  checkOnly : Bool
  deriving Repr, DecidableEq

structure Untracked where
  identifier : Bytes
  infoExclude : Option OidStat
  excludesFile : Option OidStat
  excludePerDir : Bytes
  dirFlags : Nat
  dirs : List UDir
  deriving Repr, DecidableEq

/-- `decode_oid`: the hash that belongs to an already decoded stat -/
def oidStat (st : Stat) (data : Bytes) : Option (OidStat × Bytes) :=
  match splitAtPos data hashLen with
  | none => none
  | some (h, d) => some ({ stat := st, id := h }, d)

def splitNames : Nat → Bytes → Option (List Bytes × Bytes)
  | 0, d => some ([], d)
  | n + 1, d =>
    match splitAtByteExclusive d 0 with
    | none => none
    | some (nm, d) =>
      match splitNames n d with
      | none => none
      | some (ns, d) => some (nm :: ns, d)

def isNull (id : Bytes) : Bool := id.all (· == 0)

mutual
  /-- `decode_directory_block`: appends this directory, then its sub-directories (pre-order);
  `dirs` is the accumulated vector; blocks nested deeper than `maxDepth` are refused. -/
  def udirBlock : Nat → Nat → Bytes → List UDir → Option (Bytes × List UDir)
    | 0, _, _, _ => none
    | fuel + 1, depth, data, dirs =>
      if depth > maxDepth then none
      else
      match varInt data with
      | none => none
      | some (numUntracked, d) =>
      match varInt d with
      | none => none
      | some (numDirs, d) =>
      match splitAtByteExclusive d 0 with
      | none => none
      | some (name, d) =>
        -- every name and every sub-directory block takes at least one byte, so counts beyond the
        -- remaining data can only end in `None`; answering that right away keeps the driver from
        -- looping over absurd counts (the real code caps its pre-allocations the same way)
        if numUntracked > d.length ∨ numDirs > d.length then none
        else
        match splitNames numUntracked d with
        | none => none
        | some (names, d) =>
          let index := dirs.length
          let dirs := dirs ++ [{ name, untracked := names, subDirs := [], stat := none, excludeOid := none, checkOnly := false }]
          udirSubs fuel (depth + 1) numDirs index d dirs
  def udirSubs : Nat → Nat → Nat → Nat → Bytes → List UDir → Option (Bytes × List UDir)
    | 0, _, _, _, _, _ => none
    | _ + 1, _, 0, _, data, dirs => some (data, dirs)
    | fuel + 1, depth, n + 1, index, data, dirs =>
      let subIndex := dirs.length
      match udirBlock fuel depth data dirs with
      | none => none
      | some (d, dirs) =>
        let dirs := dirs.modify index fun u => { u with subDirs := u.subDirs ++ [subIndex] }
        udirSubs fuel depth n index d dirs
end

/-- `check_only.for_each_set_bit(|index| directories.get_mut(index)?.check_only = true)`
(repaired: an index beyond the vector ends the iteration with `None`, it indexed unchecked before) -/
def untrSetCheckOnly (dirs : List UDir) : List Nat → Option (List UDir)
  | [] => some dirs
  | i :: is =>
    if i < dirs.length then untrSetCheckOnly (dirs.modify i fun u => { u with checkOnly := true }) is
    else none

/-- `valid.for_each_set_bit`: stops silently at the first stat that cannot be read or the first
index beyond the vector (the stat is read first but `data` is only advanced afterwards) -/
def untrSetStats (dirs : List UDir) (data : Bytes) : List Nat → List UDir × Bytes
  | [] => (dirs, data)
  | i :: is =>
    match extStat data with
    | none => (dirs, data)
    | some (st, d) =>
      if i < dirs.length then untrSetStats (dirs.modify i fun u => { u with stat := some st }) d is
      else (dirs, data)

/-- `hash_valid.for_each_set_bit`: as above, but `data` is advanced before the directory lookup -/
def untrSetOids (dirs : List UDir) (data : Bytes) : List Nat → List UDir × Bytes
  | [] => (dirs, data)
  | i :: is =>
    match splitAtPos data hashLen with
    | none => (dirs, data)
    | some (h, d) =>
      if i < dirs.length then untrSetOids (dirs.modify i fun u => { u with excludeOid := some h }) d is
      else (dirs, d)

/-- `untracked_cache::decode` -/
def untrDecode (data : Bytes) : Res (Option Untracked) :=
  if data.getLast? ≠ some 0 then .ok none
  else
  match varInt data with
  | none => .ok none
  | some (identLen, d) =>
  match splitAtPos d identLen with
  | none => .ok none
  | some (ident, d) =>
  -- repaired order: both stats, the flags, then both hashes (it was stat, hash, stat, hash, flags)
  match extStat d with
  | none => .ok none
  | some (infoStat, d) =>
  match extStat d with
  | none => .ok none
  | some (exclStat, d) =>
  match readU32 d with
  | none => .ok none
  | some (dirFlags, d) =>
  match oidStat infoStat d with
  | none => .ok none
  | some (infoExclude, d) =>
  match oidStat exclStat d with
  | none => .ok none
  | some (excludesFile, d) =>
  match splitAtByteExclusive d 0 with
  | none => .ok none
  | some (perDir, d) =>
  match varInt d with
  | none => .ok none
  | some (numBlocks, d) =>
    let res (dirs : List UDir) : Untracked :=
      { identifier := ident,
        infoExclude := if isNull infoExclude.id then none else some infoExclude,
        excludesFile := if isNull excludesFile.id then none else some excludesFile,
        excludePerDir := perDir, dirFlags, dirs }
    if numBlocks = 0 then (if d.isEmpty then .ok (some (res [])) else .ok none)
    else
    match udirBlock (d.length + 2) 0 d [] with
    | none => .ok none
    | some (d, dirs) =>
      if dirs.length ≠ numBlocks then .ok none
      else
      match ewahDecode d with
      | none => .ok none
      | some (valid, d) =>
      match ewahDecode d with
      | none => .ok none
      | some (checkOnly, d) =>
      match ewahDecode d with
      | none => .ok none
      | some (hashValid, d) =>
        if valid.numBits > numBlocks ∨ checkOnly.numBits > numBlocks ∨ hashValid.numBits > numBlocks then .ok none
        else
        -- the consumers stop at the first index beyond the vector, so the iteration is cut there
        let (cbits, cend) := checkOnly.bits dirs.length
        match untrSetCheckOnly dirs cbits with
        | none => .ok none
        | some dirs =>
        -- `check_only.for_each_set_bit(…)?`: a bitmap whose literal count overruns its words is `None`
        if cend = .fail then .ok none
        else
          let (dirs, d) := untrSetStats dirs d (valid.bits dirs.length).1
          let (dirs, d) := untrSetOids dirs d (hashValid.bits dirs.length).1
          if d.length ≠ 1 then .ok none else .ok (some (res dirs))

/-! #### FSMN -/

structure FsMonitor where
  /-- `V1 nanos` rendered as be64 bytes, or the `V2` token -/
  version : Nat
  token : Bytes
  dirty : Ewah
  deriving Repr, DecidableEq

def fsmnDecode (data : Bytes) : Res (Option FsMonitor) :=
  match readU32 data with
  | none => .ok none
  | some (version, d) =>
    let tok : Option (Bytes × Bytes) :=
      if version = 1 then (if (d.take 8).length < 8 then none else some (d.take 8, d.drop 8))
      else if version = 2 then splitAtByteExclusive d 0
      else none
    match tok with
    | none => .ok none
    | some (token, d) =>
      match readU32 d with
      | none => .ok none
      | some (ewahSize, d) =>
        if d.length < ewahSize then .ok none        -- `data.get(..ewah_size as usize)?` (repaired: it sliced unchecked)
        else match ewahDecode (d.take ewahSize) with
          | none => .ok none
          | some (bits, rest) =>
            if !rest.isEmpty then .ok none
            else .ok (some { version, token, dirty := bits })

/-! ### `extension::decode::all` and `State::from_bytes` -/

structure Exts where
  tree : Option Tree := none
  reuc : Option (List ReucPath) := none
  untracked : Option Untracked := none
  fsmonitor : Option FsMonitor := none
  link : Option Link := none
  isSparse : Bool := false
  offsetTable : Bool := false
  endOfIndex : Bool := false

/-- one step of the loop in `decode::all` -/
def extStep (acc : Exts) (sig payload : Bytes) : Res Exts :=
  if sig = sigTREE then
    match treeDecode payload with
    | .ok t => .ok { acc with tree := t }
    | .err => .err
    | .panic => .panic
  else if sig = sigREUC then .ok { acc with reuc := reucDecode payload }
  else if sig = sigUNTR then
    match untrDecode payload with
    | .ok u => .ok { acc with untracked := u }
    | .err => .err
    | .panic => .panic
  else if sig = sigFSMN then
    match fsmnDecode payload with
    | .ok f => .ok { acc with fsmonitor := f }
    | .err => .err
    | .panic => .panic
  else if sig = sigEOIE then .ok { acc with endOfIndex := true }
  else if sig = sigIEOT then .ok { acc with offsetTable := true }
  else if (match sig.head? with | some c => 97 ≤ c.toNat && c.toNat ≤ 122 | none => false) then
    if sig = sigLink then
      match linkDecode payload with
      | none => .err
      | some l => .ok { acc with link := some l }
    else if sig = sigSdir then
      if payload.isEmpty then .ok { acc with isSparse := true } else .err
    else .err
  else .ok acc

def extFold (acc : Exts) : List (Bytes × Bytes) → Res Exts
  | [] => .ok acc
  | (s, p) :: rest =>
    match extStep acc s p with
    | .ok acc => extFold acc rest
    | .err => .err
    | .panic => .panic

/-- `extension::decode::all`: the extensions and the remaining bytes (the trailer) -/
def extAll (data : Bytes) : Res (Exts × Bytes) :=
  if data.length < hashLen then .ok ({}, data)
  else
    let body := data.take (data.length - hashLen)
    let (exts, consumed) := extIter body.length body
    match extFold {} exts with
    | .ok e => .ok (e, data.drop consumed)
    | .err => .err
    | .panic => .panic

inductive Outcome where
  | ok (version : Nat) (entries : List Entry) (isSparse : Bool) (exts : Exts) (checksum : Option Bytes)
  | errHeader
  | errEntry
  | errExtension
  | errTrailer
  | panic

/-- `header::decode` -/
def headerDecode (data : Bytes) : Option (Nat × Nat × Bytes) :=
  if data.length < 12 + hashLen then none
  else if data.take 4 ≠ sigDIRC then none
  else match readU32 (data.drop 4) with
    | none => none
    | some (version, d) =>
      if version ≠ 2 ∧ version ≠ 3 ∧ version ≠ 4 then none
      else match readU32 d with
        | none => none
        | some (n, d) => some (version, n, d)

def isSparseEntries (es : List Entry) : Bool := es.any fun e => e.mode == 0o040000

def finish (version : Nat) (entries : List Entry) (exts : Exts) (trailer : Bytes) : Outcome :=
  if trailer.length ≠ hashLen then .errTrailer
  else
    .ok version entries (isSparseEntries entries || exts.isSparse) exts
      (if isNull trailer then none else some trailer)

/-- the single-threaded branch of `from_bytes`: entries, then the extensions right after them -/
def serialDecode (version numEntries : Nat) (postHeader : Bytes) : Outcome :=
  match chunk (version == 4) numEntries postHeader with
  | none => .errEntry
  | some (entries, rest) =>
    match extAll rest with
    | .err => .errExtension
    | .panic => .panic
    | .ok (exts, trailer) => finish version entries exts trailer

/-- the entries in the threaded branch: by offset table (`threads - 1` entry threads, because
`num_threads -= 1` is evaluated eagerly as part of the argument of `.then(…)`), else serially -/
def threadedEntries (v4 : Bool) (numEntries : Nat) (postHeader data extData : Bytes) (threads : Nat) :
    Res (List Entry) :=
  match ieotFind extData with
  | some offs => decodeGrouped v4 (ceilDiv offs.length (threads - 1)) data offs
  | none =>
    match chunk v4 numEntries postHeader with
    | none => .err
    | some (es, _) => .ok es

/-- the branch taken when an end-of-index entry was found and more than one thread is allowed:
extensions from `offset`, entries by offset table when there is one. A panicking entry thread or
extension thread makes the scope panic; an extension error wins over an entry error. -/
def threadedDecode (version numEntries : Nat) (postHeader data : Bytes) (offset threads : Nat) : Outcome :=
  match extAll (data.drop offset),
      threadedEntries (version == 4) numEntries postHeader data (data.drop offset) threads with
  | .panic, _ => .panic
  | _, .panic => .panic
  | .err, _ => .errExtension
  | _, .err => .errEntry
  | .ok (exts, trailer), .ok entries => finish version entries exts trailer

/-- `State::from_bytes` with `thread_limit = Some(threads)` (`threads ≥ 1`), default
`min_extension_block_in_bytes_for_threading`, no expected checksum. -/
def fromBytes (sha1 : Bytes → Bytes) (threads : Nat) (data : Bytes) : Outcome :=
  match headerDecode data with
  | none => .errHeader
  | some (version, numEntries, postHeader) =>
    match eoieDecode sha1 data with
    | some offset =>
      if threads > 1 then threadedDecode version numEntries postHeader data offset threads
      else serialDecode version numEntries postHeader
    | none => serialDecode version numEntries postHeader

end GixModel.C24
