import GixModel.Model.C26
import GixModel.Basic.AsciiCase
import GixModel.Extracted.ConfigSpellings
/-
C27 — model of how gix-config interprets values.

Rust functions modelled:
  gix_config::value::normalize                                         gix-config/src/value/normalize.rs
  file::section::Body::{values, value_implicit, value, key_and_value_range_by}   file/section/body.rs
  File::{raw_value_by, raw_values_by, boolean_by, integer_by} and the section lookup
      (section_ids_by_name_and_subname: name ASCII-case-insensitive, sub-section exact)  file/access/{raw,comfort}.rs, file/util.rs
  gix_config_value::Boolean::try_from(&BStr)                           gix-config-value/src/boolean.rs
  gix_config_value::Integer::{try_from(&BStr), to_decimal}             gix-config-value/src/integer.rs
  core: `i64::from_str` (transcribed: optional sign, ≥1 ASCII digits, range check)
The boolean spellings and the suffix table are NOT transcribed: they are `Extracted.*`.
The parser is C26's (`GixModel.C26.fileFromBytes`).
-/
namespace GixModel.C27
open GixModel GixModel.C26

/-! ### `normalize` -/

/-- the generic loop of `normalize` (`out.pop()` on an empty buffer is a no-op) -/
def unescLoop : Bytes → Bytes → Bytes
  | [], out => out
  | [c], out => if c == 92 then out else if c == 34 then out else out ++ [c]
  | c :: d :: r, out =>
    if c == 92 then
      if d == 110 then unescLoop r (out ++ [10])
      else if d == 116 then unescLoop r (out ++ [9])
      else if d == 98 then unescLoop r out.dropLast
      else unescLoop r (out ++ [d])
    else if c == 34 then unescLoop (d :: r) out
    else unescLoop (d :: r) (out ++ [c])

/-- after the quote-stripping loop: return the input unchanged when it has neither `\` nor `"` -/
def normTail (v : Bytes) : Bytes :=
  if v.all (fun b => b != 92 && b != 34) then v else unescLoop v []

/-- the condition of the `while` loop that strips enclosing quotes -/
def stripCond (v : Bytes) : Bool :=
  decide (3 ≤ v.length) && v.head? == some 34 && v.getLast? == some 34 && v[v.length - 2]? != some 92

def stripLoop : Nat → Bytes → Bytes
  | 0, v => normTail v
  | f + 1, v =>
    if stripCond v then
      let v' := (v.drop 1).dropLast
      if v' == [34, 34] then [] else stripLoop f v'
    else normTail v

/-- `value::normalize` -/
def normalize (v : Bytes) : Bytes :=
  if v == [34, 34] then [] else stripLoop v.length v

/-! ### keys and bodies -/

/-- `Body::values` — state: `expect` (`expect_value`), `cat` (`concatenated_value`, which the code
does not clear on a plain `Value`) -/
def bodyValuesGo (key : Bytes) : List Event → Bool → Bytes → List Bytes
  | [], _, _ => []
  | e :: rest, expect, cat =>
    match e with
    | .name k => bodyValuesGo key rest (if eqIgnoreCase k key then true else expect) cat
    | .value v => if expect then normalize v :: bodyValuesGo key rest false cat else bodyValuesGo key rest expect cat
    | .notDone v => if expect then bodyValuesGo key rest expect (cat ++ v) else bodyValuesGo key rest expect cat
    | .done v => if expect then normalize (cat ++ v) :: bodyValuesGo key rest false [] else bodyValuesGo key rest expect cat
    | _ => bodyValuesGo key rest expect cat

def bodyValues (key : Bytes) (body : List Event) : List Bytes := bodyValuesGo key body false []

/-- the backwards scan of `key_and_value_range_by`: events are visited from the last to the first
with their index; state is `(value_range.start, value_range.end)`. Returns
`(key_start, start, end)` when the key is found. -/
def rangeScan (key : Bytes) : List (Nat × Event) → Nat → Nat → Option (Nat × Nat × Nat)
  | [], _, _ => none
  | (i, e) :: rest, s, t =>
    match e with
    | .name k => if eqIgnoreCase k key then some (i, s, t) else rangeScan key rest 0 0
    | .value _ => rangeScan key rest i i
    | .notDone _ => if t == 0 then rangeScan key rest s i else rangeScan key rest i t
    | .done _ => if t == 0 then rangeScan key rest s i else rangeScan key rest i t
    | _ => rangeScan key rest s t

def indexed (l : List Event) : List (Nat × Event) := (List.range l.length).zip l

/-- `key_and_value_range_by`: `(key_range, value_range?)` as half-open index pairs -/
def keyAndValueRange (key : Bytes) (body : List Event) : Option ((Nat × Nat) × Option (Nat × Nat)) :=
  match rangeScan key (indexed body).reverse 0 0 with
  | none => none
  | some (ks, s, t) =>
    let vr := (s, t + 1)
    -- `self.0.get(key_start..value_range.start)` holds a `KeyValueSeparator`
    let hasSep := ((body.take s).drop ks).any fun e => e == Event.sep
    some ((ks, t + 1), if hasSep then some vr else none)

/-- the loop over `self.0[range]` in `value_implicit`; `none` = fell off the end -/
def implicitGo : List Event → Bytes → Option Bytes
  | [], _ => none
  | e :: rest, cat =>
    match e with
    | .value v => some (normalize v)
    | .notDone v => implicitGo rest (cat ++ v)
    | .done v => some (normalize (cat ++ v))
    | _ => implicitGo rest cat

/-- `Body::value_implicit`: `none` = no such key, `some none` = key without value,
`some (some v)`. (Slicing `self.0[range]` cannot be out of bounds for ranges built from indices
of the same list; a start beyond the end — unreachable — would panic and is modelled as `none`.) -/
def valueImplicit (key : Bytes) (body : List Event) : Option (Option Bytes) :=
  match keyAndValueRange key body with
  | none => none
  | some (_, none) => some none
  | some (_, some (s, t)) =>
    match implicitGo ((body.take t).drop s) [] with
    | some v => some (some v)
    | none => none

/-- `Body::value` -/
def bodyValue (key : Bytes) (body : List Event) : Option Bytes := (valueImplicit key body).join

/-! ### section lookup -/

inductive LookupErr | sectionMissing | subSectionMissing | keyMissing
  deriving Repr, DecidableEq

/-- `section_ids_by_name_and_subname` on a freshly loaded file: the sections, in file order,
whose name matches case-insensitively and whose sub-section is equal -/
def sectionsBy (f : File) (name : Bytes) (sub : Option Bytes) : Except LookupErr (List Section) :=
  let named := f.sections.filter fun s => eqIgnoreCase s.header.name name
  if named.isEmpty then .error .sectionMissing
  else
    let both := named.filter fun s => s.header.sub == sub
    if both.isEmpty then .error .subSectionMissing else .ok both

/-- `File::raw_value_by` -/
def rawValue (f : File) (name : Bytes) (sub : Option Bytes) (key : Bytes) : Except LookupErr Bytes :=
  match sectionsBy f name sub with
  | .error e => .error e
  | .ok ss =>
    match ss.reverse.findSome? fun s => bodyValue key s.body with
    | some v => .ok v
    | none => .error .keyMissing

/-- `File::raw_values_by` -/
def rawValues (f : File) (name : Bytes) (sub : Option Bytes) (key : Bytes) : Except LookupErr (List Bytes) :=
  match sectionsBy f name sub with
  | .error e => .error e
  | .ok ss =>
    let vs := ss.flatMap fun s => bodyValues key s.body
    if vs.isEmpty then .error .keyMissing else .ok vs

/-! ### integers and booleans -/

def decNat (ds : Bytes) : Nat := ds.foldl (fun acc b => acc * 10 + (b.toNat - 48)) 0

/-- the digits of `i64::from_str` after the optional sign: at least one, all ASCII digits, in range -/
def rustDigits (neg : Bool) (ds : Bytes) : Option Int :=
  if ds.isEmpty || !ds.all isDig then none
  else
    let v : Int := if neg then -(decNat ds : Int) else (decNat ds : Int)
    if i64Min ≤ v ∧ v ≤ i64Max then some v else none

/-- `i64::from_str` -/
def rustParseI64 (s : Bytes) : Option Int :=
  match s with
  | 43 :: ds => rustDigits false ds
  | 45 :: ds => rustDigits true ds
  | ds => rustDigits false ds

def suffixMul (t : List (UInt8 × Nat)) (c : UInt8) : Option Nat := (t.find? fun p => p.1 == c).map (·.2)

/-- `Integer::try_from(&BStr)` followed by `to_decimal`; `none` = conversion error or overflow -/
def gixIntWith (t : List (UInt8 × Nat)) (s : Bytes) : Option Int :=
  match rustParseI64 s with
  | some v => some v
  | none =>
    if s.length ≤ 1 then none
    else
      match rustParseI64 s.dropLast, s.getLast? with
      | some v, some c =>
        (match suffixMul t c with
         | some m => if i64Min ≤ v * m ∧ v * m ≤ i64Max then some (v * m) else none
         | none => none)
      | _, _ => none

def gixInt (s : Bytes) : Option Int := gixIntWith Extracted.intSuffixes s

/-- `Boolean::try_from(&BStr)` -/
def gixBoolWith (tw : List Bytes) (te : Bool) (fw : List Bytes) (fe : Bool) (s : Bytes) : Option Bool :=
  if (tw.any fun w => eqIgnoreCase s w) || (te && s.isEmpty) then some true
  else if (fw.any fun w => eqIgnoreCase s w) || (fe && s.isEmpty) then some false
  else (rustParseI64 s).map fun v => v != 0

def gixBool (s : Bytes) : Option Bool :=
  gixBoolWith Extracted.boolTrueWords Extracted.boolTrueEmpty Extracted.boolFalseWords Extracted.boolFalseEmpty s

/-- `File::boolean_by`: `none` = no value; `some none` = present but not a boolean -/
def fileBoolean (f : File) (name : Bytes) (sub : Option Bytes) (key : Bytes) : Option (Option Bool) :=
  match sectionsBy f name sub with
  | .error _ => none
  | .ok ss =>
    ss.reverse.findSome? fun s =>
      match valueImplicit key s.body with
      | some (some v) => some (gixBool v)
      | some none => some (some true)
      | none => none

/-- `File::integer_by` -/
def fileInteger (f : File) (name : Bytes) (sub : Option Bytes) (key : Bytes) : Option (Option Int) :=
  match rawValue f name sub key with
  | .error _ => none
  | .ok v => some (gixInt v)

end GixModel.C27
