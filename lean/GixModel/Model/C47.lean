import GixModel.Model.C47Walks
import GixModel.Spec.C47
import GixModel.Spec.C47Order
/-
C47 — the driver of the walk models (`Model/C47Walks.lean`) and of the executable transcriptions
of git's topological sort (`Spec.C47.gitTopoOrder`, `Spec.C47.gitTopoOrder2`).
-/
namespace GixModel.C47
open GixModel GixModel.CG

/-! ### driver -/

structure CommitRow where
  time : Int
  gen : Nat
  parents : List Nat

def parseIdxList (s : String) : Option (List Nat) :=
  if s == "-" then some [] else (s.splitOn ",").mapM String.toNat?

def parseRow (s : String) : Option CommitRow :=
  match s.splitOn ":" with
  | [t, gn, ps] => do
    let t ← t.toInt?
    let gn ← gn.toNat?
    let ps ← parseIdxList ps
    some { time := t, gen := gn, parents := ps }
  | _ => none

def takeRows : Nat → List String → Option (List CommitRow × List String)
  | 0, rest => some ([], rest)
  | n + 1, x :: rest => do
    let r ← parseRow x
    let (rs, rest) ← takeRows n rest
    some (r :: rs, rest)
  | _, _ => none

def dagOfRows (rows : Array CommitRow) : Dag where
  parents := fun i => match rows[i]? with | some r => r.parents | none => []
  time := fun i => match rows[i]? with | some r => r.time | none => 0
  gen := fun i => match rows[i]? with | some r => r.gen | none => 0

/-- ancestors-or-self of `xs` as a membership table (driver glue for the "hidden" predicate) -/
def ancTable (g : Dag) (n : Nat) (xs : List Nat) : Array Bool :=
  let rec go : Nat → List Nat → Array Bool → Array Bool
    | 0, _, t => t
    | _, [], t => t
    | fuel + 1, c :: stack, t =>
      match t[c]? with
      | some false => go fuel (g.parents c ++ stack) (t.setIfInBounds c true)
      | _ => go fuel stack t
  go (n * n + n + xs.length + 1) xs (Array.replicate n false)

def showSeq : Res (List Nat) → String
  | .ok l => "seq:" ++ (if l.isEmpty then "-" else ",".intercalate (l.map toString))
  | .panic => "err"
  | .fuel => "fuel"

def leInt (a b : Int) : Bool := decide (a ≤ b)

def handle? : List String → Option String
  | "walk" :: _cg :: mode :: n :: rest => do
    let n ← n.toNat?
    let (rows, rest) ← takeRows n rest
    match rest with
    | [tips, hidden, cut] =>
      let tips ← parseIdxList tips
      let hidden ← parseIdxList hidden
      let cut ← (if cut == "-" then some none else cut.toInt?.map some)
      if tips.any (· ≥ n) || hidden.any (· ≥ n) then none
      else
        let g := dagOfRows rows.toArray
        let hid := ancTable g n hidden
        let pred : Nat → Bool := fun x => match hid[x]? with | some true => false | _ => true
        let simple (sorting : Sorting) (fp : Bool) : Option String :=
          some (showSeq (simpleWalk g (heapPQ leInt) { pred := pred, sorting := sorting, firstParent := fp } n tips))
        let topo (sorting : TopoSorting) (fp : Bool) : Option String :=
          some (showSeq (topoWalk { g := g, qg := heapPQ GenTime.le, qd := heapPQ DateKey.le,
                                    cfg := { sorting := sorting, firstParent := fp } } n tips hidden))
        match mode, cut with
        | "bfs", none => simple .breadthFirst false
        | "new", none => simple (.byTime false) false
        | "old", none => simple (.byTime true) false
        | "cutnew", some s => simple (.cutoff false s) false
        | "cutold", some s => simple (.cutoff true s) false
        | "fp", none => simple .breadthFirst true
        | "fpheap", none => simple (.byTime false) true
        | "topo-date", none => topo .dateOrder false
        | "topo-topo", none => topo .topoOrder false
        | "topo-date-fp", none => topo .dateOrder true
        | "topo-topo-fp", none => topo .topoOrder true
        | _, _ => none
    | _ => none
  | "gitorder" :: _cg :: mode :: n :: rest => do
    -- not a model of gitoxide code: `Spec.C47.gitTopoOrder`, the transcription of git's sort,
    -- whose expected output is what the git binary printed
    let n ← n.toNat?
    let (rows, rest) ← takeRows n rest
    match rest with
    | [tips, hidden, _cut] =>
      let tips ← parseIdxList tips
      let hidden ← parseIdxList hidden
      if tips.any (· ≥ n) || hidden.any (· ≥ n) then none
      else
        let g := dagOfRows rows.toArray
        match mode with
        | "topo-date" => some (showSeq (.ok (Spec.C47.gitTopoOrder g n tips hidden true)))
        | "topo-topo" => some (showSeq (.ok (Spec.C47.gitTopoOrder g n tips hidden false)))
        | _ => none
    | _ => none
  | "gitorder2" :: _cg :: mode :: n :: rest => do
    -- `Spec.C47.gitTopoOrder2` (Kahn over the selection, the form the order theorems are about)
    let n ← n.toNat?
    let (rows, rest) ← takeRows n rest
    match rest with
    | [tips, hidden, _cut] =>
      let tips ← parseIdxList tips
      let hidden ← parseIdxList hidden
      if tips.any (· ≥ n) || hidden.any (· ≥ n) then none
      else
        let g := dagOfRows rows.toArray
        match mode with
        | "topo-date" => some (showSeq (.ok (Spec.C47.gitTopoOrder2 g n tips hidden true)))
        | "topo-topo" => some (showSeq (.ok (Spec.C47.gitTopoOrder2 g n tips hidden false)))
        | _ => none
    | _ => none
  | _ => none

def handle (args : List String) : String := (handle? args).getD "bad-op"

end GixModel.C47
