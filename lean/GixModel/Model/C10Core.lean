/-
C10 — indexing a received pack (gix-pack: `Bundle::write_to_directory` / `inner_write`,
`index::File::write_data_iter_to_stream`, `cache::delta::{Tree, traverse, resolve::deltas / deltas_mt}`,
`data::input::LookupRefDeltaObjectsIter`).

(1) The delta-tree traversal as a small-step transition system.  `Forest` is what `Tree` holds after all
    entries were added: `roots[i]` / `kids[j]` list the indices (into `kids`) of the entries whose base they
    are.  Workers are natural numbers (any number of them).  Events = the actions of the workers on the
    shared structures:
      claim      `in_parallel_with_slice`: the next root is taken (`index.fetch_update`)
      pop t q    worker `t` takes an available node (its own `nodes` stack in `deltas`, the shared
                 `Mutex<Vec>` in `deltas_mt`), obtains its bytes (a root is decompressed from the pack, a
                 child's bytes come out of `decompressed_bytes_by_pack_offset` — the `.expect(…)` there is
                 the explicit `panicked` outcome), and calls `modify_base` on the node's own item
      child t    worker `t` handles the next child of the node it holds: applies the delta and either
                 stores the bytes and makes the child available (it has children itself) or calls
                 `modify_base` on the child's item right away (leaf)
      done t     the `for child in base.into_child_iter()` loop is over
    Which node a worker may take is left completely open (`pop` may take ANY available node): this covers
    the LIFO order of the local stack, the shared stack of `deltas_mt`, any `thread_limit` and any
    interleaving.  `data` is the `TreeEntry::id` written by `modify_base` (`none` = still the null id),
    `writes` counts the calls per item — the raw-pointer accesses of `ItemSliceSync::get_mut` are sound
    iff no item is ever reachable from two places, which is part of the invariant proved in Lemmas/C10.
    Values are abstract: `Codec.decodeRoot i` = inflate of root `i`, `Codec.applyDelta v c` = applying the
    delta of child `c` to base bytes `v`, `Codec.hash` = `gix_object::compute_hash`.
    Not modelled: error returns / interrupts (the operation fails as a whole), zlib, SHA-1, CRC32 (computed
    by the entries iterator before the traversal), how `threads_left` bounds the number of threads.

(2) `LookupRefDeltaObjectsIter` (thin packs): `injectBases` — every entry shifted by the size changes seen
    so far, a ref-delta turned into an ofs-delta right behind its freshly inserted base (or pointing back to
    the base inserted earlier), ofs-deltas re-pointed over the insertions.

(3) The persist protocol of `inner_write` as a step list over a directory state.
-/
namespace GixModel.C10

/-! ### (1) traversal -/

structure Forest where
  roots : List (List Nat)
  kids : List (List Nat)
  deriving Repr, DecidableEq

inductive Node
  | root (i : Nat)
  | kid (j : Nat)
  deriving DecidableEq, Repr

def Forest.children (f : Forest) : Node → List Nat
  | Node.root i => f.roots.getD i []
  | Node.kid j => f.kids.getD j []

def Forest.valid (f : Forest) : Node → Bool
  | Node.root i => decide (i < f.roots.length)
  | Node.kid j => decide (j < f.kids.length)

def Forest.allNodes (f : Forest) : List Node :=
  (List.range f.roots.length).map Node.root ++ (List.range f.kids.length).map Node.kid

/-- the nodes that list `k` as a child -/
def Forest.parents (f : Forest) (k : Nat) : List Node := f.allNodes.filter fun n => (f.children n).contains k

/-- the invariant of `Tree` (tree.rs "SAFETY INVARIANT"): child indices are in bounds, every child item
is referenced exactly once, and (ofs-deltas point backwards) a child's base comes before it -/
def Forest.ok (f : Forest) : Bool :=
  f.allNodes.all (fun n => (f.children n).all fun c => decide (c < f.kids.length))
  && f.allNodes.all (fun n => decide (f.children n).Nodup)
  && (List.range f.kids.length).all (fun k => (f.parents k).length == 1)
  && (List.range f.kids.length).all (fun j => (f.children (Node.kid j)).all fun c => decide (j < c))

structure Codec (V Id : Type) where
  decodeRoot : Nat → V
  applyDelta : V → Nat → V
  hash : V → Id

inductive Status
  | fresh | queued | held | done
  deriving DecidableEq, Repr

structure Worker (V : Type) where
  node : Node
  val : V
  rem : List Nat

structure St (V Id : Type) where
  nextRoot : Nat
  queue : List Node
  stored : List (Nat × V)
  workers : Nat → Option (Worker V)
  data : Node → Option Id
  writes : Node → Nat
  panicked : Bool
  /-- ghost: never read by `step` -/
  st : Node → Status

def St.init (V Id : Type) : St V Id :=
  { nextRoot := 0, queue := [], stored := [], workers := fun _ => none, data := fun _ => none,
    writes := fun _ => 0, panicked := false, st := fun _ => Status.fresh }

inductive Ev
  | claim
  | pop (t q : Nat)
  | child (t : Nat)
  | done (t : Nat)
  deriving DecidableEq, Repr

def upd {α β : Type} [DecidableEq α] (f : α → β) (a : α) (b : β) : α → β := fun x => if x = a then b else f x

def lookupStored {V : Type} (l : List (Nat × V)) (j : Nat) : Option V :=
  match l with
  | [] => none
  | (k, v) :: rest => if k = j then some v else lookupStored rest j

def eraseStored {V : Type} (l : List (Nat × V)) (j : Nat) : List (Nat × V) :=
  l.filter fun p => p.1 != j

def step {V Id : Type} (f : Forest) (c : Codec V Id) (s : St V Id) : Ev → Option (St V Id)
  | Ev.claim =>
    if s.nextRoot < f.roots.length then
      some { s with nextRoot := s.nextRoot + 1, queue := s.queue ++ [Node.root s.nextRoot],
                    st := upd s.st (Node.root s.nextRoot) Status.queued }
    else none
  | Ev.pop t q =>
    match s.workers t, s.queue[q]? with
    | none, some n =>
      let queue := s.queue.eraseIdx q
      match n with
      | Node.root i =>
        let v := c.decodeRoot i
        some { s with queue := queue, workers := upd s.workers t (some { node := n, val := v, rem := f.children n }),
                      data := upd s.data n (some (c.hash v)), writes := upd s.writes n (s.writes n + 1),
                      st := upd s.st n Status.held }
      | Node.kid j =>
        match lookupStored s.stored j with
        | some v =>
          some { s with queue := queue, stored := eraseStored s.stored j,
                        workers := upd s.workers t (some { node := n, val := v, rem := f.children n }),
                        data := upd s.data n (some (c.hash v)), writes := upd s.writes n (s.writes n + 1),
                        st := upd s.st n Status.held }
        | none => some { s with queue := queue, panicked := true }
    | _, _ => none
  | Ev.child t =>
    match s.workers t with
    | some w =>
      match w.rem with
      | k :: rest =>
        let v := c.applyDelta w.val k
        let workers := upd s.workers t (some { w with rem := rest })
        if (f.children (Node.kid k)).isEmpty then
          some { s with workers := workers, data := upd s.data (Node.kid k) (some (c.hash v)),
                        writes := upd s.writes (Node.kid k) (s.writes (Node.kid k) + 1),
                        st := upd s.st (Node.kid k) Status.done }
        else
          some { s with workers := workers, stored := (k, v) :: s.stored, queue := s.queue ++ [Node.kid k],
                        st := upd s.st (Node.kid k) Status.queued }
      | [] => none
    | none => none
  | Ev.done t =>
    match s.workers t with
    | some w =>
      match w.rem with
      | [] => some { s with workers := upd s.workers t none, st := upd s.st w.node Status.done }
      | _ :: _ => none
    | none => none

def run {V Id : Type} (f : Forest) (c : Codec V Id) (s : St V Id) : List Ev → Option (St V Id)
  | [] => some s
  | e :: es =>
    match step f c s e with
    | some s' => run f c s' es
    | none => none

/-- nothing left to do: all roots taken, nothing available, every worker idle -/
def Terminal {V Id : Type} (f : Forest) (s : St V Id) : Prop :=
  s.nextRoot = f.roots.length ∧ s.queue = [] ∧ ∀ t, s.workers t = none

/-- the items handed to `index::encode::write_to`: `roots` followed by `children`, each with its id -/
def items {V Id : Type} (f : Forest) (s : St V Id) : List (Node × Option Id) :=
  ((List.range f.roots.length).map fun i => (Node.root i, s.data (Node.root i)))
  ++ ((List.range f.kids.length).map fun j => (Node.kid j, s.data (Node.kid j)))

/-! ### (3) persist protocol of `inner_write` -/

/-- the files of interest in the target directory -/
structure Dir where
  tmpPack : Bool      -- the tempfile receiving the pack
  tmpPackComplete : Bool
  tmpIdx : Bool
  keep : Bool
  pack : Bool         -- pack-<hash>.pack
  packComplete : Bool
  idx : Bool          -- pack-<hash>.idx
  deriving DecidableEq, Repr

inductive PStep
  | createTmpPack       -- `gix_tempfile::new` for the data file
  | streamPack          -- the pack is written while the entries are read; afterwards it is complete
  | createTmpIdx        -- `gix_tempfile::new` for the index
  | writeIdx            -- `write_data_iter_to_stream`
  | writeKeep           -- `std::fs::write(keep_path)` (only if the pack does not exist yet)
  | persistPack         -- rename of the data tempfile (only if the pack does not exist yet)
  | persistIdx          -- rename of the index tempfile (only if the index does not exist yet)
  deriving DecidableEq, Repr

def pstep (d : Dir) : PStep → Dir
  | PStep.createTmpPack => { d with tmpPack := true, tmpPackComplete := false }
  | PStep.streamPack => { d with tmpPackComplete := d.tmpPack }
  | PStep.createTmpIdx => { d with tmpIdx := true }
  | PStep.writeIdx => d
  | PStep.writeKeep => if d.pack then d else { d with keep := true }
  | PStep.persistPack =>
    if d.pack then d else { d with pack := d.tmpPack, packComplete := d.tmpPackComplete, tmpPack := false }
  | PStep.persistIdx => if d.idx then d else { d with idx := d.tmpIdx, tmpIdx := false }

def protocol : List PStep :=
  [PStep.createTmpPack, PStep.streamPack, PStep.createTmpIdx, PStep.writeIdx, PStep.writeKeep,
   PStep.persistPack, PStep.persistIdx]

def pexec (d : Dir) (steps : List PStep) : Dir := steps.foldl pstep d

/-- an error return (not a crash) drops the tempfiles that were not persisted (`AutoRemove::Tempfile`) -/
def cleanup (d : Dir) : Dir := { d with tmpPack := false, tmpPackComplete := false, tmpIdx := false }

/-- "an `.idx` exists ⇒ its `.pack` exists and is complete" -/
def Dir.consistent (d : Dir) : Bool := !d.idx || (d.pack && d.packComplete)

end GixModel.C10
