import GixModel.Spec.C57
/-
C57 — model of `gix_quote::ansi_c::undo` (/repo/gix-quote/src/ansi_c.rs) and of
`gix_utils::btoi::to_unsigned_with_radix::<u8>(_, 8)` as used there on exactly three bytes.

The Rust loop (`find_byteset(b"\"\\")`, copy the run before the hit, interpret the hit) is modelled
as a byte-by-byte structural recursion; `consumed` counts exactly what the Rust code counts.
Behaviours of the code that exists and are kept: an input that starts with `"` but has no closing
quote is accepted (`None => … break`), with everything consumed; only a lone `"` is rejected as
"must be surrounded by double quotes".
-/
namespace GixModel.C57
open GixModel

inductive UndoErr where
  /-- `Error::InvalidInput` (any message) -/
  | invalid
  /-- `Error::UnsupportedEscapeByte { byte }` -/
  | escape (b : UInt8)
  deriving Repr, DecidableEq

inductive Res where
  | ok (out : Bytes) (consumed : Nat)
  | err (e : UndoErr)
  deriving Repr, DecidableEq

/-- the single-letter escapes of the `match next` -/
def unescape (c : UInt8) : Option UInt8 :=
  if c = 110 then some 10          -- n
  else if c = 114 then some 13     -- r
  else if c = 116 then some 9      -- t
  else if c = 97 then some 7       -- a
  else if c = 98 then some 8       -- b
  else if c = 118 then some 11     -- v
  else if c = 102 then some 12     -- f
  else if c = 34 then some 34      -- "
  else if c = 92 then some 92      -- \
  else none

def octDigit (c : UInt8) : Option Nat := if 48 ≤ c ∧ c ≤ 55 then some (c.toNat - 48) else none

/-- `to_unsigned_with_radix::<u8>(&[a, b, c], 8)`: `none` = InvalidDigit or Overflow -/
def parseOctal3 (a b c : UInt8) : Option UInt8 :=
  match octDigit a, octDigit b, octDigit c with
  | some x, some y, some z =>
    let v := (x * 8 + y) * 8 + z
    if v ≤ 255 then some (UInt8.ofNat v) else none
  | _, _, _ => none

/-- push `b` in front of the output of the rest and add the `n` input bytes it occupied -/
def consOut (b : UInt8) (n : Nat) : Res → Res
  | .ok o c => .ok (b :: o) (c + n)
  | .err e => .err e

/-- the loop, on the input after the opening quote; `consumed` here excludes the opening quote -/
def undoBody : Bytes → Res
  | [] => .ok [] 0                       -- `None => { …; break }`: no closing quote
  | b :: rest =>
    if b = 34 then .ok [] 1              -- closing quote
    else if b = 92 then
      match rest with
      | [] => .err .invalid              -- "Unexpected end of input"
      | next :: rest =>
        match unescape next with
        | some x => consOut x 2 (undoBody rest)
        | none =>
          if 48 ≤ next ∧ next ≤ 51 then  -- b'0' | b'1' | b'2' | b'3'
            match rest with
            | d1 :: d2 :: rest =>
              match parseOctal3 next d1 d2 with
              | some v => consOut v 4 (undoBody rest)
              | none => .err .invalid
            | _ => .err .invalid         -- "… when fetching two more octal bytes"
          else .err (.escape next)
    else consOut b 1 (undoBody rest)

/-- `gix_quote::ansi_c::undo` -/
def undo (s : Bytes) : Res :=
  match s with
  | [] => .ok [] 0
  | b :: rest =>
    if b = 34 then
      if rest.isEmpty then .err .invalid   -- `input.len() < 2`
      else match undoBody rest with
        | .ok o c => .ok o (c + 1)
        | .err e => .err e
    else .ok s s.length

/-! ### driver -/

def showRes : Res → String
  | .ok o c => s!"ok {hexOfBytes o} {c}"
  | .err .invalid => "err:invalid"
  | .err (.escape b) => s!"err:escape:{b.toNat}"

/-- ops: `undo <hex>` — the real `undo` on those bytes; `gitq <0|1> <hex>` — what the git binary
printed for that path name with core.quotePath=<0|1> (validates `Spec.gitQuote`). -/
def handle? : List String → Option String
  | ["undo", s] => do
    let s ← bytesOfHex s
    some (showRes (undo s))
  | ["gitq", full, s] => do
    let s ← bytesOfHex s
    let full ← (if full == "1" then some true else if full == "0" then some false else none)
    some (hexOfBytes (gitQuote full s))
  | _ => none

def handle (args : List String) : String := (handle? args).getD "bad-op"

end GixModel.C57
