/-
C17 — reference transactions terminate under lock contention: the line protocol over the shared
core model (GixModel.Model.C17Core).

  hist <op> ; <op> ; …     a history from the initial state (HEAD -> refs/heads/a, nothing else):
                           per operation `<result>#<dump>`, joined by ` ; `; a transaction for
                           which the model runs out of fuel is `hang` and ends the history
  backoff <ms>             the waits of `Exponential::default().until_no_remaining(ms)`
-/
import GixModel.Model.C17Core
import GixModel.Basic.Hex

namespace GixModel.C17

/-! the name space and object names of the harness (driver glue: strings are fine here) -/

def nameOfString (s : String) : Name := bytesOfString s
def stringOfName (n : Name) : String := asciiOfBytes n

def nameSpace : List String :=
  ["HEAD", "refs/heads/a", "refs/heads/a/b", "refs/heads/b", "refs/heads/zz", "refs/remotes/o/HEAD",
   "refs/tags/t"]

def validName (s : String) : Bool := nameSpace.contains s

def oidOfString : String → Option Oid
  | "c1" => some 1
  | "c2" => some 2
  | "c3" => some 3
  | "t1" => some 4
  | "zz" => some 5
  | _ => none

def stringOfOid : Oid → String
  | 1 => "c1"
  | 2 => "c2"
  | 3 => "c3"
  | 4 => "t1"
  | 5 => "zz"
  | _ => "?"

/-- the harness' object database: everything but `zz` exists -/
def harnessEnv : Env := { known := fun o => decide (1 ≤ o ∧ o ≤ 4) }

def parseTarget (s : String) : Option Target :=
  if s.startsWith "o:" then (oidOfString (s.drop 2).toString).map .object
  else if s.startsWith "s:" then
    let n := (s.drop 2).toString
    if validName n then some (.symbolic (nameOfString n)) else none
  else none

def fmtTarget : Target → String
  | .object o => "o:" ++ stringOfOid o
  | .symbolic n => "s:" ++ stringOfName n

def parsePrev (s : String) : Option Prev :=
  if s == "any" then some .any
  else if s == "me" then some .mustExist
  else if s == "mne" then some .mustNotExist
  else if s.startsWith "mem=" then (parseTarget (s.drop 4).toString).map .mustExistAndMatch
  else if s.startsWith "emm=" then (parseTarget (s.drop 4).toString).map .existingMustMatch
  else none

def parseEdit (s : String) : Option RefEdit :=
  match s.splitOn "," with
  | [kind, name, deref, exp, new, log] => do
    if !validName name then none
    let deref ← (if deref == "d" then some true else if deref == "n" then some false else none)
    let exp ← parsePrev exp
    let log ← (if log == "r" then some LogMode.andReference else if log == "l" then some LogMode.only else none)
    if kind == "U" then
      let new ← parseTarget new
      some { change := .update log exp new, name := nameOfString name, deref := deref }
    else if kind == "D" then
      if new != "-" then none
      some { change := .delete exp log, name := nameOfString name, deref := deref }
    else none
  | _ => none

def parseEdits : List String → Option (List RefEdit)
  | [] => some []
  | t :: ts => do
    let e ← parseEdit t
    let es ← parseEdits ts
    some (e :: es)

def parseMode : String → Option Mode
  | "mode=D" => some .deletionsOnly
  | "mode=U" => some .updates
  | "mode=R" => some .updatesRemoveLoose
  | _ => none

def parseFail (s : String) : Option Fail :=
  if s == "I" then some .immediately
  else if s.startsWith "B" then (s.drop 1).toString.toNat?.map .afterDurationWithBackoff
  else none

def insertName (n : Name) : List Name → List Name
  | [] => [n]
  | x :: xs => if nameLt x n then x :: insertName n xs else n :: x :: xs

def sortNames : List Name → List Name
  | [] => []
  | n :: ns => insertName n (sortNames ns)

def dump (S : Store) : String :=
  let perName := nameSpace.map fun s =>
    let n := nameOfString s
    let v := match S.find n with
      | some t => fmtTarget t
      | none => "-"
    let l := if (lookup S.loose n).isSome then "L" else ""
    let p := match S.packed with
      | some b => if (lookup b n).isSome then "P" else ""
      | none => ""
    s ++ "=" ++ v ++ "/" ++ l ++ p
  let locks := sortNames (S.locks ++ (if S.packedLock then [nameOfString "packed-refs"] else []))
  String.intercalate " " perName ++ " pk=" ++ (if S.packed.isSome then "1" else "0") ++ " locks=" ++
    (if locks.isEmpty then "-" else String.intercalate "," (locks.map stringOfName))

def fmtErr : Err → String
  | .preprocess => "err:pre"
  | .packedLock => "err:plock:packed-refs"
  | .packedPrepare => "err:pprep"
  | .lockAcquire n => "err:lock:" ++ stringOfName n
  | .deleteMustExist n => "err:delme:" ++ stringOfName n
  | .mustNotExist n => "err:mne:" ++ stringOfName n
  | .mustExist n => "err:me:" ++ stringOfName n
  | .outOfDate n => "err:ood:" ++ stringOfName n
  | .packedCommit => "err:c-packed"

def initialStore : Store :=
  { loose := [(nameOfString "HEAD", .symbolic (nameOfString "refs/heads/a"))] }

/-- a transaction -/
def txnOp (wk : WalkKind) (S : Store) : List String → Option (String × Option Store)
  | "txn" :: mode :: rf :: pf :: edits => do
    let mode ← parseMode mode
    let _ ← parseFail ((rf.dropPrefix? "rf=").map (·.toString) |>.getD "?")
    let _ ← parseFail ((pf.dropPrefix? "pf=").map (·.toString) |>.getD "?")
    let edits ← parseEdits edits
    match runWith wk harnessEnv S { edits := edits, mode := mode } with
    | .ok _ S' => some ("ok#" ++ dump S', some S')
    | .err e S' => some (fmtErr e ++ "#" ++ dump S', some S')
    | .panic S' => some ("panic#" ++ dump S', some S')
    | .hang => some ("hang", none)
  | _ => none

/-- what the other writer of a `race` does to packed-refs: `+name=oid` / `-name` -/
def parseMods (s : String) : Option (List (Name × Option Oid)) :=
  if s == "-" then some [] else
  (s.splitOn ",").mapM fun m =>
    if m.startsWith "+" then
      match ((m.drop 1).toString).splitOn "=" with
      | [n, o] => if validName n then (oidOfString o).map fun o => (nameOfString n, some o) else none
      | _ => none
    else if m.startsWith "-" then
      let n := (m.drop 1).toString
      if validName n then some (nameOfString n, none) else none
    else none

/-- one operation: `none` = malformed, `some (obs, none)` = the history ends (hang) -/
def histOp (wk : WalkKind) (S : Store) : List String → Option (String × Option Store)
  | "txn" :: rest => txnOp wk S ("txn" :: rest)
  | "race" :: mods :: rest => do
    -- another writer rewrites packed-refs and releases packed-refs.lock while the transaction
    -- waits for it: the transaction reads packed-refs under the lock, so the outcome is the
    -- sequential composition (Props.C16.packed_writers_linearizable)
    let mods ← parseMods mods
    let S1 : Store := { S with packed := some (mergeAll (bufferList S.packed) (sortEdits mods)) }
    txnOp wk S1 rest
  | ["gitpack-refs", "all=1", prune] => do
    let prune ← (if prune == "prune=1" then some true else if prune == "prune=0" then some false else none)
    -- without HEAD the directory is not a repository for git
    if (lookup S.loose (nameOfString "HEAD")).isNone then some ("fail#" ++ dump S, some S) else
    let S' := gitPackRefs harnessEnv prune S
    some ("ok#" ++ dump S', some S')
  | ["gitupdate-ref", del, nd, name, new, old] => do
    let del ← (if del == "d=1" then some true else if del == "d=0" then some false else none)
    let nd ← (if nd == "nd=1" then some true else if nd == "nd=0" then some false else none)
    if !validName name then none
    let new ← (if new == "-" then some none else (oidOfString new).map some)
    let old ← (if old == "-" then some none else if old == "0" then some (some none)
               else (oidOfString old).map fun o => some (some o))
    if del != new.isNone then none
    match gitUpdateRef S del nd (nameOfString name) new old with
    | some S' => some ("ok#" ++ dump S', some S')
    | none => some ("fail#" ++ dump S, some S)
  | ["lock", n] =>
    if n == "packed-refs" then
      if S.packedLock then some ("held#" ++ dump S, some S)
      else let S' := { S with packedLock := true }; some ("ok#" ++ dump S', some S')
    else if validName n then
      let nm := nameOfString n
      if nm ∈ S.locks then some ("held#" ++ dump S, some S)
      else let S' := { S with locks := nm :: S.locks }; some ("ok#" ++ dump S', some S')
    else none
  | ["unlock", n] =>
    if n == "packed-refs" then
      if S.packedLock then let S' := { S with packedLock := false }; some ("ok#" ++ dump S', some S')
      else some ("none#" ++ dump S, some S)
    else if validName n then
      let nm := nameOfString n
      if nm ∈ S.locks then let S' := release S nm; some ("ok#" ++ dump S', some S')
      else some ("none#" ++ dump S, some S)
    else none
  | _ => none

/-- split a token list at the `;` tokens -/
def splitOps : List String → List (List String)
  | [] => [[]]
  | t :: ts =>
    match splitOps ts with
    | [] => [[t]]
    | g :: gs => if t == ";" then [] :: g :: gs else (t :: g) :: gs

def runHist (wk : WalkKind) : Store → List (List String) → Option (List String)
  | _, [] => some []
  | S, op :: ops => do
    let r ← histOp wk S op
    match r.2 with
    | none => some [r.1]
    | some S' =>
      let rest ← runHist wk S' ops
      some (r.1 :: rest)

def fmtWaits : List Nat → String
  | [] => "-"
  | ws => String.intercalate "," (ws.map toString)

def handle? : List String → Option String
  | "hist" :: toks => do
    let obs ← runHist .fixed initialStore (splitOps toks)
    some (String.intercalate " ; " obs)
  | ["backoff", ms] => do
    let ms ← ms.toNat?
    let ws ← waitsOf (fun _ m => m) ms
    some (fmtWaits ws)
  | _ => none

def handle (args : List String) : String := (handle? args).getD "bad-op"

end GixModel.C17
