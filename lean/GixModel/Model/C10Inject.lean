/-
C10 (2) — `LookupRefDeltaObjectsIter` (gix-pack/src/data/input/lookup_ref_delta_objects.rs): resolving a
thin pack on the fly.  Entries are abstracted to what the iterator computes with: the offset in the thin
pack, the kind of header, the header size and the size of the compressed data.  For every entry the
iterator yields the entry moved to its new offset; in front of a ref-delta whose base was not inserted
before it yields the base object taken from the object database (`odb`: id ↦ header size and compressed
size of `input::Entry::from_data_obj`); ref-deltas become ofs-deltas, ofs-deltas are re-pointed.

This is the code as repaired in /repo (the re-pointing of ofs-deltas happens whenever a change was
recorded, not only when the sum of all size changes is non-zero); `Fix.asFound` is the code as found.
-/
namespace GixModel.C10

inductive Hdr
  | base
  | ofs (dist : Nat)
  | ref (id : Nat)
  deriving DecidableEq, Repr

structure InEntry where
  ofs : Nat
  hdr : Hdr
  hsize : Nat
  body : Nat
  dsize : Nat
  deriving DecidableEq, Repr

/-- `Change` -/
structure Change where
  packOfs : Nat
  shifted : Nat
  delta : Int
  oid : Option Nat
  deriving DecidableEq, Repr

structure OutEntry where
  ofs : Nat
  hdr : Hdr
  hsize : Nat
  body : Nat
  /-- index of the input entry this is, `none` for an inserted base -/
  src : Option Nat
  /-- ghost: the id of the object an inserted base is (never read by the iterator) -/
  baseId : Option Nat := none
  deriving DecidableEq, Repr

/-- number of 7-bit groups needed after the first `bits` bits -/
def groups7 : Nat → Nat → Nat
  | 0, _ => 0
  | fuel + 1, n => if n = 0 then 0 else 1 + groups7 fuel (n / 128)

/-- bytes of the type+size part of an entry header (`Header::write_to`) -/
def sizeLen (dsize : Nat) : Nat := 1 + groups7 10 (dsize / 16)

/-- bytes of the offset of an ofs-delta (`leb64_encode`) -/
def ofsLenAux : Nat → Nat → Nat
  | 0, _ => 0
  | fuel + 1, n => if n = 0 then 0 else 1 + ofsLenAux fuel ((n - 1) / 128)

def ofsLen (dist : Nat) : Nat := 1 + ofsLenAux 10 (dist / 128)

structure IState where
  changes : List Change
  total : Int
  out : List OutEntry
  deriving Repr

inductive Fix
  | repaired
  | asFound
  deriving DecidableEq, Repr

def shifted (st : IState) (ofs : Nat) : Nat := ((ofs : Int) + st.total).toNat

def trackChange (st : IState) (shiftedOfs packOfs : Nat) (delta : Int) (oid : Option Nat) : IState :=
  if delta = 0 then st
  else { st with changes := st.changes ++ [{ packOfs := packOfs, shifted := shiftedOfs, delta := delta, oid := oid }],
                 total := st.total + delta }

/-- `shift_entry_and_point_to_base_by_offset` -/
def shiftAndPoint (st : IState) (idx : Nat) (e : InEntry) (dist : Nat) : IState :=
  let newOfs := shifted st e.ofs
  let hs := sizeLen e.dsize + ofsLen dist
  let st := { st with out := st.out ++ [{ ofs := newOfs, hdr := Hdr.ofs dist, hsize := hs, body := e.body, src := some idx }] }
  trackChange st newOfs e.ofs ((hs : Int) - (e.hsize : Int)) none

def rfindOid (l : List Change) (id : Nat) : Option Change :=
  (l.reverse.find? fun c => c.oid == some id)

/-- the index `binary_search_by_key(&key, |c| c.pack_offset)` reports, refined as the code does: the
record of the entry itself comes after the record of a base inserted in front of it -/
def findAt (l : List Change) (key : Nat) : Option Nat :=
  match l.findIdx? (fun c => c.packOfs == key) with
  | some i =>
    match l[i + 1]? with
    | some c => if c.packOfs == key then some (i + 1) else some i
    | none => some i
  | none => none

/-- the insertion point of `key` -/
def insertionPoint (l : List Change) (key : Nat) : Nat := (l.takeWhile fun c => c.packOfs < key).length

def sumDeltas (l : List Change) : Int := l.foldl (fun acc c => acc + c.delta) 0

/-- are entries moved / re-pointed at all? (`!inserted_entry_length_at_offset.is_empty()`; the code as
found asked `inserted_entries_length_in_bytes != 0`) -/
def isActive (fix : Fix) (st : IState) : Bool :=
  match fix with
  | Fix.repaired => !st.changes.isEmpty
  | Fix.asFound => st.total != 0

/-- one `next()` of the iterator for input entry `idx`; `none` = `Error::NotFound` -/
def injectOne (fix : Fix) (odb : Nat → Option (Nat × Nat)) (st : IState) (idx : Nat) (e : InEntry) : Option IState :=
  match e.hdr with
  | Hdr.ref id =>
    match rfindOid st.changes id with
    | none =>
      match odb id with
      | some (bh, bb) =>
        let baseOfs := shifted st e.ofs
        let st := { st with out := st.out ++ [{ ofs := baseOfs, hdr := Hdr.base, hsize := bh, body := bb, src := none, baseId := some id }] }
        let st := trackChange st baseOfs e.ofs ((bh + bb : Nat) : Int) (some id)
        some (shiftAndPoint st idx e (bh + bb))
      | none => none
    | some ch => some (shiftAndPoint st idx e (shifted st e.ofs - ch.shifted))
  | Hdr.ofs dist =>
    if isActive fix st then
      let baseOfs := e.ofs - dist
      match findAt st.changes baseOfs with
      | some i =>
        match st.changes[i]? with
        | some ch => some (shiftAndPoint st idx e (shifted st e.ofs - ch.shifted))
        | none => none
      | none =>
        let since := sumDeltas (st.changes.drop (insertionPoint st.changes baseOfs))
        some (shiftAndPoint st idx e (((dist : Int) + since).toNat))
    else some { st with out := st.out ++ [{ ofs := e.ofs, hdr := e.hdr, hsize := e.hsize, body := e.body, src := some idx }] }
  | Hdr.base =>
    let newOfs := if isActive fix st then shifted st e.ofs else e.ofs
    some { st with out := st.out ++ [{ ofs := newOfs, hdr := Hdr.base, hsize := e.hsize, body := e.body, src := some idx }] }

def injectFrom (fix : Fix) (odb : Nat → Option (Nat × Nat)) : IState → Nat → List InEntry → Option IState
  | st, _, [] => some st
  | st, idx, e :: rest =>
    match injectOne fix odb st idx e with
    | some st' => injectFrom fix odb st' (idx + 1) rest
    | none => none

def injectBases (fix : Fix) (odb : Nat → Option (Nat × Nat)) (entries : List InEntry) : Option (List OutEntry) :=
  (injectFrom fix odb { changes := [], total := 0, out := [] } 0 entries).map (·.out)

/-- the output is a pack: entries follow each other without gaps -/
def contiguous : List OutEntry → Bool
  | a :: b :: rest => (b.ofs == a.ofs + a.hsize + a.body) && contiguous (b :: rest)
  | _ => true

/-- the position of the output entry that is input entry `i` -/
def posOfSrc (out : List OutEntry) (i : Nat) : Option Nat := out.findIdx? fun o => o.src == some i

/-- the input entry at offset `ofs` -/
def inputAt (entries : List InEntry) (ofs : Nat) : Option Nat := entries.findIdx? fun e => e.ofs == ofs

/-- every output ofs-delta points exactly at the output entry of its base: for an input ofs-delta the
entry its distance pointed at in the thin pack, for a former ref-delta an inserted base -/
def basesOk (entries : List InEntry) (out : List OutEntry) : Bool :=
  out.all fun o =>
    match o.hdr, o.src with
    | Hdr.ofs d, some i =>
      match entries[i]? with
      | some e =>
        match e.hdr with
        | Hdr.ofs d0 =>
          match inputAt entries (e.ofs - d0) with
          | some b =>
            match posOfSrc out b with
            | some p => (out[p]?.map (·.ofs)) == some (o.ofs - d) && decide (d ≤ o.ofs)
            | none => false
          | none => false
        | Hdr.ref _ => out.any fun b => b.src == none && b.ofs + d == o.ofs
        | Hdr.base => false
      | none => false
    | Hdr.ofs _, none => false
    | Hdr.ref _, _ => false
    | Hdr.base, _ => true

def parseHdr (s : String) : Option Hdr :=
  match s.toList with
  | ['b'] => some Hdr.base
  | 'o' :: r => (String.ofList r).toNat?.map Hdr.ofs
  | 'r' :: r => (String.ofList r).toNat?.map Hdr.ref
  | _ => none

def parseIn (s : String) : Option InEntry :=
  match s.splitOn ":" with
  | [o, h, hs, b, d] => do
    some { ofs := ← o.toNat?, hdr := ← parseHdr h, hsize := ← hs.toNat?, body := ← b.toNat?, dsize := ← d.toNat? }
  | _ => none

def parseOdb (s : String) : Option (Nat × Nat × Nat) :=
  match s.splitOn ":" with
  | [i, h, b] => do some (← i.toNat?, ← h.toNat?, ← b.toNat?)
  | _ => none

def showHdr : Hdr → String
  | Hdr.base => "b"
  | Hdr.ofs d => s!"o{d}"
  | Hdr.ref i => s!"r{i}"

/-- `inject <entry> … | <odb> …`: entries `ofs:hdr:hsize:body:dsize` (hdr `b`, `o<dist>`, `r<id>`), object
database entries `id:hsize:body`. Output: the entries of the resolved pack `ofs:hdr:hsize` joined by `,`
followed by ` contiguous=… bases=…`, or `notfound`. -/
def injectOp (args : List String) : Option String := do
  let (ins, rest) := args.span (· != "|")
  let odbs := rest.drop 1
  let entries ← ins.mapM parseIn
  let odbl ← odbs.mapM parseOdb
  let odb := fun id => (odbl.find? fun p => p.1 == id).map fun p => p.2
  match injectBases Fix.repaired odb entries with
  | none => some "notfound"
  | some out =>
    let b := fun (x : Bool) => if x then "1" else "0"
    let es := ",".intercalate (out.map fun o => s!"{o.ofs}:{showHdr o.hdr}:{o.hsize}")
    some s!"{es} contiguous={b (contiguous out)} bases={b (basesOk entries out)}"

end GixModel.C10
