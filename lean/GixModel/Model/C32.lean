import GixModel.Basic.Hex
import GixModel.Spec.C32
/-
C32 — model of gitoxide's fetch-refspec matching.

Rust functions modelled (all in /repo/gix-refspec/src):
  match_group/util.rs   `impl From<&BStr> for Needle` (needleOf), `Needle::matches`,
                        `Needle::to_bstr_replace` / `to_bstr`, `Match::into_match_outcome`,
                        `Matcher::matches_lhs`, `impl From<RefSpecRef> for Matcher`
  match_group/mod.rs    `MatchGroup::match_remotes` (three phases: object-id specs, positive specs ×
                        items with de-duplication, negative specs)
  match_group/validate.rs `Outcome::validated` (conflicting destinations, removal of partial destinations)
  spec.rs               `expand_partial_name`
  parse.rs              `parse(spec, Operation::Fetch)` with `gix_validate::reference::name_partial`
                        as the parameter `valid` (that function belongs to C15)

`Res α = Option α`: `none` is a Rust **panic** (slice index out of order, `unreachable!`), so that
"never panics" is a theorem (`Props.C32.match_total`). The model is the code AFTER the two `fix:`
commits recorded in known-findings.txt (length check in the glob arm, `heads/` destinations).

Assumption (named in the config): `match_remotes` de-duplicates mappings by a 64-bit SipHash of
`(lhs, rhs)`; the model de-duplicates by equality of `(lhs, rhs)`, i.e. assumes no hash collision.
-/
namespace GixModel.C32
open GixModel

/-- `none` = the Rust code panics -/
abbrev Res (α : Type) := Option α

/-- index of the first `*` (`find_byte(b'*')`) -/
def findStar : Bytes → Option Nat
  | [] => none
  | b :: rest => if b == 42 then some 0 else (findStar rest).map (· + 1)

def findColon : Bytes → Option Nat
  | [] => none
  | b :: rest => if b == 58 then some 0 else (findColon rest).map (· + 1)

/-- `slice::starts_with` -/
def startsWith (v p : Bytes) : Bool := p.isPrefixOf v

/-- `slice::ends_with` -/
def endsWith (v tail : Bytes) : Bool :=
  decide (tail.length ≤ v.length) && v.drop (v.length - tail.length) == tail

def bRefs : Bytes := [114, 101, 102, 115, 47]                       -- "refs/"
def bHeads : Bytes := [104, 101, 97, 100, 115, 47]                  -- "heads/"
def bTags : Bytes := [116, 97, 103, 115, 47]                        -- "tags/"
def bRemotes : Bytes := [114, 101, 109, 111, 116, 101, 115, 47]     -- "remotes/"
def bHEAD : Bytes := [72, 69, 65, 68]                               -- "HEAD"
def bSlashHEAD : Bytes := [47, 72, 69, 65, 68]                      -- "/HEAD"

def isHexDigit (b : UInt8) : Bool :=
  (48 ≤ b && b ≤ 57) || (97 ≤ b && b ≤ 102) || (65 ≤ b && b ≤ 70)

def lowerHexByte (b : UInt8) : UInt8 := if 65 ≤ b && b ≤ 70 then b + 32 else b

/-- lower-case hex of raw bytes as ASCII (`ObjectId::to_string`) -/
def hexAscii (id : Bytes) : Bytes :=
  id.flatMap fun b =>
    let d (n : Nat) : UInt8 := if n < 10 then UInt8.ofNat (48 + n) else UInt8.ofNat (87 + n)
    [d (b.toNat / 16), d (b.toNat % 16)]

inductive Needle where
  | full (name : Bytes)
  | part (name : Bytes)
  | glob (name : Bytes) (pos : Nat)
  /-- the object id as 40 lower-case hex digits -/
  | object (id : Bytes)
  deriving Repr, DecidableEq

/-- `impl From<&BStr> for Needle` (`ObjectId::from_hex` accepts exactly 40 hex digits of any case) -/
def needleOf (v : Bytes) : Needle :=
  match findStar v with
  | some pos => .glob v pos
  | none =>
    if startsWith v bRefs then .full v
    else if v.length == 40 && v.all isHexDigit then .object (v.map lowerHexByte)
    else .part v

structure Item where
  name : Bytes
  /-- raw object id the ref points to -/
  target : Bytes
  /-- raw id of the peeled object of an annotated tag -/
  object : Option Bytes
  deriving Repr, DecidableEq

inductive Match where
  | miss
  | normal
  | range (s e : Nat)
  deriving Repr, DecidableEq

def Match.isMatch : Match → Bool
  | .miss => false
  | _ => true

/-- `spec::expand_partial_name`: the candidates in the order they are tried -/
def expandPartial (name : Bytes) : List Bytes :=
  [ name, bRefs ++ name, bRefs ++ bTags ++ name, bRefs ++ bHeads ++ name, bRefs ++ bRemotes ++ name,
    bRefs ++ bRemotes ++ name ++ bSlashHEAD ]

/-- `Needle::matches` -/
def Needle.matches (n : Needle) (item : Item) : Match :=
  match n with
  | .full name => if name == item.name then .normal else .miss
  | .part name => if (expandPartial name).any (· == item.name) then .normal else .miss
  | .glob name pos =>
    if item.name.length < pos then .miss                         -- `get(..pos)` is `None`
    else if item.name.take pos != name.take pos then .miss
    else
      let tail := name.drop (pos + 1)
      if !endsWith item.name tail then .miss
      else if item.name.length < pos + tail.length then .miss    -- (fix: de532dfd6)
      else .range pos (item.name.length - tail.length)
  | .object id =>
    if id == hexAscii item.target then .normal
    else match item.object with
      | some o => if hexAscii o == id then .normal else .miss
      | Option.none => .miss

/-- `Needle::to_bstr_replace`; `none` = `unreachable!` or a slice panic -/
def Needle.toBstrReplace (n : Needle) (range : Option (Nat × Nat × Item)) : Res Bytes :=
  match n, range with
  | .full name, none => some name
  | .part name, none =>
    some (bRefs ++ (if startsWith name bTags || startsWith name bRemotes || startsWith name bHeads then []
                    else bHeads) ++ name)
  | .glob name pos, some (s, e, item) =>
    if s ≤ e ∧ e ≤ item.name.length then
      some (name.take pos ++ (item.name.take e).drop s ++ name.drop (pos + 1))
    else none
  | .object id, none => some (bRefs ++ bHeads ++ id)
  | .glob _ _, none => none
  | .full _, some _ => none
  | .part _, some _ => none
  | .object _, some _ => none

def Needle.toBstr (n : Needle) : Res Bytes := n.toBstrReplace none

structure Matcher where
  lhs : Option Needle
  rhs : Option Needle
  deriving Repr, DecidableEq

/-- `Match::into_match_outcome` -/
def Match.intoOutcome (m : Match) (dst : Needle) (item : Item) : Res (Bool × Option Bytes) :=
  match m with
  | .miss => some (false, Option.none)
  | .normal => (dst.toBstrReplace Option.none).map fun b => (true, some b)
  | .range s e => (dst.toBstrReplace (some (s, e, item))).map fun b => (true, some b)

/-- `Matcher::matches_lhs` -/
def Matcher.matchesLhs (m : Matcher) (item : Item) : Res (Bool × Option Bytes) :=
  match m.lhs, m.rhs with
  | some lhs, none => some ((lhs.matches item).isMatch, none)
  | some lhs, some rhs => (lhs.matches item).intoOutcome rhs item
  | none, _ => some (false, none)

inductive Mode | normal | force | negative
  deriving Repr, DecidableEq

structure RefSpec where
  mode : Mode
  src : Option Bytes
  dst : Option Bytes
  deriving Repr, DecidableEq

/-- `impl From<RefSpecRef> for Matcher` -/
def matcherOf (s : RefSpec) : Matcher := ⟨s.src.map needleOf, s.dst.map needleOf⟩

inductive Source where
  | name (n : Bytes)
  | oid (hex : Bytes)
  deriving Repr, DecidableEq

structure Mapping where
  itemIndex : Option Nat
  lhs : Source
  rhs : Option Bytes
  specIndex : Nat
  deriving Repr, DecidableEq

/-- what `impl Hash for Mapping` hashes -/
def sameKey (a b : Mapping) : Bool := a.lhs == b.lhs && a.rhs == b.rhs

/-- the `push_unique` closure -/
def pushUnique (out : List Mapping) (m : Mapping) : List Mapping :=
  if out.any (sameKey m) then out else out ++ [m]

def enumFrom {α : Type} : Nat → List α → List (Nat × α)
  | _, [] => []
  | n, a :: rest => (n, a) :: enumFrom (n + 1) rest

/-- `m.rhs.map(Needle::to_bstr)` -/
def optToBstr (rhs : Option Needle) : Res (Option Bytes) :=
  match rhs with
  | none => some none
  | some r => r.toBstr.map some

/-- phase 1: the `.map(Matcher::from).enumerate().map(..)` chain: object-id sources become
mappings right away and get no matcher -/
def phase1 : List (Nat × RefSpec) → List Mapping → Res (List Mapping × List (Option Matcher))
  | [], out => some (out, [])
  | (idx, s) :: rest, out =>
    let m := matcherOf s
    match m.lhs with
    | some (.object id) =>
      match optToBstr m.rhs with
      | none => none
      | some rhs =>
        match phase1 rest (pushUnique out ⟨none, .oid id, rhs, idx⟩) with
        | none => none
        | some (o, ms) => some (o, none :: ms)
    | _ =>
      match phase1 rest out with
      | none => none
      | some (o, ms) => some (o, some m :: ms)

/-- inner loop of phase 2: one matcher against every item -/
def phase2Items (m : Matcher) (si : Nat) : List (Nat × Item) → List Mapping → Res (List Mapping)
  | [], out => some out
  | (ii, it) :: rest, out =>
    match m.matchesLhs it with
    | none => none
    | some (matched, rhs) =>
      phase2Items m si rest (if matched then pushUnique out ⟨some ii, .name it.name, rhs, si⟩ else out)

/-- phase 2: every non-negative spec that still has a matcher -/
def phase2 : List (Nat × RefSpec × Option Matcher) → List (Nat × Item) → List Mapping → Res (List Mapping)
  | [], _, out => some out
  | (si, s, m?) :: rest, items, out =>
    if s.mode == .negative then phase2 rest items out
    else match m? with
      | none => phase2 rest items out
      | some m =>
        match phase2Items m si items out with
        | none => none
        | some out' => phase2 rest items out'

def nullId : Bytes := List.replicate 20 0

/-- `out.retain(..)` for one negative matcher -/
def retainNot (m : Matcher) : List Mapping → Res (List Mapping)
  | [] => some []
  | x :: rest =>
    match x.lhs with
    | .oid _ => (retainNot m rest).map (x :: ·)
    | .name n =>
      match m.matchesLhs ⟨n, nullId, none⟩ with
      | none => none
      | some (matched, _) => (retainNot m rest).map fun r => if matched then r else x :: r

/-- phase 3: every negative spec that has a matcher removes what it matches -/
def phase3 : List (RefSpec × Option Matcher) → List Mapping → Res (List Mapping)
  | [], out => some out
  | (s, m?) :: rest, out =>
    match m? with
    | some m =>
      if s.mode == .negative then
        match retainNot m out with
        | none => none
        | some out' => phase3 rest out'
      else phase3 rest out
    | none => phase3 rest out

/-- `MatchGroup::match_remotes` -/
def matchRemotes (specs : List RefSpec) (items : List Item) : Res (List Mapping) :=
  match phase1 (enumFrom 0 specs) [] with
  | none => none
  | some (out, matchers) =>
    match phase2 (enumFrom 0 (specs.zip matchers)) (enumFrom 0 items) out with
    | none => none
    | some out =>
      let hasNegation := specs.any (·.mode == .negative)
      if hasNegation && !items.isEmpty then phase3 (specs.zip matchers) out else some out

/-! ### `Outcome::validated` -/

def dedup {α : Type} [BEq α] : List α → List α
  | [] => []
  | a :: rest => a :: (dedup rest).filter (fun b => !(b == a))

inductive Validated where
  /-- conflicting destinations, in order of first appearance among the mappings -/
  | conflict (dsts : List Bytes)
  | ok (mappings : List Mapping) (fixes : Nat)
  deriving Repr, DecidableEq

def sourcesOf (ms : List Mapping) (dst : Bytes) : List Source :=
  dedup ((ms.filter fun m => m.rhs == some dst).map (·.lhs))

def keepDst (m : Mapping) : Bool :=
  match m.rhs with
  | none => true
  | some d => startsWith d bRefs || d == bHEAD

def validated (ms : List Mapping) : Validated :=
  let dsts := dedup (ms.filterMap (·.rhs))
  let conflicts := dsts.filter fun d => (sourcesOf ms d).length > 1
  if !conflicts.isEmpty then .conflict conflicts
  else .ok (ms.filter keepDst) ((ms.filter fun m => !keepDst m).length)

/-! ### `parse(spec, Operation::Fetch)` -/

inductive ParseErr
  | NegativeWithDestination | NegativeEmpty | NegativeObjectHash | NegativePartialName
  | NegativeGlobPattern | PatternUnsupported | PatternUnbalanced | ReferenceName
  deriving Repr, DecidableEq

def countStar (v : Bytes) : Nat := (v.filter (· == 42)).length

/-- replace the first `*` by `a` -/
def replaceFirstStar : Bytes → Bytes
  | [] => []
  | b :: rest => if b == 42 then 97 :: rest else b :: replaceFirstStar rest

/-- the inner `validated(spec, allow_revspecs = false)`: `(spec, had_pattern)` -/
def validatedSide (valid : Bytes → Bool) : Option Bytes → Except ParseErr (Option Bytes × Bool)
  | none => .ok (none, false)
  | some s =>
    if countStar s > 1 then .error .PatternUnsupported
    else if countStar s == 1 then
      if valid (replaceFirstStar s) then .ok (some s, true) else .error .ReferenceName
    else if valid s then .ok (some s, false) else .error .ReferenceName

def looksLikeObjectHash (s : Bytes) : Bool := decide (s.length ≥ 40) && s.all isHexDigit

def nonEmpty (b : Bytes) : Option Bytes := if b.isEmpty then none else some b

/-- the part of `parse` after the two sides have been split off -/
def parseFinish (valid : Bytes → Bool) (mode : Mode) (src dst : Option Bytes) : Except ParseErr RefSpec :=
  let src := if src == some [64] then some bHEAD else src            -- "@"
  match validatedSide valid src with
  | .error e => .error e
  | .ok (src, srcPat) =>
    match validatedSide valid dst with
    | .error e => .error e
    | .ok (dst, dstPat) =>
      if mode != .negative && srcPat != dstPat then .error .PatternUnbalanced
      else if mode == .negative then
        match src with
        | some s =>
          if srcPat then .error .NegativeGlobPattern
          else if looksLikeObjectHash s then .error .NegativeObjectHash
          else if !startsWith s bRefs && s != bHEAD then .error .NegativePartialName
          else .ok ⟨mode, src, dst⟩
        | none => .error .NegativeEmpty
      else .ok ⟨mode, src, dst⟩

def parseFetch (valid : Bytes → Bool) (spec0 : Bytes) : Except ParseErr RefSpec :=
  match spec0 with
  | [] => .ok ⟨.normal, some bHEAD, none⟩
  | first :: tail =>
    let mode : Mode := if first == 94 then .negative else if first == 43 then .force else .normal
    let spec : Bytes := if first == 94 || first == 43 then tail else spec0
    match findColon spec with
    | some pos =>
      if mode == .negative then .error .NegativeWithDestination
      else
        match nonEmpty (spec.take pos), nonEmpty (spec.drop (pos + 1)) with
        | none, none => parseFinish valid mode (some bHEAD) none
        | none, some d => parseFinish valid mode (some bHEAD) (some d)
        | some s, none => parseFinish valid mode (some s) none
        | some s, some d => parseFinish valid mode (some s) (some d)
    | none =>
      if mode != .negative && spec.isEmpty then .ok ⟨mode, some bHEAD, none⟩    -- `fetch_head_only(mode)`
      else parseFinish valid mode (nonEmpty spec) none

/-! ### comparison with git's side (`Spec/C32.lean`) — used by the theorems and by the driver -/

def isHex40 (v : Bytes) : Bool := v.length == 40 && v.all isHexDigit

/-- the `struct refspec_item` git's `parse_refspec` builds for the same fetch refspec
(`name = refspec->src[0] ? refspec->src : "HEAD"`; `exact_sha1`: 40 hex digits) -/
def gitItemOf (s : RefSpec) : Spec.C32.Item :=
  let src := match s.src with
    | some x => x
    | none => bHEAD
  ⟨s.mode == .negative, s.mode == .force, (findStar src).isSome, isHex40 src, src, s.dst⟩

def srcOfModel : Source → Spec.C32.Src
  | .name n => .ref n
  | .oid h => .oid h

def forceOf (specs : List RefSpec) (m : Mapping) : Bool :=
  match specs[m.specIndex]? with
  | some s => s.mode == .force
  | none => false

/-- same source, same destination and — when there is a destination to be forced — same force flag -/
def sameMap (specs : List RefSpec) (m : Mapping) (g : Spec.C32.Map) : Bool :=
  srcOfModel m.lhs == g.src && m.rhs == g.dst && (m.rhs.isNone || forceOf specs m == g.force)

/-- gitoxide's validated outcome and git's ref map describe the same set of (source, destination,
force) mappings; when git dies with "couldn't find remote ref" there is nothing to compare -/
def sameMappings (specs : List RefSpec) (v : Validated) (g : Except Spec.C32.Die (List Spec.C32.Map)) : Bool :=
  match g with
  | .error (.missing _) => true
  | .error (.conflict _) => (match v with
    | .conflict _ => true
    | .ok _ _ => false)
  | .error .noStar => false
  | .ok gm =>
    match v with
    | .conflict _ => false
    | .ok ms _ => ms.all (fun m => gm.any (sameMap specs m)) && gm.all (fun g => ms.any (fun m => sameMap specs m g))

/-- executable form of `AgreesOn` (Lemmas/C32.lean) -/
def agreesOn (validRef : Bytes → Bool) (specs : List RefSpec) (items : List Item) : Bool :=
  match matchRemotes specs items with
  | none => false
  | some ms =>
    sameMappings specs (validated ms) (Spec.C32.getRefMap validRef (items.map (·.name)) (specs.map gitItemOf))

/-! ### driver -/

def showMap (m : Mapping) : String :=
  let ii := match m.itemIndex with | none => "-" | some i => toString i
  let lhs := match m.lhs with
    | .name n => "N" ++ hexOfBytes n
    | .oid h => "O" ++ String.ofList (h.map fun (b : UInt8) => Char.ofNat b.toNat)
  let rhs := match m.rhs with | none => "~" | some r => "=" ++ hexOfBytes r
  s!"{ii}/{lhs}/{rhs}/{m.specIndex}"

def showMaps (ms : List Mapping) : String :=
  ms.foldl (fun acc m => acc ++ " " ++ showMap m) (toString ms.length)

def takeHexes : Nat → List String → Option (List Bytes × List String)
  | 0, rest => some ([], rest)
  | n + 1, x :: rest => do
    let b ← bytesOfHex x
    let (bs, rest) ← takeHexes n rest
    some (b :: bs, rest)
  | _, _ => none

def takeItems : Nat → List String → Option (List Item × List String)
  | 0, rest => some ([], rest)
  | n + 1, nm :: tg :: ob :: rest => do
    let nm ← bytesOfHex nm
    let tg ← bytesOfHex tg
    let ob ← (if ob == "~" then some none else (bytesOfHex ob).map some)
    let (is, rest) ← takeItems n rest
    some (⟨nm, tg, ob⟩ :: is, rest)
  | _, _ => none

def takeTable : Nat → List String → Option (List (Bytes × Bool) × List String)
  | 0, rest => some ([], rest)
  | n + 1, nm :: bit :: rest => do
    let nm ← bytesOfHex nm
    let b ← (if bit == "1" then some true else if bit == "0" then some false else none)
    let (t, rest) ← takeTable n rest
    some ((nm, b) :: t, rest)
  | _, _ => none

def parseAll (specs : List Bytes) : Except Nat (List RefSpec) := go specs 0
where
  go : List Bytes → Nat → Except Nat (List RefSpec)
    | [], _ => .ok []
    | s :: rest, i =>
      match parseFetch (fun _ => true) s with
      | .error _ => .error i
      | .ok p => match go rest (i + 1) with
        | .error e => .error e
        | .ok ps => .ok (p :: ps)

def showErr : ParseErr → String
  | .NegativeWithDestination => "NegativeWithDestination"
  | .NegativeEmpty => "NegativeEmpty"
  | .NegativeObjectHash => "NegativeObjectHash"
  | .NegativePartialName => "NegativePartialName"
  | .NegativeGlobPattern => "NegativeGlobPattern"
  | .PatternUnsupported => "PatternUnsupported"
  | .PatternUnbalanced => "PatternUnbalanced"
  | .ReferenceName => "ReferenceName"

def showOptBytes : Option Bytes → String
  | none => "~"
  | some b => "=" ++ hexOfBytes b

def handle? : List String → Option String
  | "match" :: ns :: rest => do
    let ns ← ns.toNat?
    let (specs, rest) ← takeHexes ns rest
    match rest with
    | ni :: rest =>
      let ni ← ni.toNat?
      let (items, rest) ← takeItems ni rest
      if !rest.isEmpty then none else
      match parseAll specs with
      | .error i => some s!"parse-error {i}"
      | .ok parsed =>
        match matchRemotes parsed items with
        | none => some "panic"
        | some ms =>
          let v := match validated ms with
            | .ok ms' fixes => s!" V ok {showMaps ms'} F {fixes}"
            | .conflict dsts => dsts.foldl (fun acc d => acc ++ " " ++ hexOfBytes d) s!" V conflict {dsts.length}"
          some (s!"M {showMaps ms}" ++ v)
    | _ => none
  | "parse" :: spec :: k :: rest => do
    let spec ← bytesOfHex spec
    let k ← k.toNat?
    let (table, rest) ← takeTable k rest
    if !rest.isEmpty then none else
    let valid (b : Bytes) : Bool := match table.find? (fun e => e.1 == b) with
      | some e => e.2
      | none => false
    match parseFetch valid spec with
    | .error e => some ("err:" ++ showErr e)
    | .ok s =>
      let mode := match s.mode with | .normal => "normal" | .force => "force" | .negative => "negative"
      some s!"ok {mode} {showOptBytes s.src} {showOptBytes s.dst}"
  | "gitmap" :: ns :: rest => do
    let ns ← ns.toNat?
    let (specs, rest) ← takeHexes ns rest
    match rest with
    | ni :: rest =>
      let ni ← ni.toNat?
      let (names, rest) ← takeHexes ni rest
      match rest with
      | k :: rest =>
        let k ← k.toNat?
        let (table, rest) ← takeTable k rest
        if !rest.isEmpty then none else
        -- destinations the harness did not see are taken to be valid ref names
        let validRef (b : Bytes) : Bool := match table.find? (fun e => e.1 == b) with
          | some e => e.2
          | none => true
        match parseAll specs with
        | .error i => some s!"parse-error {i}"
        | .ok parsed =>
          let items : List Item := names.map fun n => ⟨n, [], none⟩
          some (if agreesOn validRef parsed items then "agree" else "differ")
      | _ => none
    | _ => none
  | _ => none

def handle (args : List String) : String := (handle? args).getD "bad-op"

end GixModel.C32
