import GixModel.Basic.Tree
import GixModel.Model.C04
/-
C44 — model of `gix_diff::tree()` (/repo/gix-diff/src/tree/function.rs, with the `fix:` recorded in
known-findings.txt: a mode-only change of a non-tree entry is a modification) driving the
`Recorder` delegate (recorder.rs, `Location::Path`).

The real code is one loop over two peekable entry iterators plus a FIFO queue of sub-tree pairs
(`State::trees`) that the `Recorder` mirrors with its `path_deque`. Modelled as what it computes:
  `mergeLevel`  the merge walk over the two sorted entry lists of ONE directory: `compare` (the tree
                entry order of C03) decides between `delete_entry_schedule_recursion`,
                `add_entry_schedule_recursion` and `handle_lhs_and_rhs_with_equal_filenames`; the
                `catchup_*` helpers are this same merge with one side held back; every queue item
                carries the full path of its directory (what `path_deque` holds);
  `runLayers`   the FIFO queue, processed layer by layer (a FIFO visits all items of depth d before
                any of depth d+1, in push order), loading sub-trees with `find_tree_iter`.
`change_id`/`Relation` are threaded exactly (`Parent(n)` for the tree that starts a recursive
addition/deletion, `ChildOfParent(n)` below it).
Outcomes: `ok records` | `errFind` (a sub-tree is not in the object database) | `fuel` (depth budget
exhausted: never with `depth >` the height of the trees, see Lemmas).
-/
namespace GixModel.C44
open GixModel GixModel.Tree
open GixModel.C04 (Assoc aget)

abbrev Path := List Bytes

/-- `Option<Relation>` -/
inductive Rel where
  | none
  | parent (n : Nat)
  | child (n : Nat)
  deriving Repr, DecidableEq

/-- `recorder::Change` -/
inductive Change where
  | add (path : Path) (mode : Nat) (oid : Bytes) (rel : Rel)
  | del (path : Path) (mode : Nat) (oid : Bytes) (rel : Rel)
  | mod (path : Path) (pmode : Nat) (poid : Bytes) (mode : Nat) (oid : Bytes)
  deriving Repr, DecidableEq

/-- `TreeInfoTuple` plus the path the `Recorder` keeps for it in `path_deque` -/
structure QItem where
  path : Path
  lhs : Option Bytes
  rhs : Option Bytes
  rel : Rel
  deriving Repr, DecidableEq

/-- `to_child` -/
def toChild : Rel → Rel
  | .none => .none
  | .parent n => .child n
  | .child n => .child n

/-- what accumulates while walking: records (in order), the queue (in push order), `change_id` -/
structure Acc where
  recs : List Change
  queue : List QItem
  cid : Nat
  deriving Repr

/-- `relation_to_propagate.or_else(|| is_tree.then(|| { change_id += 1; Parent(change_id) }))` -/
def relFor (rel : Rel) (isTree : Bool) (cid : Nat) : Rel × Nat :=
  match rel with
  | .none => if isTree then (.parent (cid + 1), cid + 1) else (.none, cid)
  | r => (r, cid)

/-- `delete_entry_schedule_recursion` -/
def deleteEntry (dir : Path) (rel : Rel) (e : Entry) (acc : Acc) : Acc :=
  let r := relFor rel e.isTree acc.cid
  { recs := acc.recs ++ [.del (dir ++ [e.name]) e.mode e.oid r.1],
    queue := if e.isTree then acc.queue ++ [⟨dir ++ [e.name], some e.oid, none, toChild r.1⟩] else acc.queue,
    cid := r.2 }

/-- `add_entry_schedule_recursion` -/
def addEntry (dir : Path) (rel : Rel) (e : Entry) (acc : Acc) : Acc :=
  let r := relFor rel e.isTree acc.cid
  { recs := acc.recs ++ [.add (dir ++ [e.name]) e.mode e.oid r.1],
    queue := if e.isTree then acc.queue ++ [⟨dir ++ [e.name], none, some e.oid, toChild r.1⟩] else acc.queue,
    cid := r.2 }

/-- `handle_lhs_and_rhs_with_equal_filenames` -/
def handleEqual (dir : Path) (rel : Rel) (a b : Entry) (acc : Acc) : Acc :=
  let p := dir ++ [a.name]
  match a.isTree, b.isTree with
  | true, true =>
    { acc with
      recs := if a.oid != b.oid then acc.recs ++ [.mod p a.mode a.oid b.mode b.oid] else acc.recs,
      queue := acc.queue ++ [⟨p, some a.oid, some b.oid, rel⟩] }
  | false, true =>
    let r := relFor rel true acc.cid
    { recs := acc.recs ++ [.del p a.mode a.oid .none, .add p b.mode b.oid r.1],
      queue := acc.queue ++ [⟨p, none, some b.oid, toChild r.1⟩],
      cid := r.2 }
  | true, false =>
    let r := relFor rel true acc.cid
    { recs := acc.recs ++ [.del p a.mode a.oid r.1, .add p b.mode b.oid .none],
      queue := acc.queue ++ [⟨p, some a.oid, none, toChild r.1⟩],
      cid := r.2 }
  | false, false =>
    { acc with
      recs := if a.oid != b.oid || a.mode != b.mode then acc.recs ++ [.mod p a.mode a.oid b.mode b.oid]
              else acc.recs }

/-- the merge walk over the entries of one directory (fuel: `l.length + r.length` suffices) -/
def mergeLevel (dir : Path) (rel : Rel) : Nat → List Entry → List Entry → Acc → Acc
  | 0, _, _, acc => acc
  | _ + 1, [], [], acc => acc
  | fuel + 1, a :: l, [], acc => mergeLevel dir rel fuel l [] (deleteEntry dir rel a acc)
  | fuel + 1, [], b :: r, acc => mergeLevel dir rel fuel [] r (addEntry dir rel b acc)
  | fuel + 1, a :: l, b :: r, acc =>
    match entryCmp a b with
    | .eq => mergeLevel dir rel fuel l r (handleEqual dir rel a b acc)
    | .lt => mergeLevel dir rel fuel l (b :: r) (deleteEntry dir rel a acc)
    | .gt => mergeLevel dir rel fuel (a :: l) r (addEntry dir rel b acc)

inductive Outcome where
  | ok (recs : List Change)
  | errFind
  | fuel
  deriving Repr

/-- load the two sides of a queue item: `find_tree_iter` for every `Some(id)` -/
def loadItem (store : Assoc Bytes (List Entry)) (it : QItem) : Option (List Entry × List Entry) :=
  match it.lhs, it.rhs with
  | some l, some r =>
    match aget l store, aget r store with
    | some tl, some tr => some (tl, tr)
    | _, _ => none
  | some l, none => (aget l store).map (fun t => (t, []))
  | none, some r => (aget r store).map (fun t => ([], t))
  | none, none => some ([], [])

/-- process every item of one layer in order; `none` = a find error -/
def runLayer (store : Assoc Bytes (List Entry)) : List QItem → Acc → Option Acc
  | [], acc => some acc
  | it :: rest, acc =>
    match loadItem store it with
    | none => none
    | some (tl, tr) => runLayer store rest (mergeLevel it.path it.rel (tl.length + tr.length + 1) tl tr acc)

/-- the FIFO queue, layer by layer -/
def runLayers (store : Assoc Bytes (List Entry)) : Nat → List QItem → List Change → Nat → Outcome
  | 0, q, recs, _ => if q.isEmpty then .ok recs else .fuel
  | depth + 1, q, recs, cid =>
    if q.isEmpty then .ok recs
    else match runLayer store q ⟨recs, [], cid⟩ with
      | none => .errFind
      | some acc => runLayers store depth acc.queue acc.recs acc.cid

/-- `gix_diff::tree(lhs, rhs, state, objects, &mut Recorder::default())` -/
def diff (store : Assoc Bytes (List Entry)) (depth : Nat) (l r : List Entry) : Outcome :=
  let acc := mergeLevel [] .none (l.length + r.length + 1) l r ⟨[], [], 0⟩
  runLayers store depth acc.queue acc.recs acc.cid

/-- `tree::State` as far as results can depend on it: the work queue and `change_id` (the two
buffers only hold bytes that are overwritten before use) -/
structure DState where
  trees : List QItem
  cid : Nat
  deriving Repr

/-- `State::clear()` -/
def DState.clear (_ : DState) : DState := ⟨[], 0⟩

/-- `gix_diff::tree()` on a RE-USED state: `state.clear()` first, then the walk starts from what
is in the state. (`diff` is the same on a fresh state.) -/
def diffWith (store : Assoc Bytes (List Entry)) (depth : Nat) (st : DState) (l r : List Entry) : Outcome :=
  let st' := st.clear
  let acc := mergeLevel [] .none (l.length + r.length + 1) l r ⟨[], st'.trees, st'.cid⟩
  runLayers store depth acc.queue acc.recs acc.cid

/-! ### path tracking: the `Visit` calls of the walk and the `Recorder`

The `Visit` calls that `gix_diff::tree()` (function.rs) makes, in order, and
the `Recorder` (recorder.rs, `Location::Path`) that turns them into paths.

The walk above hands every record the full path of its entry directly (`dir ++ [name]`). The real
code never has that path: it tells the delegate to push/pop components
(`push_path_component`, `pop_path_component`), to remember the current path for a scheduled sub-tree
(`push_back_tracked_path_component`, which also pushes the component) and to restore the path of
the next queued sub-tree (`pop_front_tracked_path_and_set_current`); the `Recorder` keeps a current
`path` and a `path_deque` and stamps `path.clone()` on every change it is shown.

Transcribed here:
  `Ev`            one delegate call (`visit` carries the change WITHOUT a path, as `visit::Change`);
  `deleteEv`, `addEv`, `equalEv`   the calls of `delete_entry_schedule_recursion`,
                  `add_entry_schedule_recursion`, `handle_lhs_and_rhs_with_equal_filenames`, in order;
  `mergeLevelEv`  the calls while one directory is walked: every handler call after the first of a
                  directory is preceded by ONE `pop_path_component` (main loop: `if pop_path { .. }` at
                  the top of the iteration; `catchup_*`: the `pop_path_component()` in front of every
                  further handler call), and one more `pop` when both iterators are exhausted
                  (`pop_path` is still true in the `(None, None)` iteration unless the directory
                  was empty);
  `runLayerEv`, `runLayersEv`, `diffEv`   the queue: `pop_front_tracked_path_and_set_current` before
                  the trees of an item are loaded (so also in front of a find error), `pop_path = false`.
  `RS`, `recStep`, `runEvs`   the `Recorder`: `path` as the list of components (the real `BString` is
                  the components joined by `/`; `pop_element` cuts at the last `/`, which is the last
                  component for slash-free names), `path_deque`, `records`; `none` = the `expect`
                  in `pop_front_tracked_path_and_set_current` fails.
The walk itself (which handler runs when, `change_id`, the queue) is the one above:
the event functions recurse exactly like `mergeLevel`/`runLayer`/`runLayers`.
-/

/-- `visit::Change` (no path) -/
inductive RawChange where
  | add (mode : Nat) (oid : Bytes) (rel : Rel)
  | del (mode : Nat) (oid : Bytes) (rel : Rel)
  | mod (pmode : Nat) (poid : Bytes) (mode : Nat) (oid : Bytes)
  deriving Repr, DecidableEq

/-- `Recorder::visit`: stamp the current path -/
def RawChange.withPath (p : Path) : RawChange → Change
  | .add m o r => .add p m o r
  | .del m o r => .del p m o r
  | .mod pm po m o => .mod p pm po m o

/-- one call on the `Visit` delegate -/
inductive Ev where
  | popFront
  | pushBack (name : Bytes)
  | push (name : Bytes)
  | pop
  | visit (c : RawChange)
  deriving Repr, DecidableEq

/-- `delete_entry_schedule_recursion` -/
def deleteEv (rel : Rel) (e : Entry) (acc : Acc) : List Ev :=
  let r := relFor rel e.isTree acc.cid
  [.push e.name, .visit (.del e.mode e.oid r.1)] ++
    (if e.isTree then [.pop, .pushBack e.name] else [])

/-- `add_entry_schedule_recursion` -/
def addEv (rel : Rel) (e : Entry) (acc : Acc) : List Ev :=
  let r := relFor rel e.isTree acc.cid
  [.push e.name, .visit (.add e.mode e.oid r.1)] ++
    (if e.isTree then [.pop, .pushBack e.name] else [])

/-- `handle_lhs_and_rhs_with_equal_filenames` -/
def equalEv (rel : Rel) (a b : Entry) (acc : Acc) : List Ev :=
  match a.isTree, b.isTree with
  | true, true =>
    [.pushBack a.name] ++ (if a.oid != b.oid then [.visit (.mod a.mode a.oid b.mode b.oid)] else [])
  | false, true =>
    let r := relFor rel true acc.cid
    [.pushBack a.name, .visit (.del a.mode a.oid .none), .visit (.add b.mode b.oid r.1)]
  | true, false =>
    let r := relFor rel true acc.cid
    [.pushBack a.name, .visit (.del a.mode a.oid r.1), .visit (.add b.mode b.oid .none)]
  | false, false =>
    [.push a.name] ++
      (if a.oid != b.oid || a.mode != b.mode then [.visit (.mod a.mode a.oid b.mode b.oid)] else [])

/-- `if pop_path { delegate.pop_path_component() }` / the pop in front of a handler call in `catchup_*` -/
def prePop (popPath : Bool) : List Ev := if popPath then [.pop] else []

/-- the delegate calls while one directory is walked (same recursion as `mergeLevel`) -/
def mergeLevelEv (dir : Path) (rel : Rel) : Nat → List Entry → List Entry → Acc → Bool → List Ev
  | 0, _, _, _, _ => []
  | _ + 1, [], [], _, pp => prePop pp
  | fuel + 1, a :: l, [], acc, pp =>
    prePop pp ++ deleteEv rel a acc ++ mergeLevelEv dir rel fuel l [] (deleteEntry dir rel a acc) true
  | fuel + 1, [], b :: r, acc, pp =>
    prePop pp ++ addEv rel b acc ++ mergeLevelEv dir rel fuel [] r (addEntry dir rel b acc) true
  | fuel + 1, a :: l, b :: r, acc, pp =>
    match entryCmp a b with
    | .eq => prePop pp ++ equalEv rel a b acc ++ mergeLevelEv dir rel fuel l r (handleEqual dir rel a b acc) true
    | .lt => prePop pp ++ deleteEv rel a acc ++ mergeLevelEv dir rel fuel l (b :: r) (deleteEntry dir rel a acc) true
    | .gt => prePop pp ++ addEv rel b acc ++ mergeLevelEv dir rel fuel (a :: l) r (addEntry dir rel b acc) true

/-- the delegate calls for the items of one layer (same recursion as `runLayer`) -/
def runLayerEv (store : Assoc Bytes (List Entry)) : List QItem → Acc → List Ev
  | [], _ => []
  | it :: rest, acc =>
    match loadItem store it with
    | none => [.popFront]
    | some (tl, tr) =>
      [.popFront] ++ mergeLevelEv it.path it.rel (tl.length + tr.length + 1) tl tr acc false ++
        runLayerEv store rest (mergeLevel it.path it.rel (tl.length + tr.length + 1) tl tr acc)

/-- the delegate calls for the whole queue (same recursion as `runLayers`) -/
def runLayersEv (store : Assoc Bytes (List Entry)) : Nat → List QItem → List Change → Nat → List Ev
  | 0, _, _, _ => []
  | depth + 1, q, recs, cid =>
    if q.isEmpty then []
    else runLayerEv store q ⟨recs, [], cid⟩ ++
      (match runLayer store q ⟨recs, [], cid⟩ with
       | none => []
       | some acc => runLayersEv store depth acc.queue acc.recs acc.cid)

/-- all delegate calls of `gix_diff::tree(lhs, rhs, ..)` -/
def diffEv (store : Assoc Bytes (List Entry)) (depth : Nat) (l r : List Entry) : List Ev :=
  let acc := mergeLevel [] .none (l.length + r.length + 1) l r ⟨[], [], 0⟩
  mergeLevelEv [] .none (l.length + r.length + 1) l r ⟨[], [], 0⟩ false ++
    runLayersEv store depth acc.queue acc.recs acc.cid

/-- the `Recorder` (`Location::Path`) -/
structure RS where
  path : Path
  deque : List Path
  recs : List Change
  deriving Repr, DecidableEq

/-- one delegate call on the `Recorder` -/
def recStep (rs : RS) : Ev → Option RS
  | .popFront =>
    match rs.deque with
    | p :: d => some { rs with path := p, deque := d }
    | [] => none   -- expect("every parent is set only once")
  | .pushBack n => some { rs with path := rs.path ++ [n], deque := rs.deque ++ [rs.path ++ [n]] }
  | .push n => some { rs with path := rs.path ++ [n] }
  | .pop => some { rs with path := rs.path.dropLast }
  | .visit c => some { rs with recs := rs.recs ++ [c.withPath rs.path] }

def runEvs : RS → List Ev → Option RS
  | rs, [] => some rs
  | rs, e :: es =>
    match recStep rs e with
    | none => none
    | some rs' => runEvs rs' es

/-! #### the `Recorder` on the real representation: `path: BString`, components joined by `/` -/

/-- `Recorder::pop_element`: `if let Some(pos) = path.rfind_byte(b'/') { path.resize(pos, 0) } else { path.clear() }` -/
def popElem (b : Bytes) : Bytes :=
  match b.reverse.dropWhile (fun x => x != 47) with
  | [] => []
  | _ :: r => r.reverse

/-- the `Recorder` with its `BString`s (`push_element` is `C04.pushPath`: a `/` unless empty, then the name) -/
structure RSB where
  path : Bytes
  deque : List Bytes
  recs : List (RawChange × Bytes)
  deriving Repr, DecidableEq

def recStepB (rs : RSB) : Ev → Option RSB
  | .popFront =>
    match rs.deque with
    | p :: d => some { rs with path := p, deque := d }
    | [] => none
  | .pushBack n =>
    some { rs with path := C04.pushPath rs.path n, deque := rs.deque ++ [C04.pushPath rs.path n] }
  | .push n => some { rs with path := C04.pushPath rs.path n }
  | .pop => some { rs with path := popElem rs.path }
  | .visit c => some { rs with recs := rs.recs ++ [(c, rs.path)] }

def runEvsB : RSB → List Ev → Option RSB
  | rs, [] => some rs
  | rs, e :: es =>
    match recStepB rs e with
    | none => none
    | some rs' => runEvsB rs' es

/-- a record of the model as the real `recorder::Change`: the path-less change and the path bytes -/
def Change.toB : Change → RawChange × Bytes
  | .add p m o r => (.add m o r, C04.joinPath p)
  | .del p m o r => (.del m o r, C04.joinPath p)
  | .mod p pm po m o => (.mod pm po m o, C04.joinPath p)

/-! ### driver -/

def relStr : Rel → String
  | .none => "-"
  | .parent n => s!"P{n}"
  | .child n => s!"C{n}"

def pathHex (p : Path) : String := hexOfBytes (C04.joinPath p)

def changeStr : Change → String
  | .add p m o r => s!"A:{pathHex p}:{C04.octStr m}:{hexOfBytes o}:{relStr r}"
  | .del p m o r => s!"D:{pathHex p}:{C04.octStr m}:{hexOfBytes o}:{relStr r}"
  | .mod p pm po m o => s!"M:{pathHex p}:{C04.octStr pm}:{hexOfBytes po}:{C04.octStr m}:{hexOfBytes o}"

def evStr : Ev → String
  | .popFront => "F"
  | .pushBack n => s!"B:{hexOfBytes n}"
  | .push n => s!"P:{hexOfBytes n}"
  | .pop => "O"
  | .visit (.add m o r) => s!"VA:{C04.octStr m}:{hexOfBytes o}:{relStr r}"
  | .visit (.del m o r) => s!"VD:{C04.octStr m}:{hexOfBytes o}:{relStr r}"
  | .visit (.mod pm po m o) => s!"VM:{C04.octStr pm}:{hexOfBytes po}:{C04.octStr m}:{hexOfBytes o}"

def takeTrees : Nat → List String → Option (Assoc Bytes (List Entry) × List String)
  | 0, rest => some ([], rest)
  | k + 1, id :: n :: rest => do
    let id ← bytesOfHex id
    let n ← n.toNat?
    let (es, rest) ← C04.takeEntries n rest
    let (ts, rest) ← takeTrees k rest
    some ((id, es) :: ts, rest)
  | _, _ => none

/-- one step of a sequence of diffs on one state: `n` plain, `c<j>` the delegate cancels at its
`j`-th change (0-based), `h<id>` tree `id` is missing from the object database for this diff -/
def stepObs (store : Assoc Bytes (List Entry)) (st : DState) (a b : Bytes) (flag : String) : Option (String × DState) := do
  let hidden : Option Bytes ← (if flag.startsWith "h" then (bytesOfHex (flag.drop 1).toString).map some else some none)
  let store' := match hidden with
    | some h => store.filter (fun kv => kv.1 != h)
    | none => store
  match aget a store', aget b store' with
  | some ta, some tb =>
    -- what an aborted diff leaves behind in the state: (an over-approximation of) its queue
    let left := mergeLevel [] .none (ta.length + tb.length + 1) ta tb ⟨[], [], 0⟩
    let st2 : DState := ⟨left.queue, left.cid⟩
    let show_ (recs : List Change) : String :=
      if recs.isEmpty then "none" else String.intercalate "," (recs.map changeStr)
    match diffWith store' (store.length + 1) st ta tb with
    | .ok recs =>
      if flag.startsWith "c" then do
        let j ← (flag.drop 1).toString.toNat?
        if j < recs.length then some (s!"cancel:{show_ (recs.take (j + 1))}", st2)
        else some (show_ recs, ⟨[], 0⟩)
      else some (show_ recs, ⟨[], 0⟩)
    | .errFind => some ("err:find", st2)
    | .fuel => some ("fuel", st2)
  | _, _ => some ("err:root", st)

def runSteps (store : Assoc Bytes (List Entry)) : Nat → DState → List String → List String → Option (List String)
  | 0, _, toks, acc => if toks.isEmpty then some acc else none
  | _ + 1, _, [], acc => some acc
  | fuel + 1, st, a :: b :: flag :: rest, acc => do
    let a ← bytesOfHex a
    let b ← bytesOfHex b
    let (o, st') ← stepObs store st a b flag
    runSteps store fuel st' rest (acc ++ [o])
  | _, _, _, _ => none

def handle? : List String → Option String
  | "s" :: k :: rest => do
    let k ← k.toNat?
    let (store, rest) ← takeTrees k rest
    let obs ← runSteps store (rest.length + 1) ⟨[], 0⟩ rest []
    some (String.intercalate "|" obs)
  | "d" :: k :: rest => do
    let k ← k.toNat?
    let (store, rest) ← takeTrees k rest
    match rest with
    | [a, b] =>
      let a ← bytesOfHex a
      let b ← bytesOfHex b
      match aget a store, aget b store with
      | some ta, some tb =>
        match diff store (store.length + 1) ta tb with
        | .ok recs => some (if recs.isEmpty then "none" else String.intercalate "," (recs.map changeStr))
        | .errFind => some "err:find"
        | .fuel => some "fuel"
      | _, _ => some "err:root"
    | _ => none
  | "e" :: k :: rest => do
    -- the delegate calls themselves, in order (`!err`: the walk ended with an error)
    let k ← k.toNat?
    let (store, rest) ← takeTrees k rest
    match rest with
    | [a, b] =>
      let a ← bytesOfHex a
      let b ← bytesOfHex b
      match aget a store, aget b store with
      | some ta, some tb =>
        let evs := (diffEv store (store.length + 1) ta tb).map evStr
        let evs := match diff store (store.length + 1) ta tb with
          | .ok _ => evs
          | _ => evs ++ ["!err"]
        some (if evs.isEmpty then "none" else String.intercalate "," evs)
      | _, _ => some "err:root"
    | _ => none
  | _ => none

def handle (args : List String) : String := (handle? args).getD "bad-op"

end GixModel.C44
