/-
C12 (liveness) — the retry loop of `Handle::contains` / `try_find` with the counters that decide when it
gives up, as a small-step transition system for any number of handles and any interleaving:

  `load_one_index`      `loi` (read the published index, compare the marker), then `load_next_index`:
                        `lnStart` (`previous_state_id`), `announce` (`IncOnNewAndDecOnDrop::new`), `claim`
                        (`next_index_to_load.fetch_update`), `load` (the critical section: load the index,
                        `loaded_indices.fetch_add(1)`, guard dropped), `wait` (the spin on
                        `num_indices_currently_being_loaded`), `lnEnd` (state id changed? index replaced?)
  `consolidate_with_disk_state`  `cons`: ONE atomic event (the directory listing and the publication of a new
                        `SlotMapIndex`; it holds `Store::write`, what matters here is its net effect)
  the final comparison of the marker (`recheck`), `collect_snapshot` (`collLoad`: `self.index.load()`;
  `collMarker`: the wait for running loads is over, read the marker; `collRead`: read the slots), the search of the snapshot (`scan`).
Index objects are never freed here (fresh `ptr`s; the real state id is a CRC of pointer and count — pointer
reuse and CRC collisions are not modelled).  Slots are abstracted to the index files they hold (slot reuse
and generations are the subject of `Model/C12Core.lean`); loose objects, packs and `RefreshMode::Never` are
left out: a lookup here is for an object in an index file.  `num_indices_currently_being_loaded != 0` is
modelled by what it stands for: some thread is between its announcement and the end of its load.

`Cfg`: `announceFirst` — the load is announced before the index is claimed (/repo e8b782f1a; before, a thread
was invisible between claim and announcement), `recheckMarker` — `load_one_index` compares the marker once
more before it reports that nothing changed (/repo eab114340).

The environment adds complete index files under fresh names (`envAdd`) and removes files (`envRemove`);
`alive` of a handle is ghost state: the files containing the requested object that have been on disk ever
since the lookup started.
-/
namespace GixModel.C12.Live

structure Cfg where
  announceFirst : Bool
  recheckMarker : Bool
  deriving DecidableEq, Repr

def Cfg.fixed : Cfg := { announceFirst := true, recheckMarker := true }

structure IdxObj where
  files : List Nat
  claimed : Nat
  loaded : Nat
  init : Bool
  /-- ghost: positions whose load attempt is complete -/
  done : List Nat
  deriving DecidableEq, Repr

def IdxObj.empty : IdxObj := { files := [], claimed := 0, loaded := 0, init := false, done := [] }

inductive Pc
  | idle
  | scan
  | loi
  | lnStart (ix : Nat)
  | lnInner (ix prev : Nat)           -- top of `'retry_with_next_slot_index`
  | lnClaim (ix prev : Nat)           -- about to `fetch_update`
  | lnLate (ix prev k : Nat)          -- claimed `k`, not announced yet (only without `announceFirst`)
  | lnLoad (ix prev k : Nat)          -- claimed `k`, announced: inside the critical section
  | lnWait (ix prev : Nat)
  | lnEnd (ix prev : Nat)
  | cons (ix : Nat)
  | recheck (ix : Nat)
  | collLoad
  | collWait (ix : Nat)
  | collRead (ix : Nat)
  | found
  | notFound
  deriving DecidableEq, Repr

structure H where
  pc : Pc
  mPtr : Nat
  mLoaded : Nat
  snap : List Nat
  obj : Nat
  /-- ghost: files holding `obj` that were on disk during the whole lookup so far -/
  alive : List Nat
  deriving DecidableEq, Repr

def H.fresh : H := { pc := Pc.idle, mPtr := 0, mLoaded := 0, snap := [], obj := 0, alive := [] }

structure S where
  cfg : Cfg
  /-- index files on disk, in listing order -/
  disk : List Nat
  /-- the objects of every file that ever existed (files are immutable, names are never reused) -/
  fileObjs : Nat → List Nat
  nextFile : Nat
  objs : Nat → IdxObj
  nObjs : Nat
  pub : Nat
  loadedFiles : List Nat
  hs : Nat → H
  nH : Nat

def S.init (cfg : Cfg) : S :=
  { cfg := cfg, disk := [], fileObjs := fun _ => [], nextFile := 0, objs := fun _ => IdxObj.empty, nObjs := 1,
    pub := 0, loadedFiles := [], hs := fun _ => H.fresh, nH := 0 }

inductive Ev
  | envAdd (objs : List Nat)
  | envRemove (f : Nat)
  | newHandle
  | start (h o : Nat)
  | scan (h : Nat)
  | loi (h : Nat)
  | lnStart (h : Nat)
  | announce (h : Nat)
  | claim (h : Nat)
  | load (h : Nat)
  | wait (h : Nat)
  | lnEnd (h : Nat)
  | cons (h : Nat)
  | recheck (h : Nat)
  | collLoad (h : Nat)
  | collMarker (h : Nat)
  | collRead (h : Nat)
  deriving DecidableEq, Repr

def setAt {α : Type} (f : Nat → α) (i : Nat) (a : α) : Nat → α := fun j => if j = i then a else f j

def S.setH (s : S) (h : Nat) (x : H) : S := { s with hs := setAt s.hs h x }
def S.setObj (s : S) (p : Nat) (x : IdxObj) : S := { s with objs := setAt s.objs p x }

/-- is thread `h` between its announcement and the end of its load on index object `ix`? -/
def announced (cfg : Cfg) (pc : Pc) (ix : Nat) : Bool :=
  match pc with
  | Pc.lnClaim i _ => cfg.announceFirst && i == ix
  | Pc.lnLoad i _ _ => i == ix
  | _ => false

/-- `num_indices_currently_being_loaded == 0` -/
def quiet (s : S) (ix : Nat) : Bool := (List.range s.nH).all fun h => !announced s.cfg (s.hs h).pc ix

def holds (s : S) (f o : Nat) : Bool := (s.fileObjs f).contains o

def step (s : S) : Ev → Option S
  | Ev.envAdd objs =>
    some { s with disk := s.disk ++ [s.nextFile], fileObjs := setAt s.fileObjs s.nextFile objs,
                  nextFile := s.nextFile + 1 }
  | Ev.envRemove f =>
    if s.disk.contains f then
      some { s with disk := s.disk.filter (· != f),
                    hs := fun h => { s.hs h with alive := (s.hs h).alive.filter (· != f) } }
    else none
  | Ev.newHandle => some { s with nH := s.nH + 1 }
  | Ev.start h o =>
    let x := s.hs h
    if h < s.nH ∧ (x.pc = Pc.idle ∨ x.pc = Pc.found ∨ x.pc = Pc.notFound) then
      some (s.setH h { x with pc := Pc.scan, obj := o, alive := s.disk.filter fun f => holds s f o })
    else none
  | Ev.scan h =>
    let x := s.hs h
    if x.pc = Pc.scan then
      if x.snap.any fun f => holds s f x.obj then some (s.setH h { x with pc := Pc.found })
      else some (s.setH h { x with pc := Pc.loi })
    else none
  | Ev.loi h =>
    let x := s.hs h
    if x.pc = Pc.loi then
      let ix := s.objs s.pub
      if !ix.init then some (s.setH h { x with pc := Pc.cons s.pub })
      else if x.mPtr != s.pub || x.mLoaded != ix.loaded then some (s.setH h { x with pc := Pc.collLoad })
      else some (s.setH h { x with pc := Pc.lnStart s.pub })
    else none
  | Ev.lnStart h =>
    let x := s.hs h
    match x.pc with
    | Pc.lnStart ix => some (s.setH h { x with pc := Pc.lnInner ix (s.objs ix).loaded })
    | _ => none
  | Ev.announce h =>
    let x := s.hs h
    match x.pc with
    | Pc.lnInner ix prev => some (s.setH h { x with pc := Pc.lnClaim ix prev })
    | Pc.lnLate ix prev k => if s.cfg.announceFirst then none else some (s.setH h { x with pc := Pc.lnLoad ix prev k })
    | _ => none
  | Ev.claim h =>
    let x := s.hs h
    match x.pc with
    | Pc.lnClaim ix prev =>
      let o := s.objs ix
      if o.claimed < o.files.length then
        some ((s.setObj ix { o with claimed := o.claimed + 1 }).setH h
          { x with pc := if s.cfg.announceFirst then Pc.lnLoad ix prev o.claimed else Pc.lnLate ix prev o.claimed })
      else some (s.setH h { x with pc := Pc.lnWait ix prev })
    | _ => none
  | Ev.load h =>
    let x := s.hs h
    match x.pc with
    | Pc.lnLoad ix prev k =>
      let o := s.objs ix
      let f := o.files.getD k 0
      let already := s.loadedFiles.contains f
      let ok := already || s.disk.contains f
      let s1 := { (s.setObj ix { o with loaded := o.loaded + 1, done := k :: o.done }) with
                  loadedFiles := if ok && !already then f :: s.loadedFiles else s.loadedFiles }
      some (s1.setH h { x with pc := if ok then Pc.lnEnd ix prev else Pc.lnInner ix prev })
    | _ => none
  | Ev.wait h =>
    let x := s.hs h
    match x.pc with
    | Pc.lnWait ix prev => if quiet s ix then some (s.setH h { x with pc := Pc.lnEnd ix prev }) else none
    | _ => none
  | Ev.lnEnd h =>
    let x := s.hs h
    match x.pc with
    | Pc.lnEnd ix prev =>
      if prev != (s.objs ix).loaded then some (s.setH h { x with pc := Pc.collLoad })
      else if s.pub != ix then some (s.setH h { x with pc := Pc.lnStart s.pub })
      else some (s.setH h { x with pc := Pc.cons ix })
    | _ => none
  | Ev.cons h =>
    let x := s.hs h
    match x.pc with
    | Pc.cons ix =>
      if s.pub != ix then some (s.setH h { x with pc := Pc.collLoad })
      else
        let o := s.objs ix
        if o.init && o.files == s.disk then
          some (s.setH h { x with pc := if s.cfg.recheckMarker then Pc.recheck ix else Pc.notFound })
        else
          let kept := s.loadedFiles.filter fun f => s.disk.contains f
          let n : IdxObj := { files := s.disk, claimed := 0, loaded := (s.disk.filter fun f => kept.contains f).length,
                              init := true, done := [] }
          some ({ (s.setObj s.nObjs n) with pub := s.nObjs, nObjs := s.nObjs + 1, loadedFiles := kept }.setH h
            { x with pc := Pc.collLoad })
    | _ => none
  | Ev.recheck h =>
    let x := s.hs h
    match x.pc with
    | Pc.recheck _ =>
      if x.mPtr != s.pub || x.mLoaded != (s.objs s.pub).loaded then some (s.setH h { x with pc := Pc.collLoad })
      else some (s.setH h { x with pc := Pc.notFound })
    | _ => none
  | Ev.collLoad h =>
    let x := s.hs h
    if x.pc = Pc.collLoad then some (s.setH h { x with pc := Pc.collWait s.pub }) else none
  | Ev.collMarker h =>
    let x := s.hs h
    match x.pc with
    | Pc.collWait ix =>
      if quiet s ix then some (s.setH h { x with pc := Pc.collRead ix, mPtr := ix, mLoaded := (s.objs ix).loaded })
      else none
    | _ => none
  | Ev.collRead h =>
    let x := s.hs h
    match x.pc with
    | Pc.collRead ix =>
      some (s.setH h { x with pc := Pc.scan, snap := (s.objs ix).files.filter fun f => s.loadedFiles.contains f })
    | _ => none

def run (s : S) : List Ev → Option S
  | [] => some s
  | e :: es =>
    match step s e with
    | some s' => run s' es
    | none => none

end GixModel.C12.Live
