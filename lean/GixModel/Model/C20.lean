import GixModel.Basic.Hex
/-
C20 — Reference updates are crash-consistent.  MODEL.

A POSIX-like file system with atomic `create`, `append`, `rename`, `unlink`, `mkdir`, `rmdir`
(`Fs`, `FsOp.apply`), and `txnSteps S txn`: the list of file-system mutations a reference
transaction performs, in the order of the real code, for `PackedRefs::DeletionsOnly` (the default
mode) on a `Store.at` store (no namespace, no worktree) with `WriteReflog::Normal`:

  gix-ref/src/store/file/transaction/prepare.rs   prepare_inner, lock_ref_and_apply_change
      packed-refs exists → `buffer_into_transaction` locks `packed-refs.lock` (the "global lock");
      per edit: without global lock a `<ref>.lock` is created (parent directories first); an update
      writes the new value into `<ref>.lock`
  gix-ref/src/store/file/transaction/commit.rs    commit_inner
      1. per update: reflog line appended (gix-ref/src/store/file/loose/reflog.rs — leading
         directories and the log file are auto-created for refs/heads, refs/remotes, refs/notes), then
         `gix_lock::Marker::commit` → `gix_tempfile::Handle::persist` = rename(`<ref>.lock`, `<ref>`)
      2. per deletion: reflog unlinked, empty log directories removed upward (below `logs/`)
      3. `packed::Transaction::commit`: the remaining records are written to `packed-refs.lock` which is
         renamed over `packed-refs`; if none remain `packed-refs` is unlinked and the lock dropped;
         without any packed deletion the lock is just dropped
      4. per deletion: the loose file is unlinked, its lock dropped (unlinked, empty parent directories
         removed upward, never `refs` itself)
  gix-lock/src/acquire.rs, gix-tempfile (create_dir::all, remove_dir::empty_upward_until_boundary)

Only *successful* mutations are steps (an `unlink` of a missing reflog or a `mkdir` of an existing
directory is not). Writes are steps at the granularity of `write(2)` calls: `chunk` splits what is
written to a file into the pieces of the individual calls (any splitting).
-/
namespace GixModel.C20
open GixModel

abbrev Path := Bytes
abbrev Name := Bytes

inductive Entry where
  | file (c : Bytes)
  | dir
  deriving DecidableEq, Repr

/-- a file system: what is at a path (relative to the git dir) -/
abbrev Fs := Path → Option Entry

inductive FsOp where
  | create (p : Path)              -- open(O_CREAT): an empty file appears
  | append (p : Path) (bs : Bytes) -- one write(2) at the end of the file
  | rename (src dst : Path)        -- atomic replace
  | unlink (p : Path)
  | mkdir (p : Path)
  | rmdir (p : Path)
  deriving DecidableEq, Repr

def upd (fs : Fs) (p : Path) (v : Option Entry) : Fs := fun q => if q = p then v else fs q

def FsOp.apply : FsOp → Fs → Fs
  | .create p, fs => match fs p with
    | none => upd fs p (some (.file []))
    | _ => fs
  | .append p bs, fs => match fs p with
    | some (.file c) => upd fs p (some (.file (c ++ bs)))
    | _ => fs
  | .rename s d, fs => match fs s with
    | some (.file c) => match fs d with
      | some .dir => fs
      | _ => upd (upd fs s none) d (some (.file c))
    | _ => fs
  | .unlink p, fs => match fs p with
    | some (.file _) => upd fs p none
    | _ => fs
  | .mkdir p, fs => match fs p with
    | none => upd fs p (some .dir)
    | _ => fs
  | .rmdir p, fs => match fs p with
    | some .dir => upd fs p none
    | _ => fs

def applyAll (ops : List FsOp) (fs : Fs) : Fs := ops.foldl (fun s o => o.apply s) fs

def fileAt (fs : Fs) (p : Path) : Option Bytes :=
  match fs p with
  | some (.file c) => some c
  | _ => none

/-! ### the ref store -/

inductive Target where
  | id (hex : Bytes)
  | sym (t : Name)
  deriving DecidableEq, Repr

inductive Edit where
  | update (n : Name) (new : Target)
  | delete (n : Name)
  deriving DecidableEq, Repr

def Edit.name : Edit → Name
  | .update n _ => n
  | .delete n => n

/-- the finite description of the initial state the generator works from -/
structure Store where
  loose : List (Name × Target)          -- loose ref files
  packed : Option (List (Name × Bytes)) -- `none`: no packed-refs file; else its records (name, hex id)
  logs : List Name                      -- refs with a reflog file
  dirs : List Path                      -- all directories
  /-- what the reflog files hold initially (by path); irrelevant for the steps -/
  logContent : Path → Bytes := fun _ => []

def lockSuffix : Bytes := [46, 108, 111, 99, 107]                          -- ".lock"
def packedPath : Path := [112, 97, 99, 107, 101, 100, 45, 114, 101, 102, 115]  -- "packed-refs"
def logsDir : Path := [108, 111, 103, 115]                                 -- "logs"
def refsDir : Path := [114, 101, 102, 115]                                 -- "refs"
def lockPath (p : Path) : Path := p ++ lockSuffix
def logPath (n : Name) : Path := logsDir ++ 47 :: n

/-- what gitoxide writes into a loose ref file: the hex id (no newline) or `ref: <name>\n` -/
def renderRef : Target → Bytes
  | .id h => h
  | .sym t => [114, 101, 102, 58, 32] ++ t ++ [10]

/-- `packed::transaction::HEADER_LINE` -/
def packedHeader : Bytes :=
  [35, 32, 112, 97, 99, 107, 45, 114, 101, 102, 115, 32, 119, 105, 116, 104, 58, 32, 112, 101, 101, 108, 101, 100, 32,
   102, 117, 108, 108, 121, 45, 112, 101, 101, 108, 101, 100, 32, 115, 111, 114, 116, 101, 100, 32, 10]

def renderRecord (r : Name × Bytes) : Bytes := r.2 ++ 32 :: r.1 ++ [10]

def renderPacked (rs : List (Name × Bytes)) : Bytes := packedHeader ++ rs.flatMap renderRecord

def Store.toFs (s : Store) : Fs := fun p =>
  match s.loose.find? (fun x => x.1 = p) with
  | some x => some (.file (renderRef x.2))
  | none =>
    if p = packedPath then s.packed.map fun rs => .file (renderPacked rs)
    else if s.logs.any (fun n => logPath n = p) then some (.file (s.logContent p))
    else if s.dirs.contains p then some .dir
    else none

/-! ### the generator's bookkeeping (which files and directories exist right now) -/

structure G where
  files : List Path
  dirs : List Path
  deriving Repr

def G.step (g : G) : FsOp → G
  | .create p => { g with files := if g.files.contains p then g.files else p :: g.files }
  | .append _ _ => g
  | .rename s d => { g with files := d :: (g.files.filter fun q => q != s && q != d) }
  | .unlink p => { g with files := g.files.filter (· != p) }
  | .mkdir p => { g with dirs := if g.dirs.contains p then g.dirs else p :: g.dirs }
  | .rmdir p => { g with dirs := g.dirs.filter (· != p) }

def G.steps (g : G) (ops : List FsOp) : G := ops.foldl G.step g

def isUnder (d p : Path) : Bool := (d ++ [47]).isPrefixOf p

def G.dirEmpty (g : G) (d : Path) : Bool := !(g.files.any (isUnder d)) && !(g.dirs.any (isUnder d))

/-- the proper ancestors of a path, outermost first: `a/b/c` → `[a, a/b]` -/
def parentsAux : Bytes → Bytes → List Path
  | [], _ => []
  | b :: rest, acc => if b = 47 then acc.reverse :: parentsAux rest (b :: acc) else parentsAux rest (b :: acc)

def parents (p : Path) : List Path := parentsAux p []

def parentOf (p : Path) : Path := (parents p).getLast?.getD []

/-- `gix_fs::dir::create::all`: the missing ancestors and the directory itself, outermost first -/
def mkdirAll (g : G) (dir : Path) : List FsOp :=
  ((parents dir ++ [dir]).filter fun d => !d.isEmpty && !g.dirs.contains d).map .mkdir

/-- `remove_dir::empty_upward_until_boundary`: remove `dir` and its ancestors while they are empty,
stopping before `boundary` -/
def rmdirUpAux (g : G) : List Path → List FsOp
  | [] => []
  | d :: up => if g.dirs.contains d && g.dirEmpty d then .rmdir d :: rmdirUpAux (g.step (.rmdir d)) up else []

def rmdirUp (g : G) (dir boundary : Path) : List FsOp :=
  rmdirUpAux g ((parents dir ++ [dir]).reverse.takeWhile fun d => d != boundary && !d.isEmpty)

/-- writing `bs` to `p` with the `write(2)` calls `chunk bs` -/
def writeOps (chunk : Bytes → List Bytes) (p : Path) (bs : Bytes) : List FsOp :=
  (chunk bs).map (.append p)

/-! ### the transaction -/

def Store.looseOf (s : Store) (n : Name) : Option Target := (s.loose.find? fun x => x.1 = n).map (·.2)

def Store.packedOf (s : Store) (n : Name) : Option Bytes :=
  match s.packed with
  | some rs => (rs.find? fun x => x.1 = n).map (·.2)
  | none => none

/-- the value a reader sees: the loose file, else the packed record -/
def Store.valueOf (s : Store) (n : Name) : Option Target :=
  match s.looseOf n with
  | some t => some t
  | none => (s.packedOf n).map .id

/-- packed-refs exists: the packed transaction (global lock) is created for any edit below `refs/` -/
def Store.hasGlobalLock (s : Store) (txn : List Edit) : Bool := s.packed.isSome && !txn.isEmpty

/-- names the packed transaction deletes: deletions that are present in the buffer -/
def Store.packedDeletions (s : Store) (txn : List Edit) : List Name :=
  txn.filterMap fun e => match e with
    | .delete n => if (s.packedOf n).isSome then some n else none
    | _ => none

def Store.remaining (s : Store) (txn : List Edit) : List (Name × Bytes) :=
  (s.packed.getD []).filter fun r => !(s.packedDeletions txn).contains r.1

/-- `should_autocreate_reflog` -/
def autoLog (n : Name) : Bool :=
  ([114, 101, 102, 115, 47, 104, 101, 97, 100, 115, 47] : Bytes).isPrefixOf n ||          -- refs/heads/
  ([114, 101, 102, 115, 47, 114, 101, 109, 111, 116, 101, 115, 47] : Bytes).isPrefixOf n ||  -- refs/remotes/
  ([114, 101, 102, 115, 47, 110, 111, 116, 101, 115, 47] : Bytes).isPrefixOf n               -- refs/notes/

/-- the reflog line: `<old> <new> <committer>\t<message>\n`; only its length matters here -/
def logLine (old new sig msg : Bytes) : Bytes := old ++ 32 :: new ++ 32 :: sig ++ 9 :: msg ++ [10]

def nullId : Bytes := List.replicate 40 48

structure Cfg where
  chunk : Bytes → List Bytes
  sig : Bytes
  msg : Bytes

/-- the directory below which lock cleanup never removes anything: `refs` if it existed when the
transaction was prepared, else the git dir itself (the empty path) -/
def boundaryOf (s : Store) : Path := if s.dirs.contains refsDir then refsDir else []

/-- prepare: the lock of one edit -/
def prepEdit (c : Cfg) (global : Bool) (g : G) : Edit → List FsOp
  | .delete n => if global then [] else mkdirAll g (parentOf n) ++ [.create (lockPath n)]
  | .update n new =>
    mkdirAll g (parentOf n) ++ [.create (lockPath n)] ++ writeOps c.chunk (lockPath n) (renderRef new)

def prepEdits (c : Cfg) (global : Bool) : G → List Edit → List FsOp
  | _, [] => []
  | g, e :: es =>
    let ops := prepEdit c global g e
    ops ++ prepEdits c global (g.steps ops) es

def oldIdOf (s : Store) (n : Name) : Option Bytes :=
  match s.valueOf n with
  | some (.id o) => some o
  | _ => none

/-- `reflog_create_or_append` for an update of `n` to the object `h`: nothing if the value does
not change; the log file (and its directories) are auto-created for branches, remotes and notes,
else the line is only appended to an existing log -/
def reflogOps (c : Cfg) (s : Store) (g : G) (n : Name) (h : Bytes) : List FsOp :=
  if oldIdOf s n = some h then [] else
  if autoLog n then
    mkdirAll g (parentOf (logPath n)) ++
      ((if g.files.contains (logPath n) then [] else [FsOp.create (logPath n)]) ++
        [FsOp.append (logPath n) (logLine ((oldIdOf s n).getD nullId) h c.sig c.msg)])
  else if g.files.contains (logPath n) then
    [FsOp.append (logPath n) (logLine ((oldIdOf s n).getD nullId) h c.sig c.msg)]
  else []

/-- commit step 1 for one edit: reflog, then the rename -/
def commitUpdate (c : Cfg) (s : Store) (g : G) : Edit → List FsOp
  | .delete _ => []
  | .update n (.sym _) => [.rename (lockPath n) n]
  | .update n (.id h) => reflogOps c s g n h ++ [.rename (lockPath n) n]

def commitUpdates (c : Cfg) (s : Store) : G → List Edit → List FsOp
  | _, [] => []
  | g, e :: es =>
    let ops := commitUpdate c s g e
    ops ++ commitUpdates c s (g.steps ops) es

/-- commit step 2 for one edit: reflog deletion -/
def logDelete (g : G) : Edit → List FsOp
  | .update _ _ => []
  | .delete n =>
    if g.files.contains (logPath n) then
      let g' := g.step (.unlink (logPath n))
      .unlink (logPath n) :: rmdirUp g' (parentOf (logPath n)) logsDir
    else []

def logDeletes : G → List Edit → List FsOp
  | _, [] => []
  | g, e :: es =>
    let ops := logDelete g e
    ops ++ logDeletes (g.steps ops) es

/-- commit step 3: the packed-refs transaction -/
def packedCommit (c : Cfg) (s : Store) (txn : List Edit) : List FsOp :=
  if !s.hasGlobalLock txn then [] else
  if (s.packedDeletions txn).isEmpty then [.unlink (lockPath packedPath)] else
  let rest := s.remaining txn
  writeOps c.chunk (lockPath packedPath) (renderPacked rest) ++
    (if rest.isEmpty then [.unlink packedPath, .unlink (lockPath packedPath)]
     else [.rename (lockPath packedPath) packedPath])

/-- commit step 4 for one edit: loose deletion and lock drop -/
def looseDelete (s : Store) (global : Bool) (g : G) : Edit → List FsOp
  | .update _ _ => []
  | .delete n =>
    let a := if (s.looseOf n).isSome then [FsOp.unlink n] else []
    let g1 := g.steps a
    if global then a else
    let b := [FsOp.unlink (lockPath n)]
    let g2 := g1.steps b
    a ++ b ++ rmdirUp g2 (parentOf n) (boundaryOf s)

def looseDeletes (s : Store) (global : Bool) : G → List Edit → List FsOp
  | _, [] => []
  | g, e :: es =>
    let ops := looseDelete s global g e
    ops ++ looseDeletes s global (g.steps ops) es

def Store.g0 (s : Store) : G :=
  { files := s.loose.map (·.1) ++ (if s.packed.isSome then [packedPath] else []) ++ s.logs.map logPath,
    dirs := s.dirs }

/-- all file-system mutations of `prepare` + `commit`, in order -/
def txnSteps (c : Cfg) (s : Store) (txn : List Edit) : List FsOp :=
  let global := s.hasGlobalLock txn
  let g0 := s.g0
  let p0 := if global then [FsOp.create (lockPath packedPath)] else []
  let g1 := g0.steps p0
  let p1 := prepEdits c global g1 txn
  let g2 := g1.steps p1
  let c1 := commitUpdates c s g2 txn
  let g3 := g2.steps c1
  let c2 := logDeletes g3 txn
  let g4 := g3.steps c2
  let c3 := packedCommit c s txn
  let g5 := g4.steps c3
  let c4 := looseDeletes s global g5 txn
  p0 ++ p1 ++ c1 ++ c2 ++ c3 ++ c4

/-- the steps of `prepare` (locks) -/
def prepSteps (c : Cfg) (s : Store) (txn : List Edit) : List FsOp :=
  let global := s.hasGlobalLock txn
  let p0 := if global then [FsOp.create (lockPath packedPath)] else []
  p0 ++ prepEdits c global (s.g0.steps p0) txn

/-- the part of `txnSteps` that belongs to `commit` -/
def commitSteps (c : Cfg) (s : Store) (txn : List Edit) : List FsOp :=
  (txnSteps c s txn).drop (prepSteps c s txn).length

/-! ### the packed-refs update modes (correspondence only; the theorems are about `txnSteps`) -/

/-- `PackedRefs::{DeletionsOnly, DeletionsAndNonSymbolicUpdates,
DeletionsAndNonSymbolicUpdatesRemoveLooseSourceReference}` -/
inductive Mode where
  | d | u | r
  deriving DecidableEq, Repr

def Edit.isObj : Edit → Bool
  | .update _ (.id _) => true
  | _ => false

/-- the packed transaction exists: always when an object update goes to packed-refs (the file is
created if need be), else as in the default mode -/
def Store.hasGlobalLockM (s : Store) (m : Mode) (txn : List Edit) : Bool :=
  match m with
  | .d => s.hasGlobalLock txn
  | _ => txn.any Edit.isObj || s.hasGlobalLock txn

def prepEditM (m : Mode) (c : Cfg) (global : Bool) (g : G) : Edit → List FsOp
  | .update n (.id h) => if m = .r && global then [] else prepEdit c global g (.update n (.id h))
  | e => prepEdit c global g e

def prepEditsM (m : Mode) (c : Cfg) (global : Bool) : G → List Edit → List FsOp
  | _, [] => []
  | g, e :: es =>
    let ops := prepEditM m c global g e
    ops ++ prepEditsM m c global (g.steps ops) es

def commitUpdateM (m : Mode) (c : Cfg) (s : Store) (g : G) : Edit → List FsOp
  | .update n (.id h) => reflogOps c s g n h ++ (if m = .r then [] else [.rename (lockPath n) n])
  | e => commitUpdate c s g e

def commitUpdatesM (m : Mode) (c : Cfg) (s : Store) : G → List Edit → List FsOp
  | _, [] => []
  | g, e :: es =>
    let ops := commitUpdateM m c s g e
    ops ++ commitUpdatesM m c s (g.steps ops) es

/-- `Ord for BStr` as `<` -/
def ltBytes : Bytes → Bytes → Bool
  | [], [] => false
  | [], _ :: _ => true
  | _ :: _, [] => false
  | a :: as, b :: bs => if a.toNat < b.toNat then true else if b.toNat < a.toNat then false else ltBytes as bs

def insertRec (r : Name × Bytes) : List (Name × Bytes) → List (Name × Bytes)
  | [] => [r]
  | x :: xs => if ltBytes r.1 x.1 then r :: x :: xs else x :: insertRec r xs

def objUpdates (txn : List Edit) : List (Name × Bytes) :=
  txn.filterMap fun e => match e with
    | .update n (.id h) => some (n, h)
    | _ => none

def deleteNames (txn : List Edit) : List Name :=
  txn.filterMap fun e => match e with
    | .delete n => some n
    | _ => none

/-- the object updates that go to packed-refs -/
def upsOf (m : Mode) (txn : List Edit) : List (Name × Bytes) := if m = .d then [] else objUpdates txn

/-- the deletions the packed transaction keeps: those present in the buffer — if there is a buffer -/
def delsOf (s : Store) (txn : List Edit) : List Name :=
  if s.packed.isSome then s.packedDeletions txn else deleteNames txn

/-- the records `packed::Transaction::commit` writes: the old ones that are neither deleted nor
updated, merged with the updates, in name order -/
def Store.remainingM (s : Store) (m : Mode) (txn : List Edit) : List (Name × Bytes) :=
  let kept := (s.packed.getD []).filter fun r =>
    !(deleteNames txn).contains r.1 && !((upsOf m txn).map (·.1)).contains r.1
  (upsOf m txn).foldl (fun acc u => insertRec u acc) kept

def packedCommitM (m : Mode) (c : Cfg) (s : Store) (txn : List Edit) : List FsOp :=
  if !s.hasGlobalLockM m txn then [] else
  if (upsOf m txn).isEmpty && (delsOf s txn).isEmpty then [.unlink (lockPath packedPath)] else
  writeOps c.chunk (lockPath packedPath) (renderPacked (s.remainingM m txn)) ++
    (if (s.remainingM m txn).isEmpty then [.unlink packedPath, .unlink (lockPath packedPath)]
     else [.rename (lockPath packedPath) packedPath])

def looseDeleteM (m : Mode) (s : Store) (global : Bool) (g : G) : Edit → List FsOp
  | .update n (.id _) => if m = .r && (s.looseOf n).isSome then [.unlink n] else []
  | e => looseDelete s global g e

def looseDeletesM (m : Mode) (s : Store) (global : Bool) : G → List Edit → List FsOp
  | _, [] => []
  | g, e :: es =>
    let ops := looseDeleteM m s global g e
    ops ++ looseDeletesM m s global (g.steps ops) es

/-- the steps in any of the three modes -/
def txnStepsM (m : Mode) (c : Cfg) (s : Store) (txn : List Edit) : List FsOp :=
  let global := s.hasGlobalLockM m txn
  let g0 := s.g0
  let p0 := if global then [FsOp.create (lockPath packedPath)] else []
  let g1 := g0.steps p0
  let p1 := prepEditsM m c global g1 txn
  let g2 := g1.steps p1
  let c1 := commitUpdatesM m c s g2 txn
  let g3 := g2.steps c1
  let c2 := logDeletes g3 txn
  let g4 := g3.steps c2
  let c3 := packedCommitM m c s txn
  let g5 := g4.steps c3
  let c4 := looseDeletesM m s global g5 txn
  p0 ++ p1 ++ c1 ++ c2 ++ c3 ++ c4

/-! ### line protocol -/

def parseList (s : String) : List String := if s == "-" then [] else s.splitOn ","

def parseTarget (v : String) : Target :=
  if v.startsWith "@" then .sym (bytesOfString (v.drop 1).toString) else .id (bytesOfString v)

def parseLoose (e : String) : Option (Name × Target) :=
  match e.splitOn ":" with
  | [n, v] => some (bytesOfString n, parseTarget v)
  | _ => none

def parsePackedRec (e : String) : Option (Name × Bytes) :=
  match e.splitOn ":" with
  | [n, v] => some (bytesOfString n, bytesOfString v)
  | _ => none

def parseEdit (e : String) : Option Edit :=
  match e.splitOn ":" with
  | ["U", n, v] => some (.update (bytesOfString n) (parseTarget v))
  | ["D", n] => some (.delete (bytesOfString n))
  | _ => none

def showOp : FsOp → String
  | .create p => "create:" ++ asciiOfBytes p
  | .append p bs => "append:" ++ asciiOfBytes p ++ ":" ++ toString bs.length
  | .rename s d => "rename:" ++ asciiOfBytes s ++ ":" ++ asciiOfBytes d
  | .unlink p => "unlink:" ++ asciiOfBytes p
  | .mkdir p => "mkdir:" ++ asciiOfBytes p
  | .rmdir p => "rmdir:" ++ asciiOfBytes p

/-- committer `C <c@example.com> 1700000000 +0000`, message `c20` (what the harness child uses) -/
def driverCfg : Cfg :=
  { chunk := fun bs => if bs.isEmpty then [] else [bs],
    sig := bytesOfString "C <c@example.com> 1700000000 +0000",
    msg := bytesOfString "c20" }

/-- the model covers effective updates of refs below `refs/` with distinct names -/
def supported (s : Store) (txn : List Edit) : Bool :=
  txn.all (fun e => ([114, 101, 102, 115, 47] : Bytes).isPrefixOf e.name &&
    match e with
    | .update n new => s.valueOf n != some new
    | .delete _ => true) &&
  (txn.map Edit.name).eraseDups.length == txn.length

def handle? : List String → Option String
  | [op, l, p, lg, d, e] => do
    let mode ← match op with
      | "steps" => some Mode.d
      | "stepsu" => some Mode.u
      | "stepsr" => some Mode.r
      | _ => none
    let loose ← (parseList l).mapM parseLoose
    let packed ← if p == "none" then some none else ((parseList p).mapM parsePackedRec).map some
    let s : Store := { loose, packed, logs := (parseList lg).map bytesOfString, dirs := (parseList d).map bytesOfString }
    let txn ← (parseList e).mapM parseEdit
    if !supported s txn then some "unsupported" else
    let ops := txnStepsM mode driverCfg s txn
    some (if ops.isEmpty then "-" else " ".intercalate (ops.map showOp))
  | _ => none

def handle (args : List String) : String := (handle? args).getD "bad-op"

end GixModel.C20
