/-
C54 — model of `gix_fsck::Connectivity::{check_commit, check_tree, check_blob}` (gix-fsck/src/lib.rs)
over a finite object store.

  db.find_commit(id) is Ok      ⇔ `get db id = some (.commit t)`
  db.find_tree(id) is Ok        ⇔ `get db id = some (.tree es)`   (any other case — missing,
                                   other kind, undecodable — calls `missing_cb(id, Tree)`)
  db.exists(id)                 ⇔ `get db id ≠ none`
  `seen: HashSet<ObjectId>`     → `St.seen : List Id` (membership only)
  `tree_ids: VecDeque<ObjectId>`→ `St.queue : List Id` (push_back = append, pop_front = head)
  `missing_cb` calls            → `St.cbs` (newest first)

The `while let Some(tree_id) = tree_ids.pop_front()` loop runs on explicit fuel; `fuelFor db` is
proved to be always enough (`Lemmas/C54.lean`), `Outcome.outOfFuel` is therefore unreachable.
The type of ids is a parameter (anything with decidable equality); the driver uses `Nat`.
-/
namespace GixModel.C54

/-- `EntryKind` as `check_tree` distinguishes it: `Tree`; `Blob | BlobExecutable | Link`; `Commit` -/
inductive EKind
  | tree
  | blob
  | commit
  deriving DecidableEq, Repr

inductive Obj (Id : Type)
  | commit (tree : Id)
  | tree (entries : List (EKind × Id))
  | blob
  deriving Repr

/-- the object database: a finite association list, first match wins -/
abbrev Store (Id : Type) := List (Id × Obj Id)

variable {Id : Type} [DecidableEq Id]

def get : Store Id → Id → Option (Obj Id)
  | [], _ => none
  | (k, o) :: rest, id => if k = id then some o else get rest id

/-- `gix_object::Kind` as passed to the callback -/
inductive CbKind
  | tree
  | blob
  deriving DecidableEq, Repr

structure St (Id : Type) where
  seen : List Id
  queue : List Id
  /-- `missing_cb` invocations, newest first -/
  cbs : List (Id × CbKind)

/-- the `for entry_ref in tree.entries.iter()` loop of `check_tree` -/
def checkEntries (db : Store Id) : List (EKind × Id) → St Id → St Id
  | [], st => st
  | (EKind.tree, y) :: es, st => checkEntries db es { st with queue := st.queue ++ [y] }
  | (EKind.blob, y) :: es, st =>
    if y ∈ st.seen then checkEntries db es st
    else
      checkEntries db es
        { st with seen := y :: st.seen
                  cbs := if (get db y).isNone then (y, CbKind.blob) :: st.cbs else st.cbs }
  | (EKind.commit, _) :: es, st => checkEntries db es st

/-- `check_tree(oid, tree_ids)` -/
def checkTree (db : Store Id) (oid : Id) (st : St Id) : St Id :=
  match get db oid with
  | some (Obj.tree es) => checkEntries db es st
  | _ => { st with cbs := (oid, CbKind.tree) :: st.cbs }

/-- `while let Some(tree_id) = tree_ids.pop_front() { if seen.insert(tree_id) { check_tree(..) } }`;
the `Bool` says whether the loop ended by itself (queue empty) -/
def loop (db : Store Id) : Nat → St Id → St Id × Bool
  | 0, st => (st, st.queue.isEmpty)
  | fuel + 1, st =>
    match st.queue with
    | [] => (st, true)
    | x :: q =>
      if x ∈ st.seen then loop db fuel { st with queue := q }
      else loop db fuel (checkTree db x { st with seen := x :: st.seen, queue := q })

/-- enough iterations for any walk over `db`: one per queue element ever pushed -/
def weight : Store Id → Nat
  | [] => 0
  | (_, Obj.tree es) :: rest => es.length + 2 + weight rest
  | _ :: rest => weight rest

def fuelFor (db : Store Id) : Nat := weight db + 2

inductive Outcome
  | ok
  | err          -- `find_commit` failed: the commit is missing or not a commit
  | outOfFuel    -- proved unreachable
  deriving DecidableEq, Repr

/-- `Connectivity::check_commit(oid)` -/
def checkCommit (db : Store Id) (oid : Id) (st : St Id) : St Id × Outcome :=
  if oid ∈ st.seen then (st, .ok)
  else
    let st1 := { st with seen := oid :: st.seen }
    match get db oid with
    | some (Obj.commit t) =>
      let r := loop db (fuelFor db) { st1 with queue := [t] }
      (r.1, if r.2 then .ok else .outOfFuel)
    | _ => (st1, .err)

def St.init : St Id := { seen := [], queue := [], cbs := [] }

/-- one `Connectivity` instance used for several commits (oldest first); outcomes newest first -/
def checkCommits (db : Store Id) : List Id → St Id → St Id × List Outcome
  | [], st => (st, [])
  | c :: cs, st =>
    let r := checkCommit db c st
    let r2 := checkCommits db cs r.1
    (r2.1, r2.2 ++ [r.2])

/-! ### driver (ids are `Nat`) -/

def parseEntry (s : String) : Option (EKind × Nat) :=
  match s.toList with
  | 't' :: r => (String.ofList r).toNat?.map (EKind.tree, ·)
  | 'b' :: r => (String.ofList r).toNat?.map (EKind.blob, ·)
  | 'c' :: r => (String.ofList r).toNat?.map (EKind.commit, ·)
  | _ => none

def parseObj (s : String) : Option (Nat × Obj Nat) :=
  match s.toList with
  | 'B' :: r => (String.ofList r).toNat?.map (·, Obj.blob)
  | 'C' :: r =>
    match (String.ofList r).splitOn ":" with
    | [a, b] => do
      let a ← a.toNat?
      let b ← b.toNat?
      some (a, Obj.commit b)
    | _ => none
  | 'T' :: r =>
    match (String.ofList r).splitOn ":" with
    | [a, b] => do
      let a ← a.toNat?
      let es ← if b == "-" then some [] else (b.splitOn ",").mapM parseEntry
      some (a, Obj.tree es)
    | _ => none
  | _ => none

def showCb : Nat × CbKind → String
  | (i, .tree) => s!"{i}:tree"
  | (i, .blob) => s!"{i}:blob"

def showOutcome : Outcome → String
  | .ok => "ok" | .err => "err" | .outOfFuel => "out-of-fuel"

def splitAtCheck : List String → List String → Option (List String × List String)
  | [], _ => none
  | "check" :: rest, acc => some (acc.reverse, rest)
  | x :: rest, acc => splitAtCheck rest (x :: acc)

def handle? : List String → Option String
  | "fsck" :: rest => do
    let (objs, commits) ← splitAtCheck rest []
    let db ← objs.mapM parseObj
    let cs ← commits.mapM String.toNat?
    let r := checkCommits db cs St.init
    let outs := r.2.reverse.map showOutcome
    let cbs := r.1.cbs.reverse.map showCb
    some (s!"{if outs.isEmpty then "-" else ",".intercalate outs}|{if cbs.isEmpty then "-" else ",".intercalate cbs}")
  | _ => none

def handle (args : List String) : String := (handle? args).getD "bad-op"

end GixModel.C54
