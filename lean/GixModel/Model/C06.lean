import GixModel.Basic.Hex
import GixModel.Model.C06Core
import GixModel.Model.C06b
import GixModel.Model.C06m
import GixModel.Model.C06e
import GixModel.Model.C06f
import GixModel.Model.C02
import GixModel.Model.C05
import GixModel.Model.C14
import GixModel.Model.C15
import GixModel.Model.C19
import GixModel.Model.C21
import GixModel.Model.C24
import GixModel.Model.C26
import GixModel.Model.C27
import GixModel.Model.C29
import GixModel.Model.C35
import GixModel.Model.C53
import GixModel.Model.C57
/-
C06 — untrusted bytes never crash a parser.

This file holds
 (1) C06's OWN models of small, panic-prone parser cores that no other property models with their
     panic sites made explicit:
       gix_object::decode::loose_header                       gix-object/src/lib.rs
       gix_utils::btoi::{to_signed, to_unsigned} for u64      gix-utils/src/btoi.rs
       tree::ref_iter::{mode_from_decimal, decode::fast_entry, decode::tree}, TreeRefIter::next
                                                              gix-object/src/tree/ref_iter.rs
       gix_bitmap::ewah::{decode, Vec::for_each_set_bit}      gix-bitmap/src/{ewah.rs,lib.rs}
       gix_features::decode::leb64, gix_pack::data::delta::decode_header_size
                                                              gix-features/src/decode.rs, gix-pack/src/data/delta.rs
     Every slice `&a[i..j]`, `split_at`, index `a[i]`, `expect`/`unwrap`, and every checked
     arithmetic operation (the harness is built with overflow checks) is an explicit `panic`
     branch, loops run on explicit fuel and running out of fuel is the outcome `hang`; "never
     panics, never hangs" is then a theorem (Props/C06.lean), not an artefact of totality.
     `usize` counters that only count bytes of the input (always ≤ the slice length) are `Nat`.
 (2) the line protocol `handle` of the correspondence driver, which answers, per entry point and
     input, `ok` / `err` / `panic` from the models that exist — these own ones and, READ-ONLY, the
     models of C02, C05, C15, C19, C21, C24, C26, C27, C29, C35, C57 — and `nopanic` for the entry points
     whose model is the trivial one ("returns a value or an error").
-/
namespace GixModel.C06
open GixModel

/-! ### `gix_utils::btoi` for `u64` -/

def u64Max : Nat := 18446744073709551615

/-- `char::to_digit(10)` -/
def decDigit (b : UInt8) : Option Nat := if 48 ≤ b ∧ b ≤ 57 then some (b.toNat - 48) else none

/-- the digit loop of `to_unsigned_with_radix::<u64>(_, 10)`: `checked_mul`, `checked_add` -/
def unsignedLoop : Nat → Bytes → Option Nat
  | acc, [] => some acc
  | acc, d :: ds =>
    match decDigit d with
    | none => none
    | some x =>
      if acc * 10 > u64Max then none
      else if acc * 10 + x > u64Max then none
      else unsignedLoop (acc * 10 + x) ds

def toUnsigned (bs : Bytes) : Option Nat := if bs.isEmpty then none else unsignedLoop 0 bs

/-- the digit loop of the `-` arm of `to_signed_with_radix::<u64>`: `checked_mul`, `checked_sub` -/
def negLoop : Nat → Bytes → Option Nat
  | acc, [] => some acc
  | acc, d :: ds =>
    match decDigit d with
    | none => none
    | some x =>
      if acc * 10 > u64Max then none
      else if acc * 10 < x then none
      else negLoop (acc * 10 - x) ds

/-- `to_signed::<u64>`; `bytes[0]` and `&bytes[1..]` sit behind the emptiness test -/
def toSignedU64 : Bytes → Option Nat
  | [] => none
  | b :: rest =>
    if b = 43 then toUnsigned rest
    else if b = 45 then (if rest.isEmpty then none else negLoop 0 rest)
    else toUnsigned (b :: rest)

/-! ### `gix_object::decode::loose_header` -/

inductive Kind | tree | blob | commit | tag
  deriving Repr, DecidableEq

/-- `Kind::from_bytes` -/
def kindFromBytes (s : Bytes) : Option Kind :=
  if s = [116, 114, 101, 101] then some .tree
  else if s = [98, 108, 111, 98] then some .blob
  else if s = [99, 111, 109, 109, 105, 116] then some .commit
  else if s = [116, 97, 103] then some .tag
  else none

/-- `loose_header(input)`: `(kind, size, consumed)` -/
def looseHeader (input : Bytes) : Res (Kind × Nat × Nat) :=
  match findByte 32 input with
  | none => .err
  | some kindEnd =>
    match sliceTo input kindEnd with                      -- &input[..kind_end]
    | none => .panic
    | some k =>
      match kindFromBytes k with
      | none => .err
      | some kind =>
        match findByte 0 input with
        | none => .err
        | some sizeEnd =>
          match slice input (kindEnd + 1) sizeEnd with    -- &input[kind_end + 1..size_end]
          | none => .panic
          | some sizeBytes =>
            match toSignedU64 sizeBytes with
            | none => .err
            | some size => .ok (kind, size, sizeEnd + 1)

/-! ### tree entries -/

def u32Mod : Nat := 4294967296

/-- the loop of `mode_from_decimal` over the bytes before the first space: `(mode, spacer_pos)`;
`mode = (mode << 3) + u32::from(b - b'0')` — the shift drops high bits silently, the addition
is overflow-checked -/
def modeLoop : Nat → Nat → Bytes → Res (Nat × Nat)
  | mode, pos, [] => .ok (mode, pos)
  | mode, pos, b :: bs =>
    if b = 32 then .ok (mode, pos)
    else if b < 48 ∨ b > 55 then .err
    else
      let shifted := mode * 8 % u32Mod
      if shifted + (b.toNat - 48) ≥ u32Mod then .panic
      else modeLoop (shifted + (b.toNat - 48)) (pos + 1) bs

/-- `mode_from_decimal` -/
def modeFromDecimal (i : Bytes) : Res (Nat × Bytes) :=
  match modeLoop 0 1 i with
  | .ok (mode, spacerPos) =>
    if i.length < spacerPos then .err
    else match splitAt i spacerPos with                   -- i.split_at(spacer_pos)
      | none => .panic
      | some (_, rest) => .ok (mode, rest)
  | .err => .err
  | .panic => .panic
  | .hang => .hang

/-- `EntryMode::try_from(u32)` -/
def entryModeOk (m : Nat) : Bool :=
  m = 16384 || m = 40960 || m = 57344 || (m / 32768 % 2 = 1)

structure Entry where
  mode : Nat
  filename : Bytes
  oid : Bytes
  deriving Repr, DecidableEq

/-- `decode::fast_entry`: `(rest, entry)` -/
def fastEntry (i : Bytes) : Res (Bytes × Entry) :=
  match modeFromDecimal i with
  | .err => .err
  | .panic => .panic
  | .hang => .hang
  | .ok (mode, i) =>
    if !entryModeOk mode then .err
    else match findByte 0 i with
      | none => .err
      | some nul =>
        match splitAt i nul with                          -- i.split_at(i.find_byte(0)?)
        | none => .panic
        | some (filename, i) =>
          match sliceFrom i 1 with                        -- &i[1..]
          | none => .panic
          | some i =>
            if i.length < 20 then .err
            else match splitAt i 20 with                  -- i.split_at(20)
              | none => .panic
              | some (oid, rest) =>
                if oid.length ≠ 20 then .panic            -- oid::try_from_bytes(oid).expect(..)
                else .ok (rest, { mode := mode % 65536, filename, oid })

/-- `decode::tree` (the loop `while !i.is_empty()`) and likewise `TreeRefIter` run to its end;
fuel = number of loop iterations allowed -/
def treeLoop : Nat → Bytes → Res (List Entry)
  | 0, _ => .hang
  | fuel + 1, i =>
    if i.isEmpty then .ok []
    else match fastEntry i with
      | .err => .err
      | .panic => .panic
      | .hang => .hang
      | .ok (rest, e) =>
        match treeLoop fuel rest with
        | .ok es => .ok (e :: es)
        | .err => .err
        | .panic => .panic
        | .hang => .hang

/-- `TreeRef::from_bytes` / `TreeRefIter::from_bytes(..).collect()` -/
def treeDecode (i : Bytes) : Res (List Entry) := treeLoop (i.length + 1) i

/-! ### `ObjectRef::from_loose` -/

/-- `ObjectRef::from_loose(data)`: the header, `&data[offset..]`, `.get(..size)`, then the body as
the announced kind. Commits and tags go to C02's decoders (total functions, `none` = error), trees
to the loop above, a blob is its bytes. -/
def fromLoose (data : Bytes) : Res Unit :=
  match looseHeader data with
  | .err => .err | .panic => .panic | .hang => .hang
  | .ok (kind, size, offset) =>
    match sliceFrom data offset with                      -- &data[offset..]
    | none => .panic
    | some rest =>
      if size > rest.length then .err                     -- .get(..size)
      else
        let body := rest.take size
        match kind with
        | .blob => .ok ()
        | .tree => (match treeDecode body with
            | .ok _ => .ok () | .err => .err | .panic => .panic | .hang => .hang)
        | .commit => if (C02.parseCommit body).isSome then .ok () else .err
        | .tag => if (C02.parseTag body).isSome then .ok () else .err

/-! ### EWAH bitmaps -/

def be (bs : Bytes) : Nat := bs.foldl (fun acc b => acc * 256 + b.toNat) 0

/-- `decode::u32`: `split_at_pos(data, 4)` then `u32::from_be_bytes(num.try_into().unwrap())` -/
def readU32 (d : Bytes) : Res (Nat × Bytes) :=
  if d.length < 4 then .err
  else match splitAt d 4 with
    | none => .panic
    | some (num, rest) => if num.length ≠ 4 then .panic else .ok (be num, rest)

/-- the loop `for _ in 0..len { bits.split_at(8); u64::from_be_bytes(..try_into().unwrap()) }` -/
def readWords : Nat → Bytes → Res (List Nat)
  | 0, _ => .ok []
  | n + 1, bits =>
    match splitAt bits 8 with
    | none => .panic
    | some (w, rest) =>
      if w.length ≠ 8 then .panic
      else match readWords n rest with
        | .ok ws => .ok (be w :: ws)
        | .err => .err
        | .panic => .panic
        | .hang => .hang

structure Ewah where
  numBits : Nat
  words : List Nat
  rlw : Nat
  deriving Repr, DecidableEq

def usizeMod : Nat := 18446744073709551616

/-- `ewah::decode` -/
def ewahDecode (data : Bytes) : Res (Ewah × Bytes) :=
  match readU32 data with
  | .err => .err | .panic => .panic | .hang => .hang
  | .ok (numBits, data) =>
    match readU32 data with
    | .err => .err | .panic => .panic | .hang => .hang
    | .ok (len, data) =>
      if len * 8 ≥ usizeMod then .panic                   -- len * size_of::<u64>()
      else if data.length < len * 8 then .err             -- split_at_pos
      else match splitAt data (len * 8) with
        | none => .panic
        | some (bits, data) =>
          match readWords len bits with
          | .err => .err | .panic => .panic | .hang => .hang
          | .ok ws =>
            match readU32 data with
            | .err => .err | .panic => .panic | .hang => .hang
            | .ok (rlw, data) => .ok ({ numBits, words := ws, rlw }, data)

/-- how `for_each_set_bit` ended: `Some(())`, or `None` (the consumer stopped, the literal count
overran the words, or `usize::try_from` failed) -/
inductive BitsEnd | done | stopped
  deriving Repr, DecidableEq

/-- the 64 bits of one literal word from bit `k` on, for a consumer that answers `None` for every
index `> limit`: `for bit_index in 0..64 { if word & (1 << bit_index) != 0 { f(index)? } index += 1 }` -/
def literalBits (limit : Nat) (w : Nat) : Nat → Nat → Nat → Res (Option Nat)
  | 0, _, index => .ok (some index)
  | n + 1, k, index =>
    if w / 2 ^ k % 2 = 1 ∧ index > limit then .ok none    -- f(index)? = None
    else if index + 1 ≥ usizeMod then .panic              -- index += 1
    else literalBits limit w n (k + 1) (index + 1)

/-- `for _ in 0..rlw_literal_words(word) { let word = iter.next()?; … }`: remaining words + index,
`none` = ended with `None` -/
def literals (limit : Nat) : Nat → List Nat → Nat → Res (Option (List Nat × Nat))
  | 0, ws, index => .ok (some (ws, index))
  | _ + 1, [], _ => .ok none                               -- iter.next()? (after the repair ddb0ff09e)
  | n + 1, w :: ws, index =>
    match literalBits limit w 64 0 index with
    | .ok none => .ok none
    | .ok (some index') => literals limit n ws index'
    | .err => .err | .panic => .panic | .hang => .hang

/-- a run of `len` set bits: `for _ in 0..len { f(index)?; index += 1 }` in closed form for the
consumer that stops at the first index `> limit` (at most `limit + 2` callbacks happen) -/
def runOnes (limit len index : Nat) : Res (Option Nat) :=
  if len = 0 then .ok (some index)
  else if index + len - 1 > limit then .ok none            -- some f(index + k) answers None
  else if index + len ≥ usizeMod then .panic               -- index += 1 overflows on the way
  else .ok (some (index + len))

/-- `for_each_set_bit(f)` for `f = |i| if i > limit { None } else { Some(()) }`; fuel = number of
run-length words that may be visited (`words.length + 1` is enough) -/
def bitsLoop (limit : Nat) : Nat → List Nat → Nat → Res BitsEnd
  | 0, _, _ => .hang
  | _ + 1, [], _ => .ok .done
  | fuel + 1, w :: ws, index =>
    let runLen := w / 2 % 4294967296 * 64                  -- rlw_running_len_bits
    let lit := w / 8589934592                              -- rlw_literal_words
    let afterRun : Res (Option Nat) :=
      if w % 2 = 1 then runOnes limit runLen index
      else if index + runLen ≥ usizeMod then .panic        -- index += usize::try_from(..).ok()?
      else .ok (some (index + runLen))
    match afterRun with
    | .err => .err | .panic => .panic | .hang => .hang
    | .ok none => .ok .stopped
    | .ok (some index) =>
      match literals limit lit ws index with
      | .err => .err | .panic => .panic | .hang => .hang
      | .ok none => .ok .stopped
      | .ok (some (rest, index')) => bitsLoop limit fuel rest index'

def forEachSetBit (e : Ewah) (limit : Nat) : Res BitsEnd :=
  bitsLoop limit (e.words.length + 1) e.words 0

/-- what the harness does with a bitmap: decode, then iterate with a consumer that stops beyond
`min(num_bits, 65536)` -/
def ewahRun (data : Bytes) : Res Unit :=
  match ewahDecode data with
  | .err => .err | .panic => .panic | .hang => .hang
  | .ok (e, _) =>
    match forEachSetBit e (min e.numBits 65536) with
    | .panic => .panic | .hang => .hang
    | _ => .ok ()

/-! ### variable-length integers of packs (index without checks: the CALLER owes a precondition) -/

/-- `gix_features::decode::leb64(d)`: `(value, consumed)`; `d[i]` past the end, the
`debug_assert!(i <= 10)` and the u64 arithmetic are panics. fuel = bytes that may be looked at. -/
def leb64Loop : Nat → Bytes → Nat → Nat → Res (Nat × Nat)
  | 0, _, _, _ => .hang
  | _ + 1, [], _, _ => .panic                              -- d[i]
  | fuel + 1, c :: d, value, i =>
    if i + 1 > 10 then .panic                              -- debug_assert!(i <= 10)
    else if value + 1 > u64Max then .panic                 -- value += 1
    else if (value + 1) * 128 % usizeMod + c.toNat % 128 > u64Max then .panic
    else
      let v := (value + 1) * 128 % usizeMod + c.toNat % 128
      if c.toNat / 128 = 1 then leb64Loop fuel d v (i + 1) else .ok (v, i + 1)

def leb64 : Bytes → Res (Nat × Nat)
  | [] => .panic                                           -- d[0]
  | c :: d =>
    if c.toNat / 128 = 1 then leb64Loop (d.length + 1) d (c.toNat % 128) 1
    else .ok (c.toNat % 128, 1)

/-- `delta::decode_header_size(d)`: a `for` over the slice, so no index panic; `<< i` is a panic
once `i ≥ 64` (overflow checks) -/
def deltaSizeLoop : Bytes → Nat → Nat → Nat → Res (Nat × Nat)
  | [], size, _, consumed => .ok (size, consumed)
  | cmd :: d, size, i, consumed =>
    if i ≥ 64 then .panic                                  -- (..) << i
    else
      let size' := size ||| (cmd.toNat % 128 * 2 ^ i % usizeMod)
      if cmd.toNat / 128 = 0 then .ok (size', consumed + 1)
      else deltaSizeLoop d size' (i + 7) (consumed + 1)

def deltaHeaderSize (d : Bytes) : Res (Nat × Nat) := deltaSizeLoop d 0 0 0

/-! ### driver -/

def obs {α : Type} : Res α → String
  | .ok _ => "ok"
  | .err => "err"
  | .panic => "panic"
  | .hang => "hang"

def obsOpt {α : Type} : Option α → String
  | some _ => "ok"
  | none => "err"

/-- entry points whose model is the trivial one: "returns a value or an error" -/
def trivialModel : List String :=
  ["config-file", "config-color", "config-path",
   "attributes", "ignore", "pkt-sideband",
   "handshake", "ls-refs", "fetch-v1", "fetch-v2",
   "refspec-push", "revspec", "pathspec", "date"]

/-- entry points with a model (of another property) that has explicit panic outcomes and a
theorem that they are unreachable, but whose inputs/outputs are not compared line by line here -/
def weakModel : List String := ["refspec-match"]

def c15Obs {α : Type} : C15.Out α → String
  | .ok _ => "ok"
  | .err _ => "err"
  | .panic => "panic"

def reflogRev (file : Bytes) (n : Nat) : String :=
  match C21.revAll file (List.replicate n 0) with
  | none => "err"
  | some items =>
    if items.any (fun i => i == C21.Item.panic) then "panic"
    else if items.any (fun i => i == C21.Item.fuel) then "hang"
    else if items.all (fun i => match i with
        | .raw line _ => (C21.parseLine line).isSome
        | _ => false) then "ok"
    else "err"

def pktRead (d : Bytes) : String :=
  let src : List Bytes := if d.isEmpty then [] else [d]
  let r := C29.Reader.new C29.consts src [C29.Line.flush] false
  let xs := (C29.runCalls C29.consts [.peek, .all] r).1
  if xs.any (fun z => z.2 == C29.Res.panic) then "panic"
  else if xs.any (fun z => match z.2 with | .dec _ => true | _ => false) then "err"
  else "ok"

/-- `State::from_bytes` with thread limits 1 and 3 (C24's model, which follows the repaired
decoder since 3c35ca0): a value if either decodes -/
def indexObs (d : Bytes) : String :=
  let o1 := C24.fromBytes Sha1C24.sha1 1 d
  let o3 := C24.fromBytes Sha1C24.sha1 3 d
  let isPanic : C24.Outcome → Bool := fun o => match o with | .panic => true | _ => false
  let isOk : C24.Outcome → Bool := fun o => match o with | .ok _ _ _ _ _ => true | _ => false
  if isPanic o1 || isPanic o3 then "panic"
  else if isOk o1 || isOk o3 then "ok"
  else "err"

def handle? : List String → Option String
  | [ep, x] => do
    let bs ← bytesOfHex x
    if trivialModel.contains ep || weakModel.contains ep then some "nopanic"
    else match ep with
    | "loose-header" => some (obs (looseHeader bs))
    | "refspec-fetch" => some (obs (refspecFetch bs))
    | "url" => some (match urlSites bs with | .panic => "panic" | .hang => "hang" | _ => "nopanic")
    | "midx" => some (match midxOpen (fun p q => C19.cmpBytes p q == .lt) bs with
        | none => "panic" | some false => "err" | some true => "ok")
    | "mailmap" => some (
        if (C53.snapshot (C53.fileEntries bs)).isNone then "panic"
        else if (C53.parseFile bs).any (fun r => match r with | .err => true | _ => false) then "err"
        else "ok")
    | "commit-graph" => some (match C14.File.new bs with
        | none => "panic" | some (.error _) => "err" | some (.ok _) => "ok")
    | "signature" => some (obs (signatureDecode bs))
    | "capabilities" => some (obs (capabilitiesRun bs))
    | "fetch-line" => some (obs (fetchLineRun bs))
    | "loose-ref" => some (obs (looseRef bs))
    | "url-expand" => some (obs (expandPathParse bs))
    | "pkt-all" => some (match C29.allAtOnce C29.consts bs with
        | .ok _ => "ok" | .err _ => "err" | .panic => "panic")
    | "loose-object" => some (obs (fromLoose bs))
    | "index" => some (indexObs bs)
    | "tree" => some (obs (treeDecode bs))
    | "tree-iter" => some (obs (treeDecode bs))
    | "ewah" => some (obs (ewahRun bs))
    | "leb64" => some (obs (leb64 bs))
    | "delta-size" => some (obs (deltaHeaderSize bs))
    | "commit" => some (obsOpt (C02.parseCommit bs))
    | "commit-iter" => some (if (C02.iterCommitTokens bs).2 then "ok" else "err")
    | "tag" => some (obsOpt (C02.parseTag bs))
    | "tag-iter" => some (if (C02.iterTagTokens bs).2 then "ok" else "err")
    | "oid-hex" => some (match C05.idFromHex bs with
        | .ok _ => "ok" | .err _ => "err" | .panic => "panic")
    | "prefix-hex" => some (match C05.Prefix.fromHex bs with
        | .ok _ => "ok" | .err _ => "err" | .panic => "panic")
    | "refname" => some (c15Obs (C15.refName C15.extractedTable bs))
    | "refname-partial" => some (c15Obs (C15.refNamePartial C15.extractedTable bs))
    | "tagname" => some (c15Obs (C15.tagName C15.extractedTable bs))
    | "sanitize" => some (match C15.refSanitize C15.extractedTable bs with
        | .ok out => c15Obs (C15.refNamePartial C15.extractedTable out)
        | .err _ => "err"
        | .panic => "panic")
    | "packed-refs" => some (match C19.openBuffer C19.validRefName bs with
        | .error _ => "err"
        | .ok a =>
          match C19.scan C19.validRefName a with
          | none => "err"
          | some items => if items.all Option.isSome then "ok" else "err")
    | "reflog-line" => some (match reflogLineSites bs with
        | .panic => "panic" | .hang => "hang"
        | _ => obsOpt (C21.parseLine bs))
    | "reflog-fwd" => some (if (C21.forward bs).all (fun l => (C21.parseLine l.1).isSome) then "ok" else "err")
    | "reflog-rev" => some (reflogRev bs 1024)
    | "reflog-rev-small" => some (reflogRev bs 97)
    | "config" => some (obsOpt (C26.parseEvents bs))
    | "config-int" => some (match configInt bs with
        | .ok (some _) => "ok" | .ok none => "err" | .err => "err" | .panic => "panic" | .hang => "hang")
    | "config-bool" => some (obsOpt (C27.gixBool bs))
    | "pkt-stream" => some (match C29.streaming C29.consts bs with
        | .ok _ => "ok" | .err _ => "err" | .panic => "panic")
    | "pkt-read" => some (pktRead bs)
    | "credentials" => some (match C35.fromBytes bs with
        | .ok _ => "ok" | .err _ => "err")
    | "quote" => some (obs (undoRun bs))
    | "date-raw" => some (obs (dateRawRun bs))
    | _ => none
  | _ => none

def handle (args : List String) : String := (handle? args).getD "bad-op"

end GixModel.C06
