import GixModel.Model.C06Core
import GixModel.Model.C14
/-
C06 (round 2) — own model of opening a multi-pack index:
  gix_pack::multi_index::File::try_from(&Path) (after the memory map)     gix-pack/src/multi_index/init.rs
  multi_index::chunk::{index_names::from_bytes, fanout::from_bytes, lookup::is_valid,
                       offsets::is_valid, large_offsets::is_valid}        gix-pack/src/multi_index/chunk.rs
  gix_chunk::file::Index::{data_by_id, validated_usize_offset_by_id, highest_offset}
The table of contents (`gix_chunk::file::Index::from_bytes`) is C14's `tocParse` (imported
read-only; `none` = panic there as here). `Option` is the panic monad: outer `none` = a slice
index, `split_at`, `unwrap` or `expect` fails; `some false` = `Err(_)`, `some true` = `Ok(File)`.
What is NOT modelled exactly is which error is returned and the `PathBuf` ordering of pack names
(component-wise): `namesFromBytes` takes the order test as a parameter, so the theorem holds for
every order and the driver compares panics only.
-/
namespace GixModel.C06
open GixModel
open GixModel.C14 (Chunk tocParse findChunk)

def PNAM : Bytes := [80, 78, 65, 77]
def OIDFm : Bytes := [79, 73, 68, 70]
def OIDLm : Bytes := [79, 73, 68, 76]
def OOFF : Bytes := [79, 79, 70, 70]
def LOFF : Bytes := [76, 79, 70, 70]

/-- `Index::data_by_id`: `None` (outer) = the slice panics; inner `none` = chunk not found -/
def dataById (data : Bytes) (chunks : List Chunk) (id : Bytes) : Option (Option Bytes) :=
  match findChunk chunks id with
  | none => some none
  | some c =>
    match slice data c.start c.stop with                   -- &data[range]
    | none => none
    | some b => some (some b)

/-- `index_names::from_bytes(chunk, num_packs)`: `ordered prev path` stands for `previous < path` on
`PathBuf`s; `none` = panic (`&chunk[..pos]`, `&chunk[pos + 1..]`), `some false` = error -/
def outOfOrder (ordered : Bytes → Bytes → Bool) (prev : Option Bytes) (path : Bytes) : Bool :=
  match prev with
  | some p => !ordered p path
  | none => false

def namesFromBytes (ordered : Bytes → Bytes → Bool) : Nat → Bytes → Option Bytes → Option Bool
  | 0, chunk, _ => some (chunk.isEmpty || chunk.all (· = 0))
  | n + 1, chunk, prev =>
    match findByte 0 chunk with
    | none => some false                                   -- MissingNullByte
    | some pos =>
      match sliceTo chunk pos with                         -- &chunk[..null_byte_pos]
      | none => none
      | some path =>
        if outOfOrder ordered prev path then some false            -- NotOrderedAlphabetically
        else match sliceFrom chunk (pos + 1) with          -- &chunk[null_byte_pos + 1..]
          | none => none
          | some rest => namesFromBytes ordered n rest (some path)

def be32Val (bs : Bytes) : Nat := bs.foldl (fun acc b => acc * 256 + b.toNat) 0

/-- `fanout::from_bytes`: 256 counters from a chunk of exactly 1024 bytes; `[]` for another size -/
def fanFromBytes : Nat → Bytes → List Nat
  | 0, _ => []
  | k + 1, d => be32Val (d.take 4) :: fanFromBytes k (d.drop 4)

def fanMono : List Nat → Bool
  | a :: b :: rest => decide (a ≤ b) && fanMono (b :: rest)
  | _ => true

/-- `large_offsets::is_valid` on the optional LOFF chunk -/
def loffOk (chunks : List Chunk) : Option Bool :=
  match findChunk chunks LOFF with
  | none => some true
  | some lo => if lo.stop < lo.start then none else some ((lo.stop - lo.start) % 8 = 0)

/-- the trailer: `&data[chunks.highest_offset()..]` must be one hash long -/
def midxTrailer (data : Bytes) (chunks : List Chunk) : Option Bool :=
  match chunks.getLast? with
  | none => none                                          -- .expect("at least one chunk")
  | some last =>
    match sliceFrom data last.stop with                   -- &data[checksum_offset..]
    | none => none
    | some trailer => some (trailer.length = 20)

/-- the validations behind the fan-out table: OIDL, OOFF, LOFF sizes for `n` objects, trailer -/
def midxTail (data : Bytes) (chunks : List Chunk) (n : Nat) : Option Bool :=
  match findChunk chunks OIDLm with
  | none => some false
  | some ol =>
    if ol.stop < ol.start then none                       -- offset.end - offset.start
    else if (ol.stop - ol.start) / 20 ≠ n then some false
    else
      match findChunk chunks OOFF with
      | none => some false
      | some oo =>
        if oo.stop < oo.start then none
        else if (if n = 0 then oo.stop ≠ oo.start else (oo.stop - oo.start) / n ≠ 8) then some false
        else
          match loffOk chunks with
          | none => none
          | some false => some false
          | some true => midxTrailer data chunks

/-- the fan-out chunk: size, monotonicity (repaired 8002babab), `fan[255]` -/
def midxFan (data : Bytes) (chunks : List Chunk) : Option Bool :=
  match dataById data chunks OIDFm with
  | none => none
  | some none => some false
  | some (some fanBytes) =>
    if fanBytes.length ≠ 1024 then some false
    else if !fanMono (fanFromBytes 256 fanBytes) then some false
    else
      match (fanFromBytes 256 fanBytes)[255]? with
      | none => none                                      -- fan[255]
      | some n => midxTail data chunks n

/-- pack names, then the rest -/
def midxChunks (ordered : Bytes → Bytes → Bool) (data : Bytes) (chunks : List Chunk) (numIndices : Nat) : Option Bool :=
  match dataById data chunks PNAM with
  | none => none
  | some none => some false
  | some (some names) =>
    match namesFromBytes ordered numIndices names none with
    | none => none
    | some false => some false
    | some true => midxFan data chunks

/-- what follows the signature: version, hash kind, chunk count, base files, number of indices -/
def midxHeader (ordered : Bytes → Bytes → Bool) (data : Bytes) : Bytes → Option Bool
  | ver :: hk :: nc :: _nb :: d =>
    if ver ≠ 1 then some false
    else if hk ≠ 1 then some false
    else
      match splitAt d 4 with                              -- num_indices
      | none => none
      | some (ni, _) =>
        if ni.length ≠ 4 then none                        -- read_u32: try_into().unwrap()
        else
          match tocParse data 12 nc.toNat with
          | none => none
          | some (.error _) => some false
          | some (.ok chunks) => midxChunks ordered data chunks (be32Val ni)
  | _ => none                                             -- split_at(1) / version[0] past the end

/-- `multi_index::File::try_from` on the mapped bytes -/
def midxOpen (ordered : Bytes → Bytes → Bool) (data : Bytes) : Option Bool :=
  if data.length < 12 + 5 * 12 + 1024 + 20 then some false
  else
    match splitAt data 4 with                             -- data.split_at(4)
    | none => none
    | some (sig, d) => if sig ≠ [77, 73, 68, 88] then some false else midxHeader ordered data d

end GixModel.C06
